(* C05 — lemmas about _propagate_lock / _propagate_unlock / _check_unlock on the heap model. *)
From Coq Require Import List String Bool Arith PeanoNat Lia.
Import ListNotations.
From TD Require Import Model.C05_Heap Model.C05_Lock Spec.C05_LockSpec Proofs.C05_HeapP.

(* ---------------------------------------------------------------------------------------------- structure equality *)
Definition same_struct (h h' : heap) : Prop := forall n, same_node_structure h h' n.

Lemma same_struct_refl : forall h, same_struct h h.
Proof. intros h n. unfold same_node_structure. destruct (lookup h n); auto. Qed.

Lemma same_struct_sym : forall h h', same_struct h h' -> same_struct h' h.
Proof.
  intros h h' H n. specialize (H n). unfold same_node_structure in *.
  destruct (lookup h n), (lookup h' n); try tauto. destruct H. split; congruence.
Qed.

Lemma same_struct_trans : forall a b c, same_struct a b -> same_struct b c -> same_struct a c.
Proof.
  intros a b c H1 H2 n. specialize (H1 n). specialize (H2 n). unfold same_node_structure in *.
  destruct (lookup a n), (lookup b n), (lookup c n); try tauto.
  destruct H1, H2. split; congruence.
Qed.

Lemma same_struct_children : forall h h' n, same_struct h h' -> children h' n = children h n.
Proof.
  intros h h' n H. specialize (H n). unfold same_node_structure, children in *.
  destruct (lookup h n), (lookup h' n); try tauto. destruct H as [_ H]. unfold node_children. rewrite H. reflexivity.
Qed.

Lemma same_struct_child : forall h h' p c, same_struct h h' -> child h p c -> child h' p c.
Proof. unfold child. intros. rewrite (same_struct_children h h'); assumption. Qed.

Lemma same_struct_reach : forall h h' a b, same_struct h h' -> Reach h a b -> Reach h' a b.
Proof.
  intros h h' a b H R. induction R; [constructor|].
  econstructor; [eapply same_struct_child; eassumption|assumption].
Qed.

Lemma same_struct_none : forall h h' n, same_struct h h' -> lookup h n = None -> lookup h' n = None.
Proof.
  intros h h' n H E. specialize (H n). unfold same_node_structure in H. rewrite E in H.
  destruct (lookup h' n); [contradiction|reflexivity].
Qed.

Lemma same_struct_some : forall h h' n, same_struct h h' -> lookup h n <> None -> lookup h' n <> None.
Proof.
  intros h h' n H E C. apply E. eapply same_struct_none; [apply same_struct_sym; eassumption|assumption].
Qed.

Lemma same_struct_depth : forall h h' d n, same_struct h h' -> depth_lt h d n -> depth_lt h' d n.
Proof.
  intros h h' d. induction d; intros n H D; cbn in *; [assumption|].
  intros c Hc. apply IHd; [assumption|]. apply D. eapply same_struct_child; [apply same_struct_sym; eassumption|assumption].
Qed.

(* ---------------------------------------------------------------------------------------------- growth (what locking does) *)
Record grows (h h' : heap) : Prop := mkGrows {
  g_struct : same_struct h h';
  g_node : forall n a b, lookup h n = Some a -> lookup h' n = Some b ->
             shm a = shm b /\ mm a = mm b /\ incl (pars a) (pars b) /\ (flg a = FTrue -> flg b = FTrue)
}.

Lemma grows_refl : forall h, grows h h.
Proof.
  intros h. split; [apply same_struct_refl|].
  intros n a b Ha Hb. rewrite Ha in Hb. inversion Hb. subst. repeat split; auto. apply incl_refl.
Qed.

Lemma grows_trans : forall a b c, grows a b -> grows b c -> grows a c.
Proof.
  intros a b c [S1 N1] [S2 N2]. split; [eapply same_struct_trans; eassumption|].
  intros n x z Hx Hz.
  pose proof (S1 n) as Hs. unfold same_node_structure in Hs. rewrite Hx in Hs.
  destruct (lookup b n) as [y|] eqn:Hy; [|contradiction].
  destruct (N1 n x y Hx Hy) as (A1 & A2 & A3 & A4).
  destruct (N2 n y z Hy Hz) as (B1 & B2 & B3 & B4).
  repeat split; try congruence; [eapply incl_tran; eassumption|auto].
Qed.

Lemma grows_flag : forall h h' n, grows h h' -> flag_true h n = true -> flag_true h' n = true.
Proof.
  intros h h' n [S N] F. apply flag_true_lookup in F. destruct F as [nd [E Ft]].
  pose proof (S n) as Hs. unfold same_node_structure in Hs. rewrite E in Hs.
  destruct (lookup h' n) as [y|] eqn:Hy; [|contradiction].
  destruct (N n nd y E Hy) as (_ & _ & _ & A4). eapply flag_true_intro; [eassumption|auto].
Qed.

Lemma grows_has_parent : forall h h' c p, grows h h' -> has_parent h c p -> has_parent h' c p.
Proof.
  intros h h' c p G HP. induction HP as [c nd p E I|c nd m p E K I _ IH].
  - destruct G as [S N]. pose proof (S c) as Hs. unfold same_node_structure in Hs. rewrite E in Hs.
    destruct (lookup h' c) as [y|] eqn:Hy; [|contradiction].
    destruct (N c nd y E Hy) as (_ & _ & A3 & _).
    eapply HP_own; [exact Hy|apply A3; exact I].
  - destruct G as [S N]. pose proof (S c) as Hs. unfold same_node_structure in Hs. rewrite E in Hs.
    destruct (lookup h' c) as [y|] eqn:Hy; [|contradiction]. destruct Hs as [Hk He].
    eapply HP_lazy; [exact Hy|congruence| |exact IH].
    unfold node_children in *. rewrite <- He. exact I.
Qed.

(* upd with the same kind and entries *)
Lemma upd_same_struct : forall h n nd nd', lookup h n = Some nd -> nk nd' = nk nd -> ents nd' = ents nd ->
  same_struct h (upd h n nd').
Proof.
  intros h n nd nd' E K En m. unfold same_node_structure. rewrite lookup_upd.
  destruct (Nat.eqb_spec m n) as [->|Hne].
  - rewrite E. split; congruence.
  - destruct (lookup h m); auto.
Qed.

Lemma upd_grows : forall h n nd nd', lookup h n = Some nd -> nk nd' = nk nd -> ents nd' = ents nd ->
  shm nd' = shm nd -> mm nd' = mm nd -> incl (pars nd) (pars nd') -> (flg nd = FTrue -> flg nd' = FTrue) ->
  grows h (upd h n nd').
Proof.
  intros h n nd nd' E K En Sh Mm Pa Fl. split; [eapply upd_same_struct; eassumption|].
  intros m a b Ha Hb. rewrite lookup_upd in Hb. destruct (Nat.eqb_spec m n) as [->|Hne].
  - rewrite E in Hb. inversion Hb. subst b. rewrite E in Ha. inversion Ha. subst a. repeat split; auto.
  - rewrite Ha in Hb. inversion Hb. subst. repeat split; auto. apply incl_refl.
Qed.

(* ---------------------------------------------------------------------------------------------- plock *)
Lemma plock_grows : forall fuel h n ps h', plock fuel h n ps = Some h' -> grows h h'.
Proof.
  induction fuel as [|f IH]; intros h n ps h' H; cbn in H; [discriminate|].
  destruct (lookup h n) as [nd|] eqn:E; [|inversion H; apply grows_refl].
  destruct (nk nd) eqn:K.
  - eapply grows_trans.
    2:{ eapply (fold_opt_rel _ grows grows_refl grows_trans); [|exact H].
        intros x y z _ Hxy. eapply IH. exact Hxy. }
    eapply upd_grows; [exact E| | | | | |]; cbn; auto.
    destruct ps; cbn; [apply incl_appl|]; apply incl_refl.
  - eapply grows_trans.
    2:{ eapply (fold_opt_rel _ grows grows_refl grows_trans); [|exact H].
        intros x y z _ Hxy. eapply IH. exact Hxy. }
    eapply upd_grows; [exact E| | | | | |]; cbn; auto.
    destruct ps; cbn; [apply incl_appl|]; apply incl_refl.
Qed.

Lemma plock_flag_self : forall f h n ps h' nd, plock (S f) h n ps = Some h' -> lookup h n = Some nd -> flag_true h' n = true.
Proof.
  intros f h n ps h' nd H E. cbn in H. rewrite E in H.
  destruct (nk nd) eqn:K.
  - match type of H with fold_opt _ _ ?h1 = _ => assert (F1 : flag_true h1 n = true) end.
    { unfold flag_true. erewrite lookup_upd_same; [reflexivity|exact E]. }
    eapply grows_flag; [|exact F1].
    eapply (fold_opt_rel _ grows grows_refl grows_trans); [|exact H].
    intros x y z _ Hxy. eapply plock_grows. exact Hxy.
  - match type of H with fold_opt _ _ ?h1 = _ => assert (F1 : flag_true h1 n = true) end.
    { unfold flag_true. erewrite lookup_upd_same; [reflexivity|exact E]. }
    eapply grows_flag; [|exact F1].
    eapply (fold_opt_rel _ grows grows_refl grows_trans); [|exact H].
    intros x y z _ Hxy. eapply plock_grows. exact Hxy.
Qed.

(* the fold over the children: what each child call establishes survives the later calls *)
Lemma plock_fold_grows : forall f pass l ha hb,
  fold_opt (fun h' c => plock f h' c (Some pass)) l ha = Some hb -> grows ha hb.
Proof.
  intros. eapply (fold_opt_rel _ grows grows_refl grows_trans); [|exact H].
  intros x y z _ Hxy. eapply plock_grows. exact Hxy.
Qed.

Lemma plock_parents : forall fuel h c pass h' nd,
  plock fuel h c (Some pass) = Some h' -> lookup h c = Some nd -> forall x, In x pass -> has_parent h' c x.
Proof.
  intros fuel h c pass h' nd H E x Hx. destruct fuel as [|f]; [discriminate|].
  cbn in H. rewrite E in H.
  assert (Own : In x (pars nd ++ filter (fun r => negb (memb r (pars nd))) pass)).
  { destruct (memb x (pars nd)) eqn:M.
    - apply in_or_app. left. apply memb_In. exact M.
    - apply in_or_app. right. apply filter_In. split; [exact Hx|]. rewrite M. reflexivity. }
  destruct (nk nd) eqn:K.
  - match type of H with fold_opt _ _ ?h1 = _ => set (h1' := h1) in * end.
    eapply grows_has_parent; [eapply plock_fold_grows; exact H|].
    eapply HP_own; [unfold h1'; eapply lookup_upd_same; exact E|exact Own].
  - match type of H with fold_opt _ _ ?h1 = _ => set (h1' := h1) in * end.
    eapply grows_has_parent; [eapply plock_fold_grows; exact H|].
    eapply HP_own; [unfold h1'; eapply lookup_upd_same; exact E|exact Own].
Qed.

(* one unfolding of plock, uniform in the kind of node *)
Lemma plock_unfold : forall f h n ps h' nd,
  plock (S f) h n ps = Some h' -> lookup h n = Some nd ->
  exists nd1 pass, nk nd1 = nk nd /\ ents nd1 = ents nd /\ flg nd1 = FTrue /\ shm nd1 = shm nd /\ mm nd1 = mm nd /\
                   incl (pars nd) (pars nd1) /\ In n pass /\
                   fold_opt (fun h' c => plock f h' c (Some pass)) (node_children nd) (upd h n nd1) = Some h'.
Proof.
  intros f h n ps h' nd H E. cbn in H. rewrite E in H. destruct (nk nd) eqn:K.
  - eexists. eexists. refine (conj _ (conj _ (conj _ (conj _ (conj _ (conj _ (conj _ H))))))); cbn; auto.
    + destruct ps; cbn; [apply incl_appl|]; apply incl_refl.
    + destruct ps; cbn; [apply in_or_app; right|]; left; reflexivity.
  - eexists. eexists. refine (conj _ (conj _ (conj _ (conj _ (conj _ (conj _ (conj _ H))))))); cbn; auto.
    + destruct ps; cbn; [apply incl_appl|]; apply incl_refl.
    + destruct ps; cbn; [apply in_or_app; right|]; left; reflexivity.
Qed.

Definition children_exist (h : heap) : Prop := forall p c, child h p c -> lookup h c <> None.

Lemma children_exist_same : forall h h', same_struct h h' -> children_exist h -> children_exist h'.
Proof.
  intros h h' S C p c Hc. eapply same_struct_some; [exact S|]. eapply C.
  eapply same_struct_child; [apply same_struct_sym; exact S|exact Hc].
Qed.

(* below x, every child is flagged and lists x *)
Definition closedA (h : heap) (x : nat) : Prop :=
  forall ndx c, lookup h x = Some ndx -> In c (node_children ndx) -> flag_true h c = true /\ has_parent h c x.

Lemma closedA_grows : forall h h' x, grows h h' -> closedA h x -> closedA h' x.
Proof.
  intros h h' x G C ndx c E Hc.
  pose proof (g_struct _ _ G x) as Hs. unfold same_node_structure in Hs. rewrite E in Hs.
  destruct (lookup h x) as [a|] eqn:Ea; [|contradiction]. destruct Hs as [Hk He].
  destruct (C a c Ea) as [F P].
  { unfold node_children in *. rewrite He. exact Hc. }
  split; [eapply grows_flag; eassumption|eapply grows_has_parent; eassumption].
Qed.

Lemma plock_fold_each : forall f pass l ha hb,
  fold_opt (fun h' c => plock f h' c (Some pass)) l ha = Some hb ->
  (forall c, In c l -> lookup ha c <> None) ->
  forall c, In c l -> flag_true hb c = true /\ (forall x, In x pass -> has_parent hb c x).
Proof.
  intros f pass. induction l as [|a l IHl]; intros ha hb Hf Hex c Hc; [destruct Hc|].
  cbn in Hf. destruct (plock f ha a (Some pass)) as [hm|] eqn:Pa; [|discriminate].
  assert (G1 : grows ha hm) by (eapply plock_grows; exact Pa).
  assert (G2 : grows hm hb) by (eapply plock_fold_grows; exact Hf).
  destruct Hc as [->|Hc].
  - destruct (lookup ha c) as [nd|] eqn:E; [|exfalso; eapply Hex; [left; reflexivity|exact E]].
    split.
    + eapply grows_flag; [exact G2|]. destruct f; [discriminate|]. eapply plock_flag_self; eassumption.
    + intros x Hx. eapply grows_has_parent; [exact G2|]. eapply plock_parents; eassumption.
  - eapply IHl; [exact Hf| |exact Hc].
    intros c' Hc'. eapply same_struct_some; [apply G1|]. apply Hex. right. exact Hc'.
Qed.

Lemma plock_new_closed : forall fuel h n ps h',
  children_exist h -> plock fuel h n ps = Some h' ->
  forall x, flag_true h x = false -> flag_true h' x = true -> closedA h' x.
Proof.
  induction fuel as [|f IH]; intros h n ps h' CE H x F0 F1; [discriminate|].
  destruct (lookup h n) as [nd|] eqn:E.
  2:{ cbn in H. rewrite E in H. inversion H. subst. congruence. }
  destruct (plock_unfold _ _ _ _ _ _ H E) as (nd1 & pass & K1 & E1 & Fl1 & Sh1 & Mm1 & Pa1 & Hn & Hf).
  assert (S1 : same_struct h (upd h n nd1)) by (eapply upd_same_struct; eassumption).
  assert (CE1 : children_exist (upd h n nd1)) by (eapply children_exist_same; eassumption).
  (* nodes flagged during the fold over the children *)
  assert (FoldNew : forall l ha hb, children_exist ha ->
            fold_opt (fun h' c => plock f h' c (Some pass)) l ha = Some hb ->
            forall x, flag_true ha x = false -> flag_true hb x = true -> closedA hb x).
  { induction l as [|a l IHl]; intros ha hb CEa Hfa y Fa Fb; cbn in Hfa.
    - inversion Hfa. subst. congruence.
    - destruct (plock f ha a (Some pass)) as [hm|] eqn:Pa; [|discriminate].
      assert (G1 : grows ha hm) by (eapply plock_grows; exact Pa).
      destruct (flag_true hm y) eqn:Fm.
      + eapply closedA_grows; [eapply plock_fold_grows; exact Hfa|].
        eapply IH; eassumption.
      + eapply IHl; [|exact Hfa|exact Fm|exact Fb]. eapply children_exist_same; [apply G1|exact CEa]. }
  destruct (Nat.eq_dec x n) as [->|Hne].
  - (* the node itself: each child call was given a list containing n *)
    intros ndx c Ex Hc.
    assert (G : grows (upd h n nd1) h') by (eapply plock_fold_grows; exact Hf).
    pose proof (g_struct _ _ G n) as Hs. unfold same_node_structure in Hs.
    erewrite lookup_upd_same in Hs; [|exact E]. rewrite Ex in Hs. destruct Hs as [Hk He].
    assert (Hc' : In c (node_children nd)).
    { unfold node_children in *. rewrite <- E1, He. exact Hc. }
    destruct (plock_fold_each _ _ _ _ _ Hf) with (c := c) as [Fc Pc]; [|exact Hc'|].
    + intros c' Hc''. apply CE1 with n. eapply child_intro; [eapply lookup_upd_same; exact E|].
      unfold node_children in *. rewrite E1. exact Hc''.
    + split; [exact Fc|apply Pc; exact Hn].
  - eapply FoldNew; [exact CE1|exact Hf| |exact F1].
    unfold flag_true in *. rewrite lookup_upd_other; [exact F0|exact Hne].
Qed.

(* every existing node of the tree ends up flagged *)
Lemma plock_reach_flag : forall fuel h n ps h',
  plock fuel h n ps = Some h' -> forall x, Reach h n x -> lookup h x <> None -> flag_true h' x = true.
Proof.
  induction fuel as [|f IH]; intros h n ps h' H x R Ex; [discriminate|].
  destruct R as [n|n c m Hc R].
  - destruct (lookup h n) as [nd|] eqn:E; [|congruence]. eapply plock_flag_self; eassumption.
  - destruct (child_lookup _ _ _ Hc) as [nd [E Hin]].
    destruct (plock_unfold _ _ _ _ _ _ H E) as (nd1 & pass & K1 & E1 & Fl1 & Sh1 & Mm1 & Pa1 & Hn & Hf).
    assert (S1 : same_struct h (upd h n nd1)) by (eapply upd_same_struct; eassumption).
    revert Hf S1. generalize (upd h n nd1) as ha. intros ha Hf S1. revert S1.
    revert ha Hf Hin. generalize (node_children nd) as l.
    induction l as [|a l IHl]; intros ha Hf Hin S1; [destruct Hin|].
    cbn in Hf. destruct (plock f ha a (Some pass)) as [hm|] eqn:Pa; [|discriminate].
    assert (G1 : grows ha hm) by (eapply plock_grows; exact Pa).
    destruct Hin as [->|Hin].
    + eapply grows_flag; [eapply plock_fold_grows; exact Hf|].
      eapply IH; [exact Pa|eapply same_struct_reach; eassumption|eapply same_struct_some; eassumption].
    + eapply IHl; [exact Hf|exact Hin|]. eapply same_struct_trans; [exact S1|apply G1].
Qed.

(* ---------------------------------------------------------------------------------------------- punlock *)
(* what unlocking does to a heap: structure and parent lists stay, a node is unchanged or its flag is no longer True *)
Record unl (h h' : heap) : Prop := mkUnl {
  u_struct : same_struct h h';
  u_node : forall n a b, lookup h n = Some a -> lookup h' n = Some b ->
             pars a = pars b /\ (b = a \/ flg b <> FTrue) /\ (mm b = true -> mm a = true) /\ shm a = shm b /\ mm a = mm b
}.

Lemma unl_refl : forall h, unl h h.
Proof.
  intros h. split; [apply same_struct_refl|]. intros n a b Ha Hb. rewrite Ha in Hb. inversion Hb. auto.
Qed.

Lemma unl_trans : forall a b c, unl a b -> unl b c -> unl a c.
Proof.
  intros a b c [S1 N1] [S2 N2]. split; [eapply same_struct_trans; eassumption|].
  intros n x z Hx Hz.
  pose proof (S1 n) as Hs. unfold same_node_structure in Hs. rewrite Hx in Hs.
  destruct (lookup b n) as [y|] eqn:Hy; [|contradiction].
  destruct (N1 n x y Hx Hy) as (P1 & Q1 & M1 & S1' & E1). destruct (N2 n y z Hy Hz) as (P2 & Q2 & M2 & S2' & E2).
  split; [congruence|]. split; [|split; [auto|split; congruence]]. destruct Q2 as [->|Q2]; [exact Q1|right; exact Q2].
Qed.

Lemma unl_flag : forall h h' n, unl h h' -> flag_true h' n = true -> flag_true h n = true.
Proof.
  intros h h' n [S N] F. apply flag_true_lookup in F. destruct F as [b [Eb Fb]].
  pose proof (S n) as Hs. unfold same_node_structure in Hs. rewrite Eb in Hs.
  destruct (lookup h n) as [a|] eqn:Ea; [|contradiction].
  destruct (N n a b Ea Eb) as (_ & [->|Q] & _); [eapply flag_true_intro; eassumption|congruence].
Qed.

Lemma unl_flag_false : forall h h' n, unl h h' -> flag_true h n = false -> flag_true h' n = false.
Proof.
  intros h h' n U F. destruct (flag_true h' n) eqn:F'; [|reflexivity].
  apply (unl_flag _ _ _ U) in F'. congruence.
Qed.

Lemma Reach_inv : forall h n x, Reach h n x -> x = n \/ exists c, child h n c /\ Reach h c x.
Proof. intros h n x R. destruct R; [left; reflexivity|right; eauto]. Qed.

Lemma Reach_same : forall h h' a b, same_struct h h' -> (Reach h a b <-> Reach h' a b).
Proof.
  intros. split; intros R; [eapply same_struct_reach; eassumption|].
  eapply same_struct_reach; [apply same_struct_sym; eassumption|exact R].
Qed.

Lemma dict_set_in : forall d c w k v, In (k, v) (dict_set d c w) -> (k = c /\ v = w) \/ In (k, v) d.
Proof.
  induction d as [|[k' v'] d IH]; intros c w k v H; cbn in H.
  - destruct H as [H|[]]. inversion H. auto.
  - destruct (Nat.eqb_spec k' c) as [->|Hne].
    + destruct H as [H|H]; [inversion H; auto|right; right; exact H].
    + destruct H as [H|H]; [right; left; exact H|].
      destruct (IH _ _ _ _ H) as [A|A]; [left; exact A|right; right; exact A].
Qed.

Lemma dict_set_has : forall d c w, In (c, w) (dict_set d c w).
Proof.
  induction d as [|[k' v'] d IH]; intros c w; cbn; [left; reflexivity|].
  destruct (Nat.eqb_spec k' c) as [->|Hne]; [left; reflexivity|right; apply IH].
Qed.

Lemma dict_set_keep : forall d c w k v, In (k, v) d -> k <> c -> In (k, v) (dict_set d c w).
Proof.
  induction d as [|[k' v'] d IH]; intros c w k v H Hne; [destruct H|].
  cbn. destruct (Nat.eqb_spec k' c) as [->|Hne'].
  - destruct H as [H|H]; [inversion H; congruence|right; exact H].
  - destruct H as [H|H]; [left; exact H|right; apply IH; assumption].
Qed.

Definition punlock_post (h : heap) (fuel : nat) (n : nat) (h' : heap) (subs : list nat) : Prop :=
  unl h h' /\
  (forall x, ~ Reach h n x -> lookup h' x = lookup h x) /\
  (forall x, Reach h n x -> flag_true h' x = false) /\
  (forall x, In x subs <-> exists c, child h n c /\ Reach h c x) /\
  depth_lt h fuel n.

Lemma upd_unl : forall h n nd nd', lookup h n = Some nd -> nk nd' = nk nd -> ents nd' = ents nd -> pars nd' = pars nd ->
  flg nd' <> FTrue -> shm nd' = shm nd -> mm nd' = mm nd -> unl h (upd h n nd').
Proof.
  intros h n nd nd' E K En Pa Fl Sh Mm. split; [eapply upd_same_struct; eassumption|].
  intros m a b Ha Hb. rewrite lookup_upd in Hb. destruct (Nat.eqb_spec m n) as [->|Hne].
  - rewrite E in Hb. inversion Hb. subst b. rewrite E in Ha. inversion Ha. subst a.
    split; [congruence|split; [right; exact Fl|split; [congruence|split; congruence]]].
  - rewrite Ha in Hb. inversion Hb. auto.
Qed.

Lemma punlock_spec : forall fuel h n h' subs, punlock fuel h n = Some (h', subs) -> punlock_post h fuel n h' subs.
Proof.
  induction fuel as [|f IH]; intros h n h' subs H; [discriminate|].
  cbn in H. destruct (lookup h n) as [nd|] eqn:E.
  2:{ inversion H. subst. unfold punlock_post.
      assert (NC : forall c, ~ child h' n c).
      { intros c Hc. unfold child, children in Hc. rewrite E in Hc. destruct Hc. }
      refine (conj (unl_refl _) (conj _ (conj _ (conj _ _)))).
      - reflexivity.
      - intros x R. apply Reach_inv in R. destruct R as [->|[c [Hc _]]]; [|destruct (NC _ Hc)].
        unfold flag_true. rewrite E. reflexivity.
      - intros x. split; [intros []|intros [c [Hc _]]; destruct (NC _ Hc)].
      - intros c Hc. destruct (NC _ Hc). }
  destruct (nk nd) eqn:K.
  - (* TensorDict *)
    set (nd1 := clear_node nd) in *.
    assert (U1 : unl h (upd h n nd1)) by (eapply upd_unl; [exact E|reflexivity|reflexivity|reflexivity|cbn; discriminate|reflexivity|reflexivity]).
    assert (Fold : forall l ha acc hb accb,
              fold_opt (fun (a : heap * list nat) c => match punlock f (fst a) c with
                                                      | Some (h', sub) => Some (h', snd a ++ sub ++ [c]) | None => None end)
                       l (ha, acc) = Some (hb, accb) ->
              same_struct h ha ->
              unl ha hb /\
              (forall x, (forall c, In c l -> ~ Reach h c x) -> lookup hb x = lookup ha x) /\
              (forall c x, In c l -> Reach h c x -> flag_true hb x = false) /\
              (forall x, In x accb <-> In x acc \/ exists c, In c l /\ Reach h c x) /\
              (forall c, In c l -> depth_lt h f c)).
    { induction l as [|a l IHl]; intros ha acc hb accb Hf Sa; cbn in Hf.
      - inversion Hf. subst. refine (conj (unl_refl _) (conj _ (conj _ (conj _ _)))).
        + reflexivity.
        + intros c x [].
        + intros x. split; [intros Hx; left; exact Hx|intros [Hx|[c [[] _]]]; exact Hx].
        + intros c [].
      - destruct (punlock f ha a) as [[hm sub]|] eqn:Pa; [|discriminate]. cbn in Hf.
        destruct (IH _ _ _ _ Pa) as (Ua & Fra & Cla & Suba & Da).
        assert (Sm : same_struct h hm) by (eapply same_struct_trans; [exact Sa|apply Ua]).
        destruct (IHl _ _ _ _ Hf Sm) as (Ub & Frb & Clb & Subb & Db).
        refine (conj (unl_trans _ _ _ Ua Ub) (conj _ (conj _ (conj _ _)))).
        + intros x Hx. rewrite Frb; [apply Fra|].
          * intros R. apply (Hx a (or_introl eq_refl)). apply (Reach_same _ _ _ _ Sa). exact R.
          * intros c Hc. apply Hx. right. exact Hc.
        + intros c x [->|Hc] R.
          * eapply unl_flag_false; [exact Ub|]. apply Cla. apply (Reach_same _ _ _ _ Sa). exact R.
          * eapply Clb; eassumption.
        + intros x. split.
          * intros Hx. apply Subb in Hx. destruct Hx as [Hx|[c [Hc R]]].
            -- apply in_app_or in Hx. destruct Hx as [Hx|Hx]; [left; exact Hx|].
               right. exists a. split; [left; reflexivity|].
               apply in_app_or in Hx. destruct Hx as [Hx|[<-|[]]]; [|constructor].
               apply Suba in Hx. destruct Hx as [c [Hc R]]. apply (Reach_same _ _ _ _ Sa).
               econstructor; eassumption.
            -- right. exists c. split; [right; exact Hc|exact R].
          * intros [Hx|[c [[->|Hc] R]]]; apply Subb.
            -- left. apply in_or_app. left. exact Hx.
            -- left. apply in_or_app. right. apply in_or_app.
               apply (Reach_same _ _ _ _ Sa) in R. apply Reach_inv in R. destruct R as [->|[c' [Hc' R']]].
               ++ right. left. reflexivity.
               ++ left. apply Suba. eauto.
            -- right. eauto.
        + intros c [->|Hc]; [|apply Db; exact Hc].
          eapply same_struct_depth; [apply same_struct_sym; exact Sa|exact Da]. }
    destruct (Fold _ _ _ _ _ H (u_struct _ _ U1)) as (Ub & Frb & Clb & Subb & Db).
    unfold punlock_post. refine (conj (unl_trans _ _ _ U1 Ub) (conj _ (conj _ (conj _ _)))).
    + intros x Hx. rewrite Frb.
      * apply lookup_upd_other. intros ->. apply Hx. constructor.
      * intros c Hc R. apply Hx. econstructor; [eapply child_intro; eassumption|exact R].
    + intros x R. apply Reach_inv in R. destruct R as [->|[c [Hc R]]].
      * eapply unl_flag_false; [exact Ub|]. unfold flag_true. erewrite lookup_upd_same; [reflexivity|exact E].
      * eapply Clb; [|exact R]. unfold child, children in Hc. rewrite E in Hc. exact Hc.
    + intros x. split.
      * intros Hx. apply Subb in Hx. destruct Hx as [[]|[c [Hc R]]]. exists c. split; [eapply child_intro; eassumption|exact R].
      * intros [c [Hc R]]. apply Subb. right. exists c. split; [|exact R].
        unfold child, children in Hc. rewrite E in Hc. exact Hc.
    + intros c Hc. apply Db. unfold child, children in Hc. rewrite E in Hc. exact Hc.
  - (* lazy stack: same, with one list per distinct member *)
    set (nd1 := set_flag nd FNone) in *.
    assert (U1 : unl h (upd h n nd1)) by (eapply upd_unl; [exact E|reflexivity|reflexivity|reflexivity|cbn; discriminate|reflexivity|reflexivity]).
    assert (Fold : forall l ha d hb db,
              fold_opt (fun (a : heap * list (nat * list nat)) c => match punlock f (fst a) c with
                                                      | Some (h', sub) => Some (h', dict_set (snd a) c (sub ++ [c])) | None => None end)
                       l (ha, d) = Some (hb, db) ->
              same_struct h ha ->
              (forall k v, In (k, v) d -> forall x, In x v <-> Reach h k x) ->
              unl ha hb /\
              (forall x, (forall c, In c l -> ~ Reach h c x) -> lookup hb x = lookup ha x) /\
              (forall c x, In c l -> Reach h c x -> flag_true hb x = false) /\
              (forall k v, In (k, v) db -> (forall x, In x v <-> Reach h k x) /\ (In k l \/ exists v', In (k, v') d)) /\
              (forall k, (In k l \/ exists v', In (k, v') d) -> exists v, In (k, v) db) /\
              (forall c, In c l -> depth_lt h f c)).
    { induction l as [|a l IHl]; intros ha d hb db Hf Sa Hd; cbn in Hf.
      - inversion Hf. subst. refine (conj (unl_refl _) (conj _ (conj _ (conj _ (conj _ _))))).
        + reflexivity.
        + intros c x [].
        + intros k v Hkv. split; [apply (Hd k v Hkv)|right; eauto].
        + intros k [[]|Hk]. exact Hk.
        + intros c [].
      - destruct (punlock f ha a) as [[hm sub]|] eqn:Pa; [|discriminate]. cbn in Hf.
        destruct (IH _ _ _ _ Pa) as (Ua & Fra & Cla & Suba & Da).
        assert (Sm : same_struct h hm) by (eapply same_struct_trans; [exact Sa|apply Ua]).
        assert (Hd' : forall k v, In (k, v) (dict_set d a (sub ++ [a])) -> forall x, In x v <-> Reach h k x).
        { intros k v Hkv x. apply dict_set_in in Hkv. destruct Hkv as [[-> ->]|Hkv]; [|apply (Hd k v Hkv)].
          split.
          - intros Hx. apply in_app_or in Hx. destruct Hx as [Hx|[<-|[]]]; [|constructor].
            apply Suba in Hx. destruct Hx as [c [Hc R]]. apply (Reach_same _ _ _ _ Sa). econstructor; eassumption.
          - intros R. apply (Reach_same _ _ _ _ Sa) in R. apply Reach_inv in R. apply in_or_app.
            destruct R as [->|[c' [Hc' R']]]; [right; left; reflexivity|left; apply Suba; eauto]. }
        destruct (IHl _ _ _ _ Hf Sm Hd') as (Ub & Frb & Clb & Subb & Cov & Db).
        refine (conj (unl_trans _ _ _ Ua Ub) (conj _ (conj _ (conj _ (conj _ _))))).
        + intros x Hx. rewrite Frb; [apply Fra|].
          * intros R. apply (Hx a (or_introl eq_refl)). apply (Reach_same _ _ _ _ Sa). exact R.
          * intros c Hc. apply Hx. right. exact Hc.
        + intros c x [->|Hc] R.
          * eapply unl_flag_false; [exact Ub|]. apply Cla. apply (Reach_same _ _ _ _ Sa). exact R.
          * eapply Clb; eassumption.
        + intros k v Hkv. destruct (Subb k v Hkv) as [Hv Hk]. split; [exact Hv|].
          destruct Hk as [Hk|[v' Hk]]; [left; right; exact Hk|].
          apply dict_set_in in Hk. destruct Hk as [[-> _]|Hk]; [left; left; reflexivity|right; eauto].
        + intros k Hk. apply Cov. destruct Hk as [[->|Hk]|[v' Hk]].
          * right. eexists. apply dict_set_has.
          * left. exact Hk.
          * right. destruct (Nat.eq_dec k a) as [->|Hne]; [eexists; apply dict_set_has|eexists; eapply dict_set_keep; eassumption].
        + intros c [->|Hc]; [|apply Db; exact Hc].
          eapply same_struct_depth; [apply same_struct_sym; exact Sa|exact Da]. }
    destruct (fold_opt _ (node_children nd) (upd h n nd1, [])) as [[hb db]|] eqn:Hf; [|discriminate].
    inversion H. subst hb subs. clear H.
    destruct (Fold _ _ _ _ _ Hf (u_struct _ _ U1)) as (Ub & Frb & Clb & Subb & Cov & Db); [intros k v []|].
    unfold punlock_post. refine (conj (unl_trans _ _ _ U1 Ub) (conj _ (conj _ (conj _ _)))).
    + intros x Hx. rewrite Frb.
      * apply lookup_upd_other. intros ->. apply Hx. constructor.
      * intros c Hc R. apply Hx. econstructor; [eapply child_intro; eassumption|exact R].
    + intros x R. apply Reach_inv in R. destruct R as [->|[c [Hc R]]].
      * eapply unl_flag_false; [exact Ub|]. unfold flag_true. erewrite lookup_upd_same; [reflexivity|exact E].
      * eapply Clb; [|exact R]. unfold child, children in Hc. rewrite E in Hc. exact Hc.
    + intros x. split.
      * intros Hx. apply in_flat_map in Hx. destruct Hx as [[k v] [Hkv Hx]]. cbn in Hx.
        destruct (Subb k v Hkv) as [Hv [Hk|[v' []]]]. exists k. split; [eapply child_intro; eassumption|apply Hv; exact Hx].
      * intros [c [Hc R]]. unfold child, children in Hc. rewrite E in Hc.
        destruct (Cov c (or_introl Hc)) as [v Hv]. apply in_flat_map. exists (c, v). split; [exact Hv|].
        cbn. apply (Subb c v Hv). exact R.
    + intros c Hc. apply Db. unfold child, children in Hc. rewrite E in Hc. exact Hc.
Qed.

Lemma unl_has_parent : forall h h' c p, unl h h' -> has_parent h c p -> has_parent h' c p.
Proof.
  intros h h' c p [S N] HP. induction HP as [c nd p E I|c nd m p E K I _ IH].
  - pose proof (S c) as Hs. unfold same_node_structure in Hs. rewrite E in Hs.
    destruct (lookup h' c) as [y|] eqn:Hy; [|contradiction].
    destruct (N c nd y E Hy) as (P & _). eapply HP_own; [exact Hy|rewrite <- P; exact I].
  - pose proof (S c) as Hs. unfold same_node_structure in Hs. rewrite E in Hs.
    destruct (lookup h' c) as [y|] eqn:Hy; [|contradiction]. destruct Hs as [Hk He].
    eapply HP_lazy; [exact Hy|congruence| |exact IH]. unfold node_children in *. rewrite <- He. exact I.
Qed.

(* ---------------------------------------------------------------------------------------------- parents_of vs has_parent *)
Lemma opt_concat_some : forall g l r, opt_concat g l = Some r ->
  (forall m, In m l -> exists lm, g m = Some lm /\ incl lm r) /\ (forall x, In x r -> exists m lm, In m l /\ g m = Some lm /\ In x lm).
Proof.
  intros g. induction l as [|a l IH]; intros r H; cbn in H.
  - inversion H. subst. split; [intros m []|intros x []].
  - destruct (g a) as [la|] eqn:Ea; [|discriminate]. destruct (opt_concat g l) as [rl|] eqn:El; [|discriminate].
    inversion H. subst r. destruct (IH _ eq_refl) as [I1 I2]. split.
    + intros m [->|Hm].
      * exists la. split; [exact Ea|apply incl_appl; apply incl_refl].
      * destruct (I1 m Hm) as [lm [Em Hi]]. exists lm. split; [exact Em|apply incl_appr; exact Hi].
    + intros x Hx. apply in_app_or in Hx. destruct Hx as [Hx|Hx].
      * exists a, la. split; [left; reflexivity|split; assumption].
      * destruct (I2 x Hx) as (m & lm & Hm & Em & Hxl). exists m, lm. split; [right; exact Hm|split; assumption].
Qed.

Lemma parents_of_complete : forall fuel h n l p,
  parents_of fuel h n = Some l -> has_parent h n p -> ~ Reach h n p -> In p l.
Proof.
  induction fuel as [|f IH]; intros h n l p H HP NR; [discriminate|].
  cbn in H. inversion HP as [c nd q E I|c nd m q E K I HPm]; subst; rewrite E in H.
  - destruct (nk nd).
    + inversion H. subst. exact I.
    + destruct (opt_concat (parents_of f h) (node_children nd)) as [r|]; [|discriminate].
      cbn in H. inversion H. subst l. apply in_or_app. left. exact I.
  - rewrite K in H. destruct (opt_concat (parents_of f h) (node_children nd)) as [r|] eqn:Ec; [|discriminate].
    cbn in H. inversion H. subst l. apply in_or_app. right. apply filter_In. split.
    + destruct (opt_concat_some _ _ _ Ec) as [I1 _]. destruct (I1 m I) as [lm [Em Hi]]. apply Hi.
      eapply IH; [exact Em|exact HPm|]. intros R. apply NR. econstructor; [eapply child_intro; eassumption|exact R].
    + destruct (Nat.eqb_spec p n) as [->|Hne]; [exfalso; apply NR; constructor|reflexivity].
Qed.

Lemma parents_of_sound : forall fuel h n l p, parents_of fuel h n = Some l -> In p l -> has_parent h n p.
Proof.
  induction fuel as [|f IH]; intros h n l p H Hp; [discriminate|].
  cbn in H. destruct (lookup h n) as [nd|] eqn:E; [|inversion H; subst; destruct Hp].
  destruct (nk nd) eqn:K.
  - inversion H. subst. eapply HP_own; eassumption.
  - destruct (opt_concat (parents_of f h) (node_children nd)) as [r|] eqn:Ec; [|discriminate].
    cbn in H. inversion H. subst l. apply in_app_or in Hp. destruct Hp as [Hp|Hp]; [eapply HP_own; eassumption|].
    apply filter_In in Hp. destruct Hp as [Hp _].
    destruct (opt_concat_some _ _ _ Ec) as [_ I2]. destruct (I2 p Hp) as (m & lm & Hm & Em & Hx).
    eapply HP_lazy; [exact E|exact K|exact Hm|]. eapply IH; eassumption.
Qed.

(* the stored record of a node is part of what parents_of returns *)
Lemma parents_of_own : forall fuel h n nd l p, parents_of fuel h n = Some l -> lookup h n = Some nd -> In p (pars nd) -> In p l.
Proof.
  intros fuel h n nd l p H E I. destruct fuel; [discriminate|]. cbn in H. rewrite E in H. destruct (nk nd).
  - inversion H. subst. exact I.
  - destruct (opt_concat (parents_of fuel h) (node_children nd)); [|discriminate]. cbn in H. inversion H. apply in_or_app. left. exact I.
Qed.

(* ---------------------------------------------------------------------------------------------- _check_unlock *)
Record chk (s s' : st) : Prop := mkChk {
  c_dead : dead s' = dead s;
  c_nxt : nxt s' = nxt s;
  c_writes : writes s' = writes s;
  c_struct : same_struct (hp s) (hp s');
  c_node : forall n a b, lookup (hp s) n = Some a -> lookup (hp s') n = Some b ->
             flg a = flg b /\ shm a = shm b /\ mm a = mm b /\
             (pars b = pars a \/ (pars b = [] /\ forall p, In p (pars a) -> live s p && flag_true (hp s) p = false))
}.

Lemma chk_refl : forall s, chk s s.
Proof.
  intros s. split; try reflexivity; [apply same_struct_refl|].
  intros n a b Ha Hb. rewrite Ha in Hb. inversion Hb. auto.
Qed.

Lemma chk_flag : forall s s' n, chk s s' -> flag_true (hp s') n = flag_true (hp s) n.
Proof.
  intros s s' n C. unfold flag_true.
  pose proof (c_struct _ _ C n) as Hs. unfold same_node_structure in Hs.
  destruct (lookup (hp s) n) as [a|] eqn:Ea, (lookup (hp s') n) as [b|] eqn:Eb; try tauto.
  destruct (c_node _ _ C n a b Ea Eb) as [F _]. rewrite F. reflexivity.
Qed.

Lemma chk_live : forall s s' n, chk s s' -> live s' n = live s n.
Proof. intros s s' n C. unfold live. rewrite (c_dead _ _ C). reflexivity. Qed.

Lemma chk_trans : forall a b c, chk a b -> chk b c -> chk a c.
Proof.
  intros a b c C1 C2. split.
  - rewrite (c_dead _ _ C2). apply C1.
  - rewrite (c_nxt _ _ C2). apply C1.
  - rewrite (c_writes _ _ C2). apply C1.
  - eapply same_struct_trans; [apply C1|apply C2].
  - intros n x z Hx Hz.
    pose proof (c_struct _ _ C1 n) as Hs. unfold same_node_structure in Hs. rewrite Hx in Hs.
    destruct (lookup (hp b) n) as [y|] eqn:Hy; [|contradiction].
    destruct (c_node _ _ C1 n x y Hx Hy) as (A1 & A2 & A3 & A4).
    destruct (c_node _ _ C2 n y z Hy Hz) as (B1 & B2 & B3 & B4).
    repeat split; try congruence.
    destruct B4 as [B4|[B4 B5]].
    + rewrite B4. exact A4.
    + right. split; [exact B4|]. intros p Hp. destruct A4 as [A4|[A4 A5]].
      * rewrite A4 in B5. specialize (B5 p Hp). rewrite (chk_live _ _ _ C1), (chk_flag _ _ _ C1) in B5. exact B5.
      * apply A5. exact Hp.
Qed.

Lemma chk_has_parent : forall s s' c p, chk s s' -> live s p = true -> flag_true (hp s) p = true ->
  has_parent (hp s) c p -> has_parent (hp s') c p.
Proof.
  intros s s' c p C L F HP. induction HP as [c nd p E I|c nd m p E K I _ IH].
  - pose proof (c_struct _ _ C c) as Hs. unfold same_node_structure in Hs. rewrite E in Hs.
    destruct (lookup (hp s') c) as [y|] eqn:Hy; [|contradiction].
    destruct (c_node _ _ C c nd y E Hy) as (_ & _ & _ & [P|[P Q]]).
    + eapply HP_own; [exact Hy|rewrite P; exact I].
    + specialize (Q p I). rewrite L, F in Q. discriminate.
  - pose proof (c_struct _ _ C c) as Hs. unfold same_node_structure in Hs. rewrite E in Hs.
    destruct (lookup (hp s') c) as [y|] eqn:Hy; [|contradiction]. destruct Hs as [Hk He].
    eapply HP_lazy; [exact Hy|congruence| |apply IH; assumption]. unfold node_children in *. rewrite <- He. exact I.
Qed.

Lemma check_unlock_spec : forall fuel s n s' r, check_unlock fuel s n = Some (s', r) ->
  chk s s' /\ blocked fuel s n = Some r /\ (r = true -> s' = s).
Proof.
  intros fuel s n s' r H. unfold check_unlock in H.
  destruct (blocked fuel s n) as [[|]|] eqn:B; [| |discriminate]; inversion H; subst.
  - split; [apply chk_refl|]. split; [reflexivity|reflexivity].
  - split; [|split; [reflexivity|discriminate]].
    unfold clear_parents. destruct (lookup (hp s) n) as [nd|] eqn:E; [|destruct s; apply chk_refl].
    split; try reflexivity; cbn.
    + eapply upd_same_struct; [exact E|reflexivity|reflexivity].
    + intros m a b Ha Hb. rewrite lookup_upd in Hb. destruct (Nat.eqb_spec m n) as [->|Hne].
      * rewrite E in Hb. inversion Hb. subst b. rewrite E in Ha. inversion Ha. subst a. cbn.
        repeat split. right. split; [reflexivity|].
        intros p Hp. unfold blocked in B. destruct (parents_of fuel (hp s) n) as [l|] eqn:Pl; [|discriminate].
        injection B as B'. destruct (live s p && flag_true (hp s) p) eqn:X; [|reflexivity].
        exfalso. assert (existsb (fun p0 => live s p0 && flag_true (hp s) p0) l = true).
        { apply existsb_exists. exists p. split; [eapply parents_of_own; eassumption|exact X]. }
        congruence.
      * rewrite Ha in Hb. inversion Hb. auto.
Qed.

Lemma check_all_spec : forall fuel l s s' r, check_all fuel s l = Some (s', r) ->
  chk s s' /\
  (r = false -> forall x, In x l -> exists sx, chk s sx /\ blocked fuel sx x = Some false).
Proof.
  intros fuel. induction l as [|a l IH]; intros s s' r H; cbn in H.
  - inversion H. subst. split; [apply chk_refl|]. intros _ x [].
  - destruct (check_unlock fuel s a) as [[s1 [|]]|] eqn:Ca; [| |discriminate].
    + inversion H. subst. destruct (check_unlock_spec _ _ _ _ _ Ca) as (C & _ & _). split; [exact C|discriminate].
    + destruct (check_unlock_spec _ _ _ _ _ Ca) as (C & B & _).
      destruct (IH _ _ _ H) as [C2 Hall]. split; [eapply chk_trans; eassumption|].
      intros Hr x [->|Hx].
      * exists s. split; [apply chk_refl|exact B].
      * destruct (Hall Hr x Hx) as [sx [Cx Bx]]. exists sx. split; [eapply chk_trans; eassumption|exact Bx].
Qed.

(* ---------------------------------------------------------------------------------------------- unshare (an accepted unlock_) *)
Lemma unshare_node_idem : forall nd, unshare_node (unshare_node nd) = unshare_node nd.
Proof. intros nd. unfold unshare_node. destruct (nk nd) eqn:K; cbn; rewrite ?K; reflexivity. Qed.

Lemma unshare_node_keeps : forall nd, nk (unshare_node nd) = nk nd /\ ents (unshare_node nd) = ents nd /\ flg (unshare_node nd) = flg nd
  /\ pars (unshare_node nd) = pars nd /\ (mm (unshare_node nd) = true -> mm nd = true).
Proof. intros nd. unfold unshare_node. destruct (nk nd) eqn:K; cbn; repeat split; auto; discriminate. Qed.

Lemma lookup_unshare : forall l h x,
  lookup (unshare h l) x = match lookup h x with Some nd => Some (if memb x l then unshare_node nd else nd) | None => None end.
Proof.
  induction l as [|y r IH]; intros h x; cbn [unshare].
  - cbn. destruct (lookup h x); reflexivity.
  - rewrite IH. unfold memb. cbn [existsb]. fold (memb x r).
    destruct (lookup h y) as [ndy|] eqn:Ey.
    + rewrite lookup_upd. destruct (Nat.eqb_spec x y) as [->|Hne].
      * rewrite Ey. cbn. destruct (memb y r); [rewrite unshare_node_idem|]; reflexivity.
      * cbn. reflexivity.
    + destruct (Nat.eqb_spec x y) as [->|Hne]; [rewrite Ey; reflexivity|cbn; reflexivity].
Qed.

Lemma unshare_flag : forall l h x, flag_true (unshare h l) x = flag_true h x.
Proof.
  intros l h x. unfold flag_true. rewrite lookup_unshare. destruct (lookup h x) as [nd|]; [|reflexivity].
  destruct (memb x l); [|reflexivity]. now rewrite (proj1 (proj2 (proj2 (unshare_node_keeps nd)))).
Qed.

Lemma unshare_struct : forall l h, same_struct h (unshare h l).
Proof.
  intros l h x. unfold same_node_structure. rewrite lookup_unshare. destruct (lookup h x) as [nd|]; [|exact I].
  destruct (memb x l); [|split; reflexivity]. destruct (unshare_node_keeps nd) as (K & E & _). split; congruence.
Qed.

Lemma unshare_mm : forall l h x a b, lookup h x = Some a -> lookup (unshare h l) x = Some b -> mm b = true -> mm a = true.
Proof.
  intros l h x a b Ea Eb Mb. rewrite lookup_unshare, Ea in Eb. inversion Eb. subst b.
  destruct (memb x l); [|exact Mb]. now apply (unshare_node_keeps a).
Qed.
