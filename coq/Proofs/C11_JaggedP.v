(* C11 — the consolidated codec with jagged tensors, lazy stacks, tensorclass nodes: reader (writer t) = t. *)
From Coq Require Import ZArith List Bool Arith Lia String Ascii DecimalString DecimalNat Decimal.
Import ListNotations.
From TD Require Import Model.C11_Layout Model.C11_Tree Model.C11_Jagged Proofs.C11_LayoutP Proofs.C11_TreeP.
Open Scope nat_scope.

Scheme jtree_mut := Induction for jtree Sort Prop
with jforest_mut := Induction for jforest Sort Prop.
Combined Scheme jtree_forest_ind from jtree_mut, jforest_mut.

(* ------------------------------------------------------------------ the markers *)
Lemma starts_val k : starts P_NJT (P_VAL ++ k) = false /\ starts P_VAL (P_VAL ++ k) = true.
Proof. split; [reflexivity|destruct k; reflexivity]. Qed.
Lemma starts_len k : starts P_NJT (P_LEN ++ k) = false /\ starts P_VAL (P_LEN ++ k) = false /\ starts P_LEN (P_LEN ++ k) = true.
Proof. repeat split; try reflexivity; destruct k; reflexivity. Qed.
Lemma starts_off k : starts P_NJT (P_OFF ++ k) = false /\ starts P_VAL (P_OFF ++ k) = false /\ starts P_LEN (P_OFF ++ k) = false
  /\ starts P_OFF (P_OFF ++ k) = true.
Proof. repeat split; try reflexivity; destruct k; reflexivity. Qed.
Lemma remove_off k : remove_all P_OFF (P_OFF ++ k) = remove_all P_OFF k.
Proof. destruct k; reflexivity. Qed.

Lemma leaf_key_ok_starts k : leaf_key_ok k = true ->
  starts P_NJT k = false /\ starts P_VAL k = false /\ starts P_LEN k = false /\ starts P_OFF k = false.
Proof.
  unfold leaf_key_ok. rewrite !andb_true_iff, !negb_true_iff. tauto.
Qed.

Lemma unesc_esc k : sub_key_ok k = true -> unesc_key (esc_key k) = k.
Proof.
  unfold sub_key_ok, unesc_key, esc_key. intros H. apply negb_true_iff in H.
  destruct (is_field k); [destruct k; reflexivity|]. now rewrite H.
Qed.

Lemma idx_key_inj a b : idx_key a = idx_key b -> a = b.
Proof.
  unfold idx_key. intros H. apply Unsigned.to_uint_inj.
  assert (Some (Nat.to_uint a) = Some (Nat.to_uint b)) as E by (rewrite <- !NilEmpty.usu; now rewrite H).
  now injection E.
Qed.

(* ------------------------------------------------------------------ lazy stacks: the members come back by index *)
Lemma lazy_members_ok : forall d full i, members_from d i = true ->
  (forall j, i <= j -> jfind_sub full (idx_key j) = jfind_sub d (idx_key j)) ->
  lazy_members full i (jlen d) = JOk d.
Proof.
  induction d as [|k l r IH|k v ol o r IH|k p bs r IH|k t r IH]; intros full i Hm Hf; cbn [members_from] in Hm; try discriminate.
  - reflexivity.
  - apply andb_true_iff in Hm as [Hk Hr]. apply String.eqb_eq in Hk. subst k.
    cbn [jlen lazy_members]. rewrite (Hf i (le_n i)). cbn [jfind_sub]. rewrite String.eqb_refl.
    rewrite (IH full (S i) Hr); [reflexivity|].
    intros j Hj. rewrite (Hf j) by lia. cbn [jfind_sub].
    destruct (String.eqb (idx_key j) (idx_key i)) eqn:E; [|reflexivity].
    apply String.eqb_eq, idx_key_inj in E. lia.
Qed.

Lemma members_parts : forall f i, members_from f i = true -> jpart_n f = JNil /\ jpart_l f = JNil.
Proof.
  induction f as [|k l r IH|k v ol o r IH|k p bs r IH|k t r IH]; intros i Hm; cbn [members_from] in Hm; try discriminate.
  - split; reflexivity.
  - apply andb_true_iff in Hm as [_ Hr]. cbn [jpart_n jpart_l]. eauto.
Qed.

Lemma members_reorder b : forall f i, members_from f i = true -> members_from (jreorder_s (jrelock_f b f)) i = true.
Proof.
  induction f as [|k l r IH|k v ol o r IH|k p bs r IH|k t r IH]; intros i Hm; cbn [members_from] in Hm; try discriminate.
  - reflexivity.
  - apply andb_true_iff in Hm as [Hk Hr]. cbn [jrelock_f jreorder_s members_from]. rewrite Hk. cbn [andb]. eauto.
Qed.

Lemma jfinish_ok c f b : (if is_lazy c then members_from f 0 else true) = true ->
  jfinish (cls_set_locked c b) (jfapp (jpart_n f) (jfapp (jpart_l f) (jreorder_s (jrelock_f b f))))
  = JOk (JNode (cls_set_locked c b) (jfapp (jpart_n f) (jfapp (jpart_l f) (jreorder_s (jrelock_f b f))))).
Proof.
  intros H. unfold jfinish. destruct c as [m|i m|sd nm lk]; cbn [is_lazy cls_set_locked] in *; try reflexivity.
  destruct (members_parts f 0 H) as [-> ->]. cbn [jfapp].
  rewrite lazy_members_ok; [reflexivity|now apply members_reorder|reflexivity].
Qed.

(* ------------------------------------------------------------------ running offsets *)
Definition jmf_nts A np f s := fst (fst (fst (jmeta_f A np f s))).
Definition jmf_lvs A np f s := snd (fst (fst (jmeta_f A np f s))).
Definition jmf_subs A np f s := snd (fst (jmeta_f A np f s)).

Lemma total_snoc A np pre l : total A np (lspecs (pre ++ [l])) = total A np (lspecs pre) + flat_size A np (spec_of l).
Proof. unfold lspecs. rewrite map_app, total_app. cbn. lia. Qed.

Lemma njt_recs_stop A np k v ol o s :
  snd (njt_recs A np k v ol o s) = s + total A np (lspecs (v :: opt_list ol ++ [o])).
Proof.
  assert (total A np [] = 0) as Hn by reflexivity.
  unfold njt_recs, rec_stop, lspecs. destruct ol as [ln|]; cbn [snd opt_list]; simpl (_ ++ _); cbn [map]; rewrite !total_cons, Hn; lia.
Qed.

Lemma jmeta_stop A np :
  (forall t s, snd (jmeta_t A np t s) = s + total A np (lspecs (jflat t))) /\
  (forall f s, snd (jmeta_f A np f s) = s + total A np (lspecs (jflat_f f))).
Proof.
  apply jtree_forest_ind; cbn [jmeta_t jmeta_f jflat jflat_f].
  - intros c f IH s. specialize (IH s). destruct (jmeta_f A np f s) as [[[nts lvs] subs] stop]. exact IH.
  - intros s. cbn. lia.
  - intros k l r IH s. unfold rec_stop. specialize (IH (s + flat_size A np (spec_of l))).
    destruct (jmeta_f A np r (s + flat_size A np (spec_of l))) as [[[nts lvs] subs] stop]. cbn [snd] in *.
    unfold lspecs in *. cbn [map]. rewrite total_cons. lia.
  - intros k v ol o r IH s. pose proof (njt_recs_stop A np k v ol o s) as Hs.
    destruct (njt_recs A np k v ol o s) as [recs mid]. cbn [snd] in Hs. subst mid.
    specialize (IH (s + total A np (lspecs (v :: opt_list ol ++ [o])))).
    destruct (jmeta_f A np r _) as [[[nts lvs] subs] stop]. cbn [snd] in *. rewrite IH.
    unfold lspecs. replace (v :: opt_list ol ++ o :: jflat_f r) with ((v :: opt_list ol ++ [o]) ++ jflat_f r)
      by (cbn [List.app]; now rewrite <- app_assoc).
    rewrite map_app, total_app. lia.
  - intros k p bs r IH s. specialize (IH s). destruct (jmeta_f A np r s) as [[[nts lvs] subs] stop]. exact IH.
  - intros k t IHt r IHr s. specialize (IHt s). destruct (jmeta_t A np t s) as [mt mid]. cbn [snd] in IHt. subst mid.
    specialize (IHr (s + total A np (lspecs (jflat t)))). destruct (jmeta_f A np r _) as [[[nts lvs] subs] stop]. cbn [snd] in *.
    rewrite IHr. unfold lspecs. rewrite map_app, total_app. lia.
Qed.

Lemma jpart_n_relock b : forall f, jpart_n (jrelock_f b f) = jpart_n f.
Proof. induction f; cbn; congruence. Qed.
Lemma jpart_l_relock b : forall f, jpart_l (jrelock_f b f) = jpart_l f.
Proof. induction f; cbn; congruence. Qed.

(* ------------------------------------------------------------------ one record decoded inside the storage *)
Section Codec.
Variables (A : nat) (np : bool).

Lemma decode_rec pre l post :
  Forall wf_leaf pre -> wf_leaf l -> flat_size A np (spec_of l) mod l_esz l = 0 -> total A np (lspecs pre) mod l_esz l = 0 ->
  let rc := mk_rec A np l (total A np (lspecs pre)) in
  decode_leaf (encode A np (pre ++ l :: post)) (r_dt rc) (r_esz rc) (r_shape rc) (r_seg rc) = DOk l.
Proof.
  intros Hpre Hwf Hsz Hal. cbn [mk_rec r_dt r_esz r_shape r_seg].
  pose proof (decode_in_context A np pre l post Hpre Hwf Hsz) as Hd. unfold lspecs in *.
  rewrite Hd. now rewrite (proj2 (Nat.eqb_eq _ _) Hal).
Qed.

Notation side := (side A np).

Lemma side_one S l r : side S (l :: r) ->
  wf_leaf l /\ flat_size A np (spec_of l) mod l_esz l = 0 /\ S mod l_esz l = 0 /\ side (S + flat_size A np (spec_of l)) r.
Proof. intros H. apply side_cons in H. tauto. Qed.

(* the reader on the writer's output: the tree, re-locked, keys regrouped -- whatever the two local names held on entry
   to a node's `leaves` loop *)
Lemma jrebuild_ok :
  (forall t pre post pl, Forall wf_leaf pre -> jkeys_ok_t t = true ->
     side (total A np (lspecs pre)) (jflat t) ->
     jrebuild_t true (encode A np (pre ++ jflat t ++ post)) pl (fst (jmeta_t A np t (total A np (lspecs pre))))
     = JOk (jreorder_t (jrelock_t pl t))) /\
  (forall f pre post pl, Forall wf_leaf pre -> jkeys_ok_f f = true ->
     side (total A np (lspecs pre)) (jflat_f f) ->
     let S := total A np (lspecs pre) in
     let storage := encode A np (pre ++ jflat_f f ++ post) in
     jrebuild_subs true storage pl (jmf_subs A np f S) = JOk (jreorder_s (jrelock_f pl f)) /\
     (forall st, jread_leaves true storage (jmf_lvs A np f S) st = JOk (jpart_l f)) /\
     jnts_forest (jmf_nts A np f S) = jpart_n f).
Proof.
  apply jtree_forest_ind.
  - (* JNode *)
    intros c f IH pre post pl Hpre Hk Hside. cbn [jflat jkeys_ok_t] in *.
    apply andb_true_iff in Hk as [Hlz Hk].
    cbn [jmeta_t]. specialize (IH pre post (cls_locked c || pl) Hpre Hk Hside). cbv zeta in IH.
    unfold jmf_subs, jmf_lvs, jmf_nts in IH.
    destruct (jmeta_f A np f (total A np (lspecs pre))) as [[[nts lvs] subs] stop] eqn:E.
    cbn [fst snd] in *. destruct IH as (IH1 & IH2 & IH3).
    cbn [jrebuild_t]. rewrite IH2, IH1, IH3.
    cbn [jrelock_t jreorder_t]. rewrite jpart_n_relock, jpart_l_relock.
    apply jfinish_ok. exact Hlz.
  - (* JNil *)
    intros pre post pl _ _ _. cbn. repeat split; reflexivity.
  - (* JLeaf *)
    intros k l r IH pre post pl Hpre Hk Hside. cbn [jflat_f jkeys_ok_f] in *.
    apply andb_true_iff in Hk as [Hkk Hk]. apply leaf_key_ok_starts in Hkk as (K1 & K2 & K3 & K4).
    apply side_one in Hside as (Hwf & Hsz & Hal & Hside').
    assert (Hpre' : Forall wf_leaf (pre ++ [l])) by (apply Forall_app; split; [exact Hpre|now constructor]).
    specialize (IH (pre ++ [l]) post pl Hpre' Hk). rewrite total_snoc in IH. specialize (IH Hside'). cbv zeta in IH.
    rewrite <- app_assoc in IH. cbn [List.app] in IH.
    cbv zeta. unfold jmf_subs, jmf_lvs, jmf_nts in *. cbn [jmeta_f]. unfold rec_stop.
    destruct (jmeta_f A np r (total A np (lspecs pre) + flat_size A np (spec_of l))) as [[[nts lvs] subs] stop] eqn:E.
    cbn [fst snd] in *. destruct IH as (IH1 & IH2 & IH3).
    split; [|split].
    + cbn [jrelock_f jreorder_s]. exact IH1.
    + intros st. cbn [jread_leaves List.app].
      rewrite (decode_rec pre l (jflat_f r ++ post) Hpre Hwf Hsz Hal). rewrite K1, K2, K3, K4.
      rewrite IH2. reflexivity.
    + exact IH3.
  - (* JNjt *)
    intros k v ol o r IH pre post pl Hpre Hk Hside. cbn [jflat_f jkeys_ok_f] in *.
    apply andb_true_iff in Hk as [Hkk Hk]. unfold njt_key_ok in Hkk. apply String.eqb_eq in Hkk.
    cbv zeta. unfold jmf_subs, jmf_lvs, jmf_nts in *. cbn [jmeta_f].
    destruct ol as [ln|]; cbn [opt_list List.app] in *.
    + (* values, lengths, offsets *)
      apply side_one in Hside as (Hwv & Hsv & Hav & Hside).
      apply side_one in Hside as (Hwl & Hsl & Hal & Hside).
      apply side_one in Hside as (Hwo & Hso & Hao & Hside).
      assert (Hp1 : Forall wf_leaf (pre ++ [v])) by (apply Forall_app; split; [exact Hpre|now constructor]).
      assert (Hp2 : Forall wf_leaf ((pre ++ [v]) ++ [ln])) by (apply Forall_app; split; [exact Hp1|now constructor]).
      assert (Hp3 : Forall wf_leaf (((pre ++ [v]) ++ [ln]) ++ [o])) by (apply Forall_app; split; [exact Hp2|now constructor]).
      specialize (IH (((pre ++ [v]) ++ [ln]) ++ [o]) post pl Hp3 Hk). rewrite !total_snoc in IH. specialize (IH Hside).
      cbv zeta in IH. rewrite <- !app_assoc in IH. cbn [List.app] in IH.
      unfold njt_recs, rec_stop.
      destruct (jmeta_f A np r (total A np (lspecs pre) + flat_size A np (spec_of v) + flat_size A np (spec_of ln) + flat_size A np (spec_of o)))
        as [[[nts lvs] subs] stop] eqn:E.
      cbn [fst snd] in *. destruct IH as (IH1 & IH2 & IH3).
      split; [|split].
      * cbn [jrelock_f jreorder_s]. exact IH1.
      * intros st. cbn [jread_leaves List.app].
        rewrite (decode_rec pre v (ln :: o :: jflat_f r ++ post) Hpre Hwv Hsv Hav).
        destruct (starts_val k) as [-> ->].
        pose proof (decode_rec (pre ++ [v]) ln (o :: jflat_f r ++ post) Hp1 Hwl Hsl) as D2.
        rewrite total_snoc in D2. specialize (D2 Hal). cbv zeta in D2. rewrite <- app_assoc in D2. cbn [List.app] in D2.
        rewrite D2. destruct (starts_len k) as (-> & -> & ->).
        pose proof (decode_rec ((pre ++ [v]) ++ [ln]) o (jflat_f r ++ post) Hp2 Hwo Hso) as D3.
        rewrite !total_snoc in D3. specialize (D3 Hao). cbv zeta in D3. rewrite <- !app_assoc in D3. cbn [List.app] in D3.
        rewrite D3. destruct (starts_off k) as (-> & -> & -> & ->).
        cbn [st_values st_lengths]. rewrite IH2, remove_off, Hkk. reflexivity.
      * exact IH3.
    + (* values, offsets *)
      apply side_one in Hside as (Hwv & Hsv & Hav & Hside).
      apply side_one in Hside as (Hwo & Hso & Hao & Hside).
      assert (Hp1 : Forall wf_leaf (pre ++ [v])) by (apply Forall_app; split; [exact Hpre|now constructor]).
      assert (Hp2 : Forall wf_leaf ((pre ++ [v]) ++ [o])) by (apply Forall_app; split; [exact Hp1|now constructor]).
      specialize (IH ((pre ++ [v]) ++ [o]) post pl Hp2 Hk). rewrite !total_snoc in IH. specialize (IH Hside).
      cbv zeta in IH. rewrite <- !app_assoc in IH. cbn [List.app] in IH.
      unfold njt_recs, rec_stop.
      destruct (jmeta_f A np r (total A np (lspecs pre) + flat_size A np (spec_of v) + flat_size A np (spec_of o)))
        as [[[nts lvs] subs] stop] eqn:E.
      cbn [fst snd] in *. destruct IH as (IH1 & IH2 & IH3).
      split; [|split].
      * cbn [jrelock_f jreorder_s]. exact IH1.
      * intros st. cbn [jread_leaves List.app].
        rewrite (decode_rec pre v (o :: jflat_f r ++ post) Hpre Hwv Hsv Hav).
        destruct (starts_val k) as [-> ->].
        pose proof (decode_rec (pre ++ [v]) o (jflat_f r ++ post) Hp1 Hwo Hso) as D3.
        rewrite total_snoc in D3. specialize (D3 Hao). cbv zeta in D3. rewrite <- app_assoc in D3. cbn [List.app] in D3.
        rewrite D3. destruct (starts_off k) as (-> & -> & -> & ->).
        cbn [st_values st_lengths]. rewrite IH2, remove_off, Hkk. reflexivity.
      * exact IH3.
  - (* JNonT *)
    intros k p bs r IH pre post pl Hpre Hk Hside. cbn [jflat_f jkeys_ok_f] in *.
    specialize (IH pre post pl Hpre Hk Hside). cbv zeta in *.
    unfold jmf_subs, jmf_lvs, jmf_nts in *. cbn [jmeta_f].
    destruct (jmeta_f A np r (total A np (lspecs pre))) as [[[nts lvs] subs] stop] eqn:E.
    cbn [fst snd] in *. destruct IH as (IH1 & IH2 & IH3).
    split; [|split].
    + cbn [jrelock_f jreorder_s]. exact IH1.
    + exact IH2.
    + cbn [jnts_forest jpart_n]. now rewrite IH3.
  - (* JSub *)
    intros k t IHt r IHr pre post pl Hpre Hk Hside. cbn [jflat_f jkeys_ok_f] in *.
    apply andb_true_iff in Hk as [Hk Hk_r]. apply andb_true_iff in Hk as [Hkk Hk_t].
    apply side_app in Hside as [Hside_t Hside_r].
    assert (Hpre' : Forall wf_leaf (pre ++ jflat t)) by (apply Forall_app; split; [exact Hpre|apply Hside_t]).
    assert (HS : total A np (lspecs (pre ++ jflat t)) = total A np (lspecs pre) + total A np (lspecs (jflat t))).
    { unfold lspecs. now rewrite map_app, total_app. }
    specialize (IHt pre (jflat_f r ++ post) pl Hpre Hk_t Hside_t).
    specialize (IHr (pre ++ jflat t) post pl Hpre' Hk_r). rewrite HS in IHr. specialize (IHr Hside_r). cbv zeta in IHr.
    rewrite <- app_assoc in IHr.
    cbv zeta. unfold jmf_subs, jmf_lvs, jmf_nts in *. cbn [jmeta_f].
    pose proof (proj1 (jmeta_stop A np) t (total A np (lspecs pre))) as Hms.
    destruct (jmeta_t A np t (total A np (lspecs pre))) as [mt mid] eqn:Et.
    cbn [fst snd] in *. subst mid.
    destruct (jmeta_f A np r (total A np (lspecs pre) + total A np (lspecs (jflat t)))) as [[[nts lvs] subs] stop] eqn:E.
    cbn [fst snd] in *. destruct IHr as (IH1 & IH2 & IH3).
    rewrite <- app_assoc.
    split; [|split].
    + cbn [jrebuild_subs]. rewrite IHt, IH1, (unesc_esc k Hkk). cbn [jrelock_f jreorder_s]. reflexivity.
    + exact IH2.
    + exact IH3.
Qed.
End Codec.

Definition jtree_side (A : nat) (np : bool) (t : jtree) : Prop := side A np 0 (jflat t).

(* consolidate(filename) + from_consolidated / pickle of a current snapshot: every tree, any depth, any number of jagged
   tensors per node with or without lengths in any position, lazy stacks and tensorclass nodes *)
Theorem jcodec_roundtrip A np t pl : jkeys_ok_t t = true -> jtree_side A np t ->
  jrebuild_t true (jencode A np t) pl (fst (jmeta_t A np t 0)) = JOk (jreorder_t (jrelock_t pl t)).
Proof.
  intros Hk Hs. unfold jencode.
  pose proof (proj1 (jrebuild_ok A np) t [] [] pl (Forall_nil _) Hk Hs) as H.
  cbn [List.app lspecs map total fold_right] in H. now rewrite app_nil_r in H.
Qed.

(* the per-node discipline, stated on its own: what a node's `leaves` loop returns does not depend on what the two local
   names held when the loop started (so nothing read for one jagged tensor can reach the next one) *)
Theorem jread_state_independent A np f pre post st st' : Forall wf_leaf pre -> jkeys_ok_f f = true ->
  side A np (total A np (lspecs pre)) (jflat_f f) ->
  jread_leaves true (encode A np (pre ++ jflat_f f ++ post)) (jmf_lvs A np f (total A np (lspecs pre))) st
  = jread_leaves true (encode A np (pre ++ jflat_f f ++ post)) (jmf_lvs A np f (total A np (lspecs pre))) st'.
Proof.
  intros Hpre Hk Hs. destruct (proj2 (jrebuild_ok A np) f pre post false Hpre Hk Hs) as (_ & H & _).
  now rewrite (H st), (H st').
Qed.

(* ------------------------------------------------------------------ witnesses *)
Definition jm1 (bs : list nat) : nmeta := {| m_bs := bs; m_names := map (fun _ => None) bs; m_dev := None; m_locked := false |}.
Definition bytes_of (e : nat) (vals : list Z) : list Z := flat_map (fun v => v :: repeat 0%Z (e - 1)) vals.
Definition ileaf (dt e : nat) (shape : list nat) (vals : list Z) : leaf :=
  {| l_dt := dt; l_esz := e; l_shape := shape; l_bytes := bytes_of e vals |}.
(* two jagged tensors in one node: the first WITH lengths, the second without, a plain leaf between them *)
Definition t_two_njt : jtree :=
  JNode (CTd (jm1 [3]))
    (JNjt "j0" (ileaf 3 2 [6] [1; 2; 3; 4; 5; 6]%Z) (Some (ileaf 8 8 [3] [1; 1; 2]%Z)) (ileaf 8 8 [4] [0; 2; 3; 6]%Z)
       (JLeaf "m" (ileaf 1 1 [3] [7; 8; 9]%Z)
          (JNjt "j1" (ileaf 8 8 [4] [10; 11; 12; 13]%Z) None (ileaf 8 8 [4] [0; 1; 1; 4]%Z) JNil))).

Lemma t_two_njt_side : jkeys_ok_t t_two_njt = true /\ jtree_side align_unit true t_two_njt.
Proof.
  split; [reflexivity|]. unfold jtree_side, side. split; [|split; reflexivity].
  cbn. repeat constructor.
Qed.

(* without the reset at <NJT_VALUES> the second tensor comes back with the first one's lengths: the round trip FAILS *)
Theorem njt_reset_necessary :
  jrebuild_t true (jencode align_unit true t_two_njt) false (fst (jmeta_t align_unit true t_two_njt 0)) = JOk t_two_njt /\
  exists t', jrebuild_t false (jencode align_unit true t_two_njt) false (fst (jmeta_t align_unit true t_two_njt 0)) = JOk t' /\
             t' <> t_two_njt /\
             jpart_l (jents t') = JNjt "j0" (ileaf 3 2 [6] [1; 2; 3; 4; 5; 6]%Z) (Some (ileaf 8 8 [3] [1; 1; 2]%Z)) (ileaf 8 8 [4] [0; 2; 3; 6]%Z)
               (JLeaf "m" (ileaf 1 1 [3] [7; 8; 9]%Z)
                 (JNjt "j1" (ileaf 8 8 [4] [10; 11; 12; 13]%Z) (Some (ileaf 8 8 [3] [1; 1; 2]%Z)) (ileaf 8 8 [4] [0; 1; 1; 4]%Z) JNil)).
Proof.
  split; [vm_compute; reflexivity|].
  eexists. split; [vm_compute; reflexivity|]. split; [discriminate|reflexivity].
Qed.

(* keys that start with a marker are mis-read (finding D116): a plain tensor stored under "<NJT_OFFSETS>x" makes the reader
   fail on an unbound name; a nested tensordict stored under "<TD>x" comes back as "x" *)
Definition t_marker_leaf : jtree := JNode (CTd (jm1 [])) (JLeaf "<NJT_OFFSETS>x" (ileaf 1 1 [2] [1; 2]%Z) JNil).
Definition t_marker_sub : jtree := JNode (CTd (jm1 [])) (JSub "<TD>x" (JNode (CTd (jm1 [])) (JLeaf "a" (ileaf 1 1 [2] [1; 2]%Z) JNil)) JNil).
Definition jroundtrip_statement : Prop :=
  forall t, jtree_side align_unit true t -> jroundtrip t = JOk (jreorder_t (jrelock_t false t)).
Theorem jroundtrip_marker_keys_refuted : ~ jroundtrip_statement.
Proof.
  intros H. specialize (H t_marker_leaf).
  assert (Hs : jtree_side align_unit true t_marker_leaf).
  { unfold jtree_side, side. split; [|split; reflexivity]. cbn. repeat constructor. }
  specialize (H Hs). vm_compute in H. discriminate.
Qed.
Theorem jroundtrip_marker_sub_renamed :
  jtree_side align_unit true t_marker_sub /\
  exists t', jroundtrip t_marker_sub = JOk t' /\ jfind_sub (jents t') "<TD>x" = None /\ jfind_sub (jents t') "x" <> None.
Proof.
  split.
  - unfold jtree_side, side. split; [|split; reflexivity]. cbn. repeat constructor.
  - eexists. split; [vm_compute; reflexivity|]. split; [reflexivity|discriminate].
Qed.
(* ... and the statement holds on the complement *)
Theorem jroundtrip_partial t : jkeys_ok_t t = true -> jtree_side align_unit true t ->
  jroundtrip t = JOk (jreorder_t (jrelock_t false t)).
Proof. intros Hk Hs. unfold jroundtrip. now apply jcodec_roundtrip. Qed.
