From Coq Require Import ZArith List String Bool Lia Arith.
Import ListNotations.
From TD Require Import Model.C12_Sched Proofs.C12_SchedP.
Open Scope nat_scope.

(* ------------------------------------------------------------------ in place: every leaf keeps its identity *)
Fixpoint erase_t (t : tree) : tree :=
  match t with Leaf i _ => Leaf i 0 | Node f => Node (erase_f f) end
with erase_f (f : forest) : forest :=
  match f with FNil => FNil | FCons k t r => FCons k (erase_t t) (erase_f r) end.

Fixpoint fkeys (f : forest) : list string := match f with FNil => [] | FCons k _ r => k :: fkeys r end.
Fixpoint fapp (a b : forest) : forest := match a with FNil => b | FCons k t r => FCons k t (fapp r b) end.

Fixpoint uniq_t (t : tree) : Prop :=
  match t with Leaf _ _ => True | Node f => uniq_f f end
with uniq_f (f : forest) : Prop :=
  match f with FNil => True | FCons k t r => ~ In k (fkeys r) /\ uniq_t t /\ uniq_f r end.

Lemma fkeys_erase f : fkeys (erase_f f) = fkeys f.
Proof. induction f as [|k t r IH] using forest_ind; cbn; [reflexivity|now rewrite IH]. Qed.

Lemma fkeys_fapp a b : fkeys (fapp a b) = (fkeys a ++ fkeys b)%list.
Proof. induction a as [|k t r IH] using forest_ind; cbn; [reflexivity|now rewrite IH]. Qed.

Lemma fapp_assoc a b c : fapp (fapp a b) c = fapp a (fapp b c).
Proof. induction a as [|k t r IH] using forest_ind; cbn; [reflexivity|now rewrite IH]. Qed.

Lemma erase_fapp a b : erase_f (fapp a b) = fapp (erase_f a) (erase_f b).
Proof. induction a as [|k t r IH] using forest_ind; cbn; [reflexivity|now rewrite IH]. Qed.

Lemma set_with_skip m pre f k t : ~ In k (fkeys pre) -> set_with m (fapp pre f) k t = fapp pre (set_with m f k t).
Proof.
  induction pre as [|k' t' r IH] using forest_ind; cbn [fapp fkeys set_with]; [reflexivity|].
  intro H. destruct (String.eqb k k') eqn:E.
  - apply String.eqb_eq in E. subst. exfalso. apply H. now left.
  - rewrite IH; [reflexivity|]. intro Hin. apply H. now right.
Qed.

Lemma set_with_head m k t0 r t : set_with m (FCons k t0 r) k t = FCons k (m t0) r.
Proof. cbn. now rewrite String.eqb_refl. Qed.

Lemma uniq_erase : forall a,
  (forall b, erase_f a = erase_f b -> uniq_f a -> uniq_f b).
Proof.
  apply (forest_mind (fun t => forall b, erase_t t = erase_t b -> uniq_t t -> uniq_t b)
                     (fun a => forall b, erase_f a = erase_f b -> uniq_f a -> uniq_f b)).
  - intros i v b H _. destruct b; [exact I|discriminate].
  - intros f IH b H Hu. destruct b as [|g]; [discriminate|]. cbn in H. injection H as H. cbn. now apply IH.
  - intros b H _. destruct b; [exact I|discriminate].
  - intros k t IHt r IHr b H (Hn & Ht & Hr). destruct b as [|k' t' r']; [discriminate|].
    cbn in H. injection H as -> H1 H2. cbn. repeat split; [|now apply IHt|now apply IHr].
    rewrite <- (fkeys_erase r'), <- H2, fkeys_erase. exact Hn.
Qed.

(* writing in place a value that has the identities of the destination gives exactly that value *)
Lemma merge_id :
  forall a, (forall pre b, erase_f a = erase_f b -> uniq_f a ->
                           (forall k, In k (fkeys a) -> ~ In k (fkeys pre)) -> merge_f a (fapp pre b) = fapp pre a).
Proof.
  apply (forest_mind (fun a => forall b, erase_t a = erase_t b -> uniq_t a -> merge_t a b = a)
                     (fun a => forall pre b, erase_f a = erase_f b -> uniq_f a ->
                                             (forall k, In k (fkeys a) -> ~ In k (fkeys pre)) -> merge_f a (fapp pre b) = fapp pre a)).
  - intros i v b H _. destruct b as [j w|]; [|discriminate]. cbn in H. injection H as ->. reflexivity.
  - intros f IH b H Hu. destruct b as [|g]; [discriminate|]. cbn in H. injection H as H. cbn [merge_t].
    f_equal. apply (IH FNil g H Hu). intros k _ [].
  - intros pre b H _ _. destruct b; [|discriminate]. reflexivity.
  - intros k t IHt r IHr pre b H (Hn & Ht & Hr) Hpre. destruct b as [|k' tb rb]; [discriminate|].
    cbn in H. injection H as <- H1 H2.
    cbn [merge_f]. rewrite set_with_skip by (apply Hpre; now left). rewrite set_with_head.
    rewrite (IHt tb H1 Ht).
    change (fapp pre (FCons k t rb)) with (fapp pre (fapp (FCons k t FNil) rb)). rewrite <- fapp_assoc.
    rewrite (IHr (fapp pre (FCons k t FNil)) rb H2 Hr).
    + rewrite fapp_assoc. reflexivity.
    + intros k2 Hin. rewrite fkeys_fapp. cbn [fkeys]. intro Hc. apply in_app_or in Hc. destruct Hc as [Hc|[<-|[]]].
      * apply (Hpre k2); [now right|exact Hc].
      * exact (Hn Hin).
Qed.

Definition leafy (fn : userfn) : Prop :=
  forall key i v ov, fn key (Leaf i v) ov = None \/ exists j w, fn key (Leaf i v) ov = Some (Leaf j w).

Section InPlace.
Variable fn : userfn.
Variable o : opts.
Hypothesis Hip : o_inplace o = true.
Hypothesis Hleafy : leafy fn.

Definition keeps_at (items : forest) : Prop :=
  forall d prefix self others out pre rem any res' any',
    uniq_f items -> erase_f rem = erase_f items -> (forall k, In k (fkeys items) -> ~ In k (fkeys pre)) ->
    apply_items fn o d false prefix self others out items (Some (fapp pre rem)) any = AOk (res', any') ->
    exists R', res' = Some R' /\ erase_f R' = erase_f (fapp pre rem).

Lemma inplace_keeps : forall items, keeps_at items.
Proof.
  apply (forest_mind (fun t => match t with Leaf _ _ => True | Node g => keeps_at g end) keeps_at).
  - intros; exact I.
  - intros f IH; exact IH.
  - intros d prefix self others out pre rem any res' any' _ _ _ H. cbn in H. injection H as <- _. eauto.
  - intros k t IHt rest IHr d prefix self others out pre rem any res' any' (Hn & Hut & Hur) Hrem Hpre.
    destruct rem as [|k' tr remr]; [discriminate|]. cbn in Hrem. injection Hrem as Hkk Ht Hr. subst k.
    assert (Hk : ~ In k' (fkeys pre)) by (apply Hpre; now left).
    assert (Hnext : forall tr', erase_t tr' = erase_t t ->
              forall any0, apply_items fn o d false prefix self others out rest (Some (fapp pre (FCons k' tr' remr))) any0 = AOk (res', any') ->
              exists R', res' = Some R' /\ erase_f R' = erase_f (fapp pre (FCons k' tr remr))).
    { intros tr' Htr' any0 H.
      change (fapp pre (FCons k' tr' remr)) with (fapp pre (fapp (FCons k' tr' FNil) remr)) in H. rewrite <- fapp_assoc in H.
      destruct (IHr d prefix self others out (fapp pre (FCons k' tr' FNil)) remr any0 res' any' Hur Hr) with (2 := H) as (R' & -> & HR').
      - intros k2 Hin. rewrite fkeys_fapp. cbn [fkeys]. intro Hc. apply in_app_or in Hc. destruct Hc as [Hc|[<-|[]]].
        + apply (Hpre k2); [now right|exact Hc].
        + exact (Hn Hin).
      - exists R'. split; [reflexivity|]. rewrite HR', fapp_assoc, !erase_fapp. cbn [fapp erase_f]. now rewrite Htr', Ht. }
    cbn [apply_items].
    destruct t as [i v|g].
    + destruct tr as [i' w|]; [|discriminate]. cbn in Ht. injection Ht as ->.
      destruct (others_leaf d others k') as [ov|]; cbn [abind]; [|discriminate].
      destruct (Hleafy (keyarg o prefix k') i v ov) as [E|(j & w' & E)]; rewrite E.
      * cbn [abind]. apply Hnext. reflexivity.
      * cbn [abind]. unfold set_result, set_entry, unopt. rewrite Hip. unfold fset_ip. rewrite set_with_skip by exact Hk. rewrite set_with_head. cbn [merge_t]. apply Hnext. reflexivity.
    + destruct tr as [|gr]; [discriminate|]. cbn in Ht. injection Ht as Hg.
      destruct (others_node d self others k') as [others'|]; cbn [abind]; [|discriminate].
      rewrite Hip.
      destruct (apply_items fn o d false (prefix ++ [k']) g others' (out_child out k') g (Some g) false) as [[rg ag]|] eqn:Eg; cbn [abind fst snd]; [|discriminate].
      destruct (IHt d (prefix ++ [k'])%list g others' (out_child out k') FNil g false rg ag Hut eq_refl ltac:(intros ? _ []) Eg) as (g' & -> & Hg').
      cbn [fapp] in Hg'.
      destruct (finish_apply o g (Some g') ag) as [st'|] eqn:Ef; cbn [option_map].
      * assert (st' = g') as -> by (revert Ef; unfold finish_apply; destruct (o_fe o) as [[|]|], ag, (fempty g); cbn; congruence).
        unfold set_result, set_entry. rewrite Hip. unfold fset_ip. rewrite set_with_skip by exact Hk. rewrite set_with_head.
        assert (Hm : merge_t (Node g') (Node gr) = Node g').
        { cbn [merge_t]. f_equal. apply (merge_id g' FNil gr); [congruence| |intros ? _ []].
          apply (uniq_erase g g'); [now symmetry|exact Hut]. }
        rewrite Hm. apply Hnext. cbn. now rewrite Hg'.
      * apply Hnext. cbn. now rewrite Hg.
Qed.
End InPlace.

(* the single-threaded in-place apply keeps the identity of every leaf of self (and its structure) ... *)
Theorem st_inplace_keeps_identities : forall fn o d self others out f',
  o_inplace o = true -> leafy fn -> uniq_f self ->
  st_apply fn o d false self others out = ORet (Some f') -> erase_f f' = erase_f self.
Proof.
  intros fn o d self others out f' Hip Hl Hu. unfold st_apply, apply_level. rewrite Hip.
  destruct (apply_items fn o d false [] self others out self (Some self) false) as [[res' any']|] eqn:E; cbn [abind fst snd]; [|discriminate].
  destruct (inplace_keeps fn o Hip Hl self d [] self others out FNil self false res' any' Hu eq_refl ltac:(intros ? _ []) E) as (R' & -> & HR').
  intro H. injection H as H. revert H. unfold finish_apply. destruct (o_fe o) as [[|]|], any', (fempty self); cbn; try discriminate; intro H; injection H as <-; exact HR'.
Qed.

(* ... and so does the thread-pool form, for every completion order *)
Theorem mt_inplace_keeps_identities : forall fn o d self others out pi f',
  o_inplace o = true -> leafy fn -> uniq_f self ->
  (forall id, id < ntasks false self -> In id pi) ->
  mt_apply fn o d false self others out pi = ORet (Some f') -> erase_f f' = erase_f self.
Proof.
  intros fn o d self others out pi f' Hip Hl Hu Hall H.
  rewrite (mt_eq_st_all_complete fn o d false self others out pi Hall) in H.
  eapply st_inplace_keeps_identities; eassumption.
Qed.
