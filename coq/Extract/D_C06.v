From Coq Require Import ZArith List String Bool.
Import ListNotations.
From TD Require Import Lib.Sexp Model.C06_Cache.
Open Scope string_scope.
Open Scope list_scope.

Definition dec_path (s : sexp) : option path := dec_list dec_str s.
Definition enc_path (p : path) : sexp := enc_list enc_str p.

Definition dec_lkind (s : sexp) : option lkind :=
  match s with SA "t" => Some KTensor | SA "nd" => Some KNonTensorData | SA "ns" => Some KNonTensorStack | _ => None end.
Definition enc_lkind (k : lkind) : sexp := SA (match k with KTensor => "t" | KNonTensorData => "nd" | KNonTensorStack => "ns" end).

Definition dec_leaf (s : sexp) : option leaf :=
  match s with
  | SL [u; k; st; pay; dt; nu; es; mm] =>
      match dec_nat u, dec_lkind k, dec_nat st, dec_Z pay, dec_nat dt, dec_nat nu, dec_nat es, dec_bool mm with
      | Some u, Some k, Some st, Some pay, Some dt, Some nu, Some es, Some mm =>
          Some {| l_uid := u; l_kind := k; l_stor := st; l_payload := pay; l_dtype := dt; l_numel := nu; l_esize := es; l_mm := mm |}
      | _, _, _, _, _, _, _, _ => None end
  | _ => None
  end.
Definition enc_leaf (l : leaf) : sexp :=
  SL [enc_nat (l_uid l); enc_lkind (l_kind l); enc_nat (l_stor l); enc_Z (l_payload l); enc_nat (l_dtype l); enc_nat (l_numel l); enc_nat (l_esize l); enc_bool (l_mm l)].

Definition dec_meta (s : sexp) : option nmeta :=
  match s with
  | SL [bs; nm; dv] =>
      match dec_list dec_nat bs, dec_opt (dec_list dec_str) nm, dec_nat dv with
      | Some bs, Some nm, Some dv => Some {| m_bs := bs; m_names := nm; m_dev := dv |}
      | _, _, _ => None end
  | _ => None
  end.
Definition enc_meta (m : nmeta) : sexp := SL [enc_list enc_nat (m_bs m); enc_opt (enc_list enc_str) (m_names m); enc_nat (m_dev m)].

Definition dec_node (s : sexp) : option node :=
  match s with
  | SL [p; u; k; fl; pars; mm; meta] =>
      match dec_path p, dec_nat u, (match k with SA "td" => Some NTD | SA "lazy" => Some NLAZY | _ => None end),
            dec_opt dec_bool fl, dec_list dec_path pars, dec_bool mm, dec_meta meta with
      | Some p, Some u, Some k, Some fl, Some pars, Some mm, Some meta =>
          Some {| n_path := p; n_uid := u; n_kind := k; n_flag := fl; n_parents := pars; n_memmap := mm; n_meta := meta; n_cache := [] |}
      | _, _, _, _, _, _, _ => None end
  | _ => None
  end.

Definition dec_state (s : sexp) : option state :=
  match s with
  | SL [ns; ls; st] =>
      match dec_list dec_node ns, dec_list (dec_pair dec_path dec_leaf) ls, dec_list (dec_pair dec_nat dec_Z) st with
      | Some ns, Some ls, Some st => Some {| nodes := ns; leaves := ls; store := st |}
      | _, _, _ => None end
  | _ => None
  end.

Fixpoint dec_arg (fuel : nat) (s : sexp) : option arg :=
  match fuel with
  | O => None
  | S fuel =>
      match s with
      | SL [SA "s"; SA x] => Some (AStr x)
      | SZ z => Some (AInt z)
      | SA "t" => Some (ABool true)
      | SA "f" => Some (ABool false)
      | SA "none" => Some ANone
      | SA "ell" => Some AEll
      | SL [SA "sl"; a; b; c] =>
          match dec_opt dec_Z a, dec_opt dec_Z b, dec_opt dec_Z c with
          | Some a, Some b, Some c => Some (ASlice a b c) | _, _, _ => None end
      | SL [SA "obj"; a; u; m] =>
          match dec_nat a, dec_nat u, dec_nat m with
          | Some a, Some u, Some m => Some (AObj {| o_addr := a; o_uid := u; o_sem := m |}) | _, _, _ => None end
      | SL (SA "seq" :: l) => option_map ASeq (dec_list_aux (dec_arg fuel) l)
      | _ => None
      end
  end.

Definition dec_meth (s : sexp) : option meth :=
  match s with
  | SA n => find (fun m => String.eqb (meth_name m) n)
                 [MNestedKeys; MValuesList; MItemsList; MSortedKeys; MFlattenKeys; MUnflattenKeys; MDetach; MDtype; MDepth; MBytes;
                  MParamCount; MAddBatchDim; MKeyList; MHasExclusive; MLazyGetStr]
  | _ => None
  end.

Definition dec_op (s : sexp) : option op :=
  match s with
  | SL [SA "lock"; p] => option_map OLock (dec_path p)
  | SL [SA "unlock"; p] => option_map OUnlock (dec_path p)
  | SL [SA "read"; p; m; a; k] =>
      match dec_path p, dec_meth m, dec_list (dec_arg 8) a, dec_list (dec_pair dec_str (dec_arg 8)) k with
      | Some p, Some m, Some a, Some k => Some (ORead p m a k) | _, _, _, _ => None end
  | SL [SA "inplace"; p; v] => match dec_path p, dec_Z v with Some p, Some v => Some (OInplace p v) | _, _ => None end
  | SL [SA "set"; p; l] => match dec_path p, dec_leaf l with Some p, Some l => Some (OSet p l) | _, _ => None end
  | SL [SA "setnode"; p; u; m] => match dec_path p, dec_nat u, dec_meta m with Some p, Some u, Some m => Some (OSetNode p u m) | _, _, _ => None end
  | SL [SA "del"; p] => option_map ODel (dec_path p)
  | SL [SA "promote"; p; l] => match dec_path p, dec_leaf l with Some p, Some l => Some (OPromote p l) | _, _ => None end
  | SL [SA "makememmap"; p; l] => match dec_path p, dec_leaf l with Some p, Some l => Some (OMakeMemmap p l) | _, _ => None end
  | SL [SA "makememmapnested"; p; u; k; l] =>
      match dec_path p, dec_nat u, dec_str k, dec_leaf l with Some p, Some u, Some k, Some l => Some (OMakeMemmapNested p u k l) | _, _, _, _ => None end
  | SL [SA "memmap"; p; b] => match dec_path p, dec_nat b with Some p, Some b => Some (OMemmap p b) | _, _ => None end
  | SL [SA "names"; p; n] => match dec_path p, dec_opt (dec_list dec_str) n with Some p, Some n => Some (OSetNames p n) | _, _ => None end
  | SL [SA "bs"; p; b] => match dec_path p, dec_list dec_nat b with Some p, Some b => Some (OSetBatchSize p b) | _, _ => None end
  | _ => None
  end.

Fixpoint enc_katom (k : katom) : sexp :=
  match k with
  | KStr s => SL [SA "s"; SA s]
  | KInt z => SZ z
  | KSlice a b c => SL [SA "sl"; enc_opt enc_Z a; enc_opt enc_Z b; enc_opt enc_Z c]
  | KEll => SA "ell"
  | KId a => SL [SA "id"; enc_nat a]
  | KTup l => SL (SA "t" :: map enc_katom l)
  end.

Definition enc_item (i : item) : sexp :=
  match i with
  | ILeaf l => SL [SA "leaf"; enc_leaf l]
  | INode u => SL [SA "node"; enc_nat u]
  | IShare k st pay dt nu => SL [SA "share"; enc_lkind k; enc_nat st; enc_Z pay; enc_nat dt; enc_nat nu]
  | ICopy k c dt nu => SL [SA "copy"; enc_lkind k; enc_Z c; enc_nat dt; enc_nat nu]
  end.

Definition enc_cval (v : cval) : sexp :=
  match v with
  | VView incl lo mask srt pins => SL [SA "view"; enc_bool incl; enc_bool lo; enc_nat mask; enc_bool srt; enc_list (fun o => enc_nat (o_uid o)) pins]
  | VList l => SL [SA "list"; enc_list (enc_pair enc_path enc_item) l]
  | VKeys l => SL [SA "keys"; enc_list enc_str l]
  | VTd meta l pins => SL [SA "td"; enc_list (enc_pair enc_path enc_meta) meta; enc_list (enc_pair enc_path enc_item) l;
                           enc_list (fun o => enc_nat (o_uid o)) pins]
  | VNat n => SL [SA "nat"; enc_nat n]
  | VOptNat o => SL [SA "optnat"; enc_opt enc_nat o]
  | VBool b => SL [SA "bool"; enc_bool b]
  | VNames l => SL [SA "names"; enc_opt (enc_list enc_str) l]
  | VTensor => SA "tensor"
  | VRaise => SA "raise"
  end.

Definition enc_outcome (o : outcome) : sexp :=
  SA (match o with Done => "ok" | RaisedLock => "lock-error" | RaisedOther => "other-error" | NoSuchTarget => "no-target" end).

Definition enc_access (a : access) : sexp := SA (match a with Hit => "hit" | Miss => "miss" | Bypass => "bypass" end).

Definition enc_caches (s : state) : sexp :=
  SL (map (fun n => SL [enc_path (n_path n);
                        enc_bool (node_locked s n);
                        SL (map (fun e => SL [SA (meth_name (e_meth e)); enc_katom (fst (e_key e)); enc_katom (snd (e_key e))]) (n_cache n))])
          (nodes s)).

Fixpoint trace (fx : fixes) (hk : bool) (s : state) (ops : list op) : list sexp :=
  match ops with
  | [] => []
  | o :: r =>
      let s' := fst (step fx hk s o) in
      let info := match o with
                  | ORead p m a k => match snd (read hk s p m a k) with
                                     | Some (acc, ret, bodyv) =>
                                         SL [enc_access acc; enc_cval ret; enc_opt enc_cval bodyv;
                                             match find_node s p with Some n => enc_cval (fresh s n m a k) | None => SA "none" end]
                                     | None => SA "none" end
                  | _ => SA "none" end in
      SL [enc_outcome (snd (step fx hk s o)); info; enc_caches s'] :: trace fx hk s' r
  end.

Definition dec_fixes (s : sexp) : option fixes :=
  match dec_list dec_bool s with
  | Some [a; b; c; d; e; f; g] =>
      Some {| fix_rebind := a; fix_meta := b; fix_memmap := c; fix_lockgraph := d; fix_lockflag := e; fix_unlockflags := f; fix_attach := g |}
  | _ => None
  end.

Definition dispatch (cmd : string) (args : list sexp) : option sexp :=
  match cmd, args with
  | "hist", [fx; hk; st; ops] =>
      match dec_fixes fx, dec_bool hk, dec_state st, dec_list dec_op ops with
      | Some fx, Some hk, Some st, Some ops => Some (SL (trace fx hk st ops))
      | _, _, _, _ => None end
  | "key", [a; k] =>
      match dec_list (dec_arg 8) a, dec_list (dec_pair dec_str (dec_arg 8)) k with
      | Some a, Some k => Some (SL [enc_katom (fst (make_cache_key a k)); enc_katom (snd (make_cache_key a k))])
      | _, _ => None end
  | _, _ => None
  end.
