(* C02 dispatch: decodes protocol lines, calls Spec/C02_TorchShape (entry "spec") or Model/C02_ShapeOps (entry
   "model"), encodes the result canonically. *)
From Coq Require Import ZArith List String Bool.
Import ListNotations.
From TD Require Import Lib.Sexp Spec.C02_TorchShape.
Open Scope string_scope.

Definition dec_zs := dec_list dec_Z.
Definition enc_zs (l : list Z) : sexp := SL (map SZ l).

Definition enc_res_shape (r : res shape) : sexp :=
  match r with Ok s => SL [SA "ok"; enc_zs s] | Reject => SA "reject" end.
Definition enc_res_shapes (r : res (list shape)) : sexp :=
  match r with Ok l => SL [SA "oks"; SL (map enc_zs l)] | Reject => SA "reject" end.

Definition dec_split (s : sexp) : option (Z + list Z) :=
  match s with
  | SL [SA "int"; SZ k] => Some (inl k)
  | SL [SA "list"; l] => option_map inr (dec_zs l)
  | _ => None
  end.

Definition spec_dispatch (op : string) (args : list sexp) : option sexp :=
  match op, args with
  | "t-permute", [s; d] =>
      match dec_zs s, dec_zs d with Some s, Some d => Some (enc_res_shape (t_permute s d)) | _, _ => None end
  | "t-transpose", [s; a; b] =>
      match dec_zs s, dec_Z a, dec_Z b with Some s, Some a, Some b => Some (enc_res_shape (t_transpose s a b)) | _, _, _ => None end
  | "t-squeeze", [s; d] =>
      match dec_zs s, dec_opt dec_Z d with
      | Some s, Some (Some d) => Some (enc_res_shape (t_squeeze_dim s d))
      | Some s, Some None => Some (enc_res_shape (t_squeeze_all s))
      | _, _ => None end
  | "t-unsqueeze", [s; d] =>
      match dec_zs s, dec_Z d with Some s, Some d => Some (enc_res_shape (t_unsqueeze s d)) | _, _ => None end
  | "t-expand", [s; t] =>
      match dec_zs s, dec_zs t with Some s, Some t => Some (enc_res_shape (t_expand s t)) | _, _ => None end
  | "t-view", [s; t] =>
      match dec_zs s, dec_zs t with Some s, Some t => Some (enc_res_shape (t_view s t)) | _, _ => None end
  | "t-reshape", [s; t] =>
      match dec_zs s, dec_zs t with Some s, Some t => Some (enc_res_shape (t_reshape s t)) | _, _ => None end
  | "t-flatten", [s; a; b] =>
      match dec_zs s, dec_Z a, dec_Z b with Some s, Some a, Some b => Some (enc_res_shape (t_flatten s a b)) | _, _, _ => None end
  | "t-unflatten", [s; d; z] =>
      match dec_zs s, dec_Z d, dec_zs z with Some s, Some d, Some z => Some (enc_res_shape (t_unflatten s d z)) | _, _, _ => None end
  | "t-repeat", [s; r] =>
      match dec_zs s, dec_zs r with Some s, Some r => Some (enc_res_shape (t_repeat s r)) | _, _ => None end
  | "t-repeat-interleave", [s; r; d] =>
      match dec_zs s, dec_Z r, dec_opt dec_Z d with
      | Some s, Some r, Some d => Some (enc_res_shape (t_repeat_interleave s r d)) | _, _, _ => None end
  | "t-unbind", [s; d] =>
      match dec_zs s, dec_Z d with Some s, Some d => Some (enc_res_shapes (t_unbind s d)) | _, _ => None end
  | "t-split", [s; k; d] =>
      match dec_zs s, dec_split k, dec_Z d with
      | Some s, Some (inl k), Some d => Some (enc_res_shapes (t_split_int s k d))
      | Some s, Some (inr l), Some d => Some (enc_res_shapes (t_split_list s l d))
      | _, _, _ => None end
  | "t-chunk", [s; c; d] =>
      match dec_zs s, dec_Z c, dec_Z d with Some s, Some c, Some d => Some (enc_res_shapes (t_chunk s c d)) | _, _, _ => None end
  | "t-gather", [s; d; i] =>
      match dec_zs s, dec_Z d, dec_zs i with Some s, Some d, Some i => Some (enc_res_shape (t_gather s d i)) | _, _, _ => None end
  | "t-masked-select", [s; m; c] =>
      match dec_zs s, dec_zs m, dec_Z c with Some s, Some m, Some c => Some (enc_res_shape (t_masked_select s m c)) | _, _, _ => None end
  | "t-stack", [l; d] =>
      match dec_list dec_zs l, dec_Z d with Some l, Some d => Some (enc_res_shape (t_stack l d)) | _, _ => None end
  | "t-cat", [l; d] =>
      match dec_list dec_zs l, dec_Z d with Some l, Some d => Some (enc_res_shape (t_cat l d)) | _, _ => None end
  | _, _ => None
  end.

Definition dispatch (cmd : string) (args : list sexp) : option sexp :=
  match cmd, args with
  | "spec", SA op :: rest => spec_dispatch op rest
  | _, _ => None
  end.
