(* C02 dispatch: decodes protocol lines, calls Spec/C02_TorchShape (entry "spec") or Model/C02_ShapeOps (entry
   "model"), encodes the result canonically. *)
From Coq Require Import ZArith List String Bool.
Import ListNotations.
From TD Require Import Lib.Sexp Spec.C02_TorchShape Spec.C02_TorchElem Model.C02_ShapeOps Model.C02_Elem.
From TD Require Spec.C08_Dense Model.C08_Lazy.
Open Scope string_scope.

Definition dec_zs := dec_list dec_Z.
Definition enc_zs (l : list Z) : sexp := SL (map SZ l).

Definition enc_res_shape (r : res shape) : sexp :=
  match r with Ok s => SL [SA "ok"; enc_zs s] | Reject => SA "reject" end.
Definition enc_res_shapes (r : res (list shape)) : sexp :=
  match r with Ok l => SL [SA "oks"; SL (map enc_zs l)] | Reject => SA "reject" end.

Definition dec_split (s : sexp) : option (Z + list Z) :=
  match s with
  | SL [SA "int"; SZ k] => Some (inl k)
  | SL [SA "list"; l] => option_map inr (dec_zs l)
  | _ => None
  end.

Definition spec_dispatch (op : string) (args : list sexp) : option sexp :=
  match op, args with
  | "t-permute", [s; d] =>
      match dec_zs s, dec_zs d with Some s, Some d => Some (enc_res_shape (t_permute s d)) | _, _ => None end
  | "t-transpose", [s; a; b] =>
      match dec_zs s, dec_Z a, dec_Z b with Some s, Some a, Some b => Some (enc_res_shape (t_transpose s a b)) | _, _, _ => None end
  | "t-squeeze", [s; d] =>
      match dec_zs s, dec_opt dec_Z d with
      | Some s, Some (Some d) => Some (enc_res_shape (t_squeeze_dim s d))
      | Some s, Some None => Some (enc_res_shape (t_squeeze_all s))
      | _, _ => None end
  | "t-unsqueeze", [s; d] =>
      match dec_zs s, dec_Z d with Some s, Some d => Some (enc_res_shape (t_unsqueeze s d)) | _, _ => None end
  | "t-expand", [s; t] =>
      match dec_zs s, dec_zs t with Some s, Some t => Some (enc_res_shape (t_expand s t)) | _, _ => None end
  | "t-view", [s; t] =>
      match dec_zs s, dec_zs t with Some s, Some t => Some (enc_res_shape (t_view s t)) | _, _ => None end
  | "t-reshape", [s; t] =>
      match dec_zs s, dec_zs t with Some s, Some t => Some (enc_res_shape (t_reshape s t)) | _, _ => None end
  | "t-flatten", [s; a; b] =>
      match dec_zs s, dec_Z a, dec_Z b with Some s, Some a, Some b => Some (enc_res_shape (t_flatten s a b)) | _, _, _ => None end
  | "t-unflatten", [s; d; z] =>
      match dec_zs s, dec_Z d, dec_zs z with Some s, Some d, Some z => Some (enc_res_shape (t_unflatten s d z)) | _, _, _ => None end
  | "t-repeat", [s; r] =>
      match dec_zs s, dec_zs r with Some s, Some r => Some (enc_res_shape (t_repeat s r)) | _, _ => None end
  | "t-repeat-interleave", [s; r; d] =>
      match dec_zs s, dec_Z r, dec_opt dec_Z d with
      | Some s, Some r, Some d => Some (enc_res_shape (t_repeat_interleave s r d)) | _, _, _ => None end
  | "t-unbind", [s; d] =>
      match dec_zs s, dec_Z d with Some s, Some d => Some (enc_res_shapes (t_unbind s d)) | _, _ => None end
  | "t-split", [s; k; d] =>
      match dec_zs s, dec_split k, dec_Z d with
      | Some s, Some (inl k), Some d => Some (enc_res_shapes (t_split_int s k d))
      | Some s, Some (inr l), Some d => Some (enc_res_shapes (t_split_list s l d))
      | _, _, _ => None end
  | "t-chunk", [s; c; d] =>
      match dec_zs s, dec_Z c, dec_Z d with Some s, Some c, Some d => Some (enc_res_shapes (t_chunk s c d)) | _, _, _ => None end
  | "t-gather", [s; d; i] =>
      match dec_zs s, dec_Z d, dec_zs i with Some s, Some d, Some i => Some (enc_res_shape (t_gather s d i)) | _, _, _ => None end
  | "t-masked-select", [s; m; c] =>
      match dec_zs s, dec_zs m, dec_Z c with Some s, Some m, Some c => Some (enc_res_shape (t_masked_select s m c)) | _, _, _ => None end
  | "t-stack", [l; d] =>
      match dec_list dec_zs l, dec_Z d with Some l, Some d => Some (enc_res_shape (t_stack l d)) | _, _ => None end
  | "t-cat", [l; d] =>
      match dec_list dec_zs l, dec_Z d with Some l, Some d => Some (enc_res_shape (t_cat l d)) | _, _ => None end
  | _, _ => None
  end.

(* ---- trees *)
Definition dec_name (s : sexp) : option (option string) :=
  match s with
  | SA "none" => Some None
  | SL [SA "some"; SA a] => Some (Some a)
  | _ => None
  end.
Definition dec_names (s : sexp) : option dimnames :=
  match s with
  | SA "none" => Some None
  | SL [SA "some"; l] => option_map Some (dec_list dec_name l)
  | _ => None
  end.

Fixpoint dec_tree (s : sexp) : option tree :=
  match s with
  | SL [SA "leaf"; sh] => option_map Leaf (dec_zs sh)
  | SL [SA "node"; bs; nm; SL ents] =>
      match dec_zs bs, dec_names nm,
            (fix go (l : list sexp) : option (list (string * tree)) :=
               match l with
               | [] => Some []
               | SL [SA k; t] :: r =>
                   match dec_tree t, go r with Some t', Some r' => Some ((k, t') :: r') | _, _ => None end
               | _ => None
               end) ents with
      | Some bs, Some nm, Some ents => Some (Node bs nm ents)
      | _, _, _ => None
      end
  | _ => None
  end.

Definition enc_names (nm : dimnames) : sexp :=
  match nm with
  | None => SA "none"
  | Some l => if all_none l then SA "none"
              else SL [SA "some"; SL (map (fun x => match x with None => SA "none" | Some a => SL [SA "some"; SA a] end) l)]
  end.

Fixpoint enc_tree (t : tree) : sexp :=
  match t with
  | Leaf sh => SL [SA "leaf"; enc_zs sh]
  | Node bs nm ents =>
      SL [SA "node"; enc_zs bs; enc_names nm;
          SL ((fix go (l : list (string * tree)) : list sexp :=
                 match l with [] => [] | (k, c) :: r => SL [SA k; enc_tree c] :: go r end) ents)]
  end.

Definition enc_errk (k : errk) : sexp :=
  SA (match k with EIndex => "IndexError" | EValue => "ValueError" | ERuntime => "RuntimeError" | EType => "TypeError"
               | EAssert => "AssertionError" | EKey => "KeyError" end).

Definition enc_out {A} (f : A -> sexp) (tag : string) (r : out A) : sexp :=
  match r with
  | Done a => SL [SA tag; f a]
  | Raised k => SL [SA "raise"; enc_errk k]
  | Diverges => SA "diverges"
  | Unmodelled => SA "unmodelled"
  end.
Definition enc_out_tree := enc_out enc_tree "ok".
Definition enc_out_trees := enc_out (fun l => SL (map enc_tree l)) "oks".

Definition model_dispatch (op : string) (args : list sexp) : option sexp :=
  match op, args with
  | "td-permute", [t; d] =>
      match dec_tree t, dec_zs d with Some t, Some d => Some (enc_out_tree (apply t (OPermute d))) | _, _ => None end
  | "td-transpose", [t; a; b] =>
      match dec_tree t, dec_Z a, dec_Z b with Some t, Some a, Some b => Some (enc_out_tree (apply t (OTranspose a b))) | _, _, _ => None end
  | "td-squeeze", [t; d] =>
      match dec_tree t, dec_opt dec_Z d with Some t, Some d => Some (enc_out_tree (apply t (OSqueeze d))) | _, _ => None end
  | "td-unsqueeze", [t; d] =>
      match dec_tree t, dec_Z d with Some t, Some d => Some (enc_out_tree (apply t (OUnsqueeze d))) | _, _ => None end
  | "td-expand", [t; s] =>
      match dec_tree t, dec_zs s with Some t, Some s => Some (enc_out_tree (apply t (OExpand s))) | _, _ => None end
  | "td-view", [t; s] =>
      match dec_tree t, dec_zs s with Some t, Some s => Some (enc_out_tree (apply t (OView s))) | _, _ => None end
  | "td-reshape", [t; s] =>
      match dec_tree t, dec_zs s with Some t, Some s => Some (enc_out_tree (apply t (OReshape s))) | _, _ => None end
  | "td-flatten", [t; a; b] =>
      match dec_tree t, dec_Z a, dec_Z b with Some t, Some a, Some b => Some (enc_out_tree (apply t (OFlatten a b))) | _, _, _ => None end
  | "td-unflatten", [t; d; z] =>
      match dec_tree t, dec_Z d, dec_zs z with Some t, Some d, Some z => Some (enc_out_tree (apply t (OUnflatten d z))) | _, _, _ => None end
  | "td-repeat", [t; r] =>
      match dec_tree t, dec_zs r with Some t, Some r => Some (enc_out_tree (apply t (ORepeat r))) | _, _ => None end
  | "td-repeat-interleave", [t; r; d] =>
      match dec_tree t, dec_Z r, dec_opt dec_Z d with
      | Some t, Some r, Some d => Some (enc_out_tree (td_repeat_interleave t r d)) | _, _, _ => None end
  | "td-unbind", [t; d] =>
      match dec_tree t, dec_Z d with Some t, Some d => Some (enc_out_trees (td_unbind t d)) | _, _ => None end
  | "td-split", [t; k; d] =>
      match dec_tree t, dec_split k, dec_Z d with
      | Some t, Some k, Some d => Some (enc_out_trees (td_split t k d)) | _, _, _ => None end
  | "td-chunk", [t; c; d] =>
      match dec_tree t, dec_Z c, dec_Z d with Some t, Some c, Some d => Some (enc_out_trees (td_chunk t c d)) | _, _, _ => None end
  | "td-gather", [t; d; i] =>
      match dec_tree t, dec_Z d, dec_zs i with Some t, Some d, Some i => Some (enc_out_tree (gather_at t d i)) | _, _, _ => None end
  | "td-masked-select", [t; m; c] =>
      match dec_tree t, dec_zs m, dec_Z c with Some t, Some m, Some c => Some (enc_out_tree (td_masked_select t m c)) | _, _, _ => None end
  | "td-stack", [l; d; SA "none"] =>
      match dec_list dec_tree l, dec_Z d with Some l, Some d => Some (enc_out_tree (td_stack l d)) | _, _ => None end
  | "td-stack", [l; d; SL [SA "some"; o]] =>
      match dec_list dec_tree l, dec_Z d, dec_tree o with
      | Some l, Some d, Some o => Some (enc_out_tree (td_stack_out l d o)) | _, _, _ => None end
  | "td-cat", [l; d; SL [SA "some"; o]] =>
      match dec_list dec_tree l, dec_Z d, dec_tree o with
      | Some l, Some d, Some o => Some (enc_out_tree (td_cat_out l d o)) | _, _, _ => None end
  | "td-cat", [l; d; SA "none"] =>
      match dec_list dec_tree l, dec_Z d with Some l, Some d => Some (enc_out_tree (td_cat l d)) | _, _ => None end
  | _, _ => None
  end.

(* ---- the element level: (elem op shape args...) -> the row-major source position of every result position, or "none";
        (calls tree op args...) -> the torch calls made on the tensors of the tree, each with its own table *)
Definition dec_sop (op : string) (args : list sexp) : option sop :=
  match op, args with
  | "permute", [d] => option_map OPermute (dec_zs d)
  | "transpose", [a; b] => match dec_Z a, dec_Z b with Some a, Some b => Some (OTranspose a b) | _, _ => None end
  | "squeeze", [d] => option_map OSqueeze (dec_opt dec_Z d)
  | "unsqueeze", [d] => option_map OUnsqueeze (dec_Z d)
  | "expand", [s] => option_map OExpand (dec_zs s)
  | "view", [s] => option_map OView (dec_zs s)
  | "reshape", [s] => option_map OReshape (dec_zs s)
  | "flatten", [a; b] => match dec_Z a, dec_Z b with Some a, Some b => Some (OFlatten a b) | _, _ => None end
  | "unflatten", [d; z] => match dec_Z d, dec_zs z with Some d, Some z => Some (OUnflatten d z) | _, _ => None end
  | "repeat", [r] => option_map ORepeat (dec_zs r)
  | "repeat-interleave", [r; d] => match dec_Z r, dec_Z d with Some r, Some d => Some (ORepInt r d) | _, _ => None end
  | _, _ => None
  end.

Definition enc_table (s s' : list Z) (o : sop) : sexp :=
  match e_table o s s' with Some l => SL [SA "table"; enc_zs l] | None => SA "none" end.

Definition elem_dispatch (op : string) (args : list sexp) : option sexp :=
  match args with
  | s :: rest =>
      match dec_zs s, dec_sop op rest with
      | Some s, Some o =>
          Some (match leaf_op o s with Done s' => enc_table s s' o | _ => SA "none" end)
      | _, _ => None
      end
  | _ => None
  end.

Definition calls_dispatch (op : string) (args : list sexp) : option sexp :=
  match args with
  | t :: rest =>
      match dec_tree t, dec_sop op rest with
      | Some t, Some o =>
          Some (SL (map (fun c => match leaf_op (fst c) (snd c) with
                                  | Done s' => SL [enc_zs (snd c); enc_zs s'; enc_table (snd c) s' (fst c)]
                                  | _ => SL [enc_zs (snd c); SA "none"; SA "none"]
                                  end) (leaf_calls t o)))
      | _, _ => None
      end
  | _ => None
  end.

(* ---- lazy stacks: (lazy op stack_dim member_bs n_members args...) -> (ok new_stack_dim batch_size) | raise | self | other
        through C08's transcription of LazyStackedTensorDict (Model/C08_Lazy, read-only), on a flat stack of n members *)
Definition lazy_members (n : nat) (bs : list Z) : list C08_Dense.arr := map (fun j => C08_Dense.Leaf j bs) (seq 0 n).

Definition enc_lazy (self : C08_Dense.arr) (r : C08_Lazy.res C08_Dense.arr) : sexp :=
  match r with
  | C08_Lazy.Ok (C08_Dense.Stack nsd bs0 ms as a) =>
      match C08_Dense.shape_of a with
      | Some sh => SL [SA "ok"; SZ (Z.of_nat nsd); enc_zs sh]
      | None => SA "other"
      end
  | C08_Lazy.Ok _ => SA "other"
  | C08_Lazy.Raised => SA "raise"
  | _ => SA "other"
  end.

Definition lazy_dispatch (op : string) (args : list sexp) : option sexp :=
  match args with
  | sd :: bs :: n :: rest =>
      match dec_Z sd, dec_zs bs, dec_Z n with
      | Some sd, Some bs, Some n =>
          let self := C08_Dense.Stack (Z.to_nat sd) bs (lazy_members (Z.to_nat n) bs) in
          match op, rest with
          | "permute", [d] => option_map (fun d => enc_lazy self (C08_Lazy.lz_permute 3 self d)) (dec_zs d)
          | "transpose", [a; b] =>
              match dec_Z a, dec_Z b with
              | Some a, Some b => Some (enc_lazy self (C08_Lazy.lz_transpose 3 self a b)) | _, _ => None end
          | "squeeze", [d] => option_map (fun d => enc_lazy self (C08_Lazy.lz_squeeze 3 self d)) (dec_Z d)
          | "unsqueeze", [d] => option_map (fun d => enc_lazy self (C08_Lazy.lz_unsqueeze 3 self d)) (dec_Z d)
          | _, _ => None
          end
      | _, _, _ => None
      end
  | _ => None
  end.

Definition dispatch (cmd : string) (args : list sexp) : option sexp :=
  match cmd, args with
  | "lazy", SA op :: rest => lazy_dispatch op rest
  | "elem", SA op :: rest => elem_dispatch op rest
  | "calls", SA op :: rest => calls_dispatch op rest
  | "spec", SA op :: rest => spec_dispatch op rest
  | "model", SA op :: rest => model_dispatch op rest
  | _, _ => None
  end.
