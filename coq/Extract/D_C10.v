(* C10 — decoding of structures / directories, evaluation with the model, canonical printing. *)
From Coq Require Import ZArith List String Bool.
Import ListNotations.
From TD Require Import Lib.Sexp Model.C10_Meta Model.C10_Sched Model.C10_Fault Model.C10_Refresh.
Open Scope string_scope.
Open Scope list_scope.

(* ---- dtypes ---- *)
Definition all_dtypes : list dtype := torch_dtypes.
Definition short_name (d : dtype) : string := substring 6 100 (dtype_str d).    (* without "torch." *)
Definition dec_dtype (s : sexp) : option dtype :=
  match s with SA a => find (fun d => String.eqb (short_name d) a) all_dtypes | _ => None end.
Definition enc_dtype (d : dtype) : sexp := SA (short_name d).

Definition dec_src (s : sexp) : option source :=
  match s with SA "mem" => Some InMem | SA "mmnofile" => Some MMNoFile | SA "elsewhere" => Some MMElsewhere | _ => None end.
Definition enc_src (s : source) : sexp :=
  match s with InMem => SA "mem" | MMNoFile => SA "mmnofile" | MMElsewhere => SA "elsewhere" end.

(* ---- payloads ---- *)
Fixpoint dec_payload (s : sexp) : option payload :=
  match s with
  | SL [SA "s"; SA x] => Some (PStr x)
  | SL [SA "i"; SZ z] => Some (PInt z)
  | SL [SA "b"; b] => option_map PBool (dec_bool b)
  | SA "n" => Some PNone
  | SL [SA "obj"; SZ z] => Some (PObj (Z.to_nat z))
  | SL [SA tag; SL l] =>
      let items := (fix go (l : list sexp) : option (list payload) :=
         match l with [] => Some [] | x :: r =>
           match dec_payload x, go r with Some a, Some b => Some (a :: b) | _, _ => None end end) l in
      let pairs := (fix go (l : list sexp) : option (list (string * payload)) :=
         match l with
         | [] => Some []
         | SL [SA k; x] :: r => match dec_payload x, go r with Some a, Some b => Some ((k, a) :: b) | _, _ => None end
         | _ => None
         end) l in
      if String.eqb tag "l" then option_map PList items
      else if String.eqb tag "tu" then option_map PTuple items
      else if String.eqb tag "set" then option_map PSet items
      else if String.eqb tag "d" then option_map PDict pairs
      else None
  | _ => None
  end.

Fixpoint enc_payload (p : payload) : sexp :=
  match p with
  | PStr x => SL [SA "s"; SA x]
  | PInt z => SL [SA "i"; SZ z]
  | PBool b => SL [SA "b"; enc_bool b]
  | PNone => SA "n"
  | PObj n => SL [SA "obj"; enc_nat n]
  | PList l => SL [SA "l"; SL ((fix go (l : list payload) : list sexp := match l with [] => [] | x :: r => enc_payload x :: go r end) l)]
  | PTuple l => SL [SA "tu"; SL ((fix go (l : list payload) : list sexp := match l with [] => [] | x :: r => enc_payload x :: go r end) l)]
  | PSet l => SL [SA "set"; SL ((fix go (l : list payload) : list sexp := match l with [] => [] | x :: r => enc_payload x :: go r end) l)]
  | PDict l => SL [SA "d"; SL ((fix go (l : list (string * payload)) : list sexp :=
                                  match l with [] => [] | (k, x) :: r => SL [SA k; enc_payload x] :: go r end) l)]
  end.

(* ---- json ---- *)
Fixpoint dec_json (s : sexp) : option json :=
  match s with
  | SA "null" => Some JNull
  | SL [SA "b"; b] => option_map JBool (dec_bool b)
  | SL [SA "i"; SZ z] => Some (JInt z)
  | SL [SA "s"; SA x] => Some (JStr x)
  | SL [SA "a"; SL l] =>
      option_map JArr ((fix go (l : list sexp) : option (list json) :=
         match l with [] => Some [] | x :: r =>
           match dec_json x, go r with Some a, Some b => Some (a :: b) | _, _ => None end end) l)
  | SL [SA "o"; SL l] =>
      option_map JObj ((fix go (l : list sexp) : option (list (string * json)) :=
         match l with
         | [] => Some []
         | SL [SA k; x] :: r => match dec_json x, go r with Some a, Some b => Some ((k, a) :: b) | _, _ => None end
         | _ => None
         end) l)
  | _ => None
  end.

Fixpoint enc_json (j : json) : sexp :=
  match j with
  | JNull => SA "null"
  | JBool b => SL [SA "b"; enc_bool b]
  | JInt z => SL [SA "i"; SZ z]
  | JStr x => SL [SA "s"; SA x]
  | JArr l => SL [SA "a"; SL ((fix go (l : list json) : list sexp := match l with [] => [] | x :: r => enc_json x :: go r end) l)]
  | JObj l => SL [SA "o"; SL ((fix go (l : list (string * json)) : list sexp :=
                                 match l with [] => [] | (k, x) :: r => SL [SA k; enc_json x] :: go r end) l)]
  end.

(* ---- structures ---- *)
Fixpoint dec_td (s : sexp) : option td :=
  match s with
  | SL [SA "leaf"; dt; sh; cells; src] =>
      match dec_dtype dt, dec_list dec_nat sh, dec_list dec_Z cells, dec_src src with
      | Some dt, Some sh, Some cells, Some src => Some (Leaf {| lshape := sh; ldtype := dt; lcells := cells; lsrc := src |})
      | _, _, _, _ => None
      end
  | SL [SA "td"; bs; SL l] =>
      match dec_list dec_nat bs,
            (fix go (l : list sexp) : option (list (string * td)) :=
               match l with
               | [] => Some []
               | SL [SA k; x] :: r => match dec_td x, go r with Some a, Some b => Some ((k, a) :: b) | _, _ => None end
               | _ => None
               end) l with
      | Some bs, Some es => Some (Node bs es)
      | _, _ => None
      end
  | SL [SA "lazy"; sd; SL l] =>
      match dec_nat sd,
            (fix go (l : list sexp) : option (list td) :=
               match l with [] => Some [] | x :: r => match dec_td x, go r with Some a, Some b => Some (a :: b) | _, _ => None end end) l with
      | Some sd, Some ms => Some (Lazy sd ms)
      | _, _ => None
      end
  | SL [SA "tc"; SA c; SL nt; x] =>
      match (fix go (l : list sexp) : option (list (string * payload)) :=
               match l with
               | [] => Some []
               | SL [SA k; v] :: r => match dec_payload v, go r with Some a, Some b => Some ((k, a) :: b) | _, _ => None end
               | _ => None
               end) nt, dec_td x with
      | Some nt, Some x => Some (TCls c nt x)
      | _, _ => None
      end
  | SL [SA "ntd"; bs; p] =>
      match dec_list dec_nat bs, dec_payload p with Some bs, Some p => Some (NData bs p) | _, _ => None end
  | SL [SA "nts"; SL l] =>
      option_map NStack ((fix go (l : list sexp) : option (list td) :=
         match l with [] => Some [] | x :: r => match dec_td x, go r with Some a, Some b => Some (a :: b) | _, _ => None end end) l)
  | _ => None
  end.

Fixpoint enc_td (t : td) : sexp :=
  match t with
  | Leaf l => SL [SA "leaf"; enc_dtype (ldtype l); enc_list enc_nat (lshape l); enc_list enc_Z (lcells l); enc_src (lsrc l)]
  | Node bs es => SL [SA "td"; enc_list enc_nat bs;
                      SL ((fix go (l : list (string * td)) : list sexp :=
                             match l with [] => [] | (k, x) :: r => SL [SA k; enc_td x] :: go r end) es)]
  | Lazy sd ms => SL [SA "lazy"; enc_nat sd; SL ((fix go (l : list td) : list sexp := match l with [] => [] | x :: r => enc_td x :: go r end) ms)]
  | TCls c nt x => SL [SA "tc"; SA c; SL (map (fun kv => SL [SA (fst kv); enc_payload (snd kv)]) nt); enc_td x]
  | NData bs p => SL [SA "ntd"; enc_list enc_nat bs; enc_payload p]
  | NStack its => SL [SA "nts"; SL ((fix go (l : list td) : list sexp := match l with [] => [] | x :: r => enc_td x :: go r end) its)]
  end.

(* ---- directories ---- *)
Definition dec_fname (s : sexp) : option fname :=
  match s with
  | SL [SA "leaf"; SA k] => Some (FLeaf k)
  | SA "meta" => Some FMeta | SA "other" => Some FOther | SA "pkl" => Some FPkl
  | _ => None
  end.
Definition enc_fname (f : fname) : sexp :=
  match f with FLeaf k => SL [SA "leaf"; SA k] | FMeta => SA "meta" | FOther => SA "other" | FPkl => SA "pkl" end.

Definition dec_content (s : sexp) : option content :=
  match s with
  | SL [SA "json"; j] => option_map CJson (dec_json j)
  | SL [SA "cells"; dt; c] => match dec_dtype dt, dec_list dec_Z c with Some dt, Some c => Some (CCells dt c) | _, _ => None end
  | SL [SA "pickle"; p] => option_map CPickle (dec_payload p)
  | _ => None
  end.
Definition enc_content (c : content) : sexp :=
  match c with
  | CJson j => SL [SA "json"; enc_json j]
  | CCells dt c => SL [SA "cells"; enc_dtype dt; enc_list enc_Z c]
  | CPickle p => SL [SA "pickle"; enc_payload p]
  end.

Fixpoint dec_dir (s : sexp) : option dir :=
  match s with
  | SL [SA "dir"; files; SL l] =>
      match dec_list (dec_pair dec_fname dec_content) files,
            (fix go (l : list sexp) : option (list (string * dir)) :=
               match l with
               | [] => Some []
               | SL [SA k; x] :: r => match dec_dir x, go r with Some a, Some b => Some ((k, a) :: b) | _, _ => None end
               | _ => None
               end) l with
      | Some fs, Some ss => Some (Dir fs ss)
      | _, _ => None
      end
  | _ => None
  end.

Fixpoint enc_dir (d : dir) : sexp :=
  match d with
  | Dir fs ss => SL [SA "dir"; enc_list (enc_pair enc_fname enc_content) fs;
                     SL ((fix go (l : list (string * dir)) : list sexp :=
                            match l with [] => [] | (k, x) :: r => SL [SA k; enc_dir x] :: go r end) ss)]
  end.

Definition enc_err (e : err) : sexp :=
  SA (match e with
      | ETypeError => "TypeError" | ERuntime => "RuntimeError" | EKeyError => "KeyError" | EFileNotFound => "FileNotFoundError"
      | EValueError => "ValueError" | EReinterpret => "unmodelled-reinterpretation" | EOther => "other"
      | EIsADirectory => "IsADirectoryError" | EPermission => "PermissionError"
      end).
Definition dec_err (s : sexp) : option err :=
  match s with
  | SA "TypeError" => Some ETypeError | SA "RuntimeError" => Some ERuntime | SA "KeyError" => Some EKeyError
  | SA "FileNotFoundError" => Some EFileNotFound | SA "ValueError" => Some EValueError
  | SA "IsADirectoryError" => Some EIsADirectory | SA "PermissionError" => Some EPermission | SA "other" => Some EOther
  | _ => None
  end.
Definition enc_res {A} (f : A -> sexp) (r : res A) : sexp :=
  match r with Ok a => SL [SA "ok"; f a] | Raised e => SL [SA "raised"; enc_err e] end.

Definition dec_opts (s : sexp) : option opts :=
  match s with
  | SL [c; l] => match dec_bool c, dec_bool l with Some c, Some l => Some {| copy_existing := c; like := l |} | _, _ => None end
  | _ => None
  end.

(* ---- tasks ---- *)
Definition enc_task (t : task) : sexp :=
  match t with
  | TPopulate p k _ => SL [SA "populate"; enc_list enc_str p; SA k]
  | TWrite p _ _ => SL [SA "save-meta"; enc_list enc_str p; SA ""]
  end.
Definition enc_fsent (e : (list string * fname) * content) : sexp :=
  SL [enc_list enc_str (fst (fst e)); enc_fname (snd (fst e)); enc_content (snd e)].
Definition enc_minfo (e : list string * minfo) : sexp :=
  SL [enc_list enc_str (fst e); enc_dtype (mdtype (snd e)); enc_list enc_nat (mshape (snd e)); enc_bool (mfile (snd e))].
Definition enc_state (s : state) : sexp :=
  SL [enc_list enc_minfo (dest s); enc_list enc_fsent (fs s); enc_list (enc_list enc_str) (dirs s)].

Definition dec_grow (s : sexp) : option grow_op :=
  match s with
  | SL [SA _; p; dt; sh; cells] =>
      match dec_list dec_str p, dec_dtype dt, dec_list dec_nat sh, dec_list dec_Z cells with
      | Some p, Some dt, Some sh, Some cells =>
          match rev p with
          | k :: rp => Some {| gpath := rev rp; gkey := k; gleaf := {| lshape := sh; ldtype := dt; lcells := cells; lsrc := MMElsewhere |} |}
          | [] => None
          end
      | _, _, _, _ => None
      end
  | _ => None
  end.

Definition dec_fault (s : sexp) : option (floc * err) :=
  match s with
  | SL [p; f; e] => match dec_list dec_str p, dec_fname f, dec_err e with Some p, Some f, Some e => Some ((p, f), e) | _, _, _ => None end
  | _ => None
  end.
Definition enc_outcome (x : outcome) : sexp := match x with TDone => SA "ok" | TFailed e => enc_err e end.

Definition dispatch (cmd : string) (args : list sexp) : option sexp :=
  match cmd, args with
  | "fault-call", [o; inplace; early; t; fl; order] =>
      (* a save with obstacles on the disk: per submitted task its outcome and whether its future is collected by the entry
         point; what the sequential call returns; what the pool call returns under the given completion order *)
      match dec_opts o, dec_bool inplace, dec_bool early, dec_td t, dec_list dec_fault fl, dec_list dec_nat order with
      | Some o, Some ip, Some early, Some t, Some fl, Some order =>
          let sub := inject_sub fl (submitted repo_hands_over o ip t []) in
          Some (SL [enc_list enc_outcome (map task_outcome (spawned sub));
                    enc_list enc_bool (map snd sub);
                    enc_res (fun _ => SA "state") (run_sequential_f fl o ip t);
                    enc_res (fun _ => SA "state") (pool_call_f fl early o ip t (permute order (spawned sub)))])
      | _, _, _, _, _, _ => None
      end
  | "encode", [o; t] =>
      match dec_opts o, dec_td t with Some o, Some t => Some (enc_res enc_dir (encode o t)) | _, _ => None end
  | "save-over", [o; t1; t2] =>
      (* t2 saved over the directory that holds t1; the directory and what the loader makes of it *)
      match dec_opts o, dec_td t1, dec_td t2 with
      | Some o, Some t1, Some t2 =>
          let r := bind (encode default_opts t1) (save_over o t2) in
          Some (SL [enc_res enc_dir r; enc_res enc_td (bind r decode)])
      | _, _, _ => None
      end
  | "decode", [d] => match dec_dir d with Some d => Some (enc_res enc_td (decode d)) | None => None end
  | "roundtrip", [o; t] =>
      match dec_opts o, dec_td t with
      | Some o, Some t => Some (SL [enc_bool (valid_root o t); enc_res enc_td (bind (encode o t) decode); enc_td (norm t)])
      | _, _ => None
      end
  | "tasks", [o; inplace; t] =>
      match dec_opts o, dec_bool inplace, dec_td t with
      | Some o, Some ip, Some t => Some (enc_list enc_task (tasks_of o t []))
      | _, _, _ => None
      end
  | "run-tasks", [o; inplace; t; order] =>
      (* the writer pool: main-thread walk first, then the submitted tasks in the given order of submission indices *)
      match dec_opts o, dec_bool inplace, dec_td t, dec_list dec_nat order with
      | Some o, Some ip, Some t, Some order =>
          Some (SL [enc_state (run_pool o ip t (permute order (tasks_of o t [])));
                    enc_res enc_state (run_sequential o ip t);
                    enc_res (fun _ => SA "state") (pool_call o ip t (permute order (tasks_of o t [])))])
      | _, _, _, _ => None
      end
  | "link", [o; inplace; t] =>
      (* instance of the stated (not proved) link between the two halves: the files the tasks write are the files of encode *)
      match dec_opts o, dec_bool inplace, dec_td t with
      | Some o, Some ip, Some t =>
          Some (match encode o t, run_sequential o ip t with
                | Ok d, Ok s => SL [SA "both-ok"; enc_bool (fs_agree (fs s) (flatten [] d)); enc_bool (keys_distinct t)]
                | Raised _, Raised _ => SA "both-raise"
                | _, _ => SA "differ"
                end)
      | _, _, _ => None
      end
  | "dtype-table", [] => Some (enc_list enc_str (map fst strdtype2dtype))
  | "grow", [t; ops] =>
      (* (grow <td> ((<kind> (path...) dtype (shape) (cells)) ...)) : the directory after the calls, from encode t *)
      match dec_td t, dec_list dec_grow ops with
      | Some t, Some ops =>
          Some (enc_res enc_dir (bind (encode default_opts t) (fun d => Ok (snd (snd (grow_all ops t d))))))
      | _, _ => None
      end
  | "refresh", [t; ops] =>
      (* a second mapping loaded before the make_memmap calls and refreshed after them (memmap_refresh_); the directory
         loaded into an empty tensordict of the same batch size (load_memmap_) *)
      match dec_td t, dec_list dec_grow ops with
      | Some t, Some ops =>
          Some (match encode default_opts t with
                | Ok d0 =>
                    let d1 := snd (snd (grow_all ops t d0)) in
                    SL [enc_res enc_td (refresh d0 d1);
                        enc_res enc_td (load_into d1 (Node (match t with Node bs _ => bs | _ => [] end) []))]
                | Raised e => enc_err e
                end)
      | _, _ => None
      end
  | "grow-outcomes", [t; ops] =>
      match dec_td t, dec_list dec_grow ops with
      | Some t, Some ops =>
          Some (match encode default_opts t with
                | Ok d => enc_list (enc_res (fun _ => SA "unit")) (fst (grow_all ops t d))
                | Raised e => enc_err e
                end)
      | _, _ => None
      end
  | _, _ => None
  end.
