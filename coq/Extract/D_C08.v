(* Correspondence entry points for C08: decode a case, run the model, print layout + element map canonically. *)
From Coq Require Import ZArith List String Bool.
Import ListNotations.
From TD Require Import Lib.Sexp Spec.PySlice Spec.C08_Dense Model.C08_Lazy Model.C08_Write.
Open Scope string_scope.

Definition dec_bit (s : sexp) : option bool := match s with SZ 0%Z => Some false | SZ 1%Z => Some true | _ => None end.

Definition dec_item (s : sexp) : option item :=
  match s with
  | SA "none" => Some INone
  | SA "ell" => Some IEll
  | SL [SA "int"; SZ i] => Some (IInt i)
  | SL [SA "sl"; a; b; c] =>
      match dec_opt dec_Z a, dec_opt dec_Z b, dec_opt dec_Z c with
      | Some a, Some b, Some c => Some (ISl a b c)
      | _, _, _ => None
      end
  | SL [SA "ten"; sh; vals] =>
      match dec_list dec_Z sh, dec_list dec_Z vals with Some sh, Some vals => Some (ITen sh vals) | _, _ => None end
  | SL [SA "mask"; sh; bits] =>
      match dec_list dec_Z sh, dec_list dec_bit bits with Some sh, Some bits => Some (IMask sh bits) | _, _ => None end
  | _ => None
  end.

Fixpoint dec_tree (s : sexp) : option arr :=
  match s with
  | SL [SA "td"; SZ j; bs] =>
      match dec_list dec_Z bs with Some bs => if (j <? 0)%Z then None else Some (Leaf (Z.to_nat j) bs) | None => None end
  | SL [SA "lazy"; SZ sd; SL kids] =>
      match (fix go (l : list sexp) : option (list arr) :=
               match l with [] => Some [] | x :: r =>
                 match dec_tree x, go r with Some a, Some b => Some (a :: b) | _, _ => None end end) kids with
      | Some ks => if (sd <? 0)%Z then None
                   else Some (Stack (Z.to_nat sd) (match ks with k :: _ => match shape_of k with Some s => s | None => [] end | [] => [] end) ks)
      | None => None
      end
  | _ => None
  end.

(* leaf table: member id -> batch size *)
Fixpoint leaves (a : arr) : list (nat * list Z) :=
  match a with
  | Leaf j bs => [(j, bs)]
  | Stack _ _ parts | Cat _ parts => flat_map leaves parts
  | Index _ x | Transp _ _ x | Perm _ x | Squeeze _ x | Unsq _ x | Repeat _ x | RepInt _ _ x | Expand _ x => leaves x
  end.
Fixpoint leaf_bs (tab : list (nat * list Z)) (j : nat) : list Z :=
  match tab with [] => [] | (k, bs) :: r => if Nat.eqb k j then bs else leaf_bs r j end.

Definition PP : Z := 128.
Definition elem_code (tab : list (nat * list Z)) (e : option (nat * list Z)) : Z :=
  match e with
  | Some (j, ix) => (Z.of_nat j * PP + ravel (leaf_bs tab j) ix)%Z
  | None => (-1)%Z
  end.

Definition enc_layout (a : arr) (sh : list Z) : sexp :=
  match a with
  | Stack sd _ parts => SL [SA "lazy"; enc_nat sd; enc_list enc_Z sh; enc_nat (List.length parts)]
  | Leaf j _ => SL [SA "member"; enc_nat j; enc_list enc_Z sh]
  | _ => SL [SA "td"; enc_list enc_Z sh]
  end.

Definition enc_arr (tab : list (nat * list Z)) (a : arr) : sexp :=
  match shape_of a with
  | None => SA "eval-fail"
  | Some sh => SL [SA "ok"; enc_layout a sh; enc_list enc_Z (map (fun r => elem_code tab (at_ a r)) (all_indices sh))]
  end.

Definition enc_res {A} (f : A -> sexp) (r : res A) : sexp :=
  match r with
  | Ok a => f a
  | Raised => SA "raised"
  | OutOfModel => SA "out-of-model"
  | OutOfFuel => SA "out-of-fuel"
  end.

Definition enc_arrs (tab : list (nat * list Z)) (l : list arr) : sexp :=
  if forallb (fun a => match shape_of a with Some _ => true | None => false end) l
  then SL (SA "seq" :: map (enc_arr tab) l) else SA "eval-fail".

Definition FUEL : nat := 12.

Definition enc_written (tab : list (nat * list Z)) (vsh : list Z) (plan : list wr) : sexp :=
  match eval_plan tab vsh plan with
  | EvFail => SA "eval-fail"
  | EvCoerce => SA "coerce"
  | EvOk (ws, rep) =>
      SL [SA "ok";
          SL (map (fun jb => SL [enc_nat (fst jb);
                                 enc_list enc_Z (map (fun p => match lookup_last ws (fst jb) p with
                                                               | Some k => (- (1 + k))%Z
                                                               | None => (Z.of_nat (fst jb) * PP + p)%Z
                                                               end)
                                                     (map Z.of_nat (seq 0 (Z.to_nat (prodZ (snd jb))))))]) tab);
          enc_bool rep]
  end.

Fixpoint enc_nest (t : nest) : sexp :=
  match t with NLeaf j => SZ j | NList l => SL (SA "nest" :: map enc_nest l) end.
Definition enc_item (it : item) : sexp :=
  match it with
  | IInt i => SL [SA "int"; SZ i]
  | ISl a b c => SL [SA "sl"; enc_opt enc_Z a; enc_opt enc_Z b; enc_opt enc_Z c]
  | INone => SA "none"
  | IEll => SA "ell"
  | ITen sh vals => SL [SA "ten"; enc_list enc_Z sh; enc_list enc_Z vals]
  | IMask sh bits => SL [SA "mask"; enc_list enc_Z sh; enc_list (fun b : bool => SZ (if b then 1 else 0)%Z) bits]
  end.
Definition enc_split (sp : split) : sexp :=
  SL [ match sp_kind sp with
       | KDict es => SL (SA "dict" :: map (fun e => SL [SZ (fst e); enc_list enc_item (snd e)]) es)
       | KNest t sub => SL [SA "nested"; enc_nest t; enc_list enc_item sub]
       end;
       SZ (sp_num_single sp); SZ (sp_num_none sp); SZ (sp_num_squash sp); enc_bool (sp_isint sp); enc_bool (sp_has_bool sp);
       enc_bool (sp_nd sp);
       if sp_has_bool sp then SL [SZ (sp_split_dim sp); enc_nat (sp_mask_loc sp)] else SA "none" ].

Definition stack_info (a : arr) : option (nat * nat * list Z) :=
  match a with
  | Stack sd _ parts => match shape_of a with Some sh => Some (sd, List.length parts, sh) | None => None end
  | _ => None
  end.

Definition dispatch (cmd : string) (args : list sexp) : option sexp :=
  match cmd, args with
  | "spec-index", [sh; idx] =>
      match dec_list dec_Z sh, dec_list dec_item idx with
      | Some sh, Some idx =>
          Some (match spec_expand idx (List.length sh) with
                | None => SA "reject"
                | Some idx =>
                match res_shape idx sh with
                | Some rs => SL [SA "ok"; enc_list enc_Z rs;
                                 enc_list enc_Z (map (fun r => match src_of idx sh r with Some ix => ravel sh ix | None => (-1)%Z end) (all_indices rs))]
                | None => SA "reject"
                end end)
      | _, _ => None
      end
  | "spec-expand", [idx; SZ rank] =>
      match dec_list dec_item idx with
      | Some idx => Some (match spec_expand idx (Z.to_nat rank), convert_ellipsis idx (Z.to_nat rank) with
                          | Some a, Ok b => SL [SA "both"; enc_list enc_item a; enc_list enc_item b]
                          | Some a, _ => SL [SA "spec-only"; enc_list enc_item a]
                          | None, Ok b => SL [SA "model-only"; enc_list enc_item b]
                          | None, _ => SA "neither"
                          end)
      | None => None
      end
  | "split", [t; idx] =>
      match dec_tree t, dec_list dec_item idx with
      | Some a, Some idx =>
          Some (match stack_info a with
                | Some (sd, n, sh) => enc_res enc_split (split_index sd n sh idx)
                | None => SA "eval-fail"
                end)
      | _, _ => None
      end
  | "getitem", [t; idx] =>
      match dec_tree t, dec_list dec_item idx with
      | Some a, Some idx => Some (enc_res (enc_arr (leaves a)) (lz_getitem FUEL a idx))
      | _, _ => None
      end
  | "setitem", [t; idx; vsh] =>
      match dec_tree t, dec_list dec_item idx, dec_list dec_Z vsh with
      | Some a, Some idx, Some vsh => Some (enc_res (enc_written (leaves a) vsh) (run_setitem FUEL a idx vsh))
      | _, _, _ => None
      end
  | "update_", [t; SZ mode; vsh] =>
      match dec_tree t, dec_list dec_Z vsh with
      | Some a, Some vsh => Some (enc_res (enc_written (leaves a) vsh) (run_update_ FUEL a mode vsh))
      | _, _ => None
      end
  | "transpose", [t; SZ d0; SZ d1] =>
      option_map (fun a => enc_res (enc_arr (leaves a)) (lz_transpose FUEL a d0 d1)) (dec_tree t)
  | "permute", [t; dims] =>
      match dec_tree t, dec_list dec_Z dims with
      | Some a, Some dims => Some (enc_res (enc_arr (leaves a)) (lz_permute FUEL a dims))
      | _, _ => None
      end
  | "squeeze", [t; SZ d] => option_map (fun a => enc_res (enc_arr (leaves a)) (lz_squeeze FUEL a d)) (dec_tree t)
  | "squeeze-all", [t] =>
      option_map (fun a => enc_res (enc_arr (leaves a))
                    (match shape_of a with
                     | Some sh => lz_squeeze_all FUEL a (rev (seq 0 (List.length sh)))
                     | None => Raised end)) (dec_tree t)
  | "unsqueeze", [t; SZ d] => option_map (fun a => enc_res (enc_arr (leaves a)) (lz_unsqueeze FUEL a d)) (dec_tree t)
  | "unbind", [t; SZ d] => option_map (fun a => enc_res (enc_arrs (leaves a)) (lz_unbind FUEL a d)) (dec_tree t)
  | "split-op", [t; sizes; isint; SZ d] =>
      match dec_tree t, dec_list dec_Z sizes, dec_bool isint with
      | Some a, Some sizes, Some isint => Some (enc_res (enc_arrs (leaves a)) (lz_split FUEL a sizes isint d))
      | _, _, _ => None
      end
  | "insert", [t; SZ i; x] =>
      match dec_tree t, dec_tree x with
      | Some a, Some x => Some (enc_res (enc_arr (leaves a ++ leaves x)) (lz_insert a i x))
      | _, _ => None
      end
  | "cat-out", [SZ n_out; sizes] =>
      option_map (fun sizes => SL [enc_list (enc_pair enc_Z enc_Z) (cat_out_slices n_out 0 sizes);
                                   enc_list (enc_pair enc_Z enc_Z) (cat_spec_slices sizes);
                                   SA (match cat_out_result n_out sizes with
                                       | CatRaises => "raises" | CatOutUnchanged => "out-unchanged" | CatWritten => "written" end)])
                 (dec_list dec_Z sizes)
  | "cat", [ts; SZ d] =>
      match dec_list dec_tree ts with
      | Some l => Some (if (d <? 0)%Z then SA "raised" else enc_res (enc_arr (flat_map leaves l)) (m_cat l (Z.to_nat d)))
      | None => None
      end
  | "stack-plan", [SZ lsd; SZ d] =>
      Some (if ((lsd <? 0) || (d <? 0))%Z then SA "raised"
            else let p := stack_lazy_plan (Z.to_nat lsd) (Z.to_nat d) in SL [enc_nat (fst p); enc_nat (snd p)])
  | _, _ => None
  end.
