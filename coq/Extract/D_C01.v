(* C01 — decoding of tree snapshots / values / ops, evaluation with the model, canonical printing. *)
From Coq Require Import ZArith List String Bool.
Import ListNotations.
From TD Require Import Lib.Sexp Model.C01_Tree Model.C01_Ops Model.C01_Scope Model.C01_Index Model.C01_All Model.C01_Lazy.
From TD Require Model.C03_Index.
Open Scope string_scope.
Open Scope list_scope.

Definition dec_dev (s : sexp) : option dev :=
  match s with SA "cpu" => Some CPU | SA "meta" => Some META | _ => None end.
Definition dec_odev (s : sexp) : option (option dev) :=
  match s with SA "none" => Some None | _ => option_map Some (dec_dev s) end.
Definition dec_name (s : sexp) : option (option string) :=
  match s with SA "none" => Some None | SA a => Some (Some a) | _ => None end.
Definition dec_names (s : sexp) : option dnames :=
  match s with SA "none" => Some None | _ => option_map Some (dec_list dec_name s) end.
Definition dec_kind (s : sexp) : option nkind :=
  match s with SA "td" => Some KTd | SA "nt" => Some KNt | _ => None end.

Fixpoint dec_tree (s : sexp) : option tree :=
  match s with
  | SL [SA "leaf"; sh; d] =>
      match dec_list dec_nat sh, dec_dev d with Some sh, Some d => Some (Leaf sh d) | _, _ => None end
  | SL [SA "node"; k; bs; dv; nm; SL es] =>
      match dec_kind k, dec_list dec_nat bs, dec_odev dv, dec_names nm,
            (fix go (l : list sexp) : option ents :=
               match l with
               | [] => Some []
               | SL [SA key; c] :: r => match dec_tree c, go r with Some c, Some r => Some ((key, c) :: r) | _, _ => None end
               | _ => None
               end) es with
      | Some k, Some bs, Some dv, Some nm, Some es => Some (Node k bs dv nm es)
      | _, _, _, _, _ => None
      end
  | _ => None
  end.

Fixpoint dec_value (s : sexp) : option value :=
  match s with
  | SA "vs" => Some VStr
  | SL [SA "vt"; t] => option_map VTree (dec_tree t)
  | SL [SA "vd"; SL items] =>
      option_map VDict
        ((fix go (l : list sexp) : option (list (string * value)) :=
            match l with
            | [] => Some []
            | SL [SA key; v] :: r => match dec_value v, go r with Some v, Some r => Some ((key, v) :: r) | _, _ => None end
            | _ => None
            end) items)
  | _ => None
  end.

Definition dec_key (s : sexp) : option (list string) := dec_list dec_str s.
Definition dec_rname (s : sexp) : option rname :=
  match s with SA "ell" => Some REll | SA "none" => Some (RN None) | SA a => Some (RN (Some a)) | _ => None end.

Definition dec_op0 (s : sexp) : option op0 :=
  match s with
  | SL [SA "set"; k; v; ip] =>
      match dec_key k, dec_value v, dec_bool ip with Some k, Some v, Some ip => Some (OSet k v ip) | _, _, _ => None end
  | SL [SA "set_"; k; v] => match dec_key k, dec_value v with Some k, Some v => Some (OSet_ k v) | _, _ => None end
  | SL [SA "setdefault"; k; v] => match dec_key k, dec_value v with Some k, Some v => Some (OSetDefault k v) | _, _ => None end
  | SL [SA "setnt"; k] => option_map OSetNonTensor (dec_key k)
  | SL [SA "update"; v; ip] => match dec_value v, dec_bool ip with Some v, Some ip => Some (OUpdate v ip) | _, _ => None end
  | SL [SA "del"; k] => option_map ODel (dec_key k)
  | SL [SA "pop"; k; d] => match dec_key k, dec_bool d with Some k, Some d => Some (OPop k d) | _, _ => None end
  | SL [SA "popitem"] => Some OPopItem
  | SL [SA "rename"; a; b; sf] =>
      match dec_key a, dec_key b, dec_bool sf with Some a, Some b, Some sf => Some (ORename a b sf) | _, _, _ => None end
  | SL [SA "bs"; sz; l] => match dec_bool sz, dec_list dec_nat l with Some sz, Some l => Some (OBatchSize sz l) | _, _ => None end
  | SL [SA "names"; n] => option_map ONames (dec_names n)
  | SL [SA "refine"; l] => option_map ORefine (dec_list dec_rname l)
  | SL [SA "autobs"; k] => option_map OAutoBS (dec_opt dec_nat k)
  | SL [SA "flatten"; SA sep] => Some (OFlatten sep)
  | SL [SA "unflatten"; SA sep] => Some (OUnflatten sep)
  | SL [SA "select"; ks; st] =>
      match dec_list dec_key ks, dec_bool st with Some ks, Some st => Some (OSelect ks st) | _, _ => None end
  | SL [SA "exclude"; ks] => option_map OExclude (dec_list dec_key ks)
  | SL [SA "create"; k] => option_map OCreateNested (dec_key k)
  | SL [SA "clear"] => Some OClear
  | _ => None
  end.

Definition dec_op (s : sexp) : option op :=
  match s with
  | SL [SA "at"; p; o] => match dec_key p, dec_op0 o with Some p, Some o => Some (OAt p o) | _, _ => None end
  | _ => None
  end.

(* ---- index items (Model/C03_Index.item) ---- *)
Definition dec_item (s : sexp) : option C03_Index.item :=
  match s with
  | SL [SA "int"; SZ z] => Some (C03_Index.IInt z)
  | SL [SA "sl"; a; b; c] =>
      match dec_opt dec_Z a, dec_opt dec_Z b, dec_opt dec_Z c with
      | Some a, Some b, Some c => Some (C03_Index.ISl a b c)
      | _, _, _ => None
      end
  | SA "non" => Some C03_Index.INone
  | SA "ell" => Some C03_Index.IEll
  | SL [SA "adv"; sh] => option_map C03_Index.IAdv (dec_list dec_nat sh)
  | SA "adv0" => Some C03_Index.IAdv0
  | SL [SA "mask"; sh; c] =>
      match dec_list dec_nat sh, dec_nat c with Some sh, Some c => Some (C03_Index.IMask sh c) | _, _ => None end
  | _ => None
  end.
Definition dec_idx (s : sexp) : option idx := dec_list dec_item s.

Definition dec_iop (s : sexp) : option iop :=
  match s with
  | SL [SA "setitem"; ix; v] => match dec_idx ix, dec_value v with Some ix, Some v => Some (ISetItem ix v) | _, _ => None end
  | SL [SA "setat"; k; ix; v] =>
      match dec_key k, dec_idx ix, dec_value v with Some k, Some ix, Some v => Some (ISetAt k ix v) | _, _, _ => None end
  | SL [SA "updateat"; v; ix] => match dec_value v, dec_idx ix with Some v, Some ix => Some (IUpdateAt v ix) | _, _ => None end
  | _ => None
  end.

Definition dec_xop (s : sexp) : option xop :=
  match s with
  | SL [SA "at"; p; o] =>
      match dec_key p with
      | Some p =>
          match dec_op0 o with
          | Some o0 => Some (XBase (OAt p o0))
          | None => match dec_iop o with Some io => Some (XIdx p io) | None => None end
          end
      | None => None
      end
  | _ => None
  end.

Definition enc_dev (d : dev) : sexp := SA (match d with CPU => "cpu" | META => "meta" end).
Definition enc_odev (d : option dev) : sexp := match d with None => SA "none" | Some d => enc_dev d end.
Definition enc_name (n : option string) : sexp := match n with None => SA "none" | Some a => SA a end.
Definition enc_names (n : dnames) : sexp := match n with None => SA "none" | Some l => SL (map enc_name l) end.

Fixpoint enc_tree (t : tree) : sexp :=
  match t with
  | Leaf sh d => SL [SA "leaf"; enc_list enc_nat sh; enc_dev d]
  | Node k bs dv nm es =>
      SL [SA "node"; SA (match k with KTd => "td" | KNt => "nt" end); enc_list enc_nat bs; enc_odev dv; enc_names nm;
          SL ((fix go (es : ents) : list sexp := match es with [] => [] | (key, c) :: r => SL [SA key; enc_tree c] :: go r end) es)]
  end.

Definition enc_outcome (o : outcome) : sexp :=
  SA (match o with Done => "ok" | Raised => "raise" | Unmodelled => "unmodelled" end).

(* ---- lazy stacks at the root ---- *)
Definition dec_lstack (s : sexp) : option lstack :=
  match s with
  | SL [SA "lstack"; d; ms] => match dec_nat d, dec_list dec_tree ms with Some d, Some ms => Some (LStack d ms) | _, _ => None end
  | _ => None
  end.
Definition enc_lstack (L : lstack) : sexp :=
  match L with LStack d ms => SL [SA "lstack"; enc_nat d; enc_list enc_tree ms; enc_list enc_nat (lbs L); enc_odev (ldev L)] end.
Definition dec_lop (s : sexp) : option lop :=
  match s with
  | SL [SA "set"; k; v; ip] =>
      match dec_key k, dec_value v, dec_bool ip with Some k, Some v, Some ip => Some (LSet k v ip) | _, _, _ => None end
  | SL [SA "set_"; k; v] => match dec_key k, dec_value v with Some k, Some v => Some (LSet_ k v) | _, _ => None end
  | SL [SA "del"; k] => option_map LDel (dec_key k)
  | SL [SA "insert"; i; v] => match dec_nat i, dec_value v with Some i, Some v => Some (LInsert i v) | _, _ => None end
  | SL [SA "append"; v] => option_map LAppend (dec_value v)
  | SL [SA "bs"; sz; l] => match dec_bool sz, dec_list dec_nat l with Some sz, Some l => Some (LBatchSize sz l) | _, _ => None end
  | _ => None
  end.

Definition dispatch (cmd : string) (args : list sexp) : option sexp :=
  match cmd, args with
  | "step", [t; o] =>
      match dec_tree t, dec_op o with
      | Some t, Some o =>
          let r := step t o in
          Some (SL [enc_tree (fst r); enc_outcome (snd r); enc_bool (coherentb t); enc_bool (coherentb (fst r));
                    enc_bool (in_scopeb t o); enc_bool (cleanb t o)])
      | _, _ => None
      end
  | "xstep", [t; o] =>
      match dec_tree t, dec_xop o with
      | Some t, Some o =>
          let r := xstep t o in
          Some (SL [enc_tree (fst r); enc_outcome (snd r); enc_bool (coherentb t); enc_bool (coherentb (fst r));
                    enc_bool (x_in_scopeb t o); enc_bool (x_cleanb t o)])
      | _, _ => None
      end
  | "lstep", [L; o] =>
      match dec_lstack L, dec_lop o with
      | Some L, Some o =>
          let r := lstep L o in
          Some (SL [enc_lstack (fst r); enc_outcome (snd r); enc_bool (lcohb L); enc_bool (lcohb (fst r)); enc_bool (lop_value_ok o)])
      | _, _ => None
      end
  | "coh", [t] => match dec_tree t with Some t => Some (enc_bool (coherentb t)) | None => None end
  | _, _ => None
  end.
