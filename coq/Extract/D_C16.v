From Coq Require Import ZArith List String Bool.
Import ListNotations.
From TD Require Import Lib.Sexp Spec.PySlice Spec.C16_ObjArray Model.C16_NonTensor Model.C16_ShapeOps.
From TD Require Model.C02_ShapeOps.
Open Scope string_scope.

Fixpoint dec_nt_f (fuel : nat) (s : sexp) : option nt :=
  match fuel with
  | O => None
  | S f =>
      match s with
      | SL [SA "sh"; SZ p; sh] => option_map (Shared p) (dec_list dec_nat sh)
      | SL [SA "st"; d; SL ms] =>
          match dec_nat d, dec_list_aux (dec_nt_f f) ms with
          | Some d, Some l => Some (Stack d l) | _, _ => None end
      | _ => None
      end
  end.
Definition dec_nt := dec_nt_f 64.

Fixpoint enc_nt (x : nt) : sexp :=
  match x with
  | Shared p sh => SL [SA "sh"; SZ p; enc_list enc_nat sh]
  | Stack d l => SL [SA "st"; enc_nat d; SL (map enc_nt l)]
  end.

Definition dec_item (s : sexp) : option item :=
  match s with
  | SL [SA "int"; SZ i] => Some (IInt i)
  | SL [SA "sl"; a; b; c] =>
      match dec_opt dec_Z a, dec_opt dec_Z b, dec_opt dec_Z c with
      | Some a, Some b, Some c => Some (ISl a b c) | _, _, _ => None end
  | SA "non" => Some INone
  | SL [SA "ten"; sh; vals] =>
      match dec_list dec_nat sh, dec_list dec_Z vals with Some sh, Some v => Some (ITen sh v) | _, _ => None end
  | SL [SA "mask"; sh; bits] =>
      match dec_list dec_nat sh, dec_list dec_bool bits with Some sh, Some b => Some (IMask sh b) | _, _ => None end
  | _ => None
  end.

Definition enc_res {A} (f : A -> sexp) (r : res A) : sexp :=
  match r with Ok a => SL [SA "ok"; f a] | Raised => SA "raised" | OutOfModel => SA "out-of-model" end.

Fixpoint enc_tree (t : tree) : sexp :=
  match t with Leaf p => SZ p | Node l => SL (map enc_tree l) end.

Definition enc_got (g : got) : sexp :=
  match g with GOne p => SL [SA "one"; SZ p] | GList t => SL [SA "list"; enc_tree t] end.

(* the shape operations as the user spells them (C02's sop) *)
Definition dec_sop (s : sexp) : option C02_ShapeOps.sop :=
  match s with
  | SL [SA "permute"; d] => option_map C02_ShapeOps.OPermute (dec_list dec_Z d)
  | SL [SA "transpose"; SZ a; SZ b] => Some (C02_ShapeOps.OTranspose a b)
  | SA "squeeze-all" => Some (C02_ShapeOps.OSqueeze None)
  | SL [SA "squeeze"; SZ d] => Some (C02_ShapeOps.OSqueeze (Some d))
  | SL [SA "unsqueeze"; SZ d] => Some (C02_ShapeOps.OUnsqueeze d)
  | SL [SA "expand"; sh] => option_map C02_ShapeOps.OExpand (dec_list dec_Z sh)
  | SL [SA "view"; sh] => option_map C02_ShapeOps.OView (dec_list dec_Z sh)
  | SL [SA "reshape"; sh] => option_map C02_ShapeOps.OReshape (dec_list dec_Z sh)
  | SL [SA "flatten"; SZ a; SZ b] => Some (C02_ShapeOps.OFlatten a b)
  | SL [SA "unflatten"; SZ d; sz] => option_map (C02_ShapeOps.OUnflatten d) (dec_list dec_Z sz)
  | SL [SA "repeat"; r] => option_map C02_ShapeOps.ORepeat (dec_list dec_Z r)
  | SL [SA "repint"; SZ r; SZ d] => Some (C02_ShapeOps.ORepInt r d)
  | _ => None
  end.

Definition enc_sres (r : sres) : sexp :=
  match r with
  | SOk y => SL [SA "ok"; enc_nt y]
  | SLost bs => SL [SA "lost"; enc_list enc_nat bs]
  | SRaised => SA "raised"
  | SReorg => SA "reorganised"
  | SOut => SA "out-of-model"
  end.

Fixpoint dec_tree_f (fuel : nat) (s : sexp) : option tree :=
  match fuel with
  | O => None
  | S f =>
      match s with
      | SZ p => Some (Leaf p)
      | SL l => option_map Node (dec_list_aux (dec_tree_f f) l)
      | _ => None
      end
  end.

Definition denote_all (x : nt) : option (list (option payload)) :=
  option_map (fun s => map (denote x) (all_indices s)) (shape x).

Definition src_all (idx : list item) (sh : list nat) : option (list nat * list (option (list nat))) :=
  option_map (fun r => (r, map (ix_src idx sh) (all_indices r))) (ix_shape idx sh).

Definition dispatch (cmd : string) (args : list sexp) : option sexp :=
  match cmd, args with
  | "index", [x; idx] =>
      match dec_nt x, dec_list dec_item idx with
      | Some x, Some idx => Some (enc_res enc_nt (index x idx)) | _, _ => None end
  | "select", [k; dim; x] =>
      match dec_nat k, dec_nat dim, dec_nt x with
      | Some k, Some dim, Some x => Some (enc_res enc_nt (select k dim x)) | _, _, _ => None end
  | "unbind", [dim; x] =>
      match dec_nat dim, dec_nt x with
      | Some dim, Some x => Some (enc_res (enc_list enc_nt) (unbind dim x)) | _, _ => None end
  | "stack", [l; dim] =>
      match dec_list dec_nt l, dec_nat dim with
      | Some l, Some dim => Some (enc_res enc_nt (stack_nt l dim)) | _, _ => None end
  | "to-stack", [x] => option_map (fun x => enc_res enc_nt (maybe_to_stack x)) (dec_nt x)
  | "from-ntd", [x] => option_map (fun x => enc_res enc_nt (from_nontensordata x)) (dec_nt x)
  | "tolist", [x] => option_map (fun x => enc_res enc_tree (tolist x)) (dec_nt x)
  | "data", [x] => option_map (fun x => enc_opt enc_Z (data_prop x)) (dec_nt x)
  | "get-non-tensor", [x; SZ none_id] => option_map (fun x => enc_res enc_got (get_non_tensor none_id x)) (dec_nt x)
  | "to-dict", [x] => option_map (fun x => enc_res enc_got (to_dict x)) (dec_nt x)
  | "set-at", [x; idx; v; vexp] =>
      match dec_nt x, dec_list dec_item idx, dec_nt v, dec_nt vexp with
      | Some x, Some idx, Some v, Some ve => Some (enc_res enc_nt (set_at x idx v ve)) | _, _, _, _ => None end
  | "lazy-stack", [l; dim] =>
      match dec_list dec_nt l, dec_nat dim with
      | Some l, Some dim => Some (enc_res enc_nt (lazy_stack_nt l dim)) | _, _ => None end
  | "assign", [x; idx; v] =>
      match dec_nt x, dec_list dec_item idx, dec_nt v with
      | Some x, Some idx, Some v => Some (enc_res enc_nt (assign x idx v)) | _, _, _ => None end
  | "set-item", [x; idx; v] =>
      match dec_nt x, dec_list dec_item idx, dec_nt v with
      | Some x, Some idx, Some v => Some (enc_res enc_nt (set_item x idx v)) | _, _, _ => None end
  | "update-in", [x; v] =>
      match dec_nt x, dec_nt v with
      | Some x, Some v => Some (enc_res enc_nt (update_in x v)) | _, _ => None end
  | "shape", [x] => option_map (fun x => enc_opt (enc_list enc_nat) (shape x)) (dec_nt x)
  | "wf", [x] => option_map (fun x => enc_bool (wf x)) (dec_nt x)
  | "denote-all", [x] => option_map (fun x => enc_opt (enc_list (enc_opt enc_Z)) (denote_all x)) (dec_nt x)
  | "src-all", [idx; sh] =>
      match dec_list dec_item idx, dec_list dec_nat sh with
      | Some idx, Some sh =>
          Some (enc_opt (fun p => SL [enc_list enc_nat (fst p); enc_list (enc_opt (enc_list enc_nat)) (snd p)]) (src_all idx sh))
      | _, _ => None end
  | "reshape", [x; sh] =>
      match dec_nt x, dec_list dec_nat sh with
      | Some x, Some sh => Some (enc_res enc_nt (reshape_shared x sh)) | _, _ => None end
  | "permute", [x; p] =>
      match dec_nt x, dec_list dec_nat p with
      | Some x, Some p => Some (enc_res enc_nt (permute_shared x p)) | _, _ => None end
  | "unsqueeze", [x; d] =>
      match dec_nt x, dec_nat d with
      | Some x, Some d => Some (enc_res enc_nt (unsqueeze_shared x d)) | _, _ => None end
  | "squeeze", [x; d] =>
      match dec_nt x, dec_nat d with
      | Some x, Some d => Some (enc_res enc_nt (squeeze_shared x d)) | _, _ => None end
  | "expand", [x; sh] =>
      match dec_nt x, dec_list dec_nat sh with
      | Some x, Some sh => Some (enc_res enc_nt (expand_shared_to x sh)) | _, _ => None end
  | "shape-op", [o; x] =>
      match dec_sop o, dec_nt x with
      | Some o, Some x => Some (enc_sres (shape_op o x)) | _, _ => None end
  | "from-list", [t] => option_map (fun t => enc_res enc_nt (from_list t)) (dec_tree_f 16 t)
  | "cat-entries", [l; dim] =>
      match dec_list dec_nt l, dec_nat dim with
      | Some l, Some dim => Some (enc_res enc_nt (cat_entries l dim)) | _, _ => None end
  | "cat", [l; dim] =>
      match dec_list dec_nt l, dec_nat dim with
      | Some l, Some dim => Some (enc_res enc_nt (cat_nt l dim)) | _, _ => None end
  | _, _ => None
  end.
