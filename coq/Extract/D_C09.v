(* C09 — protocol entry points of the extracted model (decode arguments, call the model, canonical result).
   Values are integer ids chosen by the harness (self leaf i -> i, operand leaves -> 100+j / 200+j, default -> -1). *)
From Coq Require Import ZArith List String Bool.
Import ListNotations.
From TD Require Import Lib.Sexp Model.Dual Model.C09_Align Model.C09_Shape Model.C09_Reduce Model.C09_Lazy.
Open Scope string_scope.

Definition dec_items (s : sexp) : option (list (string * Z)) := dec_list (dec_pair dec_str dec_Z) s.

Definition dec_operand (s : sexp) : option (@operand Z) :=
  match s with
  | SA "scalar" => Some OpScalar
  | SL [SA "td"; l] => option_map OpTd (dec_items l)
  | _ => None
  end.
Definition dec_dflt (s : sexp) : option (@dflt Z) :=
  match s with
  | SA "none" => Some DNone
  | SA "inter" => Some DInter
  | SA "val" => Some (DVal (-1)%Z)
  | _ => None
  end.
Definition dec_family (s : sexp) : option family :=
  match s with SA "foreach" => Some Foreach | SA "loop" => Some Loop | SA "swallow" => Some ForeachSwallow | _ => None end.

Definition enc_rhs (r : @rhs Z) : sexp :=
  match r with RLeaf v => SL [SA "leaf"; SZ v] | ROperand => SA "operand" | RUnchanged => SA "unchanged" end.
Definition enc_res {A} (f : A -> sexp) (r : res A) : sexp :=
  match r with Ok a => SL [SA "ok"; f a] | Raised => SA "raise" end.

Definition enc_bin (l : list (string * (Z * @rhs Z))) : sexp :=
  SL (map (fun e => SL [SA (fst e); SZ (fst (snd e)); enc_rhs (snd (snd e))]) l).
Definition enc_tern (l : list (string * (Z * @rhs Z * @rhs Z))) : sexp :=
  SL (map (fun e => let '(k, (v, r1, r2)) := e in SL [SA k; SZ v; enc_rhs r1; enc_rhs r2]) l).
Definition enc_clamp (l : list (string * (Z * option Z * option Z))) : sexp :=
  SL (map (fun e => let '(k, (v, lo, hi)) := e in SL [SA k; SZ v; enc_opt enc_Z lo; enc_opt enc_Z hi]) l).

(* trees of the comparison model:  leaf = integer, node = (n (key tree) ...) *)
Fixpoint dec_tree (s : sexp) : option (tree Z) :=
  match s with
  | SZ z => Some (Leaf z)
  | SL (SA "n" :: l) =>
      option_map Node ((fix go (l : list sexp) : option (list (string * tree Z)) :=
        match l with
        | [] => Some []
        | SL [SA k; t] :: r => match dec_tree t, go r with Some a, Some b => Some ((k, a) :: b) | _, _ => None end
        | _ => None
        end) l)
  | _ => None
  end.
Fixpoint enc_ctree (t : ctree Z) : sexp :=
  match t with
  | CLeaf a b => SL [SA "l"; SZ a; SZ b]
  | CNode c => SL (SA "n" :: map (fun kv => SL [SA (fst kv); enc_ctree (snd kv)]) c)
  end.
Definition enc_cres (r : @cres Z) : sexp :=
  match r with COk t => SL [SA "ok"; enc_ctree t] | CRaised => SA "raise" | CKind => SA "kind" end.

Definition dec_shape (s : sexp) : option shape := dec_list dec_nat s.
Definition enc_shape (s : shape) : sexp := enc_list enc_nat s.
Definition dec_okind (s : sexp) : option okind :=
  match s with
  | SA "none" => Some KNone
  | SA "py" => Some KPy
  | SL [SA "t"; sh] => option_map KTensor (dec_shape sh)
  | SL [SA "td"; sh] => option_map KTd (dec_shape sh)
  | _ => None
  end.
Definition enc_bplan (p : bplan) : sexp :=
  match p with
  | BDirect => SA "direct"
  | BPerLeaf B => SL [SA "perleaf"; enc_shape B]
  | BRecurse B => SL [SA "recurse"; enc_shape B]
  | BRaised => SA "raise"
  end.

Definition dec_dim (s : sexp) : option dimarg :=
  match s with
  | SA "nodefault" => Some DimNoDefault
  | SA "none" => Some DimNone
  | SA "feature" => Some DimFeature
  | SL [SA "int"; SZ z] => Some (DimInt z)
  | SL (SA "tuple" :: l) => option_map DimTuple (dec_list_aux dec_Z l)
  | _ => None
  end.
Definition dec_kd (s : sexp) : option kdarg :=
  match s with SA "nodefault" => Some KdNoDefault | SA "t" => Some KdTrue | SA "f" => Some KdFalse | _ => None end.
Definition dec_name (s : sexp) : option (option string) :=
  match s with SA "none" => Some None | SA a => Some (Some a) | _ => None end.
Definition dec_names (s : sexp) : option names_t := dec_opt (dec_list dec_name) s.
Definition dec_redop (s : sexp) : option redop :=
  match s with
  | SA "tuple" => Some RTuple | SA "single" => Some RSingle | SA "cum" => Some RCum | SA "prod" => Some RProd
  | SA "aminmax" => Some RAminmax
  | _ => None
  end.
Definition enc_name (n : option string) : sexp := match n with Some a => SA a | None => SA "none" end.
Definition enc_kd (k : kdarg) : sexp := match k with KdNoDefault => SA "nodefault" | KdTrue => SA "t" | KdFalse => SA "f" end.
Definition enc_pdim (d : pdim) : sexp :=
  match d with
  | PNoDefault => SA "nodefault" | PNone => SA "none" | PFeature => SA "feature"
  | PInt z => SL [SA "int"; SZ z]
  | PTuple l => SL (SA "tuple" :: map enc_nat l)
  end.
Definition enc_call (c : leafcall) : sexp :=
  match c with
  | LcPlain => SA "plain"
  | LcFeature => SA "feature"
  | LcDim d k => SL [SA "dim"; enc_pdim d; enc_kd k]
  end.
Definition enc_post (p : post) : sexp :=
  match p with PostNone => SA "nopost" | PostUnsqueeze n => SL [SA "unsqueeze"; enc_nat n] | PostReshapeOnes => SA "reshape-ones" end.
Definition enc_red (r : red_out) : sexp :=
  SL [enc_shape (ro_bs r); enc_opt (enc_list enc_name) (ro_names r); enc_call (ro_call r); enc_post (ro_post r)].

Definition dec_dunder (s : sexp) : option dunder :=
  match s with
  | SA "__add__" => Some DuAdd | SA "__radd__" => Some DuRadd | SA "__iadd__" => Some DuIadd
  | SA "__sub__" => Some DuSub | SA "__rsub__" => Some DuRsub | SA "__isub__" => Some DuIsub
  | SA "__mul__" => Some DuMul | SA "__rmul__" => Some DuRmul | SA "__imul__" => Some DuImul
  | SA "__truediv__" => Some DuTruediv | SA "__rtruediv__" => Some DuRtruediv | SA "__itruediv__" => Some DuItruediv
  | SA "__pow__" => Some DuPow | SA "__rpow__" => Some DuRpow | SA "__ipow__" => Some DuIpow
  | SA "__and__" => Some DuAnd | SA "__rand__" => Some DuRand | SA "__or__" => Some DuOr | SA "__ror__" => Some DuRor
  | SA "__xor__" => Some DuXor | SA "__rxor__" => Some DuRxor
  | _ => None
  end.
Definition enc_method (m : method) : sexp :=
  SA (match m with MAdd => "add" | MSub => "sub" | MMul => "mul" | MDiv => "div" | MPow => "pow" | MAnd => "and"
               | MOr => "or" | MXor => "xor" | MMulRecip => "mul-reciprocal" | MNegAdd => "neg-add" | MNotImpl => "not-implemented" end).

Definition dec_cmp (s : sexp) : option cmp :=
  match s with
  | SA "__lt__" => Some CLt | SA "__le__" => Some CLe | SA "__gt__" => Some CGt | SA "__ge__" => Some CGe
  | SA "__eq__" => Some CEq | SA "__ne__" => Some CNe | _ => None
  end.
Definition enc_cmp (c : cmp) : sexp :=
  SA (match c with CLt => "__lt__" | CLe => "__le__" | CGt => "__gt__" | CGe => "__ge__" | CEq => "__eq__" | CNe => "__ne__" end).

(* lazy stacks: members = list of item lists; a member-indexed key is printed back as (i key) *)
Definition dec_lazy (s : sexp) : option (@lazy Z) := dec_list dec_items s.
Definition dec_lazy_operand (s : sexp) : option (@lazy_operand Z) :=
  match s with
  | SA "scalar" => Some LOpScalar
  | SL [SA "lazy"; l] => option_map LOpLazy (dec_lazy l)
  | _ => None
  end.
Definition enc_lazy_result (r : lazy_result (Z * @rhs Z)) : sexp :=
  match r with
  | LzMembers ms => SL [SA "members"; SL (map enc_bin ms)]
  | LzStray ms st => SL [SA "stray"; SL (map enc_bin ms); enc_bin st]
  end.
Definition enc_lplan (p : lplan) : sexp :=
  match p with
  | LDirect => SA "direct"
  | LMember B sd q => SL [SA "member"; enc_shape B; enc_bplan q; enc_nat sd]
  | LDense q => SL [SA "dense"; enc_bplan q]
  | LUnsliced B => SL [SA "unsliced"; enc_shape B]
  | LRaised => SA "raise"
  end.
Definition enc_sm (p : sm_plan) : sexp :=
  match p with
  | SmDense d => SL [SA "dense"; enc_nat d]
  | SmMember d => SL [SA "member"; enc_nat d]
  | SmLeaf d => SL [SA "leaf"; enc_nat d]
  | SmRaised => SA "raise"
  end.

Definition dispatch (cmd : string) (args : list sexp) : option sexp :=
  match cmd, args with
  | "lazybinary", [f; d; s; o] =>
      match dec_family f, dec_dflt d, dec_lazy s, dec_lazy_operand o with
      | Some f, Some d, Some s, Some o => Some (enc_res enc_lazy_result (lazy_binary_plan fixed_lazy fixed_D49 f s o d))
      | _, _, _, _ => None
      end
  | "lazybcast", [bs; sd; het; os] =>
      match dec_shape bs, dec_nat sd, dec_bool het, dec_list dec_okind os with
      | Some bs, Some sd, Some het, Some os => Some (enc_lplan (lazy_maybe_broadcast fixed_lazy het bs sd os))
      | _, _, _, _ => None
      end
  | "expandmember", [bs; B; sd; i; jb] =>
      match dec_shape bs, dec_shape B, dec_nat sd, dec_nat i, dec_list dec_nat jb with
      | Some bs, Some B, Some sd, Some i, Some jb =>
          let sd' := expand_stack_dim bs sd B in
          Some (SL [enc_nat sd'; enc_list enc_nat (bidx bs (insert_at sd' i jb))])
      | _, _, _, _, _ => None
      end
  | "lazysoftmax", [nb; sd; SZ dim] =>
      match dec_nat nb, dec_nat sd with
      | Some nb, Some sd => Some (enc_sm (lazy_softmax fixed_lazy nb sd dim))
      | _, _ => None
      end
  | "lazyreduce", [op; bs; names; dim; kd] =>
      match dec_redop op, dec_shape bs, dec_names names, dec_dim dim, dec_kd kd with
      | Some op, Some bs, Some names, Some dim, Some kd => Some (enc_res enc_red (lazy_front fixed_reduce op bs names dim kd))
      | _, _, _, _, _ => None
      end
  | "memberview", [s; B; sd; i; feat; p] =>
      match dec_shape s, dec_shape B, dec_nat sd, dec_nat i, dec_shape feat, dec_list dec_nat p with
      | Some s, Some B, Some sd, Some i, Some feat, Some p =>
          Some (enc_res (fun v => SL [enc_shape (vshape v); enc_list enc_nat (vidx v p)]) (member_operand_view s B sd i feat))
      | _, _, _, _, _, _ => None
      end
  | "binary", [f; cl; d; s; o] =>
      match dec_family f, dec_bool cl, dec_dflt d, dec_items s, dec_operand o with
      | Some f, Some cl, Some d, Some s, Some o => Some (enc_res enc_bin (binary_plan fixed_D49 f cl s o d))
      | _, _, _, _, _ => None
      end
  | "inplace", [f; fx; s; o] =>
      match dec_family f, dec_bool fx, dec_items s, dec_operand o with
      | Some f, Some fx, Some s, Some o => Some (enc_res enc_bin (inplace_plan f (fx || fixed_inplace_extra) s o))
      | _, _, _, _ => None
      end
  | "ternary", [fx; s; o1; o2] =>
      match dec_bool fx, dec_items s, dec_operand o1, dec_operand o2 with
      | Some fx, Some s, Some o1, Some o2 => Some (enc_res enc_tern (ternary_plan (fx || fixed_D18) fixed_inplace_extra s o1 o2))
      | _, _, _, _ => None
      end
  | "dunder", [d] =>
      option_map (fun d => let '(m, ip, sf) := dunder_impl fixed_rsub d in SL [enc_method m; enc_bool ip; enc_bool sf])
                 (dec_dunder d)
  | "cmpdispatch", [c; SA "tc"] => option_map (fun c => enc_cmp (tc_dispatch c)) (dec_cmp c)
  | "cmpdispatch", [c; SA "lazy"] => option_map (fun c => enc_cmp (lazy_dispatch c)) (dec_cmp c)
  | "clamp", [s; lo; hi] =>
      match dec_items s, dec_items lo, dec_items hi with
      | Some s, Some lo, Some hi => Some (SL [SA "ok"; enc_clamp (clamp_plan s lo hi)])
      | _, _, _ => None
      end
  | "compare", [a; b] =>
      match dec_tree a, dec_tree b with
      | Some a, Some b => Some (enc_cres (cmp_tree a b))
      | _, _ => None
      end
  | "bcast", [bs; os] =>
      match dec_shape bs, dec_list dec_okind os with
      | Some bs, Some os => Some (enc_bplan (maybe_broadcast bs os))
      | _, _ => None
      end
  | "opview", [s; B; feat; i] =>
      match dec_shape s, dec_shape B, dec_shape feat, dec_list dec_nat i with
      | Some s, Some B, Some feat, Some i =>
          Some (enc_res (fun v => SL [enc_shape (vshape v); enc_list enc_nat (vidx v i)]) (operand_view s B feat))
      | _, _, _, _ => None
      end
  | "reduce", [op; bs; names; dim; kd] =>
      match dec_redop op, dec_shape bs, dec_names names, dec_dim dim, dec_kd kd with
      | Some op, Some bs, Some names, Some dim, Some kd => Some (enc_res enc_red (front fixed_reduce op bs names dim kd))
      | _, _, _, _, _ => None
      end
  | _, _ => None
  end.
