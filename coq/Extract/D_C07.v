(* C07 dispatch: decodes a program (fixture construction + history + the operation under test), runs the alias/heap
   model, prints the outcome of every instruction and the final heap (storages, nodes, registers) raw; the harness
   renames identities canonically (first appearance) on both sides. *)
From Coq Require Import ZArith List String Bool Arith.
Import ListNotations.
From TD Require Import Lib.Sexp Model.C07_Heap Model.C07_Alias Model.C07_Ext.
Open Scope string_scope.

Definition dec_path (s : sexp) : option path := dec_list dec_str s.
Definition dec_tri (s : sexp) : option tri :=
  match s with SA "false" => Some IFalse | SA "true" => Some ITrue | SA "best" => Some IBest | _ => None end.
Definition dec_pf (s : sexp) : option pf :=
  match s with
  | SA "neg" => Some PNeg
  | SA "abs" => Some PAbs
  | SL [SA "addc"; SZ c] => Some (PAddC c)
  | SL [SA "mulc"; SZ c] => Some (PMulC c)
  | SL [SA "const"; SZ c] => Some (PConst c)
  | _ => None
  end.
Definition dec_bf (s : sexp) : option bf :=
  match s with
  | SA "add" => Some BAdd | SA "sub" => Some BSub | SA "mul" => Some BMul
  | SA "max" => Some BMax | SA "min" => Some BMin | SA "snd" => Some BSnd
  | _ => None
  end.

Definition dec_instr (s : sexp) : option instr :=
  match s with
  | SL [SA "newt"; c; cs] =>
      match dec_list dec_Z c, dec_list dec_nat cs with Some c, Some cs => Some (INewT c cs) | _, _ => None end
  | SL [SA "newtd"; es] => option_map INewTD (dec_list (dec_pair dec_str dec_nat) es)
  | SL [SA "get"; r; p] => match dec_nat r, dec_path p with Some r, Some p => Some (IGet r p) | _, _ => None end
  | SL [SA "set_"; r; p; v] =>
      match dec_nat r, dec_path p, dec_nat v with Some r, Some p, Some v => Some (ISetU r p v) | _, _, _ => None end
  | SL [SA "update_"; r; o] => match dec_nat r, dec_nat o with Some r, Some o => Some (IUpdU r o) | _, _ => None end
  | SL [SA "set_at_"; r; p; v; nb; b] =>
      match dec_nat r, dec_path p, dec_nat v, dec_nat nb, dec_list dec_nat b with
      | Some r, Some p, Some v, Some nb, Some b => Some (ISetAt r p v nb b) | _, _, _, _, _ => None end
  | SL [SA "update_at_"; r; o; nb; b] =>
      match dec_nat r, dec_nat o, dec_nat nb, dec_list dec_nat b with
      | Some r, Some o, Some nb, Some b => Some (IUpdAt r o nb b) | _, _, _, _ => None end
  | SL [SA "setitem-scalar"; r; SZ z; nb; b] =>
      match dec_nat r, dec_nat nb, dec_list dec_nat b with
      | Some r, Some nb, Some b => Some (ISetItemSc r z nb b) | _, _, _ => None end
  | SL [SA "fill_"; r; p; SZ z] => match dec_nat r, dec_path p with Some r, Some p => Some (IFill r p z) | _, _ => None end
  | SL [SA "const_"; r; SZ z] => option_map (fun r => IConstU r z) (dec_nat r)
  | SL [SA "unary_"; r; f] => match dec_nat r, dec_pf f with Some r, Some f => Some (IUnaryU r f) | _, _ => None end
  | SL [SA "binary_"; r; f; o] =>
      match dec_nat r, dec_bf f, dec_nat o with Some r, Some f, Some o => Some (IBinaryU r f o) | _, _, _ => None end
  | SL [SA "set"; r; p; v; t] =>
      match dec_nat r, dec_path p, dec_nat v, dec_tri t with
      | Some r, Some p, Some v, Some t => Some (ISet r p v t) | _, _, _, _ => None end
  | SL [SA "update"; r; o; c; i] =>
      match dec_nat r, dec_nat o, dec_bool c, dec_bool i with
      | Some r, Some o, Some c, Some i => Some (IUpdate r o c i) | _, _, _, _ => None end
  | SL [SA "del"; r; p] => match dec_nat r, dec_path p with Some r, Some p => Some (IDel r p) | _, _ => None end
  | SL [SA "lock"; r; b] => match dec_nat r, dec_bool b with Some r, Some b => Some (ILock r b) | _, _ => None end
  | SL [SA "view"; r; nb; b; pl] =>
      match dec_nat r, dec_nat nb, dec_list dec_nat b, dec_bool pl with
      | Some r, Some nb, Some b, Some pl => Some (IViewB r nb b pl) | _, _, _, _ => None end
  | SL [SA "select"; r; ks] => match dec_nat r, dec_list dec_str ks with Some r, Some ks => Some (ISelect r ks) | _, _ => None end
  | SL [SA "exclude"; r; ks] => match dec_nat r, dec_list dec_str ks with Some r, Some ks => Some (IExclude r ks) | _, _ => None end
  | SL [SA "shallow"; r] => option_map IShallow (dec_nat r)
  | SL [SA "flatten-keys"; r; sep] => match dec_nat r, dec_str sep with Some r, Some sep => Some (IFlatten r sep) | _, _ => None end
  | SL [SA "clone"; r] => option_map IClone (dec_nat r)
  | SL [SA "gather"; r; nb; b] =>
      match dec_nat r, dec_nat nb, dec_list dec_nat b with Some r, Some nb, Some b => Some (IGather r nb b) | _, _, _ => None end
  | SL [SA "unary"; r; f; pl; fe] =>
      match dec_nat r, dec_pf f, dec_bool pl, dec_bool fe with
      | Some r, Some f, Some pl, Some fe => Some (IUnary r f pl fe) | _, _, _, _ => None end
  | SL [SA "binary"; r; f; o] =>
      match dec_nat r, dec_bf f, dec_nat o with Some r, Some f, Some o => Some (IBinary r f o) | _, _, _ => None end
  | SL [SA "contiguous"; r] => option_map IContig (dec_nat r)
  | _ => None
  end.

Definition enc_err (e : err) : sexp :=
  SA (match e with EKey => "key" | ELock => "lock" | EOverlap => "overlap" | EShape => "shape" | EFuel => "fuel" | EType => "type"
               | ENotModelled => "not-modelled" end).
Definition enc_outcome (o : outcome) : sexp :=
  match o with Done => SA "ok" | Raised e => SL [SA "raised"; enc_err e] end.
Definition enc_ref (r : ref) : sexp :=
  match r with
  | RLeaf v => SL [SA "leaf"; enc_nat (vsid v); enc_list enc_nat (vcells v)]
  | RNode n => SL [SA "node"; enc_nat n]
  end.
Definition enc_node (nd : node) : sexp :=
  SL [enc_bool (nlock nd); enc_list (fun kr : string * ref => SL [SA (fst kr); enc_ref (snd kr)]) (nents nd)].
Definition enc_cls (c : cls) : sexp :=
  SA (match c with CAlloc => "alloc" | CInplace => "inplace" | CBest => "best" | CStruct => "struct" | CView => "view"
               | CCopy => "copy" | CRule => "rule" end).

Definition enc_st (s : st) : sexp :=
  SL [SL (SA "regs" :: map enc_ref (regs s));
      SL (SA "stor" :: map (enc_list enc_Z) (hstor (hp s)));
      SL (SA "nodes" :: map enc_node (hnodes (hp s)))].

(* run until the first instruction that raises (that instruction's partial effect is kept, as in the model) *)
Fixpoint run_log (s : st) (prog : list instr) : st * list outcome :=
  match prog with
  | [] => (s, [])
  | i :: t =>
      match step s i with
      | (s', Done) => let '(s2, l) := run_log s' t in (s2, Done :: l)
      | (s', o) => (s', [o])
      end
  end.

(* ---------------------------------------------------------------- the other container kinds (Model/C07_Ext.v) *)
Definition dec_win (s : sexp) : option win :=
  match s with
  | SL [nb; sel; b] => match dec_nat nb, dec_list dec_nat sel, dec_bool b with
                       | Some nb, Some sel, Some b => Some (mkWin nb sel b) | _, _, _ => None end
  | _ => None
  end.
Definition dec_part (s : sexp) : option lpart :=
  match s with
  | SL [j; wh; nb; sel; vs] =>
      match dec_nat j, dec_bool wh, dec_nat nb, dec_list dec_nat sel, dec_opt (dec_list dec_nat) vs with
      | Some j, Some wh, Some nb, Some sel, Some vs => Some (mkPart j wh nb sel vs) | _, _, _, _, _ => None end
  | _ => None
  end.
Definition dec_xinstr (s : sexp) : option xinstr :=
  match s with
  | SL [SA "mksub"; r; w] => match dec_nat r, dec_win w with Some r, Some w => Some (XMkSub r w) | _, _ => None end
  | SL [SA "sub-get"; r; p] => match dec_nat r, dec_path p with Some r, Some p => Some (XSubGet r p) | _, _ => None end
  | SL [SA "sub-set_"; r; p; v] =>
      match dec_nat r, dec_path p, dec_nat v with Some r, Some p, Some v => Some (XSubSetU r p v) | _, _, _ => None end
  | SL [SA "sub-update_"; r; o] => match dec_nat r, dec_nat o with Some r, Some o => Some (XSubUpdU r o) | _, _ => None end
  | SL [SA "sub-set_at_"; r; p; v; w] =>
      match dec_nat r, dec_path p, dec_nat v, dec_win w with
      | Some r, Some p, Some v, Some w => Some (XSubSetAt r p v w) | _, _, _, _ => None end
  | SL [SA "sub-fill_"; r; p; SZ z] => match dec_nat r, dec_path p with Some r, Some p => Some (XSubFill r p z) | _, _ => None end
  | SL [SA "sub-const_"; r; SZ z] => option_map (fun r => XSubConstU r z) (dec_nat r)
  | SL [SA "sub-unary_"; r; f] => match dec_nat r, dec_pf f with Some r, Some f => Some (XSubUnaryU r f) | _, _ => None end
  | SL [SA "sub-binary_"; r; f; o] =>
      match dec_nat r, dec_bf f, dec_nat o with Some r, Some f, Some o => Some (XSubBinaryU r f o) | _, _, _ => None end
  | SL [SA "sub-clone"; r] => option_map XSubClone (dec_nat r)
  | SL [SA "sub-shallow"; r] => option_map XSubShallow (dec_nat r)
  | SL [SA "sub-select"; r; ks] => match dec_nat r, dec_list dec_str ks with Some r, Some ks => Some (XSubSelect r ks) | _, _ => None end
  | SL [SA "sub-exclude"; r; ks] => match dec_nat r, dec_list dec_str ks with Some r, Some ks => Some (XSubExclude r ks) | _, _ => None end
  | SL [SA "sub-unary"; r; f] => match dec_nat r, dec_pf f with Some r, Some f => Some (XSubUnary r f) | _, _ => None end
  | SL [SA "mklazy"; ms; nb; sels] =>
      match dec_list dec_nat ms, dec_nat nb, dec_list (dec_list dec_nat) sels with
      | Some ms, Some nb, Some sels => Some (XMkLazy ms nb sels) | _, _, _ => None end
  | SL [SA "lazy-member"; l; j] => match dec_nat l, dec_nat j with Some l, Some j => Some (XLazyMember l j) | _, _ => None end
  | SL [SA "lazy-get"; l; p] => match dec_nat l, dec_path p with Some l, Some p => Some (XLazyGet l p) | _, _ => None end
  | SL [SA "lazy-set_"; l; p; v] =>
      match dec_nat l, dec_path p, dec_nat v with Some l, Some p, Some v => Some (XLazySetU l p v) | _, _, _ => None end
  | SL [SA "lazy-update_"; l; o] => match dec_nat l, dec_nat o with Some l, Some o => Some (XLazyUpdU l o) | _, _ => None end
  | SL [SA "lazy-setitem"; l; o; vnb; parts] =>
      match dec_nat l, dec_nat o, dec_nat vnb, dec_list dec_part parts with
      | Some l, Some o, Some vnb, Some parts => Some (XLazySetItem l o vnb parts) | _, _, _, _ => None end
  | SL [SA "lazy-fill_"; l; p; SZ z] => match dec_nat l, dec_path p with Some l, Some p => Some (XLazyFill l p z) | _, _ => None end
  | SL [SA "lazy-const_"; l; SZ z] => option_map (fun l => XLazyConstU l z) (dec_nat l)
  | SL [SA "lazy-unary_"; l; f] => match dec_nat l, dec_pf f with Some l, Some f => Some (XLazyUnaryU l f) | _, _ => None end
  | SL [SA "lazy-clone"; l] => option_map XLazyClone (dec_nat l)
  | SL [SA "lazy-flatten-keys"; l; sep] => match dec_nat l, dec_str sep with Some l, Some sep => Some (XLazyFlatten l sep) | _, _ => None end
  | SL [SA "memmap_"; r] => option_map XMemmap (dec_nat r)
  | SL [SA "share_memory_"; r] => option_map XShare (dec_nat r)
  | SL [SA "lazy-dense"; l; cl] => match dec_nat l, dec_bool cl with Some l, Some cl => Some (XLazyDense l cl) | _, _ => None end
  | SL [SA "lazy-narrow"; l; js; nb; sels] =>
      match dec_nat l, dec_list dec_nat js, dec_nat nb, dec_list (dec_list dec_nat) sels with
      | Some l, Some js, Some nb, Some sels => Some (XLazyNarrow l js nb sels) | _, _, _, _ => None end
  | _ => option_map XB (dec_instr s)
  end.

Definition enc_xcls (c : xcls) : sexp :=
  match c with
  | XCBase c => enc_cls c | XCAlloc => SA "alloc" | XCInplace => SA "inplace" | XCView => SA "view" | XCCopy => SA "copy"
  | XCConv => SA "conversion"
  end.

(* the caller's handles: the regular registers, then the source of every window, then the members of every stack *)
Definition enc_xst (s : xst) : sexp :=
  let rs := (regs (xb s) ++ map (fun sh => RNode (ssrc sh)) (xsubs s)
             ++ flat_map (fun L => map RNode (lmem L)) (xlazy s))%list in
  SL [SL (SA "regs" :: map enc_ref rs);
      SL (SA "stor" :: map (enc_list enc_Z) (hstor (hp (xb s))));
      SL (SA "nodes" :: map enc_node (hnodes (hp (xb s))))].

Fixpoint xrun_log (s : xst) (prog : list xinstr) : xst * list outcome :=
  match prog with
  | [] => (s, [])
  | i :: t =>
      match xstep s i with
      | (s', Done) => let '(s2, l) := xrun_log s' t in (s2, Done :: l)
      | (s', o) => (s', [o])
      end
  end.

Definition dispatch (cmd : string) (args : list sexp) : option sexp :=
  match cmd, args with
  | "run", [prog] =>
      match dec_list dec_instr prog with
      | Some p => let '(s, outs) := run_log empty_st p in
                  Some (SL [SL (SA "outs" :: map enc_outcome outs); enc_st s])
      | None => None
      end
  | "xrun", [prog] =>
      match dec_list dec_xinstr prog with
      | Some p => let '(s, outs) := xrun_log empty_xst p in
                  Some (SL [SL (SA "outs" :: map enc_outcome outs); enc_xst s])
      | None => None
      end
  | "xclass", [i] => option_map (fun x => enc_xcls (xclassify x)) (dec_xinstr i)
  | "class", [i] => option_map (fun x => enc_cls (classify x)) (dec_instr i)
  | _, _ => None
  end.
