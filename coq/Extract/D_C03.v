From Coq Require Import ZArith List String Bool.
Import ListNotations.
From TD Require Import Lib.Sexp Spec.PySlice Model.C03_Index Spec.C03_TorchIndex Spec.C03_TorchSel.
Open Scope string_scope.

Definition dec_item (s : sexp) : option item :=
  match s with
  | SL [SA "int"; SZ i] => Some (IInt i)
  | SL [SA "sl"; a; b; c] =>
      match dec_opt dec_Z a, dec_opt dec_Z b, dec_opt dec_Z c with
      | Some a, Some b, Some c => Some (ISl a b c) | _, _, _ => None end
  | SA "non" => Some INone
  | SA "ell" => Some IEll
  | SA "adv0" => Some IAdv0
  | SL [SA "adv"; sh] => option_map IAdv (dec_list dec_nat sh)
  | SL [SA "mask"; sh; c] =>
      match dec_list dec_nat sh, dec_nat c with Some sh, Some c => Some (IMask sh c) | _, _ => None end
  | _ => None
  end.

Definition enc_item (it : item) : sexp :=
  match it with
  | IInt i => SL [SA "int"; SZ i]
  | ISl a b c => SL [SA "sl"; enc_opt enc_Z a; enc_opt enc_Z b; enc_opt enc_Z c]
  | INone => SA "non"
  | IEll => SA "ell"
  | IAdv0 => SA "adv0"
  | IAdv sh => SL [SA "adv"; enc_list enc_nat sh]
  | IMask sh c => SL [SA "mask"; enc_list enc_nat sh; enc_nat c]
  end.

Definition dec_vitem (s : sexp) : option vitem :=
  match s with
  | SL [SA "int"; SZ i] => Some (VInt i)
  | SL [SA "sl"; a; b; c] =>
      match dec_opt dec_Z a, dec_opt dec_Z b, dec_opt dec_Z c with
      | Some a, Some b, Some c => Some (VSl a b c) | _, _, _ => None end
  | SA "non" => Some VNone
  | SA "ell" => Some VEll
  | SL [SA "adv0"; SZ i] => Some (VAdv0 i)
  | SL [SA "adv"; sh; vals] =>
      match dec_list dec_nat sh, dec_list dec_Z vals with Some sh, Some v => Some (VAdv sh v) | _, _ => None end
  | SL [SA "mask"; sh; pos] =>
      match dec_list dec_nat sh, dec_list (dec_list dec_nat) pos with Some sh, Some p => Some (VMask sh p) | _, _ => None end
  | _ => None
  end.

Definition enc_res {A} (f : A -> sexp) (r : res A) : sexp :=
  match r with Ok a => SL [SA "ok"; f a] | Reject => SA "reject" end.

Definition enc_action (a : set_action) : sexp :=
  match a with
  | SetAsIs => SA "asis"
  | SetExpand t => SL [SA "expand"; enc_list enc_nat t]
  | SetReshape t => SL [SA "reshape"; enc_list enc_nat t]
  end.

Definition dispatch (cmd : string) (args : list sexp) : option sexp :=
  match cmd, args with
  | "gbs", [bs; idx] =>
      match dec_list dec_nat bs, dec_list dec_item idx with
      | Some bs, Some idx => Some (enc_res (enc_list enc_nat) (gbs bs idx)) | _, _ => None end
  | "index-bs", [bs; idx] =>
      match dec_list dec_nat bs, dec_list dec_item idx with
      | Some bs, Some idx => Some (enc_res (enc_list enc_nat) (index_bs bs idx)) | _, _ => None end
  | "getitem-bs", [bs; idx] =>
      match dec_list dec_nat bs, dec_list dec_item idx with
      | Some bs, Some idx => Some (enc_res (enc_list enc_nat) (getitem_bs bs idx)) | _, _ => None end
  | "torch-shape", [bs; idx] =>
      match dec_list dec_nat bs, dec_list dec_item idx with
      | Some bs, Some idx => Some (enc_opt (enc_list enc_nat) (torch_shape bs idx)) | _, _ => None end
  | "convert-ell", [bs; idx] =>
      match dec_list dec_nat bs, dec_list dec_item idx with
      | Some bs, Some idx => Some (enc_res (enc_list enc_item) (convert_ellipsis idx bs)) | _, _ => None end
  | "set-action", [bs; idx; vbs] =>
      match dec_list dec_nat bs, dec_list dec_item idx, dec_list dec_nat vbs with
      | Some bs, Some idx, Some vbs => Some (enc_res enc_action (setitem_value_action bs idx vbs)) | _, _, _ => None end
  | "sel-all", [bs; idx] =>
      match dec_list dec_nat bs, dec_list dec_vitem idx with
      | Some bs, Some idx => Some (enc_opt (enc_list (enc_opt (enc_list enc_Z))) (sel_all bs idx)) | _, _ => None end
  | "is-view", [idx] =>
      match dec_list dec_item idx with Some idx => Some (enc_bool (is_view idx)) | None => None end
  | _, _ => None
  end.
