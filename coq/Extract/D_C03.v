From Coq Require Import ZArith List String Bool.
Import ListNotations.
From TD Require Import Lib.Sexp Spec.PySlice Model.C03_Index Spec.C03_TorchIndex Spec.C03_TorchSel Model.C03_Names Model.C03_SetItem.
Open Scope string_scope.

Definition dec_item (s : sexp) : option item :=
  match s with
  | SL [SA "int"; SZ i] => Some (IInt i)
  | SL [SA "sl"; a; b; c] =>
      match dec_opt dec_Z a, dec_opt dec_Z b, dec_opt dec_Z c with
      | Some a, Some b, Some c => Some (ISl a b c) | _, _, _ => None end
  | SA "non" => Some INone
  | SA "ell" => Some IEll
  | SA "adv0" => Some IAdv0
  | SL [SA "adv"; sh] => option_map IAdv (dec_list dec_nat sh)
  | SL [SA "mask"; sh; c] =>
      match dec_list dec_nat sh, dec_nat c with Some sh, Some c => Some (IMask sh c) | _, _ => None end
  | _ => None
  end.

Definition enc_item (it : item) : sexp :=
  match it with
  | IInt i => SL [SA "int"; SZ i]
  | ISl a b c => SL [SA "sl"; enc_opt enc_Z a; enc_opt enc_Z b; enc_opt enc_Z c]
  | INone => SA "non"
  | IEll => SA "ell"
  | IAdv0 => SA "adv0"
  | IAdv sh => SL [SA "adv"; enc_list enc_nat sh]
  | IMask sh c => SL [SA "mask"; enc_list enc_nat sh; enc_nat c]
  end.

Definition dec_vitem (s : sexp) : option vitem :=
  match s with
  | SL [SA "int"; SZ i] => Some (VInt i)
  | SL [SA "sl"; a; b; c] =>
      match dec_opt dec_Z a, dec_opt dec_Z b, dec_opt dec_Z c with
      | Some a, Some b, Some c => Some (VSl a b c) | _, _, _ => None end
  | SA "non" => Some VNone
  | SA "ell" => Some VEll
  | SL [SA "adv0"; SZ i] => Some (VAdv0 i)
  | SL [SA "adv"; sh; vals] =>
      match dec_list dec_nat sh, dec_list dec_Z vals with Some sh, Some v => Some (VAdv sh v) | _, _ => None end
  | SL [SA "mask"; sh; pos] =>
      match dec_list dec_nat sh, dec_list (dec_list dec_nat) pos with Some sh, Some p => Some (VMask sh p) | _, _ => None end
  | _ => None
  end.

Definition enc_res {A} (f : A -> sexp) (r : res A) : sexp :=
  match r with Ok a => SL [SA "ok"; f a] | Reject => SA "reject" end.

Definition enc_action (a : set_action) : sexp :=
  match a with
  | SetAsIs => SA "asis"
  | SetExpand t => SL [SA "expand"; enc_list enc_nat t]
  | SetReshape t => SL [SA "reshape"; enc_list enc_nat t]
  end.

Fixpoint dec_tree (s : sexp) : option vtree :=
  match s with
  | SL [SA "leaf"; sh] => option_map VL (dec_list dec_nat sh)
  | SL [SA "node"; bs; SL kids] =>
      match dec_list dec_nat bs,
            (fix go (l : list sexp) : option (list (string * vtree)) :=
               match l with
               | [] => Some []
               | SL [SA k; c] :: r =>
                   match dec_tree c, go r with Some c', Some r' => Some ((k, c') :: r') | _, _ => None end
               | _ => None
               end) kids with
      | Some b, Some ks => Some (VN b ks)
      | _, _ => None
      end
  | _ => None
  end.

Fixpoint enc_tree (t : vtree) : sexp :=
  match t with
  | VL sh => SL [SA "leaf"; enc_list enc_nat sh]
  | VN b kids => SL [SA "node"; enc_list enc_nat b; SL (map (fun p => SL [SA (fst p); enc_tree (snd p)]) kids)]
  end.

Definition dec_wvalue (s : sexp) : option wvalue :=
  match s with
  | SA "scalar" => Some WScalar
  | SL [SA "tensor"; sh] => option_map WTensor (dec_list dec_nat sh)
  | SL [SA "td"; t] => option_map WTree (dec_tree t)
  | SL [SA "dict"; t] => option_map WDict (dec_tree t)
  | _ => None
  end.

Definition enc_handed (h : handed) : sexp :=
  match h with
  | HSelf => SA "self"
  | HIndex idx => SL [SA "index"; enc_list enc_item idx]
  | HRaise => SA "raise"
  end.

Definition dispatch (cmd : string) (args : list sexp) : option sexp :=
  match cmd, args with
  | "gbs", [bs; idx] =>
      match dec_list dec_nat bs, dec_list dec_item idx with
      | Some bs, Some idx => Some (enc_res (enc_list enc_nat) (gbs bs idx)) | _, _ => None end
  | "index-bs", [bs; idx] =>
      match dec_list dec_nat bs, dec_list dec_item idx with
      | Some bs, Some idx => Some (enc_res (enc_list enc_nat) (index_bs bs idx)) | _, _ => None end
  | "getitem-bs", [bs; idx] =>
      match dec_list dec_nat bs, dec_list dec_item idx with
      | Some bs, Some idx => Some (enc_res (enc_list enc_nat) (getitem_bs bs idx)) | _, _ => None end
  | "torch-shape", [bs; idx] =>
      match dec_list dec_nat bs, dec_list dec_item idx with
      | Some bs, Some idx => Some (enc_opt (enc_list enc_nat) (torch_shape bs idx)) | _, _ => None end
  | "convert-ell", [bs; idx] =>
      match dec_list dec_nat bs, dec_list dec_item idx with
      | Some bs, Some idx => Some (enc_res (enc_list enc_item) (convert_ellipsis idx bs)) | _, _ => None end
  | "set-action", [bs; idx; vbs] =>
      match dec_list dec_nat bs, dec_list dec_item idx, dec_list dec_nat vbs with
      | Some bs, Some idx, Some vbs => Some (enc_res enc_action (setitem_value_action bs idx vbs)) | _, _, _ => None end
  | "sel-all", [bs; idx] =>
      match dec_list dec_nat bs, dec_list dec_vitem idx with
      | Some bs, Some idx => Some (enc_opt (enc_list (enc_opt (enc_list enc_Z))) (sel_all bs idx)) | _, _ => None end
  | "names", [names; bs; idx; fast] =>
      match dec_opt (dec_list (dec_opt dec_nat)) names, dec_list dec_nat bs, dec_list dec_item idx, dec_bool fast with
      | Some nm, Some bs, Some idx, Some fast =>
          Some (enc_res (enc_opt (enc_list (enc_opt enc_nat))) (names_idx nm bs idx fast))
      | _, _, _, _ => None end
  | "getitem-names", [names; bs; idx; fast] =>
      match dec_opt (dec_list (dec_opt dec_nat)) names, dec_list dec_nat bs, dec_list dec_item idx, dec_bool fast with
      | Some nm, Some bs, Some idx, Some fast =>
          Some (enc_res (enc_opt (enc_list (enc_opt enc_nat)))
                  (match getitem_dispatch bs idx with
                   | HSelf => Ok nm
                   | HIndex idx' => names_idx nm bs idx' fast
                   | HRaise => Reject
                   end))
      | _, _, _, _ => None end
  | "nested-names", [names; bs; extra; idx; fast] =>
      (* a nested node with batch size bs ++ extra (names ++ unnamed dims) is indexed with the index dispatched at the root *)
      match dec_opt (dec_list (dec_opt dec_nat)) names, dec_list dec_nat bs, dec_list dec_nat extra, dec_list dec_item idx, dec_bool fast with
      | Some nm, Some bs, Some extra, Some idx, Some fast =>
          let nm' := option_map (fun l => (l ++ repeat None (List.length extra))%list) nm in
          Some (enc_res (enc_opt (enc_list (enc_opt enc_nat)))
                  (match getitem_dispatch bs idx with
                   | HSelf => Ok nm'
                   | HIndex idx' => names_idx nm' (bs ++ extra)%list idx' fast
                   | HRaise => Reject
                   end))
      | _, _, _, _, _ => None end
  | "setitem-full", [dest; idx; v] =>
      match dec_tree dest, dec_list dec_item idx, dec_wvalue v with
      | Some d, Some idx, Some v =>
          Some (enc_res enc_tree
                  (match (if existsb is_ell idx then convert_ellipsis idx (match d with VN b _ => b | VL s => s end) else Ok idx) with
                   | Reject => Reject
                   | Ok idx' => setitem 8 d idx' v
                   end))
      | _, _, _ => None end
  | "setitem", [dest; idx; v] =>
      match dec_tree dest, dec_list dec_item idx, dec_wvalue v with
      | Some d, Some idx, Some v => Some (enc_res enc_tree (setitem 8 d idx v)) | _, _, _ => None end
  | "write-ok", [L; idx; v] =>
      match dec_list dec_nat L, dec_list dec_item idx, dec_list dec_nat v with
      | Some L, Some idx, Some v => Some (enc_bool (torch_write_ok L idx v)) | _, _, _ => None end
  | "handed", [bs; idx] =>
      match dec_list dec_nat bs, dec_list dec_item idx with
      | Some bs, Some idx => Some (enc_handed (getitem_dispatch bs idx)) | _, _ => None end
  | "is-view", [idx] =>
      match dec_list dec_item idx with Some idx => Some (enc_bool (is_view idx)) | None => None end
  | _, _ => None
  end.
