From Coq Require Import ZArith List String Bool.
Import ListNotations.
From TD Require Import Lib.Sexp Model.C17_Inverse.
Open Scope string_scope.

Definition dec_val (s : sexp) : option val :=
  match s with
  | SL [SA "int"; SZ z] => Some (VInt z)
  | SL (SA "ints" :: l) => option_map VInts (dec_list_aux dec_Z l)
  | SL [SA "str"; SA x] => Some (VStr x)
  | _ => None
  end.

Definition enc_icall (c : icall) : sexp :=
  match c with
  | CTranspose a b => SL [SA "transpose"; SZ a; SZ b]
  | CPermute l => SL [SA "permute"; enc_list enc_Z l]
  | CView l => SL [SA "view"; enc_list enc_Z l]
  | CFlatten a b => SL [SA "flatten"; SZ a; SZ b]
  | CUnflatten d sz => SL [SA "unflatten"; SZ d; enc_list enc_Z sz]
  | CSqueeze d => SL [SA "squeeze"; SZ d]
  | CUnsqueeze d => SL [SA "unsqueeze"; SZ d]
  | CIdentity => SA "none"
  | CFlattenKeys sep => SL [SA "flatten_keys"; SA sep]
  | CUnflattenKeys sep => SL [SA "unflatten_keys"; SA sep]
  | CRaise => SA "raise"
  end.

Definition dispatch (cmd : string) (args : list sexp) : option sexp :=
  match cmd, args with
  | "reverse", [SA op; ps; kws; bs; SZ self_ndim] =>
      match dec_list dec_val ps, dec_list (dec_pair dec_str dec_val) kws, dec_list dec_Z bs with
      | Some ps, Some kws, Some bs => Some (enc_icall (reverse op {| pos := ps; kw := kws |} bs self_ndim))
      | _, _, _ => None
      end
  | _, _ => None
  end.
