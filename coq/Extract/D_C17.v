From Coq Require Import ZArith List String Bool.
Import ListNotations.
From TD Require Import Lib.Sexp Model.C17_Inverse Model.C17_Elem Model.C17_Ctx Model.C17_Tree.
From TD Require Import Model.C04_Tree Model.C04_Ops Model.C17_Keys.
Open Scope string_scope.

Definition dec_val (s : sexp) : option val :=
  match s with
  | SL [SA "int"; SZ z] => Some (VInt z)
  | SL (SA "ints" :: l) => option_map VInts (dec_list_aux dec_Z l)
  | SL [SA "str"; SA x] => Some (VStr x)
  | _ => None
  end.

Definition enc_icall (c : icall) : sexp :=
  match c with
  | CTranspose a b => SL [SA "transpose"; SZ a; SZ b]
  | CPermute l => SL [SA "permute"; enc_list enc_Z l]
  | CView l => SL [SA "view"; enc_list enc_Z l]
  | CFlatten a b => SL [SA "flatten"; SZ a; SZ b]
  | CUnflatten d sz => SL [SA "unflatten"; SZ d; enc_list enc_Z sz]
  | CSqueeze d => SL [SA "squeeze"; SZ d]
  | CUnsqueeze d => SL [SA "unsqueeze"; SZ d]
  | CIdentity => SA "none"
  | CFlattenKeys sep => SL [SA "flatten_keys"; SA sep]
  | CUnflattenKeys sep => SL [SA "unflatten_keys"; SA sep]
  | CRaise => SA "raise"
  end.

Definition dec_icall (s : sexp) : option icall :=
  match s with
  | SL [SA "transpose"; SZ a; SZ b] => Some (CTranspose a b)
  | SL [SA "permute"; l] => option_map CPermute (dec_list dec_Z l)
  | SL [SA "view"; l] => option_map CView (dec_list dec_Z l)
  | SL [SA "flatten"; SZ a; SZ b] => Some (CFlatten a b)
  | SL [SA "unflatten"; SZ d; l] => option_map (CUnflatten d) (dec_list dec_Z l)
  | SL [SA "squeeze"; SZ d] => Some (CSqueeze d)
  | SL [SA "unsqueeze"; SZ d] => Some (CUnsqueeze d)
  | SA "none" => Some CIdentity
  | _ => None
  end.

(* where every element of the source (row-major order) lands *)
Definition pushall (c : icall) (sh : list Z) : list (option (list Z)) :=
  map (fun k => push c sh (unravel sh (Z.of_nat k))) (seq 0 (Z.to_nat (prodZ sh))).

Definition enc_idx := enc_opt (enc_list enc_Z).

(* forward binding, result shape, element map; then the reverse call on the result, its shape and element map *)
Definition elem_report (op : string) (s : spelled) (bs : list Z) : sexp :=
  match forward_call op s with
  | None => SA "badcall"
  | Some c =>
      match shape_of c bs with
      | None => SL [SA "fwdraise"; enc_icall c]
      | Some ysh =>
          let r := reverse op s bs (zlen ysh) in
          SL [SA "ok"; enc_icall c; enc_list enc_Z ysh; enc_list enc_idx (pushall c bs);
              enc_icall r; enc_opt (enc_list enc_Z) (shape_of r ysh); enc_list enc_idx (pushall r ysh)]
      end
  end.

(* ---- context-manager protocol (Model/C17_Ctx.v) ---- *)
Definition dec_exc (s : sexp) : option exc :=
  match s with SA "none" => Some ExcNone | SA "exception" => Some ExcException | SA "base" => Some ExcBase | _ => None end.
Definition enc_exc (e : exc) : sexp := SA (match e with ExcNone => "none" | ExcException => "exception" | ExcBase => "base" end).

Fixpoint dec_prog (fuel : nat) (s : sexp) : option prog :=
  match fuel with
  | O => None
  | S f =>
      match s with
      | SA "skip" => Some PSkip
      | SL [SA "raise"; e] => option_map PRaise (dec_exc e)
      | SL [SA "seq"; a; b] => match dec_prog f a, dec_prog f b with Some a, Some b => Some (PSeq a b) | _, _ => None end
      | SL [SA "lock"; b] => option_map PLock (dec_prog f b)
      | SL [SA "unlock"; b] => option_map PUnlock (dec_prog f b)
      | SL [SA "bare"; b] => option_map PBare (dec_prog f b)
      | _ => None
      end
  end.

Definition dec_lastop (s : sexp) : option (option oprec) :=
  match s with
  | SA "none" => Some None
  | SL [SA "shape"; SA n; a] => option_map (fun b => Some {| o_op := OpShape n; o_alive := b |}) (dec_bool a)
  | _ => None
  end.

Definition enc_cop (c : cop) : sexp :=
  SA (match c with OpLock => "lock_" | OpUnlock => "unlock_" | OpToModule => "to_module" | OpShape n => n end).

Definition enc_obj (o : tdobj) : sexp :=
  SL [enc_bool (locked o); enc_opt (fun rc => enc_cop (o_op rc)) (last_op o);
      enc_list (enc_opt (fun rc => enc_cop (o_op rc))) (queue o)].

(* ---- trees (Model/C17_Tree.v): (leaf sid c) | (node (k tree) ...) ---- *)
Fixpoint dec_ktree (fuel : nat) (s : sexp) : option ktree :=
  match fuel with
  | O => None
  | S f =>
      match s with
      | SL [SA "leaf"; SZ sid; SZ c] => Some (KLeaf (Z.to_nat sid) c)
      | SL (SA "node" :: l) =>
          option_map KNode
            ((fix go (l : list sexp) : option kents :=
                match l with
                | [] => Some []
                | SL [SA k; t] :: r =>
                    match dec_ktree f t, go r with Some t, Some r => Some ((k, t) :: r) | _, _ => None end
                | _ => None
                end) l)
      | _ => None
      end
  end.

Fixpoint enc_ktree (t : ktree) : sexp :=
  match t with
  | KLeaf s c => SL [SA "leaf"; SZ (Z.of_nat s); SZ c]
  | KNode es => SL (SA "node" :: (fix go (es : kents) : list sexp :=
                                    match es with [] => [] | (k, w) :: r => SL [SA k; enc_ktree w] :: go r end) es)
  end.

(* ---- key trees (Model/C17_Keys.v over C04's tree): (leaf z) | (node (k tree) ...) ---- *)
Fixpoint dec_tree (fuel : nat) (s : sexp) : option tree :=
  match fuel with
  | O => None
  | S f =>
      match s with
      | SL [SA "leaf"; SZ z] => Some (Leaf LT z)
      | SL (SA "node" :: l) =>
          option_map Node
            ((fix go (l : list sexp) : option ents :=
                match l with
                | [] => Some []
                | SL [SA k; t] :: r =>
                    match dec_tree f t, go r with Some t, Some r => Some ((k, t) :: r) | _, _ => None end
                | _ => None
                end) l)
      | _ => None
      end
  end.

Definition enc_block (b : block_res) : sexp :=
  match b with
  | BOk r => SL [SA "ok"; enc_ktree (KNode r)]
  | BForwardRaises => SA "fwd-raise"
  | BExitRaises => SA "raise"
  end.

Definition dispatch (cmd : string) (args : list sexp) : option sexp :=
  match cmd, args with
  | "splitjoin", [SA sep; p] =>
      match dec_list dec_str p with
      | Some p =>
          let k := join sep p in
          Some (SL [SA k; enc_bool (str_contains sep k); enc_list enc_str (split sep k); enc_list enc_str (py_key_path sep k);
                    enc_bool (clean_path sep p); enc_bool (no_sep_inside sep p)])
      | None => None
      end
  | "flatten_keys_block", [SA sep; lk; orig; sets] =>
      match dec_bool lk, dec_tree 16 orig, dec_list (dec_pair dec_str (dec_tree 4)) sets with
      | Some lk, Some (Node orig), Some sets => Some (enc_block (flatten_keys_block sep lk orig sets))
      | _, _, _ => None
      end
  | "unflatten_keys_block", [SA sep; lk; orig; sets] =>
      match dec_bool lk, dec_tree 16 orig, dec_list (dec_pair (dec_list dec_str) (dec_tree 4)) sets with
      | Some lk, Some (Node orig), Some sets => Some (enc_block (unflatten_keys_block sep lk orig sets))
      | _, _, _ => None
      end
  | "writeback_t", [lk; out; inv] =>
      match dec_bool lk, dec_ktree 16 out, dec_ktree 16 inv with
      | Some lk, Some (KNode out), Some (KNode inv) =>
          Some (enc_opt (fun es => enc_ktree (KNode es)) (writeback_t lk out inv))
      | _, _, _ => None
      end
  | "writeback", [lk; out; inv] =>
      let dec_ent := dec_pair dec_str (dec_pair dec_nat dec_Z) in
      match dec_bool lk, dec_list dec_ent out, dec_list dec_ent inv with
      | Some lk, Some out, Some inv =>
          Some (enc_opt (enc_list (enc_pair enc_str (enc_pair enc_nat enc_Z))) (writeback lk out inv))
      | _, _, _ => None
      end
  | "runprog", [lk; lo; p] =>
      match dec_bool lk, dec_lastop lo, dec_prog 64 p with
      | Some lk, Some lo, Some p =>
          Some (match run true p {| locked := lk; last_op := lo; queue := [] |} with
                | Some (o, e) => SL [SA "ok"; enc_obj o; enc_exc e]
                | None => SA "fail"
                end)
      | _, _, _ => None
      end
  | "elem", [SA op; ps; kws; bs] =>
      match dec_list dec_val ps, dec_list (dec_pair dec_str dec_val) kws, dec_list dec_Z bs with
      | Some ps, Some kws, Some bs => Some (elem_report op {| pos := ps; kw := kws |} bs)
      | _, _, _ => None
      end
  | "shape_of", [c; bs] =>
      match dec_icall c, dec_list dec_Z bs with
      | Some c, Some bs => Some (SL [enc_opt (enc_list enc_Z) (shape_of c bs); enc_list enc_idx (pushall c bs)])
      | _, _ => None
      end
  | "reverse", [SA op; ps; kws; bs; SZ self_ndim] =>
      match dec_list dec_val ps, dec_list (dec_pair dec_str dec_val) kws, dec_list dec_Z bs with
      | Some ps, Some kws, Some bs => Some (enc_icall (reverse op {| pos := ps; kw := kws |} bs self_ndim))
      | _, _, _ => None
      end
  | _, _ => None
  end.
