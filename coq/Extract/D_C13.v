(* C13 dispatch: decodes a module heap + program, runs Model/C13_Swap (and C13_Params), prints canonical traces. *)
From Coq Require Import ZArith List String Bool.
Import ListNotations.
From TD Require Import Lib.Sexp Model.C13_Swap Model.C13_Scope Model.C13_Params.
Open Scope string_scope.
Open Scope list_scope.

Definition dec_kind (s : sexp) : option okind :=
  match s with SA "P" => Some KParam | SA "B" => Some KBuffer | SA "T" => Some KPlain | _ => None end.

(* (k|f id kind val stor) -> object and (storage, value) *)
Definition dec_ref (s : sexp) : option (option (obj * Z)) :=
  match s with
  | SA "none" => Some None
  | SL [SA tag; SZ i; k; SZ v; SZ st] =>
      match dec_kind k with
      | Some kd => Some (Some (mkObj (if String.eqb tag "f" then (FRESH_BASE + i)%Z else i) kd st, v))
      | None => None
      end
  | _ => None
  end.

Definition dec_named {A} (f : sexp -> option A) (s : sexp) : option (string * A) :=
  match s with SL [SA n; x] => option_map (pair n) (f x) | _ => None end.

Definition dec_child (s : sexp) : option (option Z) :=
  match s with SA "none" => Some None | SZ z => Some (Some z) | _ => None end.

Definition strip {A} (l : list (string * option (obj * Z))) (f : option obj -> A) : list (string * A) :=
  map (fun e => (fst e, f (option_map fst (snd e)))) l.
Definition vals_of (l : list (string * option (obj * Z))) : list (Z * Z) :=
  flat_map (fun e => match snd e with Some (o, v) => [(ostor o, v)] | None => [] end) l.

Definition dec_mod (s : sexp) : option (Z * mnode * list (Z * Z)) :=
  match s with
  | SL [SZ mid; cu; ps; bs; ats; subs] =>
      match dec_bool cu, dec_list (dec_named dec_ref) ps, dec_list (dec_named dec_ref) bs,
            dec_list (dec_named dec_ref) ats, dec_list (dec_named dec_child) subs with
      | Some cu, Some ps, Some bs, Some ats, Some subs =>
          let attrs := flat_map (fun e => match snd e with Some (o, _) => [(fst e, o)] | None => [] end) ats in
          Some (mid, mkNode cu (strip ps (fun x => x)) (strip bs (fun x => x)) attrs subs, vals_of ps ++ vals_of bs ++ vals_of ats)
      | _, _, _, _, _ => None
      end
  | _ => None
  end.

(* entries of a tensordict: ((name ref|entries) ...) *)
Fixpoint dec_ents (s : sexp) : option (ptd * list (Z * Z)) :=
  match s with
  | SL l =>
      (fix go (l : list sexp) : option (ptd * list (Z * Z)) :=
         match l with
         | [] => Some (PTD [], [])
         | SL [SA n; x] :: r =>
             let item :=
               match x with
               | SA "none" => Some (PLeaf None, [])
               | SL (SA _ :: _) =>
                   match dec_ref x with
                   | Some (Some (o, v)) => Some (PLeaf (Some o), [(ostor o, v)])
                   | _ => None
                   end
               | _ => match dec_ents x with Some (t, vs) => Some (PSub t, vs) | None => None end
               end in
             match item, go r with
             | Some (e, vs), Some (PTD rest, vs') => Some (PTD ((n, e) :: rest), vs ++ vs')
             | _, _ => None
             end
         | _ => None
         end) l
  | _ => None
  end.

Definition dec_block (s : sexp) : option (block * list (Z * Z)) :=
  match s with
  | SL [SZ target; inp; usd; sd; man; live; ents] =>
      match dec_opt dec_bool inp, dec_bool usd, dec_bool sd, dec_bool man, dec_bool live, dec_ents ents with
      | Some inp, Some usd, Some sd, Some man, Some live, Some (t, vs) => Some (mkBlock target inp usd sd man live t, vs)
      | _, _, _, _, _, _ => None
      end
  | _ => None
  end.

Definition dec_exc (s : sexp) : option excspec :=
  match s with
  | SL [SA "none"] => Some (mkExc XNone 0 false)
  | SL [SA "exc"; lv; f] => match dec_nat lv, dec_bool f with Some lv, Some f => Some (mkExc XExc lv f) | _, _ => None end
  | SL [SA "base"; lv; f] => match dec_nat lv, dec_bool f with Some lv, Some f => Some (mkExc XBase lv f) | _, _ => None end
  | _ => None
  end.

Definition enc_kind (k : okind) : sexp := SA (match k with KParam => "P" | KBuffer => "B" | KPlain => "T" end).
Definition enc_obj (st : tstate) (o : option obj) : sexp :=
  match o with
  | None => SA "none"
  | Some o =>
      let fresh := (FRESH_BASE <=? oid o)%Z in
      SL [SA (if fresh then "f" else "k"); SZ (if fresh then oid o - FRESH_BASE else oid o)%Z; enc_kind (okd o);
          SZ (match val_of st o with Some v => v | None => (-9)%Z end); SZ (ostor o)]
  end.
Definition enc_exn (e : exn) : sexp :=
  SA (match e with EInject => "Inject" | EInjectBase => "InjectBase" | EKeyError => "KeyError" | ETypeError => "TypeError"
               | EAttrError => "AttrError" | EOther => "other" end).
Definition enc_outcome (o : outcome) : sexp := match o with OOk => SA "ok" | ORaise e => enc_exn e end.
Definition enc_node (st : tstate) (e : Z * mnode) : sexp :=
  let n := snd e in
  SL [SZ (fst e);
      SL (map (fun x => SL [SA (fst x); enc_obj st (snd x)]) (m_params n));
      SL (map (fun x => SL [SA (fst x); enc_obj st (snd x)]) (m_bufs n));
      SL (map (fun x => SL [SA (fst x); enc_obj st (Some (snd x))]) (m_attrs n))].
Definition enc_event (e : event) : sexp :=
  SL [SA (match ev_kind e with EvInit => "init" | EvEnter => "enter" | EvExit => "exit" end);
      (match ev_kind e with EvInit => SZ (-1) | _ => enc_nat (ev_level e) end);
      enc_outcome (ev_out e); SL (map (enc_node (ev_state e)) (t_heap (ev_state e)))].

Fixpoint enc_ptd (st : tstate) (t : ptd) : sexp :=
  match t with PTD ents =>
    SL ((fix go (l : list (string * pent)) : list sexp :=
           match l with
           | [] => []
           | (k, PLeaf o) :: r => SL [SA k; enc_obj st o] :: go r
           | (k, PSub t') :: r => SL [SA k; enc_ptd st t'] :: go r
           end) ents)
  end.

Definition dec_path (s : sexp) : option (list string) := dec_list dec_str s.
Definition dec_objref (s : sexp) : option obj :=
  match dec_ref s with Some (Some (o, _)) => Some o | _ => None end.
Definition dec_pop (s : sexp) : option pop :=
  match s with
  | SL [SA "set"; p; r; f; c] =>
      match dec_path p, dec_objref r, dec_bool f, dec_bool c with
      | Some p, Some o, Some f, Some c => Some (OSet p o f c)
      | _, _, _, _ => None
      end
  | SL [SA "del"; p] => option_map ODel (dec_path p)
  | SL [SA "rename"; SA k; SA k'] => Some (ORename k k')
  | SL [SA "nset"; p; SA k; r] =>
      match dec_path p, dec_objref r with Some p, Some o => Some (ONestedSet p k o) | _, _ => None end
  | SL [SA "ndel"; p; SA k] => option_map (fun p => ONestedDel p k) (dec_path p)
  | _ => None
  end.

Definition enc_reg (st : tstate) (l : list (string * obj)) : sexp :=
  SL (map (fun x => SL [SA (fst x); enc_obj st (Some (snd x))]) l).

Fixpoint run_ops_trace (st : tstate) (s : tdparams) (ops : list pop) : list sexp :=
  match ops with
  | [] => []
  | o :: r =>
      let '(s', raised) := step s o in
      SL [enc_bool raised; enc_reg st (tp_params s'); enc_reg st (tp_bufs s'); enc_ptd st (tp_td s')] :: run_ops_trace st s' r
  end.

(* content of the storages at the start: the first description of a storage wins (the module's initial snapshot comes
   first; a source tensordict built later as a temporary is described when it is built, possibly after in-place writes
   to a storage it shares with an object already known) *)
Definition build_vals (l : list (Z * Z)) : list (Z * Z) :=
  fold_left (fun d e => match z_get d (fst e) with Some _ => d | None => z_set d (fst e) (snd e) end) l [].

Definition dispatch (cmd : string) (args : list sexp) : option sexp :=
  match cmd, args with
  | "prog", [mods; blocks; exc] =>
      match dec_list dec_mod mods, dec_list dec_block blocks, dec_exc exc with
      | Some ms, Some bs, Some x =>
          let heap := map (fun m => (fst (fst m), snd (fst m))) ms in
          let vals := build_vals (flat_map snd ms ++ flat_map snd bs) in
          let st := mkSt heap vals FRESH_BASE [] in
          Some (SL (map enc_event (run_program x (map fst bs) st)))
      | _, _, _ => None
      end
  | "scope", [mods; blocks; _] =>
      match dec_list dec_mod mods, dec_list dec_block blocks with
      | Some ms, Some bs =>
          let heap := map (fun m => (fst (fst m), snd (fst m))) ms in
          let st := mkSt heap (build_vals (flat_map snd ms ++ flat_map snd bs)) FRESH_BASE [] in
          Some (SL [enc_bool (wf_heapb heap); enc_bool (forallb (block_okb heap) (map fst bs)); enc_bool (names_okb heap);
                    enc_bool (forallb (block_ok2b heap) (map fst bs)); enc_bool (inplace_block_domainb st (map fst bs))])
      | _, _ => None
      end
  | "from-module", [mods; SZ root] =>
      match dec_list dec_mod mods with
      | Some ms =>
          let heap := map (fun m => (fst (fst m), snd (fst m))) ms in
          let st := mkSt heap (build_vals (flat_map snd ms)) FRESH_BASE [] in
          Some (match from_module (S (List.length heap)) heap root with
                | FmNone => SA "none"
                | FmOutOfFuel => SA "out-of-fuel"
                | FmTd t => SL [SA "td"; enc_ptd st t]
                end)
      | None => None
      end
  | "tdp-run", [nc; ents; ops] =>
      match dec_bool nc, dec_ents ents, dec_list dec_pop ops with
      | Some nc, Some (t, _), Some ops =>
          let st := mkSt [] [] FRESH_BASE [] in
          let s0 := reset_params (mkTdp t [] [] nc FRESH_BASE) in
          Some (SL (SL [enc_bool false; enc_reg st (tp_params s0); enc_reg st (tp_bufs s0); enc_ptd st (tp_td s0)]
                    :: run_ops_trace st s0 ops))
      | _, _, _ => None
      end
  | _, _ => None
  end.
