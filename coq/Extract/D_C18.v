From Coq Require Import ZArith List String Bool.
Import ListNotations.
From TD Require Import Lib.Sexp Spec.PySlice Model.SliceM Model.Keys.
Open Scope string_scope.

Fixpoint dec_key (s : sexp) : option pykey :=
  match s with
  | SA "bad" => Some KBad
  | SA a => Some (KS a)
  | SZ _ => Some KBad
  | SL (SA "t" :: l) =>
      option_map KT ((fix go (l : list sexp) : option (list pykey) :=
         match l with [] => Some [] | x :: r =>
           match dec_key x, go r with Some a, Some b => Some (a :: b) | _, _ => None end end) l)
  | SL _ => None
  end.

Definition enc_keyres (r : keyres) : sexp :=
  match r with RStr s => SL [SA "str"; SA s] | RTup l => SL (SA "tup" :: map SA l) | RRaise => SA "raise" end.

Definition enc_triple (t : Z * Z * Z) : sexp := let '(a, b, c) := t in SL [SA "ok"; SZ a; SZ b; SZ c; SZ (range_len (a,b,c))].

Definition dispatch (cmd : string) (args : list sexp) : option sexp :=
  match cmd, args with
  | "slice", [a; b; c; n] =>
      match dec_opt dec_Z a, dec_opt dec_Z b, dec_opt dec_Z c, dec_Z n with
      | Some a, Some b, Some c, Some n =>
          Some (match slice_indices_opt a b c n with Some t => enc_triple t | None => SA "raise" end)
      | _, _, _, _ => None
      end
  | "pyslice", [a; b; c; n] =>
      match dec_opt dec_Z a, dec_opt dec_Z b, dec_opt dec_Z c, dec_Z n with
      | Some a, Some b, Some c, Some n =>
          let st := match c with None => 1%Z | Some s => s end in
          Some (if (st =? 0)%Z then SA "raise" else enc_triple (py_indices a b st n))
      | _, _, _, _ => None
      end
  | "unravel-tuple-cpp", [k] => option_map (fun k => SL (map SA (cpp_unravel_to_tuple k))) (dec_key k)
  | "unravel-tuple-py", [k] => option_map (fun k => SL (map SA (py_unravel_to_tuple k))) (dec_key k)
  | "unravel-key-cpp", [k] => option_map (fun k => enc_keyres (cpp_unravel_key k)) (dec_key k)
  | "unravel-key-py", [k] => option_map (fun k => enc_keyres (py_unravel_key k)) (dec_key k)
  | "unravel-list-cpp", ks =>
      option_map (fun ks => enc_opt (enc_list enc_keyres) (cpp_unravel_key_list ks)) (dec_list_aux dec_key ks)
  | "unravel-list-py", ks =>
      option_map (fun ks => enc_opt (enc_list enc_keyres) (py_unravel_key_list ks)) (dec_list_aux dec_key ks)
  | _, _ => None
  end.
