From Coq Require Import ZArith List String Bool.
Import ListNotations.
From TD Require Import Lib.Sexp Spec.PySlice Model.SliceM Model.Keys Model.C18_Gbs Model.C18_Names Model.C18_Memo Model.C18_SeqKeys.
Open Scope string_scope.

(* ---- C18_Names ---- *)
Definition dec_names (s : sexp) : option (option (list dname)) := dec_opt (dec_list (dec_opt dec_str)) s.
Definition enc_nres (r : nres) : sexp :=
  match r with
  | NOk st => SL [SA "ok"; enc_opt (enc_list (enc_opt enc_str)) st]
  | NValueError => SA "ValueError"
  end.

(* ---- C18_Memo: the uncached computation is given as a table (class name -> value, none = Python None) ---- *)
Definition table_fun (tbl : list (string * option string)) (k : string) : option string :=
  match find (fun kv => String.eqb (fst kv) k) tbl with Some kv => snd kv | None => None end.
Definition enc_memo_run (r : list (option string) * list (string * option string)) : sexp :=
  SL [enc_list (enc_opt enc_str) (fst r); enc_list (enc_pair enc_str (enc_opt enc_str)) (snd r)].

Fixpoint dec_key (s : sexp) : option pykey :=
  match s with
  | SA "bad" => Some KBad
  | SA a => Some (KS a)
  | SZ _ => Some KBad
  | SL (SA "t" :: l) =>
      option_map KT ((fix go (l : list sexp) : option (list pykey) :=
         match l with [] => Some [] | x :: r =>
           match dec_key x, go r with Some a, Some b => Some (a :: b) | _, _ => None end end) l)
  | SL _ => None
  end.

Definition enc_keyres (r : keyres) : sexp :=
  match r with RStr s => SL [SA "str"; SA s] | RTup l => SL (SA "tup" :: map SA l) | RRaise => SA "raise" end.

(* the Python VALUE returned by unravel_keys: a str, or a tuple of str / tuples *)
Definition enc_pyval_key (r : keyres) : sexp :=
  match r with RStr s => SL [SA "str"; SA s] | RTup l => SL (SA "tup" :: map (fun s => SL [SA "str"; SA s]) l) | RRaise => SA "raise" end.
Definition enc_keysres (r : keysres) : sexp :=
  match r with KOne x => enc_pyval_key x | KMany l => SL (SA "tup" :: map enc_pyval_key l) | KRaise => SA "raise" end.

Definition enc_triple (t : Z * Z * Z) : sexp := let '(a, b, c) := t in SL [SA "ok"; SZ a; SZ b; SZ c; SZ (range_len (a,b,c))].

Definition dispatch (cmd : string) (args : list sexp) : option sexp :=
  match cmd, args with
  | "slice", [a; b; c; n] =>
      match dec_opt dec_Z a, dec_opt dec_Z b, dec_opt dec_Z c, dec_Z n with
      | Some a, Some b, Some c, Some n =>
          Some (match slice_indices_opt a b c n with Some t => enc_triple t | None => SA "raise" end)
      | _, _, _, _ => None
      end
  | "pyslice", [a; b; c; n] =>
      match dec_opt dec_Z a, dec_opt dec_Z b, dec_opt dec_Z c, dec_Z n with
      | Some a, Some b, Some c, Some n =>
          let st := match c with None => 1%Z | Some s => s end in
          Some (if (st =? 0)%Z then SA "raise" else enc_triple (py_indices a b st n))
      | _, _, _, _ => None
      end
  | "unravel-tuple-cpp", [k] => option_map (fun k => SL (map SA (cpp_unravel_to_tuple k))) (dec_key k)
  | "unravel-tuple-py", [k] => option_map (fun k => SL (map SA (py_unravel_to_tuple k))) (dec_key k)
  | "unravel-key-cpp", [k] => option_map (fun k => enc_keyres (cpp_unravel_key k)) (dec_key k)
  | "unravel-key-py", [k] => option_map (fun k => enc_keyres (py_unravel_key k)) (dec_key k)
  | "unravel-list-cpp", ks =>
      option_map (fun ks => enc_opt (enc_list enc_keyres) (cpp_unravel_key_list ks)) (dec_list_aux dec_key ks)
  | "unravel-list-py", ks =>
      option_map (fun ks => enc_opt (enc_list enc_keyres) (py_unravel_key_list ks)) (dec_list_aux dec_key ks)
  | "unravel-keys-cpp", ks => option_map (fun ks => enc_keysres (cpp_unravel_keys ks)) (dec_list_aux dec_key ks)
  | "unravel-keys-py", ks => option_map (fun ks => enc_keysres (py_unravel_keys ks)) (dec_list_aux dec_key ks)
  | "gbs-dim", [c; a; b; st; n] =>
      match dec_bool c, dec_opt dec_Z a, dec_opt dec_Z b, dec_opt dec_Z st, dec_Z n with
      | Some c, Some a, Some b, Some st, Some n =>
          Some (match gbs_slice_dim c a b st n with Some d => SZ d | None => SA "raise" end)
      | _, _, _, _, _ => None
      end
  | "names-set", [c; bd; cur; v] =>
      match dec_bool c, dec_nat bd, dec_names cur, dec_names v with
      | Some c, Some bd, Some cur, Some v => Some (enc_nres (names_set c bd cur v))
      | _, _, _, _ => None
      end
  | "init-names", [c; bd; v] =>
      match dec_bool c, dec_nat bd, dec_names v with
      | Some c, Some bd, Some v => Some (enc_nres (init_names c bd v))
      | _, _, _ => None
      end
  | "new-unsafe-names", [c; istd; bd; v] =>
      match dec_bool c, dec_bool istd, dec_nat bd, dec_names v with
      | Some c, Some istd, Some bd, Some v => Some (enc_nres (new_unsafe_names c istd bd v))
      | _, _, _, _ => None
      end
  | "memo-run", [rg; tbl; qs] =>
      match dec_bool rg, dec_list (dec_pair dec_str (dec_opt dec_str)) tbl, dec_list (dec_pair dec_bool dec_str) qs with
      | Some rg, Some tbl, Some qs =>
          Some (enc_memo_run (run String.eqb (table_fun tbl) (fun _ => true) rg qs []))
      | _, _, _ => None
      end
  | "seq-keys", [c; o; t] =>
      match dec_bool c, dec_list dec_str o, dec_list dec_str t with
      | Some c, Some o, Some t =>
          Some (enc_list enc_str ((if c then keys_compile else keys_eager) String.eqb o t))
      | _, _, _ => None
      end
  | _, _ => None
  end.
