From Coq Require Import ZArith List String Bool.
Import ListNotations.
From TD Require Import Lib.Sexp Model.C20_Apply Model.C20_Sched Model.C20_Lazy Model.C20_WriteBack.
Open Scope string_scope.

(* the user function of the correspondence run is the free term constructor: fn(key, item, args) = TFn key item args,
   or None for the entries whose id is listed *)
(* the arguments are always entries of the operands as they were handed to the call (the loop runs over the items of
   the original self), so they are recorded with their new-content positions erased *)
Inductive term := TFn (k : option (list string)) (item : tree unit) (args : list (option (tree unit))).

Fixpoint erase_t {A} (t : tree A) : tree unit :=
  match t with
  | Leaf s v => Leaf s (match v with VOld z => VOld z | VNew _ => VNew tt end)
  | NonT ob d m => NonT ob d m
  | Node ob m f => Node ob m (erase_f f)
  end
with erase_f {A} (f : forest A) : forest unit :=
  match f with FNil => FNil | FCons k t r => FCons k (erase_t t) (erase_f r) end.

Definition tagid (t : tree term) : Z :=
  match t with
  | Leaf (Old z) _ => z
  | NonT (Old z) _ _ => z
  | Node (Old z) _ _ => z
  | _ => (-1)%Z
  end.
Definition term_fn (nones : list Z) : option (list string) -> tree term -> list (option (tree term)) -> option term :=
  fun k item args => if existsb (Z.eqb (tagid item)) nones then None
                      else Some (TFn k (erase_t item) (map (option_map erase_t) args)).

(* ---------------------------------------------------------------- decoding *)
Definition dec_dev (s : sexp) : option (option dev) :=
  match s with SA "none" => Some None | SA "cpu" => Some (Some CPU) | SA "meta" => Some (Some META) | _ => None end.
Definition dec_names (s : sexp) : option dnames := dec_opt (dec_list (dec_opt dec_str)) s.
Definition dec_meta (s : sexp) : option meta :=
  match s with
  | SL [bs; dv; nm; lk] =>
      match dec_list dec_nat bs, dec_dev dv, dec_names nm, dec_bool lk with
      | Some bs, Some dv, Some nm, Some lk => Some (mkMeta bs dv nm lk)
      | _, _, _, _ => None
      end
  | _ => None
  end.

Fixpoint dec_tree (fuel : nat) (s : sexp) : option (tree term) :=
  match fuel with
  | 0 => None
  | S fu =>
      match s with
      | SL [SA "L"; SZ z] => Some (Leaf (Old z) (VOld z))
      | SL [SA "T"; SZ z; SZ d; m] => option_map (NonT (Old z) d) (dec_meta m)
      | SL [SA "N"; SZ z; m; SL kids] =>
          match dec_meta m, dec_forest fu kids with
          | Some m, Some f => Some (Node (Old z) m f)
          | _, _ => None
          end
      | _ => None
      end
  end
with dec_forest (fuel : nat) (l : list sexp) : option (forest term) :=
  match fuel with
  | 0 => None
  | S fu =>
      match l with
      | [] => Some FNil
      | SL [SA k; t] :: r =>
          match dec_tree fu t, dec_forest fu r with
          | Some t', Some r' => Some (FCons k t' r')
          | _, _ => None
          end
      | _ => None
      end
  end.
Definition dec_t (s : sexp) : option (tree term) := dec_tree 400 s.

Definition dec_fe (s : sexp) : option (option bool) :=
  match s with SA "none" => Some None | SA "t" => Some (Some true) | SA "f" => Some (Some false) | _ => None end.
Definition dec_absent {X} (f : sexp -> option X) (s : sexp) : option (option X) :=
  match s with SA "absent" => Some None | _ => option_map Some (f s) end.

(* (inplace default fe named nested_keys bs dev checked leaf_tensor leaf_nont leaf_node) *)
Definition dec_opts (s : sexp) : option opts :=
  match s with
  | SL [ip; df; fe; nm; nk; bs; dv; ck; lt; ln; lo] =>
      match dec_bool ip, dec_bool df, dec_fe fe, dec_bool nm, dec_bool nk, dec_absent (dec_list dec_nat) bs with
      | Some ip, Some df, Some fe, Some nm, Some nk, Some bs =>
          match dec_absent dec_dev dv, dec_bool ck, dec_bool lt, dec_bool ln, dec_bool lo with
          | Some dv, Some ck, Some lt, Some ln, Some lo =>
              Some (mkOpts ip df fe nm nk bs dv ck (fun kd => match kd with KTensor => lt | KNonT => ln | KNode => lo end))
          | _, _, _, _, _ => None
          end
      | _, _, _, _, _, _ => None
      end
  | _ => None
  end.

(* ---------------------------------------------------------------- encoding *)
Definition enc_dev (d : option dev) : sexp :=
  match d with None => SA "none" | Some CPU => SA "cpu" | Some META => SA "meta" end.
Definition enc_meta (m : meta) : sexp :=
  SL [enc_list enc_nat (m_bs m); enc_dev (m_dev m); enc_opt (enc_list (enc_opt enc_str)) (m_names m); enc_bool (m_lock m)].
Definition enc_obj (ob : obj) : sexp := match ob with Old z => SL [SA "o"; SZ z] | New => SA "new" end.
Definition enc_key (k : option (list string)) : sexp := enc_opt (enc_list enc_str) k.

Fixpoint enc_arg (fuel : nat) (t : tree unit) : sexp :=
  match fuel with
  | 0 => SA "fuel"
  | S fu =>
      match t with
      | Leaf s v => SL [SA "L"; enc_obj s; match v with VOld z => SL [SA "old"; SZ z] | VNew _ => SA "new" end]
      | NonT ob d m => SL [SA "T"; enc_obj ob; SZ d; enc_meta m]
      | Node ob m f => SL [SA "N"; enc_obj ob; enc_meta m; SL (enc_argf fu f)]
      end
  end
with enc_argf (fuel : nat) (f : forest unit) : list sexp :=
  match fuel with
  | 0 => []
  | S fu =>
      match f with
      | FNil => []
      | FCons k t r => SL [SA k; enc_arg fu t] :: enc_argf fu r
      end
  end.

Fixpoint enc_tree (fuel : nat) (t : tree term) : sexp :=
  match fuel with
  | 0 => SA "fuel"
  | S fu =>
      match t with
      | Leaf s v =>
          SL [SA "L"; enc_obj s;
              match v with
              | VOld z => SL [SA "old"; SZ z]
              | VNew (TFn k item args) =>
                  SL [SA "fn"; enc_key k; enc_arg 400 item;
                      SL (map (fun a => match a with Some x => enc_arg 400 x | None => SA "dflt" end) args)]
              end]
      | NonT ob d m => SL [SA "T"; enc_obj ob; SZ d; enc_meta m]
      | Node ob m f => SL [SA "N"; enc_obj ob; enc_meta m; SL (enc_forest fu f)]
      end
  end
with enc_forest (fuel : nat) (f : forest term) : list sexp :=
  match fuel with
  | 0 => []
  | S fu =>
      match f with
      | FNil => []
      | FCons k t r => SL [SA k; enc_tree fu t] :: enc_forest fu r
      end
  end.
Definition enc_t (t : tree term) : sexp := enc_tree 400 t.

Definition enc_err (e : err) : sexp :=
  SA (match e with EKey => "KeyError" | ERuntime => "RuntimeError" | EValue => "ValueError" | EAttr => "AttributeError"
               | EType => "TypeError" | EIndex => "IndexError" end).
Definition enc_mres {X} (f : X -> sexp) (r : mres X) : sexp :=
  match r with
  | MOk x => SL [SA "ok"; f x]
  | MRaised e => SL [SA "raise"; enc_err e]
  | MCyclic => SL [SA "cyclic"]
  | MStuck => SL [SA "stuck"]
  | MUnmodelled => SL [SA "unmodelled"]
  end.

Definition enc_lazy (r : lazy_ret term) : sexp :=
  match r with
  | LNone _ => SA "none"
  | LStack _ l => SL (SA "stack" :: map enc_t l)
  end.


(* ---------------------------------------------------------------- lazy stacks (Model/C20_Lazy.v) *)
Definition dummy_t : tree term := Leaf New (VOld 0%Z).
(* self = (obj stack_dim dim_name members) *)
Definition dec_lstack (s : sexp) : option (lstack term) :=
  match s with
  | SL [SZ z; sd; nm; ms] =>
      match dec_nat sd, dec_opt dec_str nm, dec_list dec_t ms with
      | Some sd, Some nm, Some ms => Some (mkLazy term (Old z) sd nm ms)
      | _, _, _ => None
      end
  | _ => None
  end.
(* an operand = (lazy? batch_size slices-along-self's-stack-dim): the slices along the other dims are not needed by a
   faithful model of the call (they are the dummy tensor) *)
Definition dec_operand (d : nat) (s : sexp) : option (operand term) :=
  match s with
  | SL [lz; bs; sl] =>
      match dec_opt (dec_pair dec_nat (dec_list dec_t)) lz, dec_list dec_nat bs, dec_list dec_t sl with
      | Some lz, Some bs, Some sl =>
          Some (mkOp term lz bs (fun d' i => if Nat.eqb d' d then nth i sl dummy_t else dummy_t))
      | _, _, _ => None
      end
  | _ => None
  end.
Definition dec_lout (s : sexp) : option (lout term) :=
  match s with
  | SA "other" => Some (OutOther term)
  | SL [SA "lazy"; tc; ms] =>
      match dec_bool tc, dec_list dec_t ms with
      | Some tc, Some ms => Some (OutLazy term tc ms)
      | _, _ => None
      end
  | _ => None
  end.
Definition enc_lres (r : lres term) : sexp :=
  match r with
  | LRNone _ => SA "none"
  | LRStack _ ob sd nm l => SL [SA "stack"; enc_obj ob; enc_nat sd; enc_opt enc_str nm; SL (map enc_t l)]
  | LRView _ m => SL [SA "view"; enc_meta m]
  end.

(* ---------------------------------------------------------------- the in-place write-back (Model/C20_WriteBack.v) *)
Definition dec_fret (s : sexp) : option (fret Z) :=
  match s with
  | SA "same" => Some FSame
  | SA "none" => Some FNone
  | SL [SA "fresh"; SZ v] => Some (FFresh v)
  | SL [SA "mut"; SZ v] => Some (FMut v)
  | SL [SA "mutnone"; SZ v] => Some (FMutNone v)
  | _ => None
  end.
Definition dec_wb_item (s : sexp) : option (string * Z * fret Z) :=
  match s with
  | SL [SA k; SZ x; r] => option_map (fun r' => (k, x, r')) (dec_fret r)
  | _ => None
  end.
Fixpoint wb_fn (items : list (string * Z * fret Z)) (k : string) (x : Z) : fret Z :=
  match items with
  | [] => FNone
  | (k', _, r) :: rest => if String.eqb k k' then r else wb_fn rest k x
  end.

Definition dispatch (cmd : string) (args : list sexp) : option sexp :=
  match cmd, args with
  | "apply", [SA mode; os; self; others; out; names; con; prop; nones; pi] =>
      match dec_opts os, dec_t self, dec_list dec_t others, dec_opt dec_t out, dec_absent dec_names names with
      | Some o, Some self, Some others, Some out, Some names =>
          match dec_bool con, dec_bool prop, dec_list dec_Z nones, dec_list dec_nat pi with
          | Some con, Some prop, Some nones, Some pi =>
              let fn := term_fn nones in
              if String.eqb mode "st" then Some (enc_mres (enc_opt enc_t) (st_front term o fn con prop self others out names))
              else if String.eqb mode "mt" then Some (enc_mres (enc_opt enc_t) (mt_front term o fn con prop self others out names pi))
              else None
          | _, _, _, _ => None
          end
      | _, _, _, _, _ => None
      end
  | "lazy", [os; members; others; out; names; con; nones; lbs; prop] =>
      match dec_opts os, dec_list dec_t members, dec_list (dec_list dec_t) others, dec_opt (dec_list dec_t) out,
            dec_absent dec_names names, dec_bool con, dec_list dec_Z nones, dec_absent (dec_list dec_nat) lbs with
      | Some o, Some members, Some others, Some out, Some names, Some con, Some nones, Some lbs =>
          match dec_bool prop with
          | Some prop => Some (enc_mres enc_lazy (of_res (lazy_front term o (term_fn nones) con prop members others out names lbs)))
          | None => None
          end
      | _, _, _, _, _, _, _, _ => None
      end
  | "lz", [SA mode; os; self; others; out; names; con; prop; nones; pi] =>
      match dec_opts os, dec_lstack self with
      | Some o, Some self =>
          match dec_list (dec_operand (l_sd term self)) others, dec_opt dec_lout out, dec_absent dec_names names,
                dec_bool con, dec_bool prop, dec_list dec_Z nones, dec_list dec_nat pi with
          | Some others, Some out, Some names, Some con, Some prop, Some nones, Some pi =>
              let fn := term_fn nones in
              if String.eqb mode "st" then Some (enc_mres enc_lres (of_res (lz_front term o fn con prop self others out names)))
              else if String.eqb mode "mt" then Some (enc_mres enc_lres (lz_mt_front term o fn con prop self others out names pi))
              else if String.eqb mode "apply_" then Some (enc_mres enc_lres (of_res (lz_apply_ term o fn con names self others)))
              else None
          | _, _, _, _, _, _, _ => None
          end
      | _, _ => None
      end
  | "wb", [fast; copies; items] =>
      match dec_bool fast, dec_bool copies, dec_list dec_wb_item items with
      | Some fast, Some copies, Some items =>
          let st := map (fun i => (fst (fst i), snd (fst i))) items in
          Some (SL (map (fun kv => SL [SA (fst kv); SZ (snd kv)]) (apply_inplace Z fast copies (wb_fn items) st)))
      | _, _, _ => None
      end
  | "ntasks", [os; con; self] =>
      match dec_opts os, dec_bool con, dec_t self with
      | Some o, Some con, Some (Node _ _ f) => Some (enc_nat (ntasks term o con f))
      | _, _, _ => None
      end
  | _, _ => None
  end.
