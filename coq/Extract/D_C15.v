From Coq Require Import ZArith List String Bool.
Import ListNotations.
From TD Require Import Lib.Sexp Model.C15_TCWrap Gen.C15_tables.
Open Scope string_scope.
Open Scope list_scope.

Definition enc_ikind (k : ikind) : sexp :=
  match k with
  | KExplicit => SA "explicit" | KDirect => SA "direct"
  | KWrap c => SL [SA "wrap"; enc_bool c] | KNoWrap => SA "nowrap" | KClassmethod => SA "classmethod"
  end.
Definition enc_disp (d : disp) : sexp :=
  match d with
  | DInstalled k => SL [SA "installed"; enc_ikind k] | DInherited => SA "inherited" | DField => SA "field"
  | DGetattr => SA "getattr" | DAbsent => SA "absent"
  end.
Definition enc_err (e : err) : sexp :=
  SA (match e with EKey => "KeyError" | EValue => "ValueError" | EAttribute => "AttributeError" | ERuntime => "RuntimeError" | EType => "TypeError" end).

Definition dec_ntv (s : sexp) : option ntv :=
  match s with SA "none" => Some NNone | SZ z => Some (NVal (Z.to_nat z)) | _ => None end.
Definition enc_ntv (v : ntv) : sexp := match v with NNone => SA "none" | NVal i => enc_nat i end.
Definition dec_nt : sexp -> option ntdict := dec_list (dec_pair dec_str dec_ntv).
Definition enc_nt (d : ntdict) : sexp := enc_list (enc_pair enc_str enc_ntv) d.

Definition dec_env (s : sexp) : option env :=
  match s with
  | SL [b; o; f; nt; cm; cw] =>
      match dec_list dec_str b, dec_list dec_str o, dec_list dec_str f, dec_bool nt, dec_list dec_str cm, dec_list dec_str cw with
      | Some b, Some o, Some f, Some nt, Some cm, Some cw =>
          Some {| e_base := b; e_own := o; e_fields := f; e_nt := nt; e_tdcm := cm; e_cmw := cw |}
      | _, _, _, _, _, _ => None
      end
  | _ => None
  end.

Definition dec_ratom (s : sexp) : option ratom :=
  match s with
  | SA "self" => Some ASelf | SA "none" => Some ANone | SA "other" => Some AOther
  | SL [SA "td"; ks; o] => match dec_list dec_str ks, dec_bool o with Some ks, Some o => Some (ATd ks o) | _, _ => None end
  | _ => None
  end.
Definition dec_rshape (s : sexp) : option rshape :=
  match s with
  | SL (SA "tuple" :: l) => option_map RTuple (dec_list_aux dec_ratom l)
  | _ => option_map R1 (dec_ratom s)
  end.
Definition enc_tatom (t : tatom) : sexp :=
  match t with
  | TSelf => SA "self" | TSelfTd => SA "selftd" | TNone => SA "none" | TOther => SA "other"
  | TWrapped ks nt c same => SL [SA "wrapped"; enc_list enc_str ks; enc_nt nt; enc_bool c; enc_bool same]
  | TBare ks o => SL [SA "bare"; enc_list enc_str ks; enc_bool o]
  | TRaise e => SL [SA "raise"; enc_err e]
  end.
Definition enc_tshape (t : tshape) : sexp :=
  match t with T1 a => enc_tatom a | TTuple l => SL (SA "tuple" :: map enc_tatom l) end.

Definition dec_tval (s : sexp) : option tval :=
  match s with
  | SL [SA "t"; SZ z] => Some (VTensor (Z.to_nat z)) | SL [SA "nt"; SZ z] => Some (VNonTensor (Z.to_nat z))
  | SL [SA "c"; SZ z] => Some (VColl (Z.to_nat z)) | _ => None
  end.
Definition enc_tval (v : tval) : sexp :=
  match v with VTensor i => SL [SA "t"; enc_nat i] | VNonTensor i => SL [SA "nt"; enc_nat i] | VColl i => SL [SA "c"; enc_nat i] end.
Definition dec_state (s : sexp) : option state :=
  match s with
  | SL [td; nt] => match dec_list (dec_pair dec_str dec_tval) td, dec_nt nt with
                   | Some td, Some nt => Some {| s_td := td; s_nt := nt |} | _, _ => None end
  | _ => None
  end.
Definition enc_state (s : state) : sexp := SL [enc_list (enc_pair enc_str enc_tval) (s_td s); enc_nt (s_nt s)].
Definition enc_got (g : got) : sexp :=
  match g with
  | GTensor i => SL [SA "t"; enc_nat i] | GColl i => SL [SA "c"; enc_nat i] | GPy i => SL [SA "py"; enc_nat i]
  | GNoneV => SA "none" | GRaise e => SL [SA "raise"; enc_err e] | GTdAttr => SA "tdattr"
  end.
Definition dec_vkind (s : sexp) : option vkind :=
  match s with
  | SA "tensor" => Some VkTensor | SA "coll" => Some VkColl | SA "number" => Some VkNumber | SA "dict" => Some VkDict
  | SA "none" => Some VkNone | SA "other" => Some VkOther | _ => None
  end.
Definition dec_hint (s : sexp) : option hint :=
  match s with SA "tensor" => Some HTensor | SA "coll" => Some HCollT | SA "concrete" => Some HConcrete | SA "any" => Some HAny | _ => None end.
Definition enc_placed (p : placed) : sexp :=
  match p with
  | PTensor c => SL [SA "tensor"; enc_bool c] | PNonTensor c => SL [SA "nontensor"; enc_bool c]
  | PCollFromDict => SA "coll-from-dict" | PNone => SA "none"
  end.
Definition enc_setres (r : setres) : sexp :=
  match r with SOk s => SL [SA "ok"; enc_state s] | SErr e => SL [SA "raise"; enc_err e] end.

Definition dec_itemvalue (s : sexp) : option itemvalue :=
  match s with
  | SL [SA "tc"; same; st] => match dec_bool same, dec_state st with Some b, Some st => Some (IVTc b st) | _, _ => None end
  | SL [SA "td"; ks] => option_map IVTd (dec_list dec_str ks)
  | SA "number" => Some IVNumber | SA "tensor" => Some IVTensor | SA "other" => Some IVOther
  | _ => None
  end.

Definition dispatch (cmd : string) (args : list sexp) : option sexp :=
  match cmd, args with
  | "dispatch", [e; SA n] => option_map (fun e => enc_disp (C15_TCWrap.dispatch e install_steps n)) (dec_env e)
  | "claims", [SA n] => Some (enc_list enc_ikind (claims_of install_steps n))
  | "wrap", [SA "td-method"; nw; c; f; sk; nt; r] =>
      match dec_bool nw, dec_bool c, dec_list dec_str f, dec_list dec_str sk, dec_nt nt, dec_rshape r with
      | Some nw, Some c, Some f, Some sk, Some nt, Some r => Some (enc_tshape (wrap_td_method nw c f sk nt r))
      | _, _, _, _, _, _ => None
      end
  | "wrap", [SA "getattr"; SA name; f; sk; nt; r] =>
      match dec_list dec_str f, dec_list dec_str sk, dec_nt nt, dec_rshape r with
      | Some f, Some sk, Some nt, Some r => Some (enc_tshape (wrap_method name tbl_clear_metadata f sk nt r))
      | _, _, _, _ => None
      end
  | "from-td", [f; ks; nt] =>
      match dec_list dec_str f, dec_list dec_str ks, dec_nt nt with
      | Some f, Some ks, Some nt =>
          Some (match from_tensordict f ks nt with FOk nt' => SL [SA "ok"; enc_nt nt'] | FErr e => SL [SA "raise"; enc_err e] end)
      | _, _, _ => None
      end
  | "getattr", [f; s; SA item] =>
      match dec_list dec_str f, dec_state s with Some f, Some s => Some (enc_got (getattr f s item)) | _, _ => None end
  | "place", [ac; nc; h; v] =>
      match dec_bool ac, dec_bool nc, dec_hint h, dec_vkind v with
      | Some ac, Some nc, Some h, Some v => Some (enc_placed (place {| o_autocast := ac; o_nocast := nc |} h v))
      | _, _, _, _ => None
      end
  | "set", [f; lk; ac; nc; h; s; SA k; v; SZ id] =>
      match dec_list dec_str f, dec_bool lk, dec_bool ac, dec_bool nc, dec_hint h, dec_state s, dec_vkind v with
      | Some f, Some lk, Some ac, Some nc, Some h, Some s, Some v =>
          Some (enc_setres (set_field f lk {| o_autocast := ac; o_nocast := nc |} h s k v (Z.to_nat id)))
      | _, _, _, _, _, _, _ => None
      end
  | "setitem", [kl; s; v] =>
      match dec_bool kl, dec_state s, dec_itemvalue v with
      | Some kl, Some s, Some v => Some (enc_setres (setitem (fun _ j => j) kl s v))
      | _, _, _ => None
      end
  | "wf", [f; s] =>
      match dec_list dec_str f, dec_state s with Some f, Some s => Some (enc_bool (wfb f s)) | _, _ => None end
  | _, _ => None
  end.
