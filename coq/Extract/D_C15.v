From Coq Require Import ZArith List String Bool.
Import ListNotations.
From TD Require Import Lib.Sexp Model.C15_TCWrap Model.C15_Pieces Gen.C15_tables.
Open Scope string_scope.
Open Scope list_scope.

Definition enc_ikind (k : ikind) : sexp :=
  match k with
  | KExplicit => SA "explicit" | KDirect => SA "direct"
  | KWrap c => SL [SA "wrap"; enc_bool c] | KNoWrap => SA "nowrap" | KClassmethod => SA "classmethod"
  end.
Definition enc_disp (d : disp) : sexp :=
  match d with
  | DInstalled k => SL [SA "installed"; enc_ikind k] | DInherited => SA "inherited" | DField => SA "field"
  | DGetattr => SA "getattr" | DAbsent => SA "absent"
  end.
Definition enc_err (e : err) : sexp :=
  SA (match e with EKey => "KeyError" | EValue => "ValueError" | EAttribute => "AttributeError" | ERuntime => "RuntimeError" | EType => "TypeError" end).

Definition dec_ntv (s : sexp) : option ntv :=
  match s with SA "none" => Some NNone | SZ z => Some (NVal (Z.to_nat z)) | _ => None end.
Definition enc_ntv (v : ntv) : sexp := match v with NNone => SA "none" | NVal i => enc_nat i end.
Definition dec_nt : sexp -> option ntdict := dec_list (dec_pair dec_str dec_ntv).
Definition enc_nt (d : ntdict) : sexp := enc_list (enc_pair enc_str enc_ntv) d.

Definition dec_env (s : sexp) : option env :=
  match s with
  | SL [b; o; f; nt; cm; cw] =>
      match dec_list dec_str b, dec_list dec_str o, dec_list dec_str f, dec_bool nt, dec_list dec_str cm, dec_list dec_str cw with
      | Some b, Some o, Some f, Some nt, Some cm, Some cw =>
          Some {| e_base := b; e_own := o; e_fields := f; e_nt := nt; e_tdcm := cm; e_cmw := cw |}
      | _, _, _, _, _, _ => None
      end
  | _ => None
  end.

Definition dec_ratom (s : sexp) : option ratom :=
  match s with
  | SA "self" => Some ASelf | SA "none" => Some ANone | SA "other" => Some AOther
  | SL [SA "td"; ks; o] => match dec_list dec_str ks, dec_bool o with Some ks, Some o => Some (ATd ks o) | _, _ => None end
  | _ => None
  end.
Definition dec_rshape (s : sexp) : option rshape :=
  match s with
  | SL (SA "tuple" :: l) => option_map RTuple (dec_list_aux dec_ratom l)
  | _ => option_map R1 (dec_ratom s)
  end.
Definition enc_tatom (t : tatom) : sexp :=
  match t with
  | TSelf => SA "self" | TSelfTd => SA "selftd" | TNone => SA "none" | TOther => SA "other"
  | TWrapped ks nt c same => SL [SA "wrapped"; enc_list enc_str ks; enc_nt nt; enc_bool c; enc_bool same]
  | TBare ks o => SL [SA "bare"; enc_list enc_str ks; enc_bool o]
  | TRaise e => SL [SA "raise"; enc_err e]
  end.
Definition enc_tshape (t : tshape) : sexp :=
  match t with T1 a => enc_tatom a | TTuple l => SL (SA "tuple" :: map enc_tatom l) end.

Definition dec_tval (s : sexp) : option tval :=
  match s with
  | SL [SA "t"; SZ z] => Some (VTensor (Z.to_nat z)) | SL [SA "nt"; SZ z] => Some (VNonTensor (Z.to_nat z))
  | SL [SA "c"; SZ z] => Some (VColl (Z.to_nat z)) | _ => None
  end.
Definition enc_tval (v : tval) : sexp :=
  match v with VTensor i => SL [SA "t"; enc_nat i] | VNonTensor i => SL [SA "nt"; enc_nat i] | VColl i => SL [SA "c"; enc_nat i] end.
Definition dec_state (s : sexp) : option state :=
  match s with
  | SL [td; nt] => match dec_list (dec_pair dec_str dec_tval) td, dec_nt nt with
                   | Some td, Some nt => Some {| s_td := td; s_nt := nt |} | _, _ => None end
  | _ => None
  end.
Definition enc_state (s : state) : sexp := SL [enc_list (enc_pair enc_str enc_tval) (s_td s); enc_nt (s_nt s)].
Definition enc_got (g : got) : sexp :=
  match g with
  | GTensor i => SL [SA "t"; enc_nat i] | GColl i => SL [SA "c"; enc_nat i] | GPy i => SL [SA "py"; enc_nat i]
  | GNoneV => SA "none" | GRaise e => SL [SA "raise"; enc_err e] | GTdAttr => SA "tdattr"
  end.
Definition dec_vkind (s : sexp) : option vkind :=
  match s with
  | SA "tensor" => Some VkTensor | SA "coll" => Some VkColl | SA "number" => Some VkNumber | SA "dict" => Some VkDict
  | SA "none" => Some VkNone | SA "other" => Some VkOther | _ => None
  end.
Definition dec_hint (s : sexp) : option hint :=
  match s with SA "tensor" => Some HTensor | SA "coll" => Some HCollT | SA "concrete" => Some HConcrete | SA "any" => Some HAny | _ => None end.
Definition enc_placed (p : placed) : sexp :=
  match p with
  | PTensor c => SL [SA "tensor"; enc_bool c] | PNonTensor c => SL [SA "nontensor"; enc_bool c]
  | PCollFromDict => SA "coll-from-dict" | PNone => SA "none"
  end.
Definition enc_setres (r : setres) : sexp :=
  match r with SOk s => SL [SA "ok"; enc_state s] | SErr e => SL [SA "raise"; enc_err e] end.

Definition dec_itemvalue (s : sexp) : option itemvalue :=
  match s with
  | SL [SA "tc"; same; st] => match dec_bool same, dec_state st with Some b, Some st => Some (IVTc b st) | _, _ => None end
  | SL [SA "td"; ks] => option_map IVTd (dec_list dec_str ks)
  | SA "number" => Some IVNumber | SA "tensor" => Some IVTensor | SA "other" => Some IVOther
  | _ => None
  end.

(* ---- Model/C15_Pieces.v *)
Definition dec_pyobj (s : sexp) : option pyobj :=
  match s with
  | SL [SZ i; SZ c; r] => match dec_bool r with Some r => Some {| oid := Z.to_nat i; ocls := Z.to_nat c; oraises := r |} | None => None end
  | _ => None
  end.
Definition dec_ntitem (s : sexp) : option ntitem :=
  match s with
  | SL [SA "ntd"; SZ n; v] => option_map (INtd (Z.to_nat n)) (dec_pyobj v)
  | SL [SA "nts"; vs] => option_map INts (dec_list dec_pyobj vs)
  | SL [SA "tensor"; SZ n] => Some (ITensor (Z.to_nat n))
  | _ => None
  end.
Definition enc_ntres (r : ntres) : sexp :=
  match r with
  | NStack rows => SL [SA "stack"; enc_list (fun o => enc_nat (ocls o)) rows]
  | NData n v => SL [SA "data"; enc_list (fun o => enc_nat (ocls o)) (repeat v n)]
  | NTensors => SA "tensors"
  end.
Definition enc_ogot (g : option got) : sexp := match g with Some g => enc_got g | None => SA "dangling" end.
Inductive pmut := PMNone | PMSet (target : nat) (k : string) (v : vkind) (hn : hint) (o : opts) | PMDel (target : nat) (k : string).
Definition dec_pmut (s : sexp) : option pmut :=
  match s with
  | SA "none" => Some PMNone
  | SL [SA "set"; SZ t; SA k; v; hn; ac; nc] =>
      match dec_vkind v, dec_hint hn, dec_bool ac, dec_bool nc with
      | Some v, Some hn, Some ac, Some nc => Some (PMSet (Z.to_nat t) k v hn {| o_autocast := ac; o_nocast := nc |})
      | _, _, _, _ => None
      end
  | SL [SA "del"; SZ t; SA k] => Some (PMDel (Z.to_nat t) k)
  | _ => None
  end.
Definition pieces_cmd (fields : list string) (tdh : list (list (string * tval))) (nt : ntdict) (tds : list nat) (m : pmut) : sexp :=
  let h := {| h_td := tdh; h_nt := [nt] |} in
  let src := {| i_td := 0; i_nt := 0 |} in
  match rewrap_all fields h src tds with
  | RErr e => SL [SA "raise"; enc_err e]
  | RDangling => SA "dangling"
  | ROk h1 ps =>
      let all := src :: ps in
      let after :=
        match m with
        | PMNone => HOk h1
        | PMSet t k v hn o => match nth_error all t with Some p => set_field_h fields false o hn h1 p k v 999 | None => HDangling end
        | PMDel t k => match nth_error all t with Some p => del_field_h h1 p k | None => HDangling end
        end in
      match after with
      | HErr e => SL [SA "mutation-raises"; enc_err e]
      | HDangling => SA "dangling"
      | HOk h2 =>
          SL [SA "ok";
              enc_list (fun p => SL [enc_bool (wf_h fields h1 p); enc_list (fun f => enc_ogot (get_field_h fields h1 p f)) fields]) all;
              enc_list (fun p => SL [enc_bool (wf_h fields h2 p); enc_list (fun f => enc_ogot (get_field_h fields h2 p f)) fields]) all]
      end
  end.

Definition dispatch (cmd : string) (args : list sexp) : option sexp :=
  match cmd, args with
  | "same-nt", [items] => option_map (fun l => enc_bool (same_non_tensor l)) (dec_list dec_ntitem items)
  | "cat-nt", [items] => option_map (fun l => enc_ntres (cat_nt l)) (dec_list dec_ntitem items)
  | "stack-nt", [items] => option_map (fun l => enc_ntres (stack_nt l)) (dec_list dec_ntitem items)
  | "pieces", [f; tdh; nt; tds; m] =>
      match dec_list dec_str f, dec_list (dec_list (dec_pair dec_str dec_tval)) tdh, dec_nt nt, dec_list dec_nat tds, dec_pmut m with
      | Some f, Some tdh, Some nt, Some tds, Some m => Some (pieces_cmd f tdh nt tds m)
      | _, _, _, _, _ => None
      end
  | "dispatch", [e; SA n] => option_map (fun e => enc_disp (C15_TCWrap.dispatch e install_steps n)) (dec_env e)
  | "claims", [SA n] => Some (enc_list enc_ikind (claims_of install_steps n))
  | "wrap", [SA "td-method"; nw; c; f; sk; nt; r] =>
      match dec_bool nw, dec_bool c, dec_list dec_str f, dec_list dec_str sk, dec_nt nt, dec_rshape r with
      | Some nw, Some c, Some f, Some sk, Some nt, Some r => Some (enc_tshape (wrap_td_method nw c f sk nt r))
      | _, _, _, _, _, _ => None
      end
  | "wrap", [SA "getattr"; SA name; f; sk; nt; r] =>
      match dec_list dec_str f, dec_list dec_str sk, dec_nt nt, dec_rshape r with
      | Some f, Some sk, Some nt, Some r => Some (enc_tshape (wrap_method name tbl_clear_metadata f sk nt r))
      | _, _, _, _ => None
      end
  | "from-td", [f; ks; nt] =>
      match dec_list dec_str f, dec_list dec_str ks, dec_nt nt with
      | Some f, Some ks, Some nt =>
          Some (match from_tensordict f ks nt with FOk nt' => SL [SA "ok"; enc_nt nt'] | FErr e => SL [SA "raise"; enc_err e] end)
      | _, _, _ => None
      end
  | "getattr", [f; s; SA item] =>
      match dec_list dec_str f, dec_state s with Some f, Some s => Some (enc_got (getattr f s item)) | _, _ => None end
  | "place", [ac; nc; h; v] =>
      match dec_bool ac, dec_bool nc, dec_hint h, dec_vkind v with
      | Some ac, Some nc, Some h, Some v => Some (enc_placed (place {| o_autocast := ac; o_nocast := nc |} h v))
      | _, _, _, _ => None
      end
  | "set", [f; lk; ac; nc; h; s; SA k; v; SZ id] =>
      match dec_list dec_str f, dec_bool lk, dec_bool ac, dec_bool nc, dec_hint h, dec_state s, dec_vkind v with
      | Some f, Some lk, Some ac, Some nc, Some h, Some s, Some v =>
          Some (enc_setres (set_field f lk {| o_autocast := ac; o_nocast := nc |} h s k v (Z.to_nat id)))
      | _, _, _, _, _, _, _ => None
      end
  | "setitem", [kl; s; v] =>
      match dec_bool kl, dec_state s, dec_itemvalue v with
      | Some kl, Some s, Some v => Some (enc_setres (setitem (fun _ j => j) kl s v))
      | _, _, _ => None
      end
  | "wf", [f; s] =>
      match dec_list dec_str f, dec_state s with Some f, Some s => Some (enc_bool (wfb f s)) | _, _ => None end
  | _, _ => None
  end.
