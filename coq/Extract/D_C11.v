(* C11 — decoding of trees / histories, evaluation with the model, canonical printing. *)
From Coq Require Import ZArith List String Bool Arith.
Import ListNotations.
From TD Require Import Lib.Sexp Model.C11_Layout Model.C11_Tree Model.C11_Formats Model.C11_Jagged.
Open Scope string_scope.
Open Scope list_scope.

Definition dec_leaf (s : sexp) : option leaf :=
  match s with
  | SL [dt; e; sh; by_] =>
      match dec_nat dt, dec_nat e, dec_list dec_nat sh, dec_list dec_Z by_ with
      | Some dt, Some e, Some sh, Some b => Some {| l_dt := dt; l_esz := e; l_shape := sh; l_bytes := b |}
      | _, _, _, _ => None end
  | _ => None
  end.
Definition enc_leaf (l : leaf) : sexp :=
  SL [enc_nat (l_dt l); enc_nat (l_esz l); enc_list enc_nat (l_shape l); enc_list enc_Z (l_bytes l)].

Definition dec_meta (s : sexp) : option nmeta :=
  match s with
  | SL [bs; names; dev; lk] =>
      match dec_list dec_nat bs, dec_list (dec_opt dec_str) names, dec_opt dec_nat dev, dec_bool lk with
      | Some bs, Some n, Some d, Some l => Some {| m_bs := bs; m_names := n; m_dev := d; m_locked := l |}
      | _, _, _, _ => None end
  | _ => None
  end.
Definition enc_meta (m : nmeta) : sexp :=
  SL [enc_list enc_nat (m_bs m); enc_list (enc_opt enc_str) (m_names m); enc_opt enc_nat (m_dev m); enc_bool (m_locked m)].

(* (node META (ENT ...));  ENT = (t "k" LEAF VIEW) | (nt "k" payload (bs)) | (td "k" TREE) *)
Fixpoint dec_tree (s : sexp) : option tree :=
  match s with
  | SL [SA "node"; m; SL es] =>
      match dec_meta m,
            (fix go (l : list sexp) : option forest :=
               match l with
               | [] => Some FNil
               | SL [SA "t"; SA k; lf; v] :: r =>
                   match dec_leaf lf, dec_opt dec_nat v, go r with
                   | Some lf, Some v, Some r => Some (FLeaf k lf v r) | _, _, _ => None end
               | SL [SA "nt"; SA k; SZ p; bs] :: r =>
                   match dec_list dec_nat bs, go r with Some bs, Some r => Some (FNonT k p bs r) | _, _ => None end
               | SL [SA "td"; SA k; t] :: r =>
                   match dec_tree t, go r with Some t, Some r => Some (FSub k t r) | _, _ => None end
               | _ => None
               end) es with
      | Some m, Some f => Some (Node m f)
      | _, _ => None end
  | _ => None
  end.

Fixpoint enc_tree (t : tree) : sexp :=
  match t with Node m f => SL [SA "node"; enc_meta m; SL (enc_forest f)] end
with enc_forest (f : forest) : list sexp :=
  match f with
  | FNil => []
  | FLeaf k l v r => SL [SA "t"; SA k; enc_leaf l; enc_opt enc_nat v] :: enc_forest r
  | FNonT k p bs r => SL [SA "nt"; SA k; SZ p; enc_list enc_nat bs] :: enc_forest r
  | FSub k t r => SL [SA "td"; SA k; enc_tree t] :: enc_forest r
  end.

Definition enc_seg (sg : seg) : sexp := SL [enc_nat (s_start sg); enc_nat (s_stop sg); enc_nat (s_pad sg)].

Fixpoint enc_mtree (mt : mtree) : sexp :=
  match mt with
  | MNode cm nts lvs subs =>
      SL [SA "mnode"; enc_meta cm;
          SL (map (fun x => SL [SA (fst x); SZ (fst (snd x)); enc_list enc_nat (snd (snd x))]) nts);
          SL (map (fun x => SL [SA (fst x); enc_nat (r_dt (snd x)); enc_nat (r_esz (snd x)); enc_list enc_nat (r_shape (snd x));
                                enc_seg (r_seg (snd x))]) lvs);
          SL (enc_mforest subs)]
  end
with enc_mforest (s : mforest) : list sexp :=
  match s with MNil => [] | MCons k mt r => SL [SA k; enc_mtree mt] :: enc_mforest r end.

Definition dec_path (s : sexp) : option (list string) := dec_list dec_str s.

Definition dec_op (s : sexp) : option op :=
  match s with
  | SL [SA "set"; p; SA k; lf] => match dec_path p, dec_leaf lf with Some p, Some l => Some (OSet p k l) | _, _ => None end
  | SL [SA "write"; p; SA k; b] => match dec_path p, dec_list dec_Z b with Some p, Some b => Some (OWrite p k b) | _, _ => None end
  | SL [SA "del"; p; SA k] => option_map (fun p => ODel p k) (dec_path p)
  | SL [SA "rename"; p; SA k; SA k'] => option_map (fun p => ORename p k k') (dec_path p)
  | SL [SA "newsub"; p; SA k; t] => match dec_path p, dec_tree t with Some p, Some t => Some (ONewSub p k t) | _, _ => None end
  | SL [SA "lock"; p] => option_map OLock (dec_path p)
  | SL [SA "unlock"; p] => option_map OUnlock (dec_path p)
  | SL [SA "names"; n] => option_map ONames (dec_list (dec_opt dec_str) n)
  | SL [SA "swap"; p; SA k; SA k'] => option_map (fun p => OSwap p k k') (dec_path p)
  | SL [SA "alias"; p; SA k; SA k'] => option_map (fun p => OAlias p k k') (dec_path p)
  | SL [SA "consolidate"; f] => option_map OConsolidate (dec_bool f)
  | _ => None
  end.

Definition enc_err (e : err) : sexp :=
  SA (match e with EView => "view" | ELock => "lock" | EKey => "key" | EReserved => "reserved" | EShape => "shape" end).
Definition enc_res {X} (f : X -> sexp) (r : res X) : sexp :=
  match r with Ok x => SL [SA "ok"; f x] | Raised e => SL [SA "raised"; enc_err e] end.

Definition enc_state (st : cstate) : sexp :=
  SL [enc_tree (cur st);
      match snap st with
      | None => SA "none"
      | Some sn => SL [SA "snap"; enc_mtree (sn_meta sn); enc_list enc_Z (sn_storage sn)] end].

(* runs a history; prints the outcome of every step, the final live object, and its pickle round trip *)
Fixpoint run_trace (st : cstate) (ops : list op) (acc : list sexp) : cstate * list sexp :=
  match ops with
  | [] => (st, rev acc)
  | o :: r => let '(st', ok) := step st o in run_trace st' r (enc_bool ok :: acc)
  end.

Definition dec_lspec (s : sexp) : option lspec :=
  match s with
  | SL [e; sh] => match dec_nat e, dec_list dec_nat sh with Some e, Some sh => Some {| sp_esz := e; sp_shape := sh |} | _, _ => None end
  | _ => None
  end.

Definition enc_dres (d : dres) : sexp :=
  match d with DOk l => SL [SA "ok"; enc_leaf l] | DViewErr => SA "view-error" | DShapeErr => SA "shape-error" end.


(* ---------------------------------------------------------------- trees with jagged tensors / lazy stacks / tensorclasses
   (jnode CLS (ENT ...));  CLS = (td META) | (tc id META) | (lazy stack_dim NAME locked)
   ENT = (t "k" LEAF) | (njt "k" VALUES LENGTHS? OFFSETS) | (nt "k" payload (bs)) | (td "k" TREE) *)
Definition dec_cls (s : sexp) : option jcls :=
  match s with
  | SL [SA "td"; m] => option_map CTd (dec_meta m)
  | SL [SA "tc"; i; m] => match dec_nat i, dec_meta m with Some i, Some m => Some (CTc i m) | _, _ => None end
  | SL [SA "lazy"; d; n; l] =>
      match dec_nat d, dec_opt dec_str n, dec_bool l with Some d, Some n, Some l => Some (CLazy d n l) | _, _, _ => None end
  | _ => None
  end.
Definition enc_cls (c : jcls) : sexp :=
  match c with
  | CTd m => SL [SA "td"; enc_meta m]
  | CTc i m => SL [SA "tc"; enc_nat i; enc_meta m]
  | CLazy d n l => SL [SA "lazy"; enc_nat d; enc_opt enc_str n; enc_bool l]
  end.

Fixpoint dec_jtree (s : sexp) : option jtree :=
  match s with
  | SL [SA "jnode"; c; SL es] =>
      match dec_cls c,
            (fix go (l : list sexp) : option jforest :=
               match l with
               | [] => Some JNil
               | SL [SA "t"; SA k; lf] :: r =>
                   match dec_leaf lf, go r with Some lf, Some r => Some (JLeaf k lf r) | _, _ => None end
               | SL [SA "njt"; SA k; v; ol; o] :: r =>
                   match dec_leaf v, dec_opt dec_leaf ol, dec_leaf o, go r with
                   | Some v, Some ol, Some o, Some r => Some (JNjt k v ol o r) | _, _, _, _ => None end
               | SL [SA "nt"; SA k; SZ p; bs] :: r =>
                   match dec_list dec_nat bs, go r with Some bs, Some r => Some (JNonT k p bs r) | _, _ => None end
               | SL [SA "td"; SA k; t] :: r =>
                   match dec_jtree t, go r with Some t, Some r => Some (JSub k t r) | _, _ => None end
               | _ => None
               end) es with
      | Some c, Some f => Some (JNode c f)
      | _, _ => None end
  | _ => None
  end.

Fixpoint enc_jtree (t : jtree) : sexp :=
  match t with JNode c f => SL [SA "jnode"; enc_cls c; SL (enc_jforest f)] end
with enc_jforest (f : jforest) : list sexp :=
  match f with
  | JNil => []
  | JLeaf k l r => SL [SA "t"; SA k; enc_leaf l] :: enc_jforest r
  | JNjt k v ol o r => SL [SA "njt"; SA k; enc_leaf v; enc_opt enc_leaf ol; enc_leaf o] :: enc_jforest r
  | JNonT k p bs r => SL [SA "nt"; SA k; SZ p; enc_list enc_nat bs] :: enc_jforest r
  | JSub k t r => SL [SA "td"; SA k; enc_jtree t] :: enc_jforest r
  end.

Fixpoint enc_jmtree (mt : jmtree) : sexp :=
  match mt with
  | JMNode c nts lvs subs =>
      SL [SA "mnode"; enc_cls c;
          SL (map (fun x => SL [SA (fst x); SZ (fst (snd x)); enc_list enc_nat (snd (snd x))]) nts);
          SL (map (fun x => SL [SA (fst x); enc_nat (r_dt (snd x)); enc_nat (r_esz (snd x)); enc_list enc_nat (r_shape (snd x));
                                enc_seg (r_seg (snd x))]) lvs);
          SL (enc_jmforest subs)]
  end
with enc_jmforest (s : jmforest) : list sexp :=
  match s with JMNil => [] | JMCons k mt r => SL [SA k; enc_jmtree mt] :: enc_jmforest r end.

Definition enc_jerr (e : jerr) : sexp :=
  SA (match e with JView => "view" | JShape => "shape" | JUnbound => "unbound" | JNjtKey => "njt-key" | JLazyKey => "lazy-key" end).
Definition enc_jres {X} (f : X -> sexp) (r : jres X) : sexp :=
  match r with JOk x => SL [SA "ok"; f x] | JRaised e => SL [SA "raised"; enc_jerr e] end.

Definition dispatch_j (cmd : string) (args : list sexp) : option sexp :=
  match cmd, args with
  (* writer (metadata dict, storage bytes) and the reader applied to them *)
  | "jcodec", [t] =>
      option_map (fun t =>
        let mt := fst (jmeta_t align_unit true t 0) in
        let st := jencode align_unit true t in
        SL [enc_jmtree mt; enc_list enc_Z st; enc_jres enc_jtree (jrebuild_t true st false mt)]) (dec_jtree t)
  (* the copy tasks of consolidate(num_threads > 0) completed in the given order, on a storage with the given content *)
  | "threads", [ls; init; order] =>
      match dec_list dec_leaf ls, dec_list dec_Z init, dec_list dec_nat order with
      | Some ls, Some init, Some order =>
          Some (enc_list enc_Z (run_tasks init (pick_tasks (tasks_from align_unit true 0 ls) order)))
      | _, _, _ => None end
  | _, _ => None
  end.

Definition dispatch (cmd : string) (args : list sexp) : option sexp :=
  match cmd, args with
  | "layout", [np; ls] =>
      match dec_bool np, dec_list dec_lspec ls with
      | Some np, Some ls => Some (SL [enc_list enc_seg (layout np ls); enc_nat (total align_unit np ls)])
      | _, _ => None end
  | "encode", [np; ls] =>
      match dec_bool np, dec_list dec_leaf ls with
      | Some np, Some ls => Some (enc_list enc_Z (encode align_unit np ls))
      | _, _ => None end
  | "decode", [st; dt; e; sh; a; b; p] =>
      match dec_list dec_Z st, dec_nat dt, dec_nat e, dec_list dec_nat sh, dec_nat a, dec_nat b, dec_nat p with
      | Some st, Some dt, Some e, Some sh, Some a, Some b, Some p =>
          Some (enc_dres (decode_leaf st dt e sh {| s_start := a; s_stop := b; s_pad := p |}))
      | _, _, _, _, _, _, _ => None end
  | "hist", [t; ops] =>
      match dec_tree t, dec_list dec_op ops with
      | Some t, Some ops =>
          let '(st, outs) := run_trace {| cur := t; snap := None |} ops [] in
          Some (SL [SL outs; enc_state st; enc_res enc_state (pickle_roundtrip st);
                    enc_bool (match snap st with Some sn => snapshot_current st sn | None => false end)])
      | _, _ => None end
  | "consolidate", [t; f] =>
      match dec_tree t, dec_bool f with
      | Some t, Some f => Some (enc_res enc_state (consolidate_tree align_unit true f t)) | _, _ => None end
  | "struct-ok", [sizes] => option_map (fun s => enc_bool (struct_fields_ok s)) (dec_list dec_nat sizes)
  | "dict", [t; bs] =>
      match dec_tree t, dec_list dec_nat bs with
      | Some t, Some bs => Some (enc_res enc_tree (from_dict (to_dict t) bs)) | _, _ => None end
  | "pytree", [t] =>
      option_map (fun t => match pt_unflatten (pt_leaves t) (pt_spec t) with
                           | Some t' => SL [SA "ok"; enc_tree t'] | None => SA "bad-arity" end) (dec_tree t)
  | "state-dict", [src; tgt] =>
      match dec_tree src, dec_tree tgt with
      | Some s, Some g => Some (match load_t g (state_dict s) with
                                | LDone t => SL [SA "ok"; enc_tree t] | LExc e => SL [SA "raised"; enc_err e] | LOut => SA "unmodelled" end)
      | _, _ => None end
  | _, _ => dispatch_j cmd args
  end.
