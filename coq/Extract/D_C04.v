(* C04 — decoding of histories, evaluation with the model, canonical printing of every observable. *)
From Coq Require Import ZArith List String Bool.
Import ListNotations.
From TD Require Import Lib.Sexp Model.Keys Model.C04_Tree Model.C04_Ops Model.C04_Views Model.C04_Step Model.C04_Lazy.
Open Scope string_scope.
Open Scope list_scope.

(* keys: "a" | (t k ...) | (bad) | integer *)
Fixpoint dec_key (s : sexp) : option pykey :=
  match s with
  | SA a => Some (KS a)
  | SZ _ => Some KBad
  | SL [SA "bad"] => Some KBad
  | SL (SA "t" :: l) =>
      option_map KT ((fix go (l : list sexp) : option (list pykey) :=
         match l with [] => Some [] | x :: r =>
           match dec_key x, go r with Some a, Some b => Some (a :: b) | _, _ => None end end) l)
  | SL _ => None
  end.

(* values: (t z) (s z) (n (k v) ...) *)
Fixpoint dec_val (s : sexp) : option tree :=
  match s with
  | SL [SA "t"; SZ z] => Some (Leaf LT z)
  | SL [SA "s"; SZ z] => Some (Leaf LS z)
  | SL (SA "n" :: l) =>
      option_map Node ((fix go (l : list sexp) : option ents :=
         match l with
         | [] => Some []
         | SL [SA k; v] :: r => match dec_val v, go r with Some a, Some b => Some ((k, a) :: b) | _, _ => None end
         | _ => None
         end) l)
  | _ => None
  end.

Definition dec_ents (s : sexp) : option ents :=
  match s with SL l => match dec_val (SL (SA "n" :: l)) with Some (Node es) => Some es | _ => None end | _ => None end.

Fixpoint enc_val (v : tree) : sexp :=
  match v with
  | Leaf LT z => SL [SA "t"; SZ z]
  | Leaf LS z => SL [SA "s"; SZ z]
  | Node es => SL (SA "n" :: (fix go (es : ents) : list sexp :=
                                match es with [] => [] | (k, w) :: r => SL [SA k; enc_val w] :: go r end) es)
  end.

Definition enc_ents (es : ents) : sexp := match enc_val (Node es) with SL (_ :: l) => SL l | x => x end.

Definition dec_op (s : sexp) : option op :=
  match s with
  | SL [SA "nop"] => Some ONop
  | SL [SA "set"; k; v] => match dec_key k, dec_val v with Some k, Some v => Some (OSet k v) | _, _ => None end
  | SL [SA "setitem"; k; v] => match dec_key k, dec_val v with Some k, Some v => Some (OSetItem k v) | _, _ => None end
  | SL [SA "del"; k] => option_map ODel (dec_key k)
  | SL [SA "delitem"; k] => option_map ODelItem (dec_key k)
  | SL [SA "pop"; k; d] => match dec_key k, dec_opt dec_Z d with Some k, Some d => Some (OPop k d) | _, _ => None end
  | SL [SA "rename"; a; b; safe] =>
      match dec_key a, dec_key b, dec_bool safe with Some a, Some b, Some s => Some (ORename a b s) | _, _, _ => None end
  | SL [SA "update"; items] => option_map OUpdate (dec_list (dec_pair dec_key dec_val) items)
  | SL [SA "setdefault"; k; v] => match dec_key k, dec_val v with Some k, Some v => Some (OSetDefault k v) | _, _ => None end
  | SL [SA "select"; ks; i; st; c] =>
      match dec_list dec_key ks, dec_bool i, dec_bool st, dec_bool c with
      | Some ks, Some i, Some st, Some c => Some (OSelect ks i st c) | _, _, _, _ => None end
  | SL [SA "exclude"; ks; i; c] =>
      match dec_list dec_key ks, dec_bool i, dec_bool c with
      | Some ks, Some i, Some c => Some (OExclude ks i c) | _, _, _ => None end
  | SL [SA "split"; sets; i; st; d; c] =>
      match dec_list (dec_list dec_key) sets, dec_bool i, dec_bool st, dec_opt dec_Z d, dec_opt dec_nat c with
      | Some sets, Some i, Some st, Some d, Some c => Some (OSplit sets i st d c) | _, _, _, _, _ => None end
  | SL [SA "flatten"; SA sep; i; c] =>
      match dec_bool i, dec_bool c with Some i, Some c => Some (OFlatten sep i c) | _, _ => None end
  | SL [SA "unflatten"; SA sep; i; c] =>
      match dec_bool i, dec_bool c with Some i, Some c => Some (OUnflatten sep i c) | _, _ => None end
  | SL [SA "clear"] => Some OClear
  | SL [SA "filter_empty"] => Some OFilterEmpty
  | _ => None
  end.

(* flags: (inc lo so lm) with lm = d | n *)
Definition dec_flags (s : sexp) : option (bool * bool * bool * bool) :=
  match s with
  | SL [a; b; c; SA lm] =>
      match dec_bool a, dec_bool b, dec_bool c with
      | Some a, Some b, Some c => Some (a, b, c, String.eqb lm "n") | _, _, _ => None end
  | _ => None
  end.

Definition enc_err (e : err) : sexp :=
  SL [SA "raise"; SA (match e with EKey => "key" | EOther => "other" | EUnmodelled => "unmodelled" | EFuel => "fuel" end)].

Definition enc_path (p : list string) : sexp := SL (map SA p).

Definition enc_resb (r : res bool) : sexp := match r with Ok b => enc_bool b | Raise e => enc_err e end.

Definition enc_get (g : gres) (dflt : string) : sexp :=
  match g with GVal v => SL [SA "val"; enc_val v] | GDef => SL [SA dflt] | GRaise e => enc_err e end.

Definition enc_view (f : bool * bool * bool * bool) (es : ents) : sexp :=
  let '(inc, lo, so, nt) := f in
  SL [ SL (map enc_path (keys_view inc lo so nt es));
       SL (map (fun kv => SL [enc_path (fst kv); enc_val (snd kv)]) (items_view inc lo so nt es));
       match values_view inc lo so nt es with Ok l => SL (map enc_val l) | Raise e => enc_err e end;
       enc_nat (len_view inc lo so nt es) ].

Definition enc_probe (kf : pykey * (bool * bool * bool * bool)) (es : ents) : sexp :=
  let '(k, (inc, lo, _, nt)) := kf in
  SL [ enc_resb (keys_contains inc lo nt k es); enc_resb (td_contains k es);
       enc_get (get k es) "none"; enc_get (get k es) "default" ].

Definition enc_ret (r : retval) : sexp :=
  match r with
  | RNone => SA "none"
  | RVal v => SL [SA "some"; enc_val v]
  | RDefault z => SL [SA "some"; SL [SA "default"; SZ z]]
  | RPyNone => SL [SA "some"; SL [SA "pynone"]]
  end.

Definition enc_step (r : stepres) (flags : list (bool * bool * bool * bool))
           (probes : list (pykey * (bool * bool * bool * bool))) : sexp :=
  let st := sr_cont r in
  SL [ match sr_err r with None => SA "ok" | Some e => enc_err e end;
       enc_ret (sr_ret r);
       match sr_results r with None => SA "none" | Some l => SL [SA "some"; SL (map enc_ents l)] end;
       enc_ents (sr_self r);
       enc_ents st;
       SL (map (fun f => enc_view f st) flags);
       SL (map (fun kf => enc_probe kf st) probes);
       enc_bool (is_empty st);
       enc_ents (to_dict st) ].

Definition dec_stepreq (s : sexp) : option (op * list (bool * bool * bool * bool) * list (pykey * (bool * bool * bool * bool))) :=
  match s with
  | SL [o; fl; pr] =>
      match dec_op o, dec_list dec_flags fl, dec_list (dec_pair dec_key dec_flags) pr with
      | Some o, Some fl, Some pr => Some (o, fl, pr) | _, _, _ => None end
  | _ => None
  end.

Fixpoint run_hist (es : ents) (reqs : list (op * list (bool * bool * bool * bool) * list (pykey * (bool * bool * bool * bool))))
  : list sexp :=
  match reqs with
  | [] => []
  | (o, fl, pr) :: r => let sr := step es o in enc_step sr fl pr :: run_hist (sr_cont sr) r
  end.


(* ------------------------------------------------------------------------------------------------------------
   lazy stacks (Model/C04_Lazy.v): members ((k v) ...) ..., stacked values (t (z0 z1 ..)) (n (k v) ...) *)
Fixpoint dec_sval (s : sexp) : option sval :=
  match s with
  | SL [SA "t"; SL zs] => option_map SLeaf (dec_list_aux dec_Z zs)
  | SL (SA "n" :: l) =>
      option_map SNode ((fix go (l : list sexp) : option (list (string * sval)) :=
         match l with
         | [] => Some []
         | SL [SA k; v] :: r => match dec_sval v, go r with Some a, Some b => Some ((k, a) :: b) | _, _ => None end
         | _ => None
         end) l)
  | _ => None
  end.

Definition dec_lop (s : sexp) : option lop :=
  match s with
  | SL [SA "nop"] => Some LNop
  | SL [SA "set"; k; v] => match dec_key k, dec_sval v with Some k, Some v => Some (LSet k v) | _, _ => None end
  | SL [SA "setitem"; k; v] => match dec_key k, dec_sval v with Some k, Some v => Some (LSetItem k v) | _, _ => None end
  | SL [SA "del"; k] => option_map LDel (dec_key k)
  | SL [SA "delitem"; k] => option_map LDel (dec_key k)
  | SL [SA "pop"; k; d] => match dec_key k, dec_opt dec_Z d with Some k, Some d => Some (LPop k d) | _, _ => None end
  | SL [SA "rename"; a; b; safe] =>
      match dec_key a, dec_key b, dec_bool safe with Some a, Some b, Some s => Some (LRename a b s) | _, _, _ => None end
  | SL [SA "update"; items] => option_map LUpdate (dec_list (dec_pair dec_key dec_sval) items)
  | SL [SA "setdefault"; k; v] => match dec_key k, dec_sval v with Some k, Some v => Some (LSetDefault k v) | _, _ => None end
  | SL [SA "select"; ks; i; st; c] =>
      match dec_list dec_key ks, dec_bool i, dec_bool st, dec_bool c with
      | Some ks, Some i, Some st, Some c => Some (LSelect ks i st c) | _, _, _, _ => None end
  | SL [SA "exclude"; ks; i; c] =>
      match dec_list dec_key ks, dec_bool i, dec_bool c with
      | Some ks, Some i, Some c => Some (LExclude ks i c) | _, _, _ => None end
  | SL [SA "flatten"; SA sep; i; c] =>
      match dec_bool i, dec_bool c with Some i, Some c => Some (LFlatten sep i c) | _, _ => None end
  | SL [SA "unflatten"; SA sep; i; c] =>
      match dec_bool i, dec_bool c with Some i, Some c => Some (LUnflatten sep i c) | _, _ => None end
  | SL [SA "clear"] => Some LClear
  | SL [SA "filter_empty"] => Some LFilterEmpty
  | _ => None
  end.

Definition enc_stack (ms : lstack) : sexp := SL (map enc_ents ms).

Definition enc_lval (v : lval) : sexp :=
  match v with
  | LVLeaf vs => SL [SA "t"; SL (map (fun w => match w with Leaf _ z => SZ z | Node _ => SA "node" end) vs)]
  | LVStack ms => SL (SA "stack" :: map enc_ents ms)
  end.

Definition enc_lget (g : lgres) (dflt : string) : sexp :=
  match g with LGVal v => SL [SA "val"; enc_lval v] | LGDef => SL [SA dflt] | LGRaise e => enc_err e end.

Definition enc_lview (f : bool * bool * bool * bool) (ms : lstack) : sexp :=
  let '(inc, lo, so, _) := f in
  SL [ match lz_keys_view inc lo so ms with Ok l => SL (map enc_path l) | Raise e => enc_err e end;
       match lz_items_view inc lo so ms with
       | Ok l => SL (map (fun kv => SL [enc_path (fst kv); enc_lval (snd kv)]) l) | Raise e => enc_err e end;
       match lz_values_view inc lo so ms with Ok l => SL (map enc_lval l) | Raise e => enc_err e end;
       match lz_len_view inc lo so ms with Ok n => enc_nat n | Raise e => enc_err e end ].

Definition enc_lprobe (kf : pykey * (bool * bool * bool * bool)) (ms : lstack) : sexp :=
  let '(k, (inc, lo, _, _)) := kf in
  SL [ enc_resb (lz_keys_contains inc lo k ms); enc_resb (lz_td_contains k ms);
       enc_lget (lz_get k ms) "none"; enc_lget (lz_get k ms) "default" ].

Definition enc_lret (r : lretval) : sexp :=
  match r with
  | LRNone => SA "none"
  | LRVal v => SL [SA "some"; enc_lval v]
  | LRDefault z => SL [SA "some"; SL [SA "default"; SZ z]]
  | LRPyNone => SL [SA "some"; SL [SA "pynone"]]
  end.

Definition enc_lstep (r : lstepres) (flags : list (bool * bool * bool * bool))
           (probes : list (pykey * (bool * bool * bool * bool))) : sexp :=
  let st := lr_cont r in
  SL [ match lr_err r with None => SA "ok" | Some e => enc_err e end;
       enc_lret (lr_ret r);
       match lr_results r with None => SA "none" | Some l => SL [SA "some"; SL (map enc_stack l)] end;
       enc_stack (lr_self r);
       enc_stack st;
       SL (map (fun f => enc_lview f st) flags);
       SL (map (fun kf => enc_lprobe kf st) probes);
       enc_resb (lz_is_empty st) ].

Definition dec_lstepreq (s : sexp) : option (lop * list (bool * bool * bool * bool) * list (pykey * (bool * bool * bool * bool))) :=
  match s with
  | SL [o; fl; pr] =>
      match dec_lop o, dec_list dec_flags fl, dec_list (dec_pair dec_key dec_flags) pr with
      | Some o, Some fl, Some pr => Some (o, fl, pr) | _, _, _ => None end
  | _ => None
  end.

Fixpoint run_lhist (ms : lstack) (reqs : list (lop * list (bool * bool * bool * bool) * list (pykey * (bool * bool * bool * bool))))
  : list sexp :=
  match reqs with
  | [] => []
  | (o, fl, pr) :: r => let sr := lz_step ms o in enc_lstep sr fl pr :: run_lhist (lr_cont sr) r
  end.

Definition dispatch (cmd : string) (args : list sexp) : option sexp :=
  match cmd, args with
  | "hist", [init; steps] =>
      match dec_ents init, dec_list dec_stepreq steps with
      | Some es, Some reqs => Some (SL (run_hist es reqs))
      | _, _ => None
      end
  | "lhist", [init; steps] =>
      match dec_list dec_ents init, dec_list dec_lstepreq steps with
      | Some ms, Some reqs => Some (SL (run_lhist ms reqs))
      | _, _ => None
      end
  | _, _ => None
  end.
