From Coq Require Import ZArith List String Bool.
Import ListNotations.
From TD Require Import Lib.Sexp Model.C14_Flow Model.C14_Interact.
Open Scope string_scope.

Definition dec_key (s : sexp) : option key := dec_list dec_str s.
Definition dec_keys (s : sexp) : option (list key) := dec_list dec_key s.
Definition dec_inpl (s : sexp) : option inplace :=
  match s with SA "t" => Some ITrue | SA "f" => Some IFalse | SA "empty" => Some IEmpty | _ => None end.

Fixpoint dec_node (s : sexp) : option node :=
  match s with
  | SL [SA "mod"; SZ i; ins; outs; sel; inpl] =>
      match dec_keys ins, dec_keys outs, dec_opt dec_keys sel, dec_inpl inpl with
      | Some a, Some b, Some c, Some d =>
          if (i <? 0)%Z then None
          else Some (Leaf {| mid := Z.to_nat i; ins := a; outs := b; lsel := c; linpl := d |})
      | _, _, _, _ => None
      end
  | SL [SA "seq"; SL ms; inpl; sel; pt; dict] =>
      let fix go (l : list sexp) : option (list node) :=
        match l with
        | [] => Some []
        | x :: r => match dec_node x, go r with Some a, Some b => Some (a :: b) | _, _ => None end
        end in
      match go ms, dec_opt dec_inpl inpl, dec_opt dec_keys sel, dec_bool pt, dec_bool dict with
      | Some a, Some b, Some c, Some d, Some e => Some (Seq {| sinpl := b; ssel := c; spt := d; sdict := e |} a)
      | _, _, _, _, _ => None
      end
  | _ => None
  end.

Definition enc_key (k : key) : sexp := enc_list enc_str k.
Definition enc_keys (l : list key) : sexp := enc_list enc_key l.
Fixpoint enc_term (t : term) : sexp :=
  match t with
  | In k => SL [SA "in"; enc_key k]
  | App m o args => SL [SA "app"; enc_nat m; enc_nat o; SL (map enc_term args)]
  end.
Definition enc_td (t : td) : sexp := enc_list (fun kv => SL [enc_key (fst kv); enc_term (snd kv)]) t.
Definition enc_ret (r : ret) : sexp :=
  match r with RIn => SA "in" | ROut => SA "out" | RFresh f => SL [SA "fresh"; enc_td f] end.
Definition enc_outcome (oc : outcome) : sexp :=
  match oc with
  | Done x o r => SL [SA "done"; enc_td x; enc_opt enc_td o; enc_ret r]
  | Raised x o => SL [SA "raised"; enc_td x; enc_opt enc_td o]
  end.
Fixpoint enc_struct (n : node) : sexp :=
  match n with
  | Leaf l => enc_nat (mid l)
  | Seq _ ms => SL (map enc_struct ms)
  end.

Definition mk_in (ks : list key) : td := map (fun k => (k, In k)) ks.
Definition mk_out (ks : list key) : td := map (fun k => (k, In ("@out" :: k))) ks.

Definition dec_cap (s : sexp) : option cap :=
  match s with
  | SA "value" => Some CValue | SA "raise-attr" => Some CAttrErr | SA "raise-notimpl" => Some CNotImpl | _ => None
  end.
Definition dec_itype (s : sexp) : option itype :=
  match s with
  | SA "mode" => Some TMode | SA "median" => Some TMedian | SA "mean" => Some TMean | SA "random" => Some TRandom
  | SA "deterministic" => Some TDeterministic | _ => None
  end.
Definition enc_action (a : action) : sexp :=
  match a with
  | ADetSample => SA "deterministic_sample" | AMode => SA "mode" | AMedian => SA "median" | AMean => SA "mean"
  | ARsampleN => SA "rsample-n-mean" | ASampleN => SA "sample-n-mean"
  | ARsample => SA "rsample" | ASample => SA "sample"
  | ARaiseNotImpl => SA "raise-notimpl" | ARaiseRuntime => SA "raise-runtime"
  end.

Definition dispatch (cmd : string) (args : list sexp) : option sexp :=
  match cmd, args with
  | "io", [n] =>
      match dec_node n with
      | Some n => Some (SL [enc_keys (in_keys n); enc_keys (out_keys n); enc_bool (buildable n)])
      | None => None
      end
  | "fwd", [n; present; tout] =>
      match dec_node n, dec_keys present, dec_opt dec_keys tout with
      | Some n, Some p, Some o => Some (enc_outcome (fwd n (mk_in p) (option_map mk_out o)))
      | _, _, _ => None
      end
  | "dispatch", [n; provided] =>
      match dec_node n, dec_keys provided with
      | Some n, Some p => Some (enc_opt (enc_list enc_term) (dispatch_call n p))
      | _, _ => None
      end
  | "subseq", [n; i; s] =>
      match dec_node n, dec_opt dec_keys i, dec_opt dec_keys s with
      | Some n, Some i, Some s =>
          Some (match select_sub (depth n + 1) n i s with
                | SOk n' => SL [SA "ok"; enc_struct n'; enc_keys (in_keys n'); enc_keys (out_keys n')]
                | SReject => SA "reject"
                | SFuel => SA "out-of-fuel"
                end)
      | _, _, _ => None
      end
  | "requires-sample", [ks; up] =>
      match dec_opt dec_keys ks, dec_keys up with
      | Some ks, Some up => Some (enc_bool (requires_sample ks up))
      | _, _ => None
      end
  | "interact", [it; lkj; hasdet; regk; support_real; mode; median; mean; has_rsample] =>
      match dec_itype it, dec_bool lkj, dec_bool hasdet, dec_opt dec_itype regk, dec_opt dec_bool support_real,
            dec_cap mode, dec_cap median, dec_cap mean, dec_bool has_rsample with
      | Some it, Some lkj, Some hd, Some rk, Some sr, Some mo, Some me, Some mn, Some hr =>
          Some (enc_action (dist_sample it {| is_lkj := lkj; has_det := hd; reg := rk; support_real := sr;
                                             c_mode := mo; c_median := me; c_mean := mn; has_rsample := hr |}))
      | _, _, _, _, _, _, _, _, _ => None
      end
  | _, _ => None
  end.
