From Coq Require Import ZArith List String Bool.
Import ListNotations.
From TD Require Import Lib.Sexp Model.C14_Flow Model.C14_Interact Model.C14_Prob.
Open Scope string_scope.

Definition dec_key (s : sexp) : option key := dec_list dec_str s.
Definition dec_keys (s : sexp) : option (list key) := dec_list dec_key s.
Definition dec_inpl (s : sexp) : option inplace :=
  match s with SA "t" => Some ITrue | SA "f" => Some IFalse | SA "empty" => Some IEmpty | _ => None end.

Fixpoint dec_node (s : sexp) : option node :=
  match s with
  | SL [SA "mod"; SZ i; ins; outs; sel; inpl] =>
      match dec_keys ins, dec_keys outs, dec_opt dec_keys sel, dec_inpl inpl with
      | Some a, Some b, Some c, Some d =>
          if (i <? 0)%Z then None
          else Some (Leaf {| mid := Z.to_nat i; ins := a; outs := b; lsel := c; linpl := d |})
      | _, _, _, _ => None
      end
  | SL [SA "seq"; SL ms; inpl; sel; pt; dict] =>
      let fix go (l : list sexp) : option (list node) :=
        match l with
        | [] => Some []
        | x :: r => match dec_node x, go r with Some a, Some b => Some (a :: b) | _, _ => None end
        end in
      match go ms, dec_opt dec_inpl inpl, dec_opt dec_keys sel, dec_bool pt, dec_bool dict with
      | Some a, Some b, Some c, Some d, Some e => Some (Seq {| sinpl := b; ssel := c; spt := d; sdict := e |} a)
      | _, _, _, _, _ => None
      end
  | _ => None
  end.

Definition enc_key (k : key) : sexp := enc_list enc_str k.
Definition enc_keys (l : list key) : sexp := enc_list enc_key l.
Fixpoint enc_term (t : term) : sexp :=
  match t with
  | In k => SL [SA "in"; enc_key k]
  | App m o args => SL [SA "app"; enc_nat m; enc_nat o; SL (map enc_term args)]
  end.
Definition enc_td (t : td) : sexp := enc_list (fun kv => SL [enc_key (fst kv); enc_term (snd kv)]) t.
Definition enc_ret (r : ret) : sexp :=
  match r with RIn => SA "in" | ROut => SA "out" | RFresh f => SL [SA "fresh"; enc_td f] end.
Definition enc_outcome (oc : outcome) : sexp :=
  match oc with
  | Done x o r => SL [SA "done"; enc_td x; enc_opt enc_td o; enc_ret r]
  | Raised x o => SL [SA "raised"; enc_td x; enc_opt enc_td o]
  end.
Fixpoint enc_struct (n : node) : sexp :=
  match n with
  | Leaf l => enc_nat (mid l)
  | Seq _ ms => SL (map enc_struct ms)
  end.

Definition mk_in (ks : list key) : td := map (fun k => (k, In k)) ks.
Definition mk_out (ks : list key) : td := map (fun k => (k, In ("@out" :: k))) ks.

Definition dec_cap (s : sexp) : option cap :=
  match s with
  | SA "value" => Some CValue | SA "raise-attr" => Some CAttrErr | SA "raise-notimpl" => Some CNotImpl | _ => None
  end.
Definition dec_itype (s : sexp) : option itype :=
  match s with
  | SA "mode" => Some TMode | SA "median" => Some TMedian | SA "mean" => Some TMean | SA "random" => Some TRandom
  | SA "deterministic" => Some TDeterministic | _ => None
  end.
Definition enc_action (a : action) : sexp :=
  match a with
  | ADetSample => SA "deterministic_sample" | AMode => SA "mode" | AMedian => SA "median" | AMean => SA "mean"
  | ARsampleN => SA "rsample-n-mean" | ASampleN => SA "sample-n-mean"
  | ARsample => SA "rsample" | ASample => SA "sample"
  | ARaiseNotImpl => SA "raise-notimpl" | ARaiseRuntime => SA "raise-runtime"
  end.


(* ---- probabilistic key plumbing (Model/C14_Prob.v) *)
Definition dec_pargs (s : sexp) : option pargs :=
  match s with
  | SL [SZ i; ins; dict; outs; comp; rlp; lpk; lpks; dflt] =>
      match dec_keys ins, dec_opt (dec_list dec_str) dict, dec_opt dec_keys outs, dec_opt dec_keys comp, dec_bool rlp,
            dec_opt dec_key lpk, dec_opt dec_keys lpks, dec_itype dflt with
      | Some a, Some b, Some c, Some d, Some e, Some f, Some g, Some h =>
          if (i <? 0)%Z then None
          else Some {| a_id := Z.to_nat i; a_in := a; a_dict := b; a_out := c; a_comp := d; a_rlp := e; a_lpk := f;
                       a_lpks := g; a_default := h |}
      | _, _, _, _, _, _, _, _ => None
      end
  | _ => None
  end.
Definition dec_dcap (s : sexp) : option dcap :=
  match s with
  | SL [lkj; hasdet; regk; support_real; mode; median; mean; has_rsample] =>
      match dec_bool lkj, dec_bool hasdet, dec_opt dec_itype regk, dec_opt dec_bool support_real,
            dec_cap mode, dec_cap median, dec_cap mean, dec_bool has_rsample with
      | Some lkj, Some hd, Some rk, Some sr, Some mo, Some me, Some mn, Some hr =>
          Some {| is_lkj := lkj; has_det := hd; reg := rk; support_real := sr; c_mode := mo; c_median := me; c_mean := mn;
                  has_rsample := hr |}
      | _, _, _, _, _, _, _, _ => None
      end
  | _ => None
  end.
Definition enc_dist (d : dist) : sexp :=
  SL [SA "dist"; enc_nat (d_mod d); enc_list enc_str (d_kw d); enc_list (enc_opt enc_term) (d_ps d)].
Definition enc_sval (v : sval) : sexp :=
  match v with
  | SUp t => SL [SA "up"; enc_term t]
  | SSmp d a j => SL [SA "smp"; enc_dist d; enc_action a; enc_nat j]
  end.
Definition enc_pv (v : pv) : sexp :=
  match v with
  | PV t => SL [SA "v"; enc_term t]
  | PS d a j => SL [SA "smp"; enc_dist d; enc_action a; enc_nat j]
  | PL d j vs => SL [SA "lp"; enc_dist d; enc_opt enc_nat j; enc_list enc_sval vs]
  end.
Definition enc_ptd (t : ptd) : sexp := enc_list (fun kv => SL [enc_key (fst kv); enc_pv (snd kv)]) t.
Definition enc_pres (r : pres) : sexp :=
  match r with
  | PDone x o => SL [SA "done"; enc_ptd x; enc_opt enc_ptd o]
  | PRaise => SA "raise"
  | POutside => SA "outside-model"
  end.
Definition enc_raise {A} (f : A -> sexp) (o : option A) : sexp := match o with Some a => f a | None => SA "raise" end.
Definition enc_keys_of (now : bool) (m : pmod) : sexp :=
  SL [enc_raise enc_keys (pm_out_keys now m); enc_raise enc_key (log_prob_key_of now m);
      enc_raise enc_keys (log_prob_keys_of now m); enc_list enc_str (p_kw m); enc_keys (p_out m)].
Definition dec_layer (s : sexp) : option layer :=
  match s with
  | SA "indep" => Some LIndep
  | SL [SA "trans"; r] => option_map LTrans (dec_opt dec_itype r)
  | _ => None
  end.
Definition dec_nodes (s : sexp) : option (list node) := dec_list dec_node s.

Definition dispatch (cmd : string) (args : list sexp) : option sexp :=
  match cmd, args with
  | "io", [n] =>
      match dec_node n with
      | Some n => Some (SL [enc_keys (in_keys n); enc_keys (out_keys n); enc_bool (buildable n)])
      | None => None
      end
  | "fwd", [n; present; tout] =>
      match dec_node n, dec_keys present, dec_opt dec_keys tout with
      | Some n, Some p, Some o => Some (enc_outcome (fwd n (mk_in p) (option_map mk_out o)))
      | _, _, _ => None
      end
  | "dispatch", [n; provided] =>
      match dec_node n, dec_keys provided with
      | Some n, Some p => Some (enc_opt (enc_list enc_term) (dispatch_call n p))
      | _, _ => None
      end
  | "subseq", [n; i; s] =>
      match dec_node n, dec_opt dec_keys i, dec_opt dec_keys s with
      | Some n, Some i, Some s =>
          Some (match select_sub (depth n + 1) n i s with
                | SOk n' => SL [SA "ok"; enc_struct n'; enc_keys (in_keys n'); enc_keys (out_keys n')]
                | SReject => SA "reject"
                | SFuel => SA "out-of-fuel"
                end)
      | _, _, _ => None
      end
  | "requires-sample", [ks; up] =>
      match dec_opt dec_keys ks, dec_keys up with
      | Some ks, Some up => Some (enc_bool (requires_sample ks up))
      | _, _ => None
      end
  | "pm-keys", [agg; now; a] =>
      match dec_bool agg, dec_bool now, dec_pargs a with
      | Some agg, Some now, Some a => Some (enc_raise (enc_keys_of now) (pm_init agg a))
      | _, _, _ => None
      end
  | "pm-fwd", [f148; f149; agg; now; ctx; cap; a; present; tout; req] =>
      match dec_bool f148, dec_bool f149, dec_bool agg, dec_bool now, dec_opt dec_itype ctx, dec_dcap cap, dec_pargs a,
            dec_keys present, dec_opt dec_keys tout, dec_bool req with
      | Some f148, Some f149, Some agg, Some now, Some ctx, Some cap, Some a, Some p, Some o, Some req =>
          Some (match pm_init agg a with
                | Some m => enc_pres (pm_forward f148 f149 now ctx cap m (lift (mk_in p)) (option_map (fun k => lift (mk_out k)) o) req)
                | None => SA "init-raise"
                end)
      | _, _, _, _, _, _, _, _, _, _ => None
      end
  | "ps-fwd", [f148; f149; agg; now; ctx; cap; a; det; present] =>
      match dec_bool f148, dec_bool f149, dec_bool agg, dec_bool now, dec_opt dec_itype ctx, dec_dcap cap, dec_pargs a,
            dec_nodes det, dec_keys present with
      | Some f148, Some f149, Some agg, Some now, Some ctx, Some cap, Some a, Some det, Some p =>
          Some (match pm_init agg a with
                | Some m =>
                    let q := {| q_det := det; q_last := m |} in
                    SL [enc_bool (q_requires_sample q);
                        enc_raise (fun io => SL [enc_keys (fst io); enc_keys (snd io)]) (q_io now q);
                        enc_pres (q_forward f148 f149 now ctx cap q (mk_in p));
                        match q_get_dist q (mk_in p) with
                        | Some (Some d) => enc_dist d | Some None => SA "raise" | None => SA "outside-model" end;
                        match q_log_prob now q (mk_in p) with
                        | Some (Some v) => enc_pv v | Some None => SA "raise" | None => SA "outside-model" end]
                | None => SA "init-raise"
                end)
      | _, _, _, _, _, _, _, _, _ => None
      end
  | "interact-w", [it; layers; cap] =>
      match dec_itype it, dec_list dec_layer layers, dec_dcap cap with
      | Some it, Some ls, Some b => Some (enc_action (dist_sample_w it ls b))
      | _, _, _ => None
      end
  | "interact", [it; lkj; hasdet; regk; support_real; mode; median; mean; has_rsample] =>
      match dec_itype it, dec_bool lkj, dec_bool hasdet, dec_opt dec_itype regk, dec_opt dec_bool support_real,
            dec_cap mode, dec_cap median, dec_cap mean, dec_bool has_rsample with
      | Some it, Some lkj, Some hd, Some rk, Some sr, Some mo, Some me, Some mn, Some hr =>
          Some (enc_action (dist_sample it {| is_lkj := lkj; has_det := hd; reg := rk; support_real := sr;
                                             c_mode := mo; c_median := me; c_mean := mn; has_rsample := hr |}))
      | _, _, _, _, _, _, _, _, _ => None
      end
  | _, _ => None
  end.
