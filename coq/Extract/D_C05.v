(* C05 dispatch: decodes a history of public calls, runs the lock-graph model, prints outcome + canonical heap per step. *)
From Coq Require Import ZArith List String Bool Arith.
Import ListNotations.
From TD Require Import Lib.Sexp Model.C05_Heap Model.C05_Lock Model.C05_LazyCall.
Open Scope string_scope.

Definition dec_value (s : sexp) : option value :=
  match s with
  | SA "leaf" => Some VLeaf
  | SA "newtd" => Some VNewTd
  | SL [SA "node"; m] => option_map VNode (dec_nat m)
  | _ => None
  end.

Definition dec_op (s : sexp) : option op :=
  match s with
  | SL [SA "lock"; n] => option_map OLock (dec_nat n)
  | SL [SA "unlock"; n] => option_map OUnlock (dec_nat n)
  | SL [SA "set"; n; k; v] =>
      match dec_nat n, dec_str k, dec_value v with Some n, Some k, Some v => Some (OSet n k v) | _, _, _ => None end
  | SL [SA "setbest"; n; k] => match dec_nat n, dec_str k with Some n, Some k => Some (OSetBest n k) | _, _ => None end
  | SL [SA "setinplace"; n; k] => match dec_nat n, dec_str k with Some n, Some k => Some (OSetInplace n k) | _, _ => None end
  | SL [SA "del"; hn; n; k] =>
      match dec_nat hn, dec_nat n, dec_str k with Some hn, Some n, Some k => Some (ODel hn n k) | _, _, _ => None end
  | SL [SA "pop"; hn; n; k] =>
      match dec_nat hn, dec_nat n, dec_str k with Some hn, Some n, Some k => Some (OPop hn n k) | _, _, _ => None end
  | SL [SA "rename"; n; k; k'; sf] =>
      match dec_nat n, dec_str k, dec_str k', dec_bool sf with
      | Some n, Some k, Some k', Some sf => Some (ORename n k k' sf) | _, _, _, _ => None end
  | SL [SA "clear"; n] => option_map OClear (dec_nat n)
  | SL [SA "popitem"; n] => option_map OPopitem (dec_nat n)
  | SL [SA "select"; n; ks] => match dec_nat n, dec_list dec_str ks with Some n, Some ks => Some (OSelect n ks) | _, _ => None end
  | SL [SA "exclude"; n; ks] => match dec_nat n, dec_list dec_str ks with Some n, Some ks => Some (OExclude n ks) | _, _ => None end
  | SL [SA "append"; l; m] => match dec_nat l, dec_nat m with Some l, Some m => Some (OAppend l m) | _, _ => None end
  | SL [SA "insert"; l; i; m] =>
      match dec_nat l, dec_nat i, dec_nat m with Some l, Some i, Some m => Some (OInsert l i m) | _, _, _ => None end
  | SL [SA "newlazy"; ms] => option_map ONewLazy (dec_list dec_nat ms)
  | SL [SA "newtd"] => Some ONewTd
  | SL [SA "memmap"; n] => option_map OMemmap (dec_nat n)
  | SL [SA "share"; n] => option_map OShare (dec_nat n)
  | SL [SA "pickle"; n] => option_map OPickle (dec_nat n)
  | SL [SA "makememmap"; n; k] => match dec_nat n, dec_str k with Some n, Some k => Some (OMakeMemmap n k) | _, _ => None end
  | SL [SA "gc"; ds] => option_map OGc (dec_list dec_nat ds)
  | _ => None
  end.

(* calls issued on a lazy-stack handle and routed to its members (Model/C05_LazyCall.v) *)
Definition dec_lcall (l : sexp) (s : sexp) : option lop :=
  match dec_nat l with
  | None => None
  | Some l =>
    match s with
    | SL [SA "set"; k] => option_map (fun k => LCall l (LSet k)) (dec_str k)
    | SL [SA "update"; k] => option_map (fun k => LCall l (LUpdate k)) (dec_str k)
    | SL [SA "del"; k] => option_map (fun k => LCall l (LDel k)) (dec_str k)
    | SL [SA "rename"; k; k'; sf] =>
        match dec_str k, dec_str k', dec_bool sf with Some k, Some k', Some sf => Some (LCall l (LRename k k' sf)) | _, _, _ => None end
    | SL [SA "select"; ks] => option_map (fun ks => LCall l (LSelect ks)) (dec_list dec_str ks)
    | SL [SA "exclude"; ks] => option_map (fun ks => LCall l (LExclude ks)) (dec_list dec_str ks)
    | _ => None
    end
  end.

Definition dec_lop (s : sexp) : option lop :=
  match s with
  | SL [SA "lcall"; l; c] => dec_lcall l c
  | _ => option_map LBase (dec_op s)
  end.

Definition enc_flag (f : flag) : sexp := SA (match f with FTrue => "true" | FFalse => "false" | FNone => "none" end).
Definition enc_ref (r : ref) : sexp := match r with RLeaf l => SL [SA "leaf"; enc_nat l] | RNode n => SL [SA "node"; enc_nat n] end.
Definition enc_optb (o : option bool) : sexp := match o with Some b => enc_bool b | None => SA "fuel" end.

Definition enc_node (s : st) (fuel : nat) (e : nat * node) : sexp :=
  let '(i, nd) := e in
  SL [enc_nat i; SA (match nk nd with KTd => "td" | KLazy => "lazy" end); enc_flag (flg nd);
      enc_list (fun kr : string * ref => SL [SA (fst kr); enc_ref (snd kr)]) (ents nd);
      enc_list enc_nat (pars nd); enc_bool (shm nd); enc_bool (mm nd);
      enc_optb (is_locked fuel (hp s) i);
      match parents_of fuel (hp s) i with Some l => enc_list enc_nat l | None => SA "fuel" end;
      enc_bool (live s i)].

Definition enc_outcome (o : outcome) : sexp :=
  SA (match o with Done => "ok" | Raised ELock => "runtime" | Raised EOther => "runtime" | Raised EKey => "key" | Invalid => "invalid" end).

Definition enc_state (s : st) : sexp :=
  SL [enc_list (enc_node s (auto_fuel s)) (hp s); enc_nat (nxt s); enc_list enc_nat (writes s)].

Fixpoint run_trace (s : st) (ops : list lop) : list sexp :=
  match ops with
  | [] => []
  | o :: r => match lstep (auto_fuel s) s o with
              | None => [SA "out-of-fuel"]
              | Some (s1, out) => SL [enc_outcome out; enc_state s1] :: run_trace s1 r
              end
  end.

(* the harness asks for the last two steps of a history prefix only: earlier states are never encoded *)
Fixpoint run_keep (s : st) (ops : list lop) (n : nat) (acc : list (outcome * st)) : sexp :=
  match ops with
  | [] => SL [enc_nat n; SL (map (fun p : outcome * st => SL [enc_outcome (fst p); enc_state (snd p)]) (rev acc))]
  | o :: r => match lstep (auto_fuel s) s o with
              | None => SL [SA "out-of-fuel"; enc_nat n]
              | Some (s1, out) => run_keep s1 r (S n) (firstn 2 ((out, s1) :: acc))
              end
  end.

Definition dispatch (cmd : string) (args : list sexp) : option sexp :=
  match cmd, args with
  | "hist", ops => option_map (fun ops => SL (run_trace init ops)) (dec_list_aux dec_lop ops)
  | "last", ops => option_map (fun ops => run_keep init ops 0 []) (dec_list_aux dec_lop ops)
  | "fixed", [] => Some (SL [SA "D7"; SA "D8"; SA "D55"; SA "D56"])   (* defects whose repair the model assumes *)
  | _, _ => None
  end.
