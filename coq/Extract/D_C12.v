From Coq Require Import ZArith List String Bool.
Import ListNotations.
From TD Require Import Lib.Sexp Model.C12_Chunk Model.C12_Sched Model.C12_Map Model.C12_Meta.
Open Scope string_scope.

Definition enc_err (e : err) : sexp :=
  SA (match e with EValue => "evalue" | ERuntime => "eruntime" | EZeroDiv => "ezerodiv" | EType => "etype"
               | EShape => "eshape" | EIndex => "eindex" | EDiverge => "ediverge" end).
Definition enc_res {A} (f : A -> sexp) (r : res A) : sexp :=
  match r with Ok a => SL [SA "ok"; f a] | Raised e => SL [SA "raise"; enc_err e] end.

Definition enc_piece (p : piece) : sexp :=
  match p with PSl a b => SL [SA "sl"; enc_nat a; enc_nat b] | PIx i => SL [SA "ix"; enc_nat i] end.
Definition enc_call (c : split_call) : sexp :=
  match c with
  | CChunk k => SL [SA "chunk"; enc_nat k]
  | CSplit k => SL [SA "split"; enc_nat k]
  | CUnbind => SL [SA "unbind"]
  | CGen l => SL [SA "gen"; enc_list enc_piece l]
  end.
Definition enc_bounds (l : list (nat * nat)) : sexp := enc_list (enc_pair enc_nat enc_nat) l.

Definition dec_kind (s : sexp) : option outkind :=
  match s with SA "none" => Some ONone | SA "regular" => Some ORegular | SA "shared" => Some OShared | _ => None end.

Definition enc_mapres (r : mapres (option nat)) : sexp :=
  match r with
  | RetNone => SL [SA "ret-none"]
  | RetCat l => SL [SA "ret-cat"; enc_list (enc_opt enc_nat) l]
  | RetOut o => SL [SA "ret-out"; enc_list (enc_opt enc_nat) o]
  | RetNoneOut o => SL [SA "ret-none-out"; enc_list (enc_opt enc_nat) o]
  end.

(* the row-wise test function of the harness: the result rows are identified by their source rows; a chunk whose
   first row a has isnone[a] returns None *)
Definition fn_of (isnone : list bool) (rows : list nat) : option (list (option nat)) :=
  match rows with
  | [] => Some []
  | a :: _ => if nth a isnone false then None else Some (map Some rows)
  end.

(* the function family of the map-full / map-iter streams (harness/c12.py::full_fn): a row is identified by its position
   along the mapped dim; a chunk whose first row a has isnone[a] returns None; "first": only the first row of the chunk
   (batch size 1 along dim); "dup": the chunk twice (cat along dim); an unbound chunk (chunksize == 0) is returned whole *)
Definition fn_full (kind : string) (isnone : list bool) (unbound : bool) (rows : list nat) : option (list (option nat)) :=
  match rows with
  | [] => Some []
  | a :: _ =>
      if nth a isnone false then None else
      if unbound then Some (map Some rows) else
      match kind with
      | "first" => Some [Some a]
      | "dup" => Some (map Some rows ++ map Some rows)%list
      | _ => Some (map Some rows)
      end
  end.

Definition dec_mparams (dim cs nc nw gen pbar : sexp) : option mparams :=
  match dec_Z dim, dec_opt dec_nat cs, dec_opt dec_nat nc, dec_nat nw, dec_bool gen, dec_bool pbar with
  | Some dim, Some cs, Some nc, Some nw, Some gen, Some pbar =>
      Some {| p_dim := dim; p_cs := cs; p_nc := nc; p_nw := nw; p_gen := gen; p_pbar := pbar |}
  | _, _, _, _, _, _ => None
  end.

Definition enc_total (t : option (option nat)) : sexp := enc_opt (enc_opt enc_nat) t.

(* ---------------------------------------------------------------- thread pools *)
Fixpoint dec_tree (fuel : nat) (s : sexp) : option tree :=
  match fuel with
  | 0 => None
  | S fu =>
      match s with
      | SL [SA "leaf"; i; SZ v] => option_map (fun i => Leaf i v) (dec_nat i)
      | SL [SA "node"; SL kids] => option_map Node (dec_forest fu kids)
      | _ => None
      end
  end
with dec_forest (fuel : nat) (l : list sexp) : option forest :=
  match fuel with
  | 0 => None
  | S fu =>
      match l with
      | [] => Some FNil
      | SL [SA k; t] :: r =>
          match dec_tree fu t, dec_forest fu r with
          | Some t', Some r' => Some (FCons k t' r') | _, _ => None end
      | _ => None
      end
  end.
Definition dec_forest_top (s : sexp) : option forest :=
  match s with SL kids => dec_forest 200 kids | _ => None end.

Fixpoint enc_tree (t : tree) : sexp :=
  match t with
  | Leaf i v => SL [SA "leaf"; enc_nat i; SZ v]
  | Node f => SL [SA "node"; SL (enc_forest f)]
  end
with enc_forest (f : forest) : list sexp :=
  match f with
  | FNil => []
  | FCons k t r => SL [SA k; enc_tree t] :: enc_forest r
  end.

Definition enc_outcome (x : outcome) : sexp :=
  match x with
  | ORet None => SL [SA "ret"; SA "none"]
  | ORet (Some f) => SL [SA "ret"; SL (enc_forest f)]
  | ORaise AKey => SL [SA "raise"; SA "ekey"]
  | ORaise AOther => SL [SA "raise"; SA "eother"]
  | ORaise ANeverDone => SL [SA "raise"; SA "never-done"]
  end.

(* the test function of the harness (harness/c12.py::make_apply_fn), on the first element of each leaf *)
Fixpoint map_leaves_t (t : tree) : tree :=
  match t with Leaf _ v => Leaf 0 (v + 1)%Z | Node f => Node (map_leaves_f f) end
with map_leaves_f (f : forest) : forest :=
  match f with FNil => FNil | FCons k t r => FCons k (map_leaves_t t) (map_leaves_f r) end.

Definition key_hash (k : option (list string)) : Z :=
  match k with
  | None => 0%Z
  | Some l => (Z.of_nat (fold_right (fun s n => (String.length s + n)%nat) 0%nat l) * 7
               + 1000000 * Z.of_nat (List.length l))%Z
  end.

Definition test_fn (noneset : list Z) (cwd : bool) : userfn := fun key item others =>
  match item with
  | Node _ => Some (map_leaves_t item)
  | Leaf _ v =>
      if existsb (Z.eqb (v / 1000)%Z) noneset then None else
      Some (Leaf 0 (v + 1
                  + fold_right (fun ov n => (match ov with ODef => 100 | OV (Node _) => 7 | OV (Leaf _ w) => w end + n)%Z) 0%Z others
                  + key_hash key + (if cwd then 10 else 0))%Z)
  end.

(* ---------------------------------------------------------------- metadata of the result of apply *)
Definition dec_meta (bs nm dv lk : sexp) : option meta :=
  match dec_list dec_nat bs, dec_opt (dec_list dec_str) nm, dec_opt dec_nat dv, dec_bool lk with
  | Some bs, Some nm, Some dv, Some lk => Some {| m_bs := bs; m_names := nm; m_dev := dv; m_locked := lk |}
  | _, _, _, _ => None
  end.
Fixpoint dec_mtree (fuel : nat) (s : sexp) : option mtree :=
  match fuel with
  | 0 => None
  | S fu =>
      match s with
      | SL [SA "mnode"; bs; nm; dv; lk; SL kids] =>
          match dec_meta bs nm dv lk, dec_mforest fu kids with
          | Some m, Some k => Some (MNode m k) | _, _ => None end
      | _ => None
      end
  end
with dec_mforest (fuel : nat) (l : list sexp) : option mforest :=
  match fuel with
  | 0 => None
  | S fu =>
      match l with
      | [] => Some MNil
      | SL [SA k; t] :: r =>
          match dec_mtree fu t, dec_mforest fu r with
          | Some t', Some r' => Some (MCons k t' r') | _, _ => None end
      | _ => None
      end
  end.
Fixpoint enc_mtree (t : mtree) : sexp :=
  match t with
  | MNode m kids => SL [SA "mnode"; enc_list enc_nat (m_bs m); enc_opt (enc_list enc_str) (m_names m);
                        enc_opt enc_nat (m_dev m); enc_bool (m_locked m); SL (enc_mforest kids)]
  end
with enc_mforest (f : mforest) : list sexp :=
  match f with MNil => [] | MCons k t r => SL [SA k; enc_mtree t] :: enc_mforest r end.
Definition enc_mres (r : mres mtree) : sexp :=
  match r with
  | MOk t => SL [SA "ok"; enc_mtree t]
  | MRaised MLocked => SL [SA "raise"; SA "locked"]
  | MRaised MBatch => SL [SA "raise"; SA "batch"]
  | MRaised MDevice => SL [SA "raise"; SA "device"]
  | MRaised MTypeErr => SL [SA "raise"; SA "type"]
  | MRaised MNames => SL [SA "raise"; SA "names"]
  end.

Definition dec_fe (s : sexp) : option (option bool) :=
  match s with SA "none" => Some None | SA "t" => Some (Some true) | SA "f" => Some (Some false) | _ => None end.

(* (named nested_keys inplace filter_empty default call_on_nested cwd) *)
Definition dec_opts (s : sexp) : option (opts * dflt * bool * bool) :=
  match s with
  | SL [nm; nk; ip; fe; df; con; cwd] =>
      match dec_bool nm, dec_bool nk, dec_bool ip, dec_fe fe, dec_bool df, dec_bool con, dec_bool cwd with
      | Some nm, Some nk, Some ip, Some fe, Some df, Some con, Some cwd =>
          Some ({| o_named := nm; o_nested_keys := nk; o_inplace := ip; o_fe := fe |},
                if df then Default else NoDefault, con, cwd)
      | _, _, _, _, _, _, _ => None end
  | _ => None
  end.

Definition dispatch (cmd : string) (args : list sexp) : option sexp :=
  match cmd, args with
  | "pyceil", [n; k] =>
      match dec_nat n, dec_nat k with Some n, Some k => Some (enc_nat (pyceil n k)) | _, _ => None end
  | "td-split", [n; k] =>
      match dec_nat n, dec_nat k with Some n, Some k => Some (enc_res enc_bounds (td_split n k)) | _, _ => None end
  | "td-chunk", [n; k] =>
      match dec_nat n, dec_nat k with Some n, Some k => Some (enc_res enc_bounds (td_chunk n k)) | _, _ => None end
  | "split-call", [n; cs; nc; nw; gen; sh] =>
      match dec_nat n, dec_opt dec_nat cs, dec_opt dec_nat nc, dec_nat nw, dec_bool gen, dec_bool sh with
      | Some n, Some cs, Some nc, Some nw, Some gen, Some sh =>
          Some (enc_res enc_call (split_call_of n cs nc nw gen sh))
      | _, _, _, _, _, _ => None end
  | "pieces", [n; cs; nc; nw; gen] =>
      match dec_nat n, dec_opt dec_nat cs, dec_opt dec_nat nc, dec_nat nw, dec_bool gen with
      | Some n, Some cs, Some nc, Some nw, Some gen =>
          Some (enc_res (fun l => SL [enc_bool (existsb is_unbound l); enc_bounds (map (bounds n) l)])
                        (split_pieces n cs nc nw gen false))
      | _, _, _, _, _ => None end
  | "spec-bounds", [n; s] =>
      match dec_nat n, dec_nat s with Some n, Some s => Some (enc_bounds (spec_bounds n s)) | _, _ => None end
  | "map", [n; cs; nc; nw; gen; kind; isnone] =>
      match dec_nat n, dec_opt dec_nat cs, dec_opt dec_nat nc, dec_nat nw, dec_bool gen, dec_kind kind,
            dec_list dec_bool isnone with
      | Some n, Some cs, Some nc, Some nw, Some gen, Some kind, Some isnone =>
          Some (enc_res enc_mapres (map_model (fn_of isnone) (seq 0 n) kind (repeat None n) cs nc nw gen))
      | _, _, _, _, _, _, _ => None end
  | "map-full", [shape; dim; cs; nc; nw; gen; pbar; kind; oshape; fk; isnone; nrows; nout] =>
      match dec_list dec_nat shape, dec_mparams dim cs nc nw gen pbar, dec_kind kind, dec_list dec_nat oshape,
            dec_str fk, dec_list dec_bool isnone, dec_nat nrows, dec_nat nout with
      | Some shape, Some p, Some kind, Some oshape, Some fk, Some isnone, Some nrows, Some nout =>
          Some (SL [enc_res enc_mapres (map_full (fn_full fk isnone) shape (seq 0 nrows) kind oshape (repeat None nout) p);
                    enc_res enc_total (map_pbar_total shape p)])
      | _, _, _, _, _, _, _, _ => None end
  | "map-iter", [shape; dim; cs; nc; nw; gen; pbar; sh; fk; isnone; nrows; rp; pi] =>
      match dec_list dec_nat shape, dec_mparams dim cs nc nw gen pbar, dec_bool sh,
            dec_str fk, dec_list dec_bool isnone, dec_nat nrows, dec_list dec_nat rp, dec_list dec_nat pi with
      | Some shape, Some p, Some sh, Some fk, Some isnone, Some nrows, Some rp, Some pi =>
          Some (enc_res (enc_list (enc_opt (enc_list (enc_opt enc_nat))))
                        (map_iter_full (fn_full fk isnone) shape (seq 0 nrows) p sh rp pi))
      | _, _, _, _, _, _, _, _ => None end
  | "shuffle", [rp; cs; nc; nw] =>
      match dec_list dec_nat rp, dec_opt dec_nat cs, dec_opt dec_nat nc, dec_nat nw with
      | Some rp, Some cs, Some nc, Some nw =>
          Some (enc_res (fun l => enc_list (enc_list enc_nat) (shuffle_pieces rp l))
                        (split_pieces (List.length rp) cs nc nw true true))
      | _, _, _, _ => None end
  | "mt-apply", [self; others; out; op; noneset; pi] =>
      match dec_forest_top self, dec_list dec_forest_top others, dec_opt dec_forest_top out, dec_opts op,
            dec_list dec_Z noneset, dec_list dec_nat pi with
      | Some self, Some others, Some out, Some (o, d, con, cwd), Some ns, Some pi =>
          Some (enc_outcome (mt_apply (test_fn ns cwd) o d con self others out pi))
      | _, _, _, _, _, _ => None end
  | "st-apply", [self; others; out; op; noneset] =>
      match dec_forest_top self, dec_list dec_forest_top others, dec_opt dec_forest_top out, dec_opts op,
            dec_list dec_Z noneset with
      | Some self, Some others, Some out, Some (o, d, con, cwd), Some ns =>
          Some (enc_outcome (st_apply (test_fn ns cwd) o d con self others out))
      | _, _, _, _, _ => None end
  | "apply-meta", [form; self; out; bs; bsz; dev; dvo; names; ip; ck] =>
      match dec_mtree 200 self, dec_opt (dec_mtree 200) out, dec_opt (dec_list dec_nat) bs, dec_bool bsz, dec_opt (dec_opt dec_nat) dev,
            dec_bool dvo, dec_opt (dec_opt (dec_list dec_str)) names, dec_bool ip, dec_bool ck with
      | Some self, Some out, Some bs, Some bsz, Some dev, Some dvo, Some names, Some ip, Some ck =>
          let o := {| mo_bs := bs; mo_bs_size := bsz; mo_dev_obj := dvo; mo_inplace := ip; mo_checked := ck |} in
          match form with
          | SA "st" => Some (enc_mres (st_meta o dev names self out))
          | SA "mt" => Some (enc_mres (mt_meta o dev names self out))
          | _ => None
          end
      | _, _, _, _, _, _, _, _, _ => None end
  | "run-writes", [ops; d0] =>
      let dec_pv := dec_pair (dec_list dec_str) dec_Z in
      match dec_list dec_pv ops, dec_list dec_pv d0 with
      | Some ops, Some d0 =>
          Some (enc_list (enc_pair (enc_list enc_str) enc_Z) (run_writes ops d0))
      | _, _ => None end
  | "run-writes-f", [sub; comp] =>
      (* tasks: ((path) (ok v)) | ((path) (fail e)) *)
      let dec_t := dec_pair (dec_list dec_str)
                     (fun x => match x with
                               | SL [SA "ok"; SZ v] => Some (inl v)
                               | SL [SA "fail"; e] => option_map inr (dec_nat e)
                               | _ => None end) in
      let enc_w := fun w => match w with
                            | WDone d => SL [SA "done"; enc_list (enc_pair (enc_list enc_str) enc_Z) d]
                            | WRaised e => SL [SA "raised"; enc_nat e] end in
      match dec_list dec_t sub, dec_list dec_t comp with
      | Some sub, Some comp => Some (SL [enc_w (run_writes_st sub []); enc_w (run_writes_mt sub comp [])])
      | _, _ => None end
  | "run-assign", [ws; storage] =>
      match dec_list (dec_pair dec_nat (dec_list dec_Z)) ws, dec_list dec_Z storage with
      | Some ws, Some st => Some (enc_list enc_Z (run_assign ws st))
      | _, _ => None end
  | "offsets", [sizes] =>
      match dec_list dec_nat sizes with Some sz => Some (enc_list enc_nat (offsets_from 0 sz)) | None => None end
  | "ntasks", [self; con] =>
      match dec_forest_top self, dec_bool con with
      | Some self, Some con => Some (enc_nat (ntasks con self)) | _, _ => None end
  | _, _ => None
  end.
