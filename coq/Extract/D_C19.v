From Coq Require Import ZArith List String Bool.
Import ListNotations.
From TD Require Import Lib.Sexp Model.C19_Vmap Model.C19_Content Model.C19_Plumb Model.C19_Memo.
Open Scope string_scope.

(* ---------------- decoders ---------------- *)
Fixpoint dec_tree {A} (lf : sexp -> option A) (s : sexp) {struct s} : option (ptree A) :=
  match s with
  | SL (SA "tup" :: l) =>
      option_map PTup ((fix go (l : list sexp) : option (list (ptree A)) :=
                          match l with
                          | [] => Some []
                          | x :: r => match dec_tree lf x, go r with Some a, Some b => Some (a :: b) | _, _ => None end
                          end) l)
  | SL (SA "lst" :: l) =>
      option_map PLst ((fix go (l : list sexp) : option (list (ptree A)) :=
                          match l with
                          | [] => Some []
                          | x :: r => match dec_tree lf x, go r with Some a, Some b => Some (a :: b) | _, _ => None end
                          end) l)
  | _ => option_map PLeaf (lf s)
  end.

Definition dec_aleaf (s : sexp) : option aleaf :=
  match s with
  | SL [SA "td"; b] => option_map ATd (dec_list dec_nat b)
  | SL [SA "ten"; b] => option_map ATen (dec_list dec_nat b)
  | SA "obj" => Some AObj
  | _ => None
  end.
Definition dec_dleaf (s : sexp) : option dleaf :=
  match s with
  | SZ z => Some (LInt z)
  | SA "none" => Some LNone
  | SA "bad" => Some LBad
  | _ => None
  end.
Definition dec_oleaf (s : sexp) : option oleaf :=
  match s with
  | SL [SA "td"; b; fs] =>
      match dec_list dec_nat b, dec_list (dec_list dec_nat) fs with Some b, Some fs => Some (OTd b fs) | _, _ => None end
  | SL [SA "ten"; b; bt] =>
      match dec_list dec_nat b, dec_bool bt with Some b, Some bt => Some (OTen b bt) | _, _ => None end
  | SA "obj" => Some OObj
  | _ => None
  end.
(* a name: -1 = None, otherwise an id *)
Definition dec_name (s : sexp) : option (option nat) :=
  match s with SZ z => Some (if (z <? 0)%Z then None else Some (Z.to_nat z)) | _ => None end.
Definition dec_hop (s : sexp) : option hop :=
  match s with
  | SA "self" => Some HSelf
  | SA "dense" => Some HDense
  | SA "rebuild" => Some HRebuild
  | SL [SA "nested"; e] => option_map HNested (dec_list dec_nat e)
  | _ => None
  end.
Definition dec_mop (s : sexp) : option mop :=
  match s with
  | SL [SA "vmap"; SZ d; l] => option_map (MVmap d) (dec_nat l)
  | SL [SA "write"; k; SZ z] => option_map (fun k => MWrite k z) (dec_nat k)
  | SL [SA "rebind"; k; id; SZ z] =>
      match dec_nat k, dec_nat id with Some k, Some id => Some (MRebind k id z) | _, _ => None end
  | SL [SA "pass"; k; id; SZ z] =>
      match dec_nat k, dec_nat id with Some k, Some id => Some (MPass k id z) | _, _ => None end
  | SA "unlock" => Some MUnlock
  | SA "lock" => Some MLock
  | _ => None
  end.

(* ---------------- encoders ---------------- *)
Definition enc_name (n : option nat) : sexp := match n with None => SZ (-1) | Some k => enc_nat k end.
Definition enc_names (n : names) : sexp := enc_opt (enc_list enc_name) n.
Definition enc_err (e : err) : sexp :=
  SA (match e with IndexErr => "IndexError" | RuntimeErr => "RuntimeError" | TypeErr => "TypeError" | ValueErr => "ValueError" end).
Definition enc_reject (r : reject) : sexp :=
  SA (match r with
      | RTop => "top" | RNoInputs => "no-inputs" | RStructure => "structure" | RBadDim => "bad-dim"
      | RNonTensor => "non-tensor" | RRange => "range" | RNoBatched => "no-batched" | RInconsistent => "inconsistent"
      end).
Definition enc_binp (b : binp) : sexp :=
  match b with
  | BSame _ => SA "same"
  | BCopy b => SL [SA "copy"; enc_list enc_nat b]
  | BTd b => SL [SA "btd"; enc_list enc_nat b]
  | BTen s => SL [SA "bten"; enc_list enc_nat s]
  end.
Definition enc_uerr (e : uerr) : sexp :=
  SA (match e with
      | UCheck => "check" | UIncompatible => "incompatible" | UValue => "value" | UType => "type" | UIndex => "index"
      | URuntime => "runtime"
      end).
Definition enc_ores (r : ores) : sexp :=
  match r with
  | RTd b => SL [SA "td"; enc_list enc_nat b]
  | RTen s => SL [SA "ten"; enc_list enc_nat s]
  | RObj => SA "obj"
  end.
Definition enc_seen (l : list (nat * Z)) : sexp := enc_list (enc_pair enc_nat enc_Z) l.

Definition dispatch (cmd : string) (args : list sexp) : option sexp :=
  match cmd, args with
  (* (vmap-id shape in_dim out_dim stackdim?) -> batch size of vmap(identity) result as the library's bookkeeping computes it *)
  | "vmap-id", [sh; SZ i; SZ o; sdo] =>
      match dec_list dec_nat sh, dec_opt dec_nat sdo with
      | Some sh, Some sdo =>
          match process_in_dim (List.length sh) i with
          | None => Some (SA "reject")
          | Some i' =>
              let B := nth i' sh 0 in
              match norm_out_dim (List.length (td_add sh i')) o with
              | None => Some (SL [SA "raise"; SA "IndexError"])
              | Some p =>
                  match sdo with
                  | None => Some (SL [SA "ok"; enc_list enc_nat (td_remove (td_add sh i') B (Z.of_nat p))])
                  | Some s =>
                      let L := {| mbs := remove_nth sh s; nmem := nth s sh 0; sd := s; hidden := false |} in
                      let L' := lazy_remove (lazy_add L i') B p in
                      Some (SL [SA "ok"; enc_list enc_nat (lazy_bs L'); enc_nat (sd L')])
                  end
              end
          end
      | _, _ => None
      end
  (* (vmap-src bs names ((key feat) ..) in_dim out_dim ((key (I ..)) ..)): vmap(identity) at the element level; for every
     queried element of the result, the address (key :: multi-index) of the element of the ORIGINAL tensordict it holds *)
  | "vmap-src", [b; nm; sch; SZ i; SZ o; qs] =>
      match dec_list dec_nat b, dec_opt (dec_list dec_name) nm, dec_list (dec_pair dec_nat (dec_list dec_nat)) sch,
            dec_list (dec_pair dec_nat (dec_list (dec_list dec_nat))) qs with
      | Some b, Some nm, Some sch, Some qs =>
          match process_in_dim (List.length b) i with
          | None => Some (SA "reject")
          | Some d =>
              match vmap1 (fun s => s) d o (addr_td b nm sch) with
              | Raise e => Some (SL [SA "raise"; enc_err e])
              | Ok R =>
                  Some (SL [SA "ok"; enc_list enc_nat (bs R); enc_names (nms R);
                            enc_list (enc_pair enc_nat (enc_list enc_nat)) (schema R);
                            enc_list (fun q => SL [enc_nat (fst q); enc_list (fun I => enc_list enc_nat (val R (fst q) I)) (snd q)]) qs])
              end
          end
      | _, _, _, _ => None
      end
  (* (plumb in_dims (arg ..) out_dims): vmap_impl up to the call of the function *)
  | "plumb", [ind; SL al; outd] =>
      match dec_tree dec_dleaf ind, dec_list_aux (dec_tree dec_aleaf) al, dec_tree dec_dleaf outd with
      | Some ind, Some al, Some outd =>
          if negb (check_out_dims outd) then Some (SL [SA "err"; SA "check"])
          else match process ind al with
               | PRej r => Some (SL [SA "rej"; enc_reject r])
               | POk B dims flat =>
                   Some (SL [SA "ok"; enc_nat B; enc_list (enc_opt enc_nat) dims; enc_list enc_binp (create flat dims)])
               end
      | _, _, _ => None
      end
  (* (unwrap B out_dims outs): _unwrap_batched on what the function returned *)
  | "unwrap", [B; outd; outs] =>
      match dec_nat B, dec_tree dec_dleaf outd, dec_tree dec_oleaf outs with
      | Some B, Some outd, Some outs =>
          match unwrap B outd outs with
          | inl e => Some (SL [SA "err"; enc_uerr e])
          | inr rs => Some (SL [SA "ok"; enc_list enc_ores rs])
          end
      | _, _, _ => None
      end
  (* (memo fix_rebind memo_none ((key id) ..) ((id content) ..) locked (op ..)) -> per vmap call (seen, per-sample loop sees); cache keys at the end *)
  | "memo", [fx; mc; lv; st; lk; SL ops] =>
      match dec_bool fx, dec_bool mc, dec_list (dec_pair dec_nat dec_nat) lv, dec_list (dec_pair dec_nat dec_Z) st, dec_bool lk,
            dec_list_aux dec_mop ops with
      | Some fx, Some mc, Some lv, Some st, Some lk, Some ops =>
          let c := {| fix_rebind := fx; memo_none := mc |} in
          let n0 := {| leaves := lv; store := st; locked := lk; vcache := []; ncopy := None |} in
          let nf := fold_left (fun n op => fst (mstep c n op)) ops n0 in
          Some (SL [enc_list (fun p => SL [enc_seen (fst p); enc_seen (snd p)]) (mrun c n0 ops);
                    enc_list (fun kv => SL [enc_Z (fst (fst kv)); enc_nat (snd (fst kv))]) (vcache nf)])
      | _, _, _, _, _, _ => None
      end
  (* (names-seq rank names in_dim (out_dim ..)): the batched view of a named tensordict is un-batched once per out_dim (the
     memoised view of a locked tensordict over several calls / a view returned several times): names of every result, names
     the view is left with *)
  | "names-seq", [rk; nm; SZ i; os] =>
      match dec_nat rk, dec_opt (dec_list dec_name) nm, dec_list dec_Z os with
      | Some rk, Some nm, Some os =>
          match process_in_dim rk i with
          | None => Some (SA "reject")
          | Some d =>
              let vn := names_add nm d in
              match all_some (map (fun o => option_map Z.of_nat (torch_wrap o rk)) os) with
              | None => Some (SL [SA "raise"; SA "IndexError"])
              | Some ps => let '(rs, vn') := unbatch_seq true vn ps in
                           Some (SL [SA "ok"; enc_list enc_names rs; enc_names vn'])
              end
          end
      | _, _, _ => None
      end
  (* (lazy-op shape stack_dim in_dim out_dim op) -> batch size of vmap(op-class) over a lazy stack *)
  | "lazy-op", [sh; s; SZ i; o; op] =>
      match dec_list dec_nat sh, dec_nat s, dec_nat o, dec_hop op with
      | Some sh, Some s, Some o, Some op =>
          match process_in_dim (List.length sh) i with
          | None => Some (SA "reject")
          | Some i' =>
              let L := {| mbs := remove_nth sh s; nmem := nth s sh 0; sd := s; hidden := false |} in
              Some (SL [SA "ok"; enc_list enc_nat (hres_remove (lazy_apply op (lazy_add L i')) (nth i' sh 0) o)])
          end
      | _, _, _, _ => None
      end
  | _, _ => None
  end.
