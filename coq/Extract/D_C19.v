From Coq Require Import ZArith List String Bool.
Import ListNotations.
From TD Require Import Lib.Sexp Model.C19_Vmap.
Open Scope string_scope.

(* (vmap-id shape in_dim out_dim stackdim?) -> batch size of vmap(identity) result as the library's bookkeeping computes it *)
Definition dispatch (cmd : string) (args : list sexp) : option sexp :=
  match cmd, args with
  | "vmap-id", [sh; SZ i; SZ o; sdo] =>
      match dec_list dec_nat sh, dec_opt dec_nat sdo with
      | Some sh, Some sdo =>
          match process_in_dim (List.length sh) i with
          | None => Some (SA "reject")
          | Some i' =>
              let B := nth i' sh 0 in
              match sdo with
              | None => Some (SL [SA "ok"; enc_list enc_nat (td_remove (td_add sh i') B o)])
              | Some s =>
                  let L := {| mbs := remove_nth sh s; nmem := nth s sh 0; sd := s; hidden := false |} in
                  let L' := lazy_remove (lazy_add L i') B (Z.to_nat o) in
                  Some (SL [SA "ok"; enc_list enc_nat (lazy_bs L'); enc_nat (sd L')])
              end
          end
      | _, _ => None
      end
  | _, _ => None
  end.
