(* Generic S-expression carrier used by the correspondence driver.
   The OCaml driver only parses text into [sexp], calls [Dispatch.dispatch] and prints the resulting [sexp];
   every decoder / canonical printer of model values is written here in Gallina. *)
From Coq Require Import ZArith List String Bool.
Import ListNotations.
Open Scope string_scope.

Inductive sexp := SA (s : string) | SZ (z : Z) | SL (l : list sexp).

Definition s_err (msg : string) : sexp := SL [SA "decode-error"; SA msg].

Definition dec_Z (s : sexp) : option Z := match s with SZ z => Some z | _ => None end.
Definition dec_nat (s : sexp) : option nat :=
  match s with SZ z => if (z <? 0)%Z then None else Some (Z.to_nat z) | _ => None end.
Definition dec_bool (s : sexp) : option bool :=
  match s with SA "t" => Some true | SA "f" => Some false | _ => None end.
Definition dec_str (s : sexp) : option string := match s with SA a => Some a | _ => None end.

Fixpoint dec_list_aux {A} (f : sexp -> option A) (l : list sexp) : option (list A) :=
  match l with
  | [] => Some []
  | x :: r => match f x, dec_list_aux f r with Some a, Some b => Some (a :: b) | _, _ => None end
  end.
Definition dec_list {A} (f : sexp -> option A) (s : sexp) : option (list A) :=
  match s with SL l => dec_list_aux f l | _ => None end.
Definition dec_opt {A} (f : sexp -> option A) (s : sexp) : option (option A) :=
  match s with
  | SA "none" => Some None
  | SL [SA "some"; x] => match f x with Some a => Some (Some a) | None => None end
  | _ => None
  end.
Definition dec_pair {A B} (f : sexp -> option A) (g : sexp -> option B) (s : sexp) : option (A * B) :=
  match s with
  | SL [x; y] => match f x, g y with Some a, Some b => Some (a, b) | _, _ => None end
  | _ => None
  end.

Definition enc_Z (z : Z) : sexp := SZ z.
Definition enc_nat (n : nat) : sexp := SZ (Z.of_nat n).
Definition enc_bool (b : bool) : sexp := SA (if b then "t" else "f").
Definition enc_str (s : string) : sexp := SA s.
Definition enc_list {A} (f : A -> sexp) (l : list A) : sexp := SL (map f l).
Definition enc_opt {A} (f : A -> sexp) (o : option A) : sexp :=
  match o with None => SA "none" | Some a => SL [SA "some"; f a] end.
Definition enc_pair {A B} (f : A -> sexp) (g : B -> sexp) (p : A * B) : sexp := SL [f (fst p); g (snd p)].
