(* C10 — load_memmap_ / memmap_refresh_: loading a directory INTO an existing tensordict.  Definitions only.

   base.py   load_memmap_(prefix):  self.load_memmap(prefix=prefix, device=self.device, out=self)  [then self.memmap_() again
             when self was memory-mapped: the re-save of what was just loaded is not followed here]
             memmap_refresh_():     self.load_memmap_(prefix=self.saved_path)
             load_memmap(prefix, out=out): metadata = _load_metadata(prefix); dispatch on metadata["_type"] — the class of
             the DIRECTORY, not of `out` — to  <class>._load_memmap(prefix, metadata, out=out)
   _td.py    TensorDict._load_memmap(out=out): result = out ("shape"/"device" of the metadata are not used: the batch
             size of `out` stays); every tensor record -> result._set_str(key, tensor, inplace=False) (replaces the entry
             or appends it); every sub-directory listed as a collection: existing = result._get_str(key);
             existing.load_memmap_(path) when there is one, else result._set_str(key, TensorDict.load_memmap(path))
   _lazy.py  LazyStackedTensorDict._load_memmap(out=out): out = out.unbind(stack_dim); member i is loaded with
             out=out[i]; the stack that is returned is dropped by load_memmap_ (it returns self): the members of `out`
             were refreshed in place, their number does not change
   tensorclass.py  _load_memmap(out=out): the "_tensordict" directory is loaded into out._tensordict,
             out._non_tensordict.update(non_tensordict); NonTensorData: same path, no "_tensordict" directory — the
             payload is replaced, the batch size of `out` stays
             NonTensorStack._load_memmap: `data` in the metadata -> a NEW stack is built and returned; load_memmap_ drops
             it: a NonTensorStack entry is NOT refreshed (stated as it is)
   An entry of `out` that the directory does not describe stays.  A sub-directory whose existing entry is a tensor:
   AttributeError (tensors have no load_memmap_). *)
From Coq Require Import ZArith List String Bool.
Import ListNotations.
From TD Require Import Model.C10_Meta.
Open Scope string_scope.
Open Scope list_scope.

Definition upd_fields {A} (l acc : list (string * A)) : list (string * A) :=
  fold_left (fun acc kv => jset (fst kv) (snd kv) acc) l acc.

(* non_tensordict as tensorclass._load_memmap builds it: metadata minus "_type" (minus "batch_size" for NonTensorData),
   updated with other.pickle *)
Definition loaded_fields (is_ndata : bool) (files : list (fname * content)) (m : list (string * json)) : res (list (string * payload)) :=
  let m1 := jdel "_type" m in
  let m2 := if is_ndata then jdel "batch_size" m1 else m1 in
  let from_meta := map (fun kv => (fst kv, payload_of_json (snd kv))) m2 in
  match fget FOther files with
  | Some (CPickle (PDict l)) => Ok (upd_fields l from_meta)
  | Some _ => Raised EOther
  | None => Ok from_meta
  end.

Fixpoint load_into (d : dir) (out : td) {struct d} : res td :=
  match d with
  | Dir files subs =>
      (* every sub-directory with: how to load it into an existing entry, what it loads as on its own *)
      let subf := (fix go (l : list (string * dir)) : list (string * ((td -> res td) * res td)) :=
                     match l with [] => [] | (k, x) :: r => (k, (load_into x, decode x)) :: go r end) subs in
      match fget FMeta files with
      | Some (CJson (JObj m)) =>
          match sget "_type" m with
          | Some (JStr c) =>
              if String.eqb c "TensorDict" then
                match out with
                | Node bs ents =>
                    bind (load_records files m) (fun lp =>
                    bind ((fix go (l : list (string * ((td -> res td) * res td))) (acc : list (string * td)) : res (list (string * td)) :=
                             match l with
                             | [] => Ok acc
                             | (k, (into, alone)) :: r =>
                                 if existsb (String.eqb k) (snd lp) then
                                   match sget k acc with
                                   | Some (Leaf _) => Raised EOther                              (* AttributeError *)
                                   | Some e => bind (into e) (fun e' => go r (jset k e' acc))
                                   | None => bind alone (fun e' => go r (jset k (adopt bs e') acc))
                                   end
                                 else go r acc
                             end) subf (upd_fields (fst lp) ents))
                         (fun ents' => Ok (Node bs ents')))
                | _ => Raised EOther
                end
              else if String.eqb c "LazyStackedTensorDict" then
                match out with
                | Lazy sd ms =>
                    (* while (num_tensordicts is None or i < num_tensordicts) and (prefix / str(i)).exists() *)
                    let fuel := match sget "num_tensordicts" m with
                                | Some jn => match jnat_of jn with Some n => n | None => S (List.length subs) end
                                | None => S (List.length subs)
                                end in
                    bind ((fix go (fuel i : nat) (ms : list td) : res (list td) :=
                             match fuel with
                             | O => Ok ms
                             | S f =>
                                 match sget (string_of_nat i) subf with
                                 | None => Ok ms
                                 | Some (into, _) =>
                                     match ms with
                                     | [] => Raised EOther                                        (* IndexError: out[i] *)
                                     | mi :: rest => bind (into mi) (fun mi' => bind (go f (S i) rest) (fun rest' => Ok (mi' :: rest')))
                                     end
                                 end
                             end) fuel 0 ms)
                         (fun ms' => Ok (Lazy sd ms'))
                | _ => Raised EOther
                end
              else if String.eqb c "NonTensorStack" then
                (match sget "data" m with Some _ => Ok out | None => Raised EOther end)
              else if String.eqb c "NonTensorData" then
                match out with
                | NData bs p =>
                    bind (loaded_fields true files m) (fun nt => Ok (NData bs (match sget "data" nt with Some p' => p' | None => p end)))
                | _ => Raised EOther
                end
              else
                match out with
                | TCls c' nt inner =>
                    bind (loaded_fields false files m) (fun nt' =>
                    match sget "_tensordict" subf with
                    | Some (into, _) => bind (into inner) (fun inner' => Ok (TCls c' (upd_fields nt' nt) inner'))
                    | None => Raised EValueError
                    end)
                | _ => Raised EOther
                end
          | Some _ => Raised ERuntime
          | None => Raised EKeyError
          end
      | Some _ => Raised EOther
      | None => Raised EFileNotFound
      end
  end.

(* memmap_refresh_ of a second mapping: it was loaded from the directory as it was (decode d0) and is refreshed from
   the directory as it is now *)
Definition refresh (d0 d1 : dir) : res td := bind (decode d0) (load_into d1).
