(* Model of TensorDictBase.map / map_iter / _map END TO END, with every parameter of the call:
     base.py::map, map_iter         (both only build the pool and delegate to _map; map: iterable=False, shuffle=False;
                                     map_iter: iterable=True, out=None)
     base.py::_map                  (dim normalisation, _split_tensordict on self (and on out), the shared / memmap out= wrapper,
                                     imap / imap_unordered, the tqdm wrapper, `if iterable: return imap`, the zip(strict) loop
                                     writing into out=, `if imaplist:` cat / dense stack)
     utils.py::_maybe_correct_neg_dim, utils.py::_split_tensordict (Model/C12_Chunk.v: split_pieces)
   A tensordict is seen ALONG THE MAPPED DIM: batch shape [shape], mapped dim d, and the list [rows] of its d-slices
   (td[(slice(None),) * d + (i,)] for i < shape[d]); slicing along d = [take], torch.cat along d = [concat], unbind = the rows,
   stack along d = the rows again (TRUSTED: that is what torch's indexing / cat / stack do along a dim; exercised on batch
   shapes of rank 1..3 and every dim in the differential run).  The user function is [f unbound chunk]: it receives the rows of
   its chunk ([unbound]: the chunk is ONE row with the dim removed, chunksize == 0) and returns None or the rows of its result
   (any number of rows: a result may have another batch size along d).
   Definitions only. *)
From Coq Require Import ZArith List Bool Lia.
Import ListNotations.
From TD Require Import Model.C12_Chunk.
Open Scope nat_scope.

(* ---------------------------------------------------------------- utils.py::_maybe_correct_neg_dim *)
(*  new_dim = ndim + dim if dim < 0 else dim;  if new_dim < 0 or new_dim >= ndim: raise IndexError *)
Definition correct_neg_dim (dim : Z) (ndim : nat) : res nat :=
  let nd := (if dim <? 0 then Z.of_nat ndim + dim else dim)%Z in
  if ((nd <? 0) || (Z.of_nat ndim <=? nd))%Z then Raised EIndex else Ok (Z.to_nat nd).

(* the keyword arguments of map / map_iter that reach _map *)
Record mparams := { p_dim : Z; p_cs : option nat; p_nc : option nat; p_nw : nat; p_gen : bool; p_pbar : bool }.

Section Map.
Context {A B : Type}.
Variable f : bool -> list A -> option (list B).

(* td[base + (idx,)] / the element of chunk / split / unbind: python slicing clamps at the real length *)
Definition piece_rows (rows : list A) (p : piece) : list A := take rows (bounds (List.length rows) p).

(* imap(fn, self_split): TRUSTED order (Model/C12_Chunk.v: trusted_imap) *)
Definition map_items (rows : list A) (ps : list piece) : list (option (list B)) :=
  trusted_imap (fun p => f (is_unbound p) (piece_rows rows p)) ps.

(*  if imaplist: out = maybe_dense_stack(imaplist, dim) if chunksize == 0 else torch.cat(imaplist, dim)
    — the test is on the PARAMETER chunksize.  In stack mode every result must be one row (results of another shape give a
    lazy stack or an error: outside this model, marked EShape). *)
Definition join_results (cs : option nat) (items : list (option (list B))) : res (mapres B) :=
  match somes items with
  | [] => Ok RetNone
  | l => match cs with
         | Some 0 => if forallb (fun r => List.length r =? 1) l then Ok (RetCat (concat l)) else Raised EShape
         | _ => Ok (RetCat (concat l))
         end
  end.

(* out_chunk.update_(item): tensor.copy_ BROADCASTS a result that has a single row over the whole chunk; any other length that
   is not the chunk's raises RuntimeError *)
Definition write_bc (out : list B) (ab : nat * nat) (rows : list B) : res (list B) :=
  if List.length rows =? snd ab - fst ab then write_at out (fst ab) rows
  else match rows with
       | [x] => write_at out (fst ab) (repeat x (snd ab - fst ab))
       | _ => Raised ERuntime
       end.

(*  for item, out_chunk in zip(imap, out_split, strict=True): if item is not None: out_chunk.update_(item)
    (regular out=: in the main process; shared / memmap out=: newfn does the same inside the worker on the pairs of
     zip(self_split, out_split, strict=True)) — ValueError when the two run out at different times, AFTER the common prefix *)
Fixpoint reassemble_bc (out : list B) (bs : list (nat * nat)) (items : list (option (list B))) : res (list B) :=
  match bs, items with
  | [], [] => Ok out
  | ab :: bs', Some rows :: r => rbind (write_bc out ab rows) (fun out' => reassemble_bc out' bs' r)
  | _ :: bs', None :: r => reassemble_bc out bs' r
  | _, _ => Raised EValue
  end.

(* tqdm.tqdm(imap, total=length): length = len(self_split) without the generator, None with it.
   TRUSTED: tqdm yields the items of the iterable it wraps, in order. *)
Definition pbar_total (p : mparams) (ps : list piece) : option (option nat) :=
  if p_pbar p then Some (if p_gen p then None else Some (List.length ps)) else None.
Definition trusted_tqdm {X} (total : option (option nat)) (l : list X) : list X := l.

(* ---------------------------------------------------------------- map (iterable=False, shuffle=False) *)
(* self: batch shape [shape], d-slices [rows]; out=: kind, batch shape [oshape], d-slices [out] *)
Definition map_full (shape : list nat) (rows : list A) (kind : outkind) (oshape : list nat) (out : list B)
           (p : mparams) : res (mapres B) :=
  rbind (correct_neg_dim (p_dim p) (List.length shape)) (fun d =>
  let n := nth d shape 0 in                                                     (* td.shape[dim] *)
  rbind (split_pieces n (p_cs p) (p_nc p) (p_nw p) (p_gen p) false) (fun ps =>
  let items := trusted_tqdm (pbar_total p ps) (map_items rows ps) in
  match kind with
  | ONone => join_results (p_cs p) items
  | _ =>
      if List.length oshape <=? d then Raised EIndex else                        (* out.shape[dim] *)
      rbind (split_pieces (nth d oshape 0) (p_cs p) (p_nc p) (p_nw p) (p_gen p) false) (fun ops =>
      rmap (match kind with ORegular => RetOut | _ => RetNoneOut end)
           (reassemble_bc out (map (bounds (List.length out)) ops) items))
  end)).

(* what the progress bar is told (None: no bar) *)
Definition map_pbar_total (shape : list nat) (p : mparams) : res (option (option nat)) :=
  rbind (correct_neg_dim (p_dim p) (List.length shape)) (fun d =>
  rmap (pbar_total p) (split_pieces (nth d shape 0) (p_cs p) (p_nc p) (p_nw p) (p_gen p) false)).

(* ---------------------------------------------------------------- map_iter (iterable=True, out=None) *)
Definition select_by {X} (l : list X) (idxs : list nat) : list X :=
  flat_map (fun i => match nth_error l i with Some x => [x] | None => [] end) idxs.

(* TRUSTED: Pool.imap_unordered yields every result exactly once, in the completion order [pi] of the tasks *)
Definition trusted_imap_unordered {Y} (pi : list nat) (l : list Y) : list Y := select_by l pi.

(*  shuffle: rp = torch.randperm(n); the generator yields td[base + (rp[idx].long(),)] — the rows listed in the consecutive
    pieces of rp (an int idx selects one row and removes the dim); imap_unordered instead of imap.
    The iterator yields the results one by one, None results included. *)
Definition map_iter_full (shape : list nat) (rows : list A) (p : mparams) (shuffle : bool) (rp pi : list nat)
  : res (list (option (list B))) :=
  rbind (correct_neg_dim (p_dim p) (List.length shape)) (fun d =>
  let n := nth d shape 0 in
  rbind (split_pieces n (p_cs p) (p_nc p) (p_nw p) (p_gen p) shuffle) (fun ps =>
  if shuffle then
    let items := map (fun pc => f (is_unbound (fst pc)) (select_by rows (snd pc))) (combine ps (shuffle_pieces rp ps)) in
    Ok (trusted_tqdm (pbar_total p ps) (trusted_imap_unordered pi items))
  else Ok (trusted_tqdm (pbar_total p ps) (map_items rows ps)))).
End Map.

(* ---------------------------------------------------------------- the sequential form (specification) *)
(* "applying the function slice by slice, in order, to the whole": the slices are the documented partition [bs] of [0, n) *)
Definition seq_items {A B} (f : bool -> list A -> option (list B)) (unbound : bool) (rows : list A) (bs : list (nat * nat))
  : list (option (list B)) := map (fun ab => f unbound (take rows ab)) bs.
