(* C09 — model of TensorDict._cast_reduction (_td.py:921-1099) and of the front-ends in base.py:770-2062
   (definitions only): which dim(s) every leaf is reduced over, the batch size and the dim names of the result, for
   dim = NO_DEFAULT / None / int / tuple / "feature", keepdim = NO_DEFAULT / True / False, tuple_ok, call_on_nested,
   the batch_size override of cummin/cummax and the keepdim emulation of prod. *)
From Coq Require Import ZArith List Bool Arith String.
Import ListNotations.
From TD Require Import Model.Dual Model.C09_Align Model.C09_Shape.

Inductive dimarg := DimNoDefault | DimNone | DimInt (z : Z) | DimTuple (l : list Z) | DimFeature.
Inductive kdarg := KdNoDefault | KdTrue | KdFalse.
Definition kd_truthy (k : kdarg) : bool := match k with KdTrue => true | _ => false end.   (* bool(NO_DEFAULT) = False *)

Definition names_t := option (list (option string)).

(* utils._maybe_correct_neg_dim(dim, None, ndim) *)
Definition correct_neg_dim (d : Z) (n : nat) : option nat :=
  let nd := if (d <? 0)%Z then (Z.of_nat n + d)%Z else d in
  if ((nd <? 0) || (nd >=? Z.of_nat n))%Z then None else Some (Z.to_nat nd).

(* the dim after `proc_dim` and `if not tuple_ok: dim = dim[0]` *)
Inductive pdim := PNoDefault | PNone | PInt (z : Z) | PTuple (l : list nat) | PFeature.

Definition proc_dim (dim : dimarg) (nb : nat) (tuple_ok : bool) : res pdim :=
  match dim with
  | DimNoDefault => Ok PNoDefault
  | DimFeature => Ok PFeature
  | DimNone => if tuple_ok then Ok PNone else Raised                           (* None[0] : TypeError *)
  | DimInt z =>
      match correct_neg_dim z nb with
      | None => Raised
      | Some d => if tuple_ok then Ok (PTuple [d]) else Ok (PInt (Z.of_nat d))
      end
  | DimTuple l =>
      if tuple_ok
      then match sequence (map (fun z => correct_neg_dim z nb) l) with Some ds => Ok (PTuple ds) | None => Raised end
      else match l with [] => Raised | z :: _ => Ok (PInt z) end             (* dim[0], not normalised *)
  end.

(* [x for i, x in enumerate(l) if keep i] *)
Fixpoint filter_idx_from {A} (keep : nat -> bool) (i : nat) (l : list A) : list A :=
  match l with
  | [] => []
  | x :: r => if keep i then x :: filter_idx_from keep (S i) r else filter_idx_from keep (S i) r
  end.
Definition filter_idx {A} (keep : nat -> bool) (l : list A) : list A := filter_idx_from keep 0 l.
Fixpoint map_idx_from {A B} (f : nat -> A -> B) (i : nat) (l : list A) : list B :=
  match l with [] => [] | x :: r => f i x :: map_idx_from f (S i) r end.

Definition nat_in (i : nat) (l : list nat) : bool := existsb (Nat.eqb i) l.

(* python `i != dim` for the values dim can take at that point; NO_DEFAULT is IntEnum 0, so `0 != NO_DEFAULT` is False *)
Definition idx_neq_dim (d : pdim) (i : nat) : bool :=
  match d with
  | PInt z => negb (Z.eqb (Z.of_nat i) z)
  | PNoDefault => negb (Nat.eqb i 0)
  | _ => true
  end.

(* what is called on every leaf *)
Inductive leafcall :=
| LcPlain                                   (* val.op()  — no dim, no keepdim: full reduction *)
| LcDim (d : pdim) (kd : kdarg)             (* val.op(dim=d [, keepdim=kd]) ; d = PNoDefault: no dim kwarg *)
| LcFeature.                                (* flatten the feature dims (or unsqueeze(-1)) and reduce dim=-1 *)

(* what prod's keepdim emulation does to every leaf afterwards *)
Inductive post := PostNone | PostUnsqueeze (n : nat) | PostReshapeOnes.

Record red_out := { ro_bs : shape; ro_names : names_t; ro_call : leafcall; ro_post : post }.

(* [true] = /repo with fixes/C09/D43-D44, D45, D46, D47 applied; [false] = /repo before them *)
Definition fixed_reduce : bool := true.

Definition cast_reduction (fx : bool) (bs : shape) (names : names_t) (dim : dimarg) (kd : kdarg)
           (tuple_ok call_on_nested : bool) (bs_override : option shape) : res red_out :=
  let nb := List.length bs in
  match proc_dim dim nb tuple_ok with
  | Raised => Raised
  | Ok PFeature =>
      if kd_truthy kd then Raised                                         (* TypeError *)
      else if negb call_on_nested then Raised                             (* RuntimeError *)
      else Ok {| ro_bs := bs; ro_names := names; ro_call := LcFeature; ro_post := PostNone |}
  | Ok d =>
      let dim_given := match d with PNoDefault => false | _ => true end in
      if dim_given || kd_truthy kd then
        let is_tuple := match d with PTuple _ => true | _ => false end in
        let names_old :=
          match names with
          | None => None
          | Some ns =>
              Some (if negb (kd_truthy kd) && is_tuple
                    then filter_idx (fun i => negb (match d with PTuple l => nat_in i l | _ => false end)) ns
                    else filter_idx (idx_neq_dim d) ns)
          end in
        (* D43/D44: a name goes only when its dim goes (no keepdim, no batch_size override); dim=None drops all *)
        let names_new :=
          match names with
          | None => None
          | Some ns =>
              if negb (kd_truthy kd) && negb (match bs_override with Some _ => true | None => false end)
              then match d with
                   | PNone => None
                   | PTuple l => Some (filter_idx (fun i => negb (nat_in i l)) ns)
                   | _ => Some (filter_idx (idx_neq_dim d) ns)       (* `i not in (dim,)` *)
                   end
              else Some ns
          end in
        let names' := if fx then names_new else names_old in
        let bs' :=
          match bs_override with
          | Some b => b
          | None =>
              match d with
              | PTuple l => if kd_truthy kd then map_idx_from (fun i b => if nat_in i l then 1 else b) 0 bs
                            else filter_idx (fun i => negb (nat_in i l)) bs
              | PInt z => if kd_truthy kd then map_idx_from (fun i b => if Z.eqb (Z.of_nat i) z then 1 else b) 0 bs
                          else filter_idx (fun i => negb (Z.eqb (Z.of_nat i) z)) bs
              | _ => if fx && negb (kd_truthy kd) then []               (* D44: dim=None without keepdim *)
                     else map (fun _ => 1) bs                            (* dim None, or keepdim without dim *)
              end
          end in
        Ok {| ro_bs := bs'; ro_names := names'; ro_call := LcDim d kd; ro_post := PostNone |}
      else Ok {| ro_bs := []; ro_names := None; ro_call := LcPlain; ro_post := PostNone |}
  end.

(* ---------- front-ends ---------- *)
Inductive redop := RTuple      (* sum nansum mean nanmean std var : tuple_ok, applied to nested nodes *)
                 | RSingle     (* min max                       : tuple_ok=False, keepdim defaults to False *)
                 | RAminmax    (* amin amax                     : like RSingle; tuple_ok since the D45 patch *)
                 | RCum        (* cummin cummax                 : tuple_ok=False, batch_size=self.batch_size *)
                 | RProd.      (* prod                          : keepdim emulated by unsqueeze / reshape *)

(* TensorDict._unsqueeze on the batch dims *)
Fixpoint insert_at {A} (n : nat) (x : A) (l : list A) : list A :=
  match n, l with
  | O, _ => x :: l
  | S n', y :: r => y :: insert_at n' x r
  | S _, [] => [x]
  end.
Definition td_unsqueeze (fx : bool) (bs : shape) (names : names_t) (d : Z) : res (shape * names_t * nat) :=
  let nb := Z.of_nat (List.length bs) in
  let nd := if (d <? 0)%Z then (nb + d + 1)%Z else d in
  if ((nd >? nb) || (nd <? 0))%Z then Raised else
  let n := Z.to_nat nd in
  Ok (insert_at n 1 bs,
      match names with
      | Some (x :: r) => Some (insert_at n None (x :: r))
      | Some [] => if fx then Some (insert_at n None []) else Some []      (* before D47: `if names:` — [] stays [] *)
      | None => None
      end, n).

Definition front (fx : bool) (op : redop) (bs : shape) (names : names_t) (dim : dimarg) (kd : kdarg) : res red_out :=
  match op with
  | RTuple => cast_reduction fx bs names dim kd true true None
  | RSingle => cast_reduction fx bs names dim (match kd with KdNoDefault => KdFalse | k => k end) false false None
  | RAminmax => cast_reduction fx bs names dim (match kd with KdNoDefault => KdFalse | k => k end) fx false None
  | RCum => cast_reduction fx bs names dim KdNoDefault false false (Some bs)
  | RProd =>
      match cast_reduction fx bs names dim KdFalse false true None with
      | Raised => Raised
      | Ok r =>
          if kd_truthy kd then
            (* dim = dim[0] if tuple; `dim not in (None, NO_DEFAULT)` is False for 0 (IntEnum equality) *)
            let d0 : option Z :=
              match dim with
              | DimInt z => Some z
              | DimTuple (z :: _) => Some z
              | _ => None
              end in
            match dim with
            | DimFeature => Raised                                         (* unsqueeze("feature") *)
            | _ =>
              match d0 with
              | Some z =>
                  if negb fx && Z.eqb z 0       (* before D46: `0 in (None, NO_DEFAULT)` is True *)
                  then (* result.reshape([1 for _ in self.shape]) *)
                       if Nat.eqb (fold_right Nat.mul 1 (ro_bs r)) 1
                       then Ok {| ro_bs := map (fun _ => 1) bs; ro_names := None; ro_call := ro_call r;
                                  ro_post := PostReshapeOnes |}
                       else Raised
                  else match td_unsqueeze fx (ro_bs r) (ro_names r) z with
                       | Ok (b, n, pos) => Ok {| ro_bs := b; ro_names := n; ro_call := ro_call r;
                                                  ro_post := PostUnsqueeze pos |}
                       | Raised => Raised
                       end
              | None =>
                  if Nat.eqb (fold_right Nat.mul 1 (ro_bs r)) 1
                  then Ok {| ro_bs := map (fun _ => 1) bs; ro_names := None; ro_call := ro_call r;
                             ro_post := PostReshapeOnes |}
                  else Raised
              end
            end
          else Ok r
      end
  end.
