(* Element-level model of vmap over a tensordict (C19, direction (a)).
   A tensordict's content is a function  key -> multi-index -> value  over a schema (key, feature shape); the leaf of
   key k has shape  bs ++ feat_k  and the multi-index of a leaf element is  batch index ++ feature index.

   Transcribed (tensordict/_td.py:1486-1574):
     TensorDict._add_batch_dim(in_dim, vmap_level)      -> [td_add_c]     every leaf: torch _add_batch_dim(leaf, in_dim, level)
                                                                         batch size / names: entry in_dim dropped
     TensorDict._maybe_remove_batch_dim(.., B, out_dim) -> [td_remove_c]  out_dim is wrapped ONCE against the rank of the result
                                                                         (IndexError outside; repair of D190 / D191), then
                                                                         [td_remove_raw]: every leaf: torch _remove_batch_dim(leaf, level, B,
                                                                         out_dim) (torch wraps out_dim against the LEAF rank + 1,
                                                                         IndexError outside), THEN batch size / names:
                                                                         list.insert(out_dim, B / None) (python semantics), THEN
                                                                         the TensorDict constructor checks that every leaf shape
                                                                         starts with the new batch size (RuntimeError otherwise)
   Trusted and stated as ONE definition, [lift]: functorch's batching rules compute, for a function applied to batched
   values, the function on every sample (hidden index j) — "functorch's batching rules are trusted". *)
From Coq Require Import ZArith List Bool Lia.
Import ListNotations.
From TD Require Import Model.C19_Vmap.
Open Scope nat_scope.

Inductive err := IndexErr | RuntimeErr | TypeErr | ValueErr.
Inductive res (A : Type) := Ok (a : A) | Raise (e : err).
Arguments Ok {A} a.
Arguments Raise {A} e.

(* dimension names: None = the tensordict has no names; a name is None (unnamed dim) or an id *)
Definition names := option (list (option nat)).

(* [name for i, name in enumerate(td.names) if i != in_dim] or None  if has_names else None *)
Definition names_add (n : names) (in_dim : nat) : names :=
  match n with
  | None => None
  | Some l => match remove_nth l in_dim with [] => None | l' => Some l' end
  end.
(* names = self._maybe_names(); if names: new_names = list(names); new_names.insert(out_dim, None) else None *)
Definition names_remove (n : names) (out_dim : Z) : names :=
  match n with
  | Some (x :: l) => Some (py_insert (x :: l) out_dim None)
  | _ => None
  end.

(* torch's dim wrapping for _remove_batch_dim on a tensor whose result has [n1] dims: out_dim in [-n1, n1) *)
Definition torch_wrap (o : Z) (n1 : nat) : option nat :=
  if ((o <? - Z.of_nat n1) || (o >=? Z.of_nat n1))%Z then None
  else Some (Z.to_nat (if (o <? 0)%Z then o + Z.of_nat n1 else o)).

Fixpoint find_feat (k : nat) (sch : list (nat * list nat)) : option (list nat) :=
  match sch with
  | [] => None
  | (k', f) :: r => if Nat.eqb k k' then Some f else find_feat k r
  end.

Fixpoint list_eqb (a b : list nat) : bool :=
  match a, b with
  | [], [] => true
  | x :: a', y :: b' => Nat.eqb x y && list_eqb a' b'
  | _, _ => false
  end.

Section Content.
Variable V : Type.

Record tdict := { bs : list nat; nms : names; schema : list (nat * list nat); val : nat -> list nat -> V }.
(* a tensordict as the vmapped function sees it: one hidden dim of size hidB at the current level;
   bval k j I = element I of leaf k of sample j *)
Record btdict := { bbs : list nat; bnms : names; bschema : list (nat * list nat); hidB : nat;
                   bval : nat -> nat -> list nat -> V }.

(* ---- spec vocabulary (independent of the code) ---- *)
(* the j-th slice along batch dim d: td[(:,)*d + (j,)] = every leaf .select(d, j) *)
Definition slice (td : tdict) (d j : nat) : tdict :=
  {| bs := remove_nth (bs td) d; nms := names_add (nms td) d; schema := schema td;
     val := fun k I => val td k (insert_at I d j) |}.
(* element I of torch.stack([parts 0, ..., parts (B-1)], o): coordinate o selects the part *)
Definition stack_val (parts : nat -> tdict) (o : nat) (k : nat) (I : list nat) : V :=
  val (parts (nth o I 0)) k (remove_nth I o).

(* ---- the code ---- *)
Definition td_add_c (td : tdict) (in_dim : nat) : btdict :=
  {| bbs := remove_nth (bs td) in_dim; bnms := names_add (nms td) in_dim; bschema := schema td;
     hidB := nth in_dim (bs td) 0;
     bval := fun k j I => val td k (insert_at I in_dim j) |}.

Definition sample (bt : btdict) (j : nat) : tdict :=
  {| bs := bbs bt; nms := bnms bt; schema := bschema bt; val := fun k I => bval bt k j I |}.

(* functorch (trusted): the function runs on every sample; structure (batch size, names, schema) of sample 0 *)
Definition lift (f : tdict -> tdict) (bt : btdict) : btdict :=
  {| bbs := bs (f (sample bt 0)); bnms := nms (f (sample bt 0)); bschema := schema (f (sample bt 0));
     hidB := hidB bt;
     bval := fun k j I => val (f (sample bt j)) k I |}.

(* position at which torch re-inserts the hidden dim in leaf k *)
Definition leaf_pos (bt : btdict) (o : Z) (k : nat) : option nat :=
  match find_feat k (bschema bt) with
  | Some feat => torch_wrap o (length (bbs bt) + length feat + 1)
  | None => torch_wrap o (length (bbs bt) + 1)
  end.

Definition leaf_new_shape (bt : btdict) (o : Z) (kf : nat * list nat) : option (list nat) :=
  match torch_wrap o (length (bbs bt) + length (snd kf) + 1) with
  | Some p => Some (insert_at (bbs bt ++ snd kf) p (hidB bt))
  | None => None
  end.

Fixpoint all_some {A} (l : list (option A)) : option (list A) :=
  match l with
  | [] => Some []
  | Some x :: r => match all_some r with Some y => Some (x :: y) | None => None end
  | None :: _ => None
  end.

Definition td_remove_raw (bt : btdict) (o : Z) : res tdict :=
  match all_some (map (leaf_new_shape bt o) (bschema bt)) with
  | None => Raise IndexErr                                        (* torch, on the first leaf it refuses *)
  | Some shapes =>
      let nbs := py_insert (bbs bt) o (hidB bt) in
      let r1 := length nbs in
      if forallb (fun sh => list_eqb (firstn r1 sh) nbs) shapes
      then Ok {| bs := nbs; nms := names_remove (bnms bt) o;
                 schema := map (fun ks => (fst (fst ks), skipn r1 (snd ks))) (combine (bschema bt) shapes);
                 val := fun k I => match leaf_pos bt o k with
                                   | Some p => bval bt k (nth p I 0) (remove_nth I p)
                                   | None => bval bt k 0 I
                                   end |}
      else Raise RuntimeErr                                       (* TensorDict(...): batch size vs leaf shape *)
  end.

Definition td_remove_c (bt : btdict) (o : Z) : res tdict :=
  match torch_wrap o (length (bbs bt) + 1) with
  | None => Raise IndexErr                                        (* _maybe_correct_neg_dim *)
  | Some p => td_remove_raw bt (Z.of_nat p)
  end.

(* torch.vmap(f, in_dims = d, out_dims = o)(td), d already normalised by _process_batched_inputs *)
Definition vmap1 (f : tdict -> tdict) (d : nat) (o : Z) (td : tdict) : res tdict :=
  td_remove_c (lift f (td_add_c td d)) o.

(* a vmapped function as a per-sample function (for nesting); the argument is returned when the inner call raises *)
Definition vmap1_total (f : tdict -> tdict) (d : nat) (o : Z) (td : tdict) : tdict :=
  match vmap1 f d o td with Ok r => r | Raise _ => td end.

End Content.

Arguments bs {V} t.
Arguments nms {V} t.
Arguments schema {V} t.
Arguments val {V} t.
Arguments bbs {V} b.
Arguments bnms {V} b.
Arguments bschema {V} b.
Arguments hidB {V} b.
Arguments bval {V} b.
Arguments slice {V} td d j.
Arguments stack_val {V} parts o k I.
Arguments td_add_c {V} td in_dim.
Arguments sample {V} bt j.
Arguments lift {V} f bt.
Arguments leaf_pos {V} bt o k.
Arguments leaf_new_shape {V} bt o kf.
Arguments td_remove_raw {V} bt o.
Arguments td_remove_c {V} bt o.
Arguments vmap1 {V} f d o td.
Arguments vmap1_total {V} f d o td.

(* concrete instance used by the correspondence run and by the witnesses: the value of an element is its own address
   (key :: multi-index) in the ORIGINAL tensordict *)
Definition addr_td (bsz : list nat) (n : names) (sch : list (nat * list nat)) : tdict (list nat) :=
  {| bs := bsz; nms := n; schema := sch; val := fun k I => k :: I |}.
