(* C05 — heap of tensordict nodes (definitions only).
   A node is a TensorDict (ordered key -> entry dict, tensordict/_td.py `_tensordict`) or a LazyStackedTensorDict
   (ordered member list, tensordict/_lazy.py `tensordicts`).  Identity matters: nodes and leaves are numbered.
   Per node: `_is_locked` (True / False / None = "derive from the members", lazy stacks only), the list
   `__lock_parents_weakrefs` (weak references: a reference to a collected object stays in the list, it just no longer
   resolves — garbage collection is the `dead` list of the state), `_is_shared`, `_is_memmap`. *)
From Coq Require Import List String Bool Arith PeanoNat.
Import ListNotations.

Inductive flag := FTrue | FFalse | FNone.
Inductive nkind := KTd | KLazy.
Inductive ref := RLeaf (l : nat) | RNode (n : nat).

Record node := mkNode {
  nk : nkind;
  ents : list (string * ref);      (* KTd: the storage dict in insertion order; KLazy: the members (keys unused) *)
  flg : flag;                      (* _is_locked *)
  pars : list nat;                 (* __lock_parents_weakrefs, as node ids (KLazy: unused, the list is computed) *)
  shm : bool;                      (* _is_shared *)
  mm : bool                        (* _is_memmap *)
}.

Definition heap := list (nat * node).

Record st := mkSt {
  hp : heap;
  dead : list nat;                 (* collected objects: weak references to them resolve to None *)
  nxt : nat;                       (* next fresh identity (nodes and leaves share the counter) *)
  writes : list nat                (* log of in-place value writes: leaf ids, newest first *)
}.

Fixpoint lookup (h : heap) (n : nat) : option node :=
  match h with
  | [] => None
  | (i, nd) :: r => if Nat.eqb i n then Some nd else lookup r n
  end.

Fixpoint upd (h : heap) (n : nat) (nd : node) : heap :=
  match h with
  | [] => []
  | (i, x) :: r => if Nat.eqb i n then (i, nd) :: r else (i, x) :: upd r n nd
  end.

Definition memb (x : nat) (l : list nat) : bool := existsb (Nat.eqb x) l.

Definition flag_is_true (f : flag) : bool := match f with FTrue => true | _ => false end.

Definition flag_true (h : heap) (n : nat) : bool :=
  match lookup h n with Some nd => flag_is_true (flg nd) | None => false end.

Definition ref_children (r : ref) : list nat := match r with RNode c => [c] | RLeaf _ => [] end.
Definition node_children (nd : node) : list nat := flat_map (fun e => ref_children (snd e)) (ents nd).
Definition children (h : heap) (n : nat) : list nat :=
  match lookup h n with Some nd => node_children nd | None => [] end.

Definition live (s : st) (n : nat) : bool := negb (memb n (dead s)).

Definition set_flag (nd : node) (f : flag) : node := mkNode (nk nd) (ents nd) f (pars nd) (shm nd) (mm nd).
Definition set_flag_pars (nd : node) (f : flag) (p : list nat) : node := mkNode (nk nd) (ents nd) f p (shm nd) (mm nd).
Definition set_pars (nd : node) (p : list nat) : node := mkNode (nk nd) (ents nd) (flg nd) p (shm nd) (mm nd).
Definition set_ents (nd : node) (e : list (string * ref)) : node := mkNode (nk nd) e (flg nd) (pars nd) (shm nd) (mm nd).
Definition set_shm (nd : node) (b : bool) : node := mkNode (nk nd) (ents nd) (flg nd) (pars nd) b (mm nd).

Definition with_hp (s : st) (h : heap) : st := mkSt h (dead s) (nxt s) (writes s).

(* monadic helpers *)
Fixpoint fold_opt {A B} (f : A -> B -> option A) (l : list B) (a : A) : option A :=
  match l with
  | [] => Some a
  | x :: r => match f a x with Some a' => fold_opt f r a' | None => None end
  end.

Fixpoint opt_all (f : nat -> option bool) (l : list nat) : option bool :=
  match l with
  | [] => Some true
  | x :: r => match f x with
              | Some true => opt_all f r
              | Some false => Some false
              | None => None
              end
  end.

Fixpoint opt_concat (f : nat -> option (list nat)) (l : list nat) : option (list nat) :=
  match l with
  | [] => Some []
  | x :: r => match f x, opt_concat f r with Some a, Some b => Some (a ++ b) | _, _ => None end
  end.

(* dict operations on the ordered association list of a TensorDict *)
Fixpoint ents_get (e : list (string * ref)) (k : string) : option ref :=
  match e with
  | [] => None
  | (k', r) :: t => if String.eqb k' k then Some r else ents_get t k
  end.
Fixpoint ents_set (e : list (string * ref)) (k : string) (r : ref) : list (string * ref) :=
  match e with
  | [] => [(k, r)]
  | (k', r') :: t => if String.eqb k' k then (k', r) :: t else (k', r') :: ents_set t k r
  end.
Fixpoint ents_del (e : list (string * ref)) (k : string) : list (string * ref) :=
  match e with
  | [] => []
  | (k', r') :: t => if String.eqb k' k then t else (k', r') :: ents_del t k
  end.
Definition ents_has (e : list (string * ref)) (k : string) : bool :=
  match ents_get e k with Some _ => true | None => false end.
