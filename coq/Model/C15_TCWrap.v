(* Model of tensordict/tensorclass.py (definitions only):
   - _tensorclass: the order in which attributes are installed on the class (explicit assignments, delegation tables,
     the classmethod loop) with their guards, and the resulting dispatch of a name;
   - _wrap_td_method (deliver_result / wrapped_func), _wrap_method (the __getattr__ fallback), _from_tensordict;
   - _getattr / _set (attribute access is key access on _tensordict / _non_tensordict) with the cast rules of the options;
   - _getitem / _setitem (splitting between the two stores).
   Strings are names; tensors / payloads are opaque ids. *)
From Coq Require Import List String Bool Arith.
Import ListNotations.
Open Scope string_scope.
Open Scope list_scope.

Definition mem (x : string) (l : list string) : bool := existsb (String.eqb x) l.
Definition subset (a b : list string) : bool := forallb (fun x => mem x b) a.

(* ------------------------------------------------------------------------------------------------ installation *)
Inductive guard :=
| GAlways                     (* cls.x = ... *)
| GNotInDict                  (* if "x" not in cls.__dict__ *)
| GNotHasattr                 (* if not hasattr(cls, "x") *)
| GNotHasattrNotField         (* if not hasattr(cls, "x") and "x" not in expected_keys *)
| GNotNT                      (* if not _is_non_tensor *)
| GNotHasattrNotFieldNotNT.   (* if not _is_non_tensor and not hasattr(cls, "x") and "x" not in expected_keys *)

Inductive ikind :=
| KExplicit                   (* a function written in tensorclass.py *)
| KDirect                     (* _METHOD_FROM_TD: TensorDict's own function, run with self = the tensorclass *)
| KWrap (copy : bool)         (* _wrap_td_method(name [, copy_non_tensor=True]) *)
| KNoWrap                     (* _wrap_td_method(name, no_wrap=True [, is_property]) *)
| KClassmethod.               (* _wrap_classmethod *)

Inductive step :=
| SOne (n : string) (g : guard)
| STable (tbl : list string) (g : guard) (k : ikind)
| SClassmethods.              (* for attr in TensorDict.__dict__: classmethods not in cls.__dict__ *)

Record env := {
  e_base : list string;       (* names for which hasattr(cls, .) holds before the installation (object, dataclass, bases, user) *)
  e_own : list string;        (* names in cls.__dict__ before the installation *)
  e_fields : list string;     (* dataclass fields = __expected_keys__ *)
  e_nt : bool;                (* _is_non_tensor (the NonTensorData class itself) *)
  e_tdcm : list string;       (* classmethods found in TensorDict.__dict__ *)
  e_cmw : list string         (* inherited attributes that are classmethod wrappers installed on a decorated base class *)
}.

Definition installed := list (string * ikind).

Fixpoint lookup {A} (n : string) (st : list (string * A)) : option A :=
  match st with [] => None | (m, k) :: r => if String.eqb m n then Some k else lookup n r end.

Definition is_some {A} (o : option A) : bool := match o with Some _ => true | None => false end.

Definition hasattr (e : env) (st : installed) (n : string) : bool := mem n (e_base e) || is_some (lookup n st).
Definition in_dict (e : env) (st : installed) (n : string) : bool := mem n (e_own e) || is_some (lookup n st).

Definition guard_ok (e : env) (st : installed) (g : guard) (n : string) : bool :=
  match g with
  | GAlways => true
  | GNotInDict => negb (in_dict e st n)
  | GNotHasattr => negb (hasattr e st n)
  | GNotHasattrNotField => negb (hasattr e st n) && negb (mem n (e_fields e))
  | GNotNT => negb (e_nt e)
  | GNotHasattrNotFieldNotNT => negb (e_nt e) && negb (hasattr e st n) && negb (mem n (e_fields e))
  end.

(* the latest assignment wins: new entries are put in front *)
Definition put (e : env) (g : guard) (k : ikind) (st : installed) (n : string) : installed :=
  if guard_ok e st g n then (n, k) :: st else st.

Definition run_step (e : env) (st : installed) (s : step) : installed :=
  match s with
  | SOne n g => put e g KExplicit st n
  | STable tbl g k => fold_left (put e g k) tbl st
  | SClassmethods =>
      (* not in cls.__dict__, and whatever the class inherits under that name is a wrapper of this very loop (a definition
         made by the tensorclass machinery or by the user on a base class is kept) *)
      fold_left (fun st n => if negb (hasattr e st n) || mem n (e_cmw e) then put e GNotInDict KClassmethod st n else st) (e_tdcm e) st
  end.

Definition install (e : env) (steps : list step) : installed := fold_left (run_step e) steps [].

Definition is_dunder (n : string) : bool :=
  let l := String.length n in
  (Nat.leb 4 l) && String.eqb (substring 0 2 n) "__" && String.eqb (substring (l - 2) 2 n) "__".

Inductive disp :=
| DInstalled (k : ikind)
| DInherited          (* found on the class before the installation: user definition, dataclass, a decorated base *)
| DField              (* __getattr__ -> key access *)
| DGetattr            (* __getattr__ -> getattr(_tensordict, name) -> _wrap_method *)
| DAbsent.            (* a dunder that is not on the type: Python never asks __getattr__ for it *)

Definition dispatch (e : env) (steps : list step) (n : string) : disp :=
  match lookup n (install e steps) with
  | Some k => DInstalled k
  | None => if mem n (e_base e) then DInherited
            else if mem n (e_fields e) then DField
            else if is_dunder n then DAbsent else DGetattr
  end.

(* who claims a name, independently of order and guards *)
Fixpoint claims_of (steps : list step) (n : string) : list ikind :=
  match steps with
  | [] => []
  | SOne m _ :: r => (if String.eqb m n then [KExplicit] else []) ++ claims_of r n
  | STable tbl _ k :: r => (if mem n tbl then [k] else []) ++ claims_of r n
  | SClassmethods :: r => claims_of r n
  end.

(* ------------------------------------------------------------------------------------------------ non-tensor store *)
Inductive ntv := NNone | NVal (id : nat).      (* a value of _non_tensordict: Python None or some payload *)
Definition ntdict := list (string * ntv).

Definition ntv_is_none (v : ntv) : bool := match v with NNone => true | NVal _ => false end.

Fixpoint remove_key {A} (k : string) (d : list (string * A)) : list (string * A) :=
  match d with [] => [] | (m, v) :: r => if String.eqb m k then remove_key k r else (m, v) :: remove_key k r end.
Definition keys {A} (d : list (string * A)) : list string := map fst d.

(* ------------------------------------------------------------------------------------------------ _from_tensordict *)
Inductive err := EKey | EValue | EAttribute | ERuntime | EType.
Inductive fromres := FOk (nt : ntdict) | FErr (e : err).

(* for key in nontensor_keys: if key in tensor_keys: None -> dropped, otherwise KeyError *)
Definition clash (tdkeys : list string) (nt : ntdict) : bool :=
  existsb (fun kv => mem (fst kv) tdkeys && negb (ntv_is_none (snd kv))) nt.

Definition from_tensordict (fields tdkeys : list string) (nt : ntdict) : fromres :=
  if clash tdkeys nt then FErr EKey
  else if negb (subset (tdkeys ++ keys nt) fields) then FErr EValue
  else
    let kept := filter (fun kv => negb (mem (fst kv) tdkeys)) nt in
    let missing := filter (fun f => negb (mem f tdkeys) && negb (mem f (keys nt))) fields in
    FOk (kept ++ map (fun f => (f, NNone)) missing).

(* ------------------------------------------------------------------------------------------------ _wrap_td_method *)
Inductive ratom :=              (* one object returned by the tensordict method *)
| ASelf                         (* the underlying tensordict itself *)
| ATd (ks : list string) (is_out : bool)   (* another tensordict; is_out: it is the object passed as out= *)
| ANone
| AOther.                       (* tensor, number, list, dict, tensorclass instance, nested tuple ... *)
Inductive rshape := R1 (a : ratom) | RTuple (l : list ratom).

Inductive tatom :=              (* one object returned by the tensorclass method *)
| TSelf
| TSelfTd                       (* the bare underlying tensordict *)
| TWrapped (ks : list string) (nt : ntdict) (copied : bool) (same_td : bool)
                                (* an instance of the class around a tensordict with keys ks; same_td: around self's own *)
| TBare (ks : list string) (is_out : bool)
| TNone
| TOther
| TRaise (e : err).
Inductive tshape := T1 (a : tatom) | TTuple (l : list tatom).

(* deliver_result *)
Definition deliver (fields selfkeys : list string) (nt : ntdict) (copy : bool) (a : ratom) : tatom :=
  match a with
  | ANone => TNone
  | AOther => TOther
  | ATd ks true => TBare ks true
  | ATd ks false => match from_tensordict fields ks nt with FOk nt' => TWrapped ks nt' copy false | FErr e => TRaise e end
  | ASelf => match from_tensordict fields selfkeys nt with FOk nt' => TWrapped selfkeys nt' copy true | FErr e => TRaise e end
  end.

Definition asis (a : ratom) : tatom :=
  match a with ASelf => TSelfTd | ATd ks o => TBare ks o | ANone => TNone | AOther => TOther end.

(* wrapped_func of _wrap_td_method *)
Definition wrap_td_method (no_wrap copy : bool) (fields selfkeys : list string) (nt : ntdict) (r : rshape) : tshape :=
  if no_wrap then match r with R1 a => T1 (asis a) | RTuple l => TTuple (map asis l) end
  else match r with
       | R1 ASelf => T1 TSelf
       | R1 a => T1 (deliver fields selfkeys nt copy a)
       | RTuple l => TTuple (map (deliver fields selfkeys nt copy) l)
       end.

(* _wrap_method: what __getattr__ returns for a name that is on the tensordict but not on the class *)
Definition ends_with_underscore (n : string) : bool :=
  let l := String.length n in (Nat.leb 1 l) && String.eqb (substring (l - 1) 1 n) "_".

Definition wrap_method (name : string) (clear_metadata : list string) (fields selfkeys : list string) (nt : ntdict) (r : rshape) : tshape :=
  match r with
  | RTuple l => TTuple (map asis l)                 (* tuples are returned as they are *)
  | R1 ANone => T1 TNone
  | R1 AOther => T1 TOther
  | R1 a =>
      let ks := match a with ATd ks _ => ks | _ => selfkeys end in
      let same := match a with ASelf => true | _ => false end in
      if ends_with_underscore name then T1 TSelf
      else
        let nt0 := if mem name clear_metadata then map (fun kv => (fst kv, NNone)) nt else nt in
        match from_tensordict fields ks nt0 with FOk nt' => T1 (TWrapped ks nt' false same) | FErr e => T1 (TRaise e) end
  end.

Definition call_shape (k : ikind) (fields selfkeys : list string) (nt : ntdict) (r : rshape) : option tshape :=
  match k with
  | KWrap c => Some (wrap_td_method false c fields selfkeys nt r)
  | KNoWrap => Some (wrap_td_method true false fields selfkeys nt r)
  | _ => None        (* explicit functions and TensorDict's own functions are not described by the wrapper *)
  end.

(* the property's rule, written independently of the code: what re-wrapping should give *)
Definition nt_carried (nt nt' : ntdict) : bool :=
  forallb (fun kv => match snd kv with NNone => true | v => match lookup (fst kv) nt' with Some w => match v, w with NVal a, NVal b => Nat.eqb a b | _, _ => false end | None => false end end) nt.

Definition atom_ok (fields selfkeys : list string) (nt : ntdict) (a : ratom) (t : tatom) : bool :=
  match a, t with
  | ASelf, TSelf => true
  | ASelf, TWrapped ks nt' _ true => nt_carried nt nt'      (* a fresh instance around the same tensordict *)
  | ATd ks true, TBare ks' true => subset ks ks' && subset ks' ks          (* out= is returned as it is *)
  | ATd ks false, TWrapped ks' nt' _ false => subset ks ks' && subset ks' ks && nt_carried nt nt'
  | ATd ks false, _ => negb (subset ks fields)              (* outside the class structure nothing is demanded *)
  | ANone, TNone => true
  | AOther, TOther => true
  | _, _ => false
  end.

Fixpoint atoms_ok (fields selfkeys : list string) (nt : ntdict) (l : list ratom) (t : list tatom) : bool :=
  match l, t with
  | [], [] => true
  | a :: l', b :: t' => atom_ok fields selfkeys nt a b && atoms_ok fields selfkeys nt l' t'
  | _, _ => false
  end.

Definition shape_ok (fields selfkeys : list string) (nt : ntdict) (r : rshape) (t : tshape) : bool :=
  match r, t with
  | R1 a, T1 b => atom_ok fields selfkeys nt a b
  | RTuple l, TTuple m => atoms_ok fields selfkeys nt l m
  | _, _ => false
  end.

(* ------------------------------------------------------------------------------------------------ the two stores *)
Inductive tval := VTensor (id : nat) | VNonTensor (id : nat) | VColl (id : nat).   (* entries of _tensordict *)
Record state := { s_td : list (string * tval); s_nt : ntdict }.

(* every field is in exactly one store, and nothing else is stored *)
Definition wfb (fields : list string) (s : state) : bool :=
  forallb (fun f => xorb (mem f (keys (s_td s))) (mem f (keys (s_nt s)))) fields
  && subset (keys (s_td s)) fields && subset (keys (s_nt s)) fields.

Inductive got := GTensor (id : nat) | GColl (id : nat) | GPy (id : nat) (* a python value *) | GNoneV | GRaise (e : err)
               | GTdAttr.   (* not a field: forwarded to the tensordict *)

(* _getattr for a field: _non_tensordict first (when it is not empty), then _tensordict._get_str, non-tensor data unwrapped *)
Definition getattr (fields : list string) (s : state) (item : string) : got :=
  if mem item fields then
    match (match s_nt s with [] => None | _ => lookup item (s_nt s) end) with
    | Some NNone => GNoneV
    | Some (NVal p) => GPy p
    | None => match lookup item (s_td s) with
              | Some (VTensor i) => GTensor i
              | Some (VColl i) => GColl i
              | Some (VNonTensor p) => GPy p
              | None => GRaise EKey
              end
    end
  else GTdAttr.

(* key access, the property's vocabulary: the entry of whichever store holds the key *)
Definition key_access (s : state) (k : string) : got :=
  match lookup k (s_td s) with
  | Some (VTensor i) => GTensor i
  | Some (VColl i) => GColl i
  | Some (VNonTensor p) => GPy p
  | None => match lookup k (s_nt s) with Some NNone => GNoneV | Some (NVal p) => GPy p | None => GRaise EKey end
  end.

(* _set: where a value goes, by its kind, the class options and the declared type of the field *)
Inductive vkind := VkTensor | VkColl | VkNumber (* int float bool ndarray *) | VkDict | VkNone | VkOther.
Inductive hint := HTensor | HCollT | HConcrete | HAny.
Record opts := { o_autocast : bool; o_nocast : bool }.
Inductive placed :=
| PTensor (cast : bool)       (* an entry of _tensordict; cast: converted first (as_tensor / td.set's own conversion) *)
| PNonTensor (cast : bool)    (* NonTensorData entry of _tensordict; cast: converted to the declared type first *)
| PCollFromDict               (* autocast of a dict into the declared tensor collection *)
| PNone.                      (* _non_tensordict[key] = None, entry removed from _tensordict *)

Definition place (o : opts) (h : hint) (v : vkind) : placed :=
  let generic :=
    match v with
    | VkNone => PNone
    | VkTensor | VkColl => PTensor false
    | _ => PNonTensor false
    end in
  if o_autocast o then
    match v, h with
    | VkDict, HCollT => PCollFromDict
    | VkDict, _ => PNonTensor false
    | VkNone, _ => PNone
    | VkTensor, HTensor => PTensor false
    | _, HTensor => PTensor true
    | _, HConcrete => PNonTensor true
    | VkColl, HCollT => PTensor false
    | _, HCollT => PTensor true
    | VkNumber, HAny => PTensor true
    | _, HAny => generic
    end
  else
    match v with
    | VkTensor | VkColl => PTensor false
    | VkNumber => if o_nocast o then PNonTensor false else PTensor true
    | VkNone => PNone
    | _ => PNonTensor false
    end.

Inductive setres := SOk (s : state) | SErr (e : err).

Definition upd {A} (k : string) (v : A) (d : list (string * A)) : list (string * A) :=
  if is_some (lookup k d) then map (fun kv => if String.eqb (fst kv) k then (k, v) else kv) d else d ++ [(k, v)].

(* tc.set(key, value) / tc.key = value for a string key (payload id [id] stands for the possibly converted value) *)
Definition set_field (fields : list string) (locked : bool) (o : opts) (h : hint) (s : state) (k : string) (v : vkind) (id : nat) : setres :=
  if locked then SErr ERuntime
  else if negb (mem k fields) then SErr EAttribute
  else match place o h v with
       | PNone => SOk {| s_td := remove_key k (s_td s); s_nt := upd k NNone (s_nt s) |}
       | PTensor _ => SOk {| s_td := upd k (match v with VkColl => VColl id | _ => VTensor id end) (s_td s); s_nt := remove_key k (s_nt s) |}
       | PCollFromDict => SOk {| s_td := upd k (VColl id) (s_td s); s_nt := remove_key k (s_nt s) |}
       | PNonTensor _ => SOk {| s_td := upd k (VNonTensor id) (s_td s); s_nt := remove_key k (s_nt s) |}
       end.

(* _getitem: the tensordict is indexed, the non-tensor store is copied *)
Section Index.
  Variable at_index : nat -> nat.      (* what indexing does to one entry (opaque) *)
  Definition index_val (v : tval) : tval :=
    match v with VTensor i => VTensor (at_index i) | VNonTensor i => VNonTensor i | VColl i => VColl (at_index i) end.
  Definition getitem (key_like : bool) (s : state) : setres :=
    if key_like then SErr EValue      (* a string or a tuple of strings is not an index *)
    else SOk {| s_td := map (fun kv => (fst kv, index_val (snd kv))) (s_td s); s_nt := s_nt s |}.
End Index.

(* _setitem with a tensorclass value: keys that the value holds as tensors leave self's non-tensor store, then the
   tensordict part is assigned at the index (existing entries are written in place, missing ones are created) *)
Inductive itemvalue := IVTc (same_class : bool) (v : state) | IVTd (ks : list string) | IVNumber | IVTensor | IVOther.

Definition write_at (written : nat -> nat -> nat) (dst : list (string * tval)) (src : list (string * tval)) : list (string * tval) :=
  fold_left (fun d kv =>
    match lookup (fst kv) d, snd kv with
    | Some (VTensor i), VTensor j => upd (fst kv) (VTensor (written i j)) d
    | Some (VColl i), VColl j => upd (fst kv) (VColl (written i j)) d
    | _, v => upd (fst kv) v d
    end) src dst.

Definition setitem (written : nat -> nat -> nat) (key_like : bool) (s : state) (v : itemvalue) : setres :=
  if key_like then SErr EValue
  else match v with
       | IVOther => SErr EValue
       | IVTc same val =>
           let mine := keys (s_td s) ++ keys (s_nt s) in
           let theirs := keys (s_td val) ++ keys (s_nt val) in
           if negb same && negb (subset mine theirs && subset theirs mine) then SErr EValue
           else SOk {| s_td := write_at written (s_td s) (s_td val);
                       s_nt := filter (fun kv => negb (mem (fst kv) (keys (s_td val)))) (s_nt s) |}
       | IVTd _ | IVNumber | IVTensor => SOk s      (* delegated to the tensordict: the stores keep their keys *)
       end.
