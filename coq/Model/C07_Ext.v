(* C07 — the other container kinds as heap transformers (definitions only): _SubTensorDict windows, lazy stacks, and the
   memmap_ / share_memory_ conversions.  Transcribed from
     tensordict/_td.py  class _SubTensorDict: __init__ 3632, _convert_inplace 3727, _set_str 3747, _set_tuple 3821,
                        _set_at_str 3858, _get_str 3955, _get_tuple 3963, update_ 4059, update_at_ 4076, _clone 4139,
                        _select 4199, _exclude 4213; TensorDict._set_at_str 2579, __setitem__ 810
     tensordict/base.py _get_at_str / _get_at_tuple 6671, _values_list 7446 (the in-place arithmetic family 9344-11170 runs
                        torch._foreach_*_ on it), zero_ 12615, fill_ 12624
     tensordict/_lazy.py class LazyStackedTensorDict: _set_str 581, _set_tuple 616, get/_get_str 1084-1229 (stack of the members'
                        entries), values 1798 (member lists for _values_list), __setitem__ 2212, update_ 3010, flatten_keys 423,
                        _memmap_ 2750, share_memory_ 2739
   An index is abstracted exactly as in Model/C07_Alias.v (IViewB, ISetAt ...): the number of batch positions of the indexed
   object and the flat positions selected, in the row-major order of the result; [wbasic] says whether torch answers the
   index with a view (only ints / slices / None / Ellipsis) or with a gathered copy (lists, integer tensors, masks).
   A lazy stack is its member nodes and, for each member, the batch positions of the STACK that belong to it
   (value.unbind(stack_dim)[j] as an index map); stack_dim and the batch shape are folded into these maps.
   The operations are built from the instructions of Model/C07_Alias.v run on a scratch register file ([on]) wherever
   the code itself delegates to the regular TensorDict methods. *)
From Coq Require Import ZArith List String Bool Arith PeanoNat.
Import ListNotations.
From TD Require Import Model.C07_Heap Model.C07_Alias.
Open Scope string_scope.

Record win := mkWin { wnb : nat; wsel : list nat; wbasic : bool }.
Record subh := mkSub { ssrc : nat; swin : win }.                 (* _source (a node), idx *)
Record lazyh := mkLazy { lmem : list nat; lnb : nat; lsel : list (list nat) }.

Record xst := mkX { xb : st; xsubs : list subh; xlazy : list lazyh }.

Definition wview (w : win) (v : view) : view := subview v (wnb w) (wsel w).

(* source[key][idx]: a view for a basic window, a gathered copy (fresh contiguous tensor) otherwise *)
Definition win_get (w : win) (h : heap) (v : view) : heap * view :=
  if wbasic w then (h, wview w v) else fresh_leaf h (read h (wview w v)).
Definition lf_win (w : win) : path -> heap -> view -> heap * view :=
  if wbasic w then lf_sub (wnb w) (wsel w) else lf_gather (wnb w) (wsel w).

(* run one instruction of the regular machine on a scratch register file; returns the heap, the registers it pushed, the outcome *)
Definition on (h : heap) (rs : list ref) (i : instr) : heap * list ref * outcome :=
  let '(s', o) := step (mkSt h rs) i in (hp s', skipn (List.length rs) (regs s'), o).

(* ------------------------------------------------------------------ _SubTensorDict *)
(* parent._set_at_str(key, value, idx) -> _set_item: tensor_in[idx] = value; for a nested destination this is
   TensorDict.__setitem__(idx, td): _set_at_str for every key of the value (existing keys) *)
Definition set_at_ref (h : heap) (tgt val : ref) (w : win) : heap * outcome :=
  match tgt, val with
  | RLeaf d, RLeaf v => write_c false h (wview w d) (read h v)
  | RNode _, RNode _ =>
      match leaves_of h val with
      | None => (h, Raised EFuel)
      | Some lo => match at_writes h tgt lo (wnb w) (wsel w) with
                   | Some ws => write_list false h ws
                   | None => (h, Raised EKey)
                   end
      end
  | _, _ => (h, Raised EType)
  end.

(* set_ = _set_tuple(key, value, inplace=True): _convert_inplace wants the key in the SOURCE's keys; a missing
   intermediate node is a KeyError; _SubTensorDict(tensor, idx) below a leaf is a TypeError; then the write goes to
   the source at the window *)
Fixpoint sub_set_ (h : heap) (n : nat) (w : win) (p : path) (val : ref) : heap * outcome :=
  match p with
  | [] => (h, Raised EKey)
  | k :: p' =>
      match get_node h n with
      | None => (h, Raised EType)
      | Some nd =>
          match ents_get (nents nd) k, p' with
          | None, _ => (h, Raised EKey)
          | Some tgt, [] => set_at_ref h tgt val w
          | Some (RNode m), _ => sub_set_ h m w p' val
          | Some (RLeaf _), _ => (h, Raised EType)
          end
      end
  end.

(* update_ = update_at_(input, idx=self.idx, discard_idx_attr=True): source._set_at_tuple((key,), value, idx) for the
   items of the input in its own order; a key the source lacks is a KeyError (after the earlier items were written) *)
Definition sub_update_ (h : heap) (n : nat) (w : win) (src : nat) : heap * outcome :=
  match get_node h n, get_node h src with
  | Some nd, Some ns =>
      fold_out (fun h0 (kv : string * ref) =>
                  match ents_get (nents nd) (fst kv) with
                  | None => (h0, Raised EKey)
                  | Some tgt => set_at_ref h0 tgt (snd kv) w
                  end) h (nents ns)
  | _, _ => (h, Raised EType)
  end.

(* set_at_(key, value, idx2) on a leaf: tensor_in = self._get_str(key) (the window of the source entry: view or copy),
   tensor_in[idx2] = value, then "make sure that the value is updated": source._set_at_str(key, tensor_in, self.idx) *)
Definition sub_set_at_leaf (h : heap) (d : view) (w w2 : win) (vals : list Z) : heap * outcome :=
  let '(h1, tin) := win_get w h d in
  match write_c false h1 (wview w2 tin) vals with
  | (h2, Done) => write_c false h2 (wview w d) (read h2 tin)
  | bad => bad
  end.

(* _values_list(True, True) through the window: source[k][idx] for every leaf, depth first *)
Fixpoint win_vals (w : win) (h : heap) (ls : list (path * view)) : heap * list (path * view) :=
  match ls with
  | [] => (h, [])
  | (p, v) :: t =>
      let '(h1, v1) := win_get w h v in
      let '(h2, t2) := win_vals w h1 t in (h2, (p, v1) :: t2)
  end.

(* ------------------------------------------------------------------ lazy stacks *)
Fixpoint zip {A B} (l : list A) (m : list B) : list (A * B) :=
  match l, m with a :: l', b :: m' => (a, b) :: zip l' m' | _, _ => [] end.

Fixpoint all_some {A} (l : list (option A)) : option (list A) :=
  match l with
  | [] => Some []
  | None :: _ => None
  | Some a :: t => match all_some t with Some r => Some (a :: r) | None => None end
  end.

(* torch.stack of the members' entries: a fresh contiguous tensor; member j's elements are copied to the positions of the
   stack that belong to it *)
Definition lazy_stack_leaf (h : heap) (L : lazyh) (vs : list view) : heap * view :=
  let n := fold_right (fun v a => List.length (vcells v) + a) 0 vs in
  let res := mkView (List.length (hstor h)) (seq 0 n) in
  let content := fold_left (fun c (vj : view * list nat) =>
                              wr_cells c (sub_cells (seq 0 n) (lnb L) (snd vj)) (read h (fst vj)))
                           (zip vs (lsel L)) (repeat 0%Z n) in
  let '(h1, _) := alloc_stor h content in (h1, res).

Definition member_leaf (h : heap) (p : path) (m : nat) : option view :=
  match resolve h (RNode m) p with Some (RLeaf v) => Some v | _ => None end.
Definition member_node (h : heap) (p : path) (m : nat) : option nat :=
  match resolve h (RNode m) p with Some (RNode n) => Some n | _ => None end.

(* set_ through the stack: _set_str raises KeyError up front when a member lacks the (single) key; then
   value.unbind(stack_dim)[j] is written in place into member j *)
Definition lazy_set_ (h : heap) (L : lazyh) (p : path) (v : view) : heap * outcome :=
  let has_all := match p with
                 | [k] => forallb (fun m => match get_node h m with Some nd => ents_has (nents nd) k | None => false end) (lmem L)
                 | _ => true
                 end in
  if negb has_all then (h, Raised EKey)
  else fold_out (fun h0 (ms : nat * list nat) =>
                   set_tuple upd_best h0 (fst ms) p (RLeaf (subview v (lnb L) (snd ms))) ITrue)
                h (zip (lmem L) (lsel L)).

(* input.unbind(stack_dim): one new node per member whose leaves are views of the input's *)
Fixpoint unbind_all (h : heap) (src : ref) (nb : nat) (sels : list (list nat)) : option (heap * list ref) :=
  match sels with
  | [] => Some (h, [])
  | sel :: t =>
      match map_tree (fuel_of h) false false false (lf_sub nb sel) h src [] with
      | None => None
      | Some (h1, x) => match unbind_all h1 src nb t with Some (h2, xs) => Some (h2, x :: xs) | None => None end
      end
  end.

(* update_ through the stack: td_dest.update_(td_source) member by member *)
Definition lazy_update_ (h : heap) (L : lazyh) (src : ref) : heap * outcome :=
  match unbind_all h src (lnb L) (lsel L) with
  | None => (h, Raised EFuel)
  | Some (h1, xs) =>
      fold_out (fun h0 (mx : nat * ref) => update_u h0 (RNode (fst mx)) (snd mx)) h1 (zip (lmem L) xs)
  end.

(* _values_list of a stack: the members' own lists, member after member *)
Definition lazy_leaves (h : heap) (L : lazyh) : option (list (path * view)) :=
  concat_opt (map (fun m => leaves_of h (RNode m)) (lmem L)).

(* lazy[idx] = td: the converted index gives, for every member it touches, the member-level index and the piece of the value;
   an empty member index means member.update(piece, inplace=True), otherwise member[idx_j] = piece *)
Record lpart := mkPart { pj : nat; pwhole : bool; pnb : nat; psel : list nat; pvsel : option (list nat) }.

Definition lazy_setitem_part (L : lazyh) (src : ref) (vnb : nat) (h : heap) (pt : lpart) : heap * outcome :=
  match nth_error (lmem L) (pj pt) with
  | None => (h, Raised EType)
  | Some m =>
      match (match pvsel pt with
             | None => Some (h, src)
             | Some vs => map_tree (fuel_of h) false false false (lf_sub vnb vs) h src []
             end) with
      | None => (h, Raised EFuel)
      | Some (h1, piece) =>
          if pwhole pt then
            match piece with
            | RNode pn => update_n (fuel_of h1) false true h1 m pn
            | RLeaf _ => (h1, Raised EType)
            end
          else set_at_ref h1 (RNode m) piece (mkWin (pnb pt) (psel pt) true)
      end
  end.

(* ------------------------------------------------------------------ conversions *)
(* memmap_: every leaf is REBOUND to a new (file backed, contiguous) storage holding the same content; the nodes keep their
   identity; the tree is locked.  share_memory_: the storages move as a whole (every alias moves with them): no rebinding; locked *)
Fixpoint memmap_ents (rec : heap -> ref -> option heap) (h : heap) (n : nat) (ks : list string) : option heap :=
  match ks with
  | [] => Some h
  | k :: t =>
      match get_node h n with
      | None => None
      | Some nd =>
          match ents_get (nents nd) k with
          | None => None
          | Some (RLeaf v) =>
              let '(h1, v1) := fresh_leaf h (read h v) in
              memmap_ents rec (set_node h1 n (mkNode (ents_set (nents nd) k (RLeaf v1)) (nlock nd))) n t
          | Some (RNode m) => match rec h (RNode m) with Some h1 => memmap_ents rec h1 n t | None => None end
          end
      end
  end.
Fixpoint memmap_tree (fuel : nat) (h : heap) (r : ref) : option heap :=
  match fuel with
  | 0 => None
  | S f =>
      match r with
      | RLeaf _ => Some h
      | RNode n =>
          match get_node h n with
          | None => None
          | Some nd =>
              match memmap_ents (memmap_tree f) h n (map fst (nents nd)) with
              | None => None
              | Some h1 => match get_node h1 n with
                           | Some nd1 => Some (set_node h1 n (mkNode (nents nd1) true))
                           | None => None
                           end
              end
          end
      end
  end.

(* ------------------------------------------------------------------ instructions *)
Inductive xinstr :=
  | XB (i : instr)                                                  (* the regular machine *)
  (* _SubTensorDict *)
  | XMkSub (r : nat) (w : win)                                      (* td._get_sub_tensordict(idx) *)
  | XSubGet (s : nat) (p : path)                                    (* sub.get(key): source.get(key)[idx] *)
  | XSubSetU (s : nat) (p : path) (v : nat)                         (* sub.set_(key, v) *)
  | XSubUpdU (s : nat) (src : nat)                                  (* sub.update_(td) / copy_ *)
  | XSubSetAt (s : nat) (p : path) (v : nat) (w2 : win)             (* sub.set_at_(key, v, idx2) *)
  | XSubFill (s : nat) (p : path) (z : Z)                           (* sub.fill_(key, z) *)
  | XSubConstU (s : nat) (z : Z)                                    (* sub.zero_() *)
  | XSubUnaryU (s : nat) (f : pf)                                   (* sub.neg_() ... += c *)
  | XSubBinaryU (s : nat) (f : bf) (src : nat)                      (* sub.add_(td) ... *)
  | XSubClone (s : nat)                                             (* sub.clone() / to_tensordict() *)
  | XSubShallow (s : nat)                                           (* sub.clone(False): a window on a shallow copy *)
  | XSubSelect (s : nat) (ks : list string)                         (* sub.select(ks): source.select(ks)[idx] *)
  | XSubExclude (s : nat) (ks : list string)
  | XSubUnary (s : nat) (f : pf)                                    (* sub.neg() ... *)
  (* lazy stacks *)
  | XMkLazy (ms : list nat) (nb : nat) (sels : list (list nat))     (* lazy_stack([members], dim) *)
  | XLazyMember (l : nat) (j : nat)                                 (* lazy.tensordicts[j] *)
  | XLazyGet (l : nat) (p : path)                                   (* lazy.get(key): stacked copy / lazy stack of the nested nodes *)
  | XLazySetU (l : nat) (p : path) (v : nat)                        (* lazy.set_(key, v) *)
  | XLazyUpdU (l : nat) (src : nat)                                 (* lazy.update_(td) / copy_ *)
  | XLazySetItem (l : nat) (src : nat) (vnb : nat) (parts : list lpart)   (* lazy[idx] = td *)
  | XLazyFill (l : nat) (p : path) (z : Z)                          (* lazy.fill_(key, z) *)
  | XLazyConstU (l : nat) (z : Z)                                   (* lazy.zero_() *)
  | XLazyUnaryU (l : nat) (f : pf)                                  (* lazy.neg_() ... *)
  | XLazyClone (l : nat)                                            (* lazy.clone(): a lazy stack of cloned members *)
  | XLazyFlatten (l : nat) (sep : string)                           (* lazy.flatten_keys(sep): D73 — stacked copies *)
  (* conversions *)
  | XMemmap (r : nat)                                               (* td.memmap_() *)
  | XShare (r : nat)                                                (* td.share_memory_() *)
  (* lazy stacks, continued *)
  | XLazyDense (l : nat) (cl : bool)                                (* lazy.contiguous() / densify() (cl = false), lazy.to_tensordict() (cl = true) *)
  | XLazyNarrow (l : nat) (js : list nat) (nb : nat) (sels : list (list nat)).
                                                                    (* lazy[a:b] on the stack dim, lazy.split(..)[k], lazy.chunk(..)[k]:
                                                                       a stack of some of the SAME member objects (possibly one) *)

Inductive xcls := XCBase (c : cls) | XCAlloc | XCInplace | XCView | XCCopy | XCConv.
Definition xclassify (i : xinstr) : xcls :=
  match i with
  | XB i => XCBase (classify i)
  | XMkSub _ _ | XMkLazy _ _ _ | XLazyMember _ _ => XCAlloc
  | XSubSetU _ _ _ | XSubUpdU _ _ | XSubSetAt _ _ _ _ | XSubFill _ _ _ | XSubConstU _ _ | XSubUnaryU _ _ | XSubBinaryU _ _ _
  | XLazySetU _ _ _ | XLazyUpdU _ _ | XLazyFill _ _ _ | XLazyConstU _ _ | XLazyUnaryU _ _ => XCInplace
  (* lazy[idx] = td: a member addressed as a whole takes member.update(piece, inplace=True) — in place for the keys it has, binding
     for the others (the regular machine's CBest class) *)
  | XLazySetItem _ _ _ parts => if existsb pwhole parts then XCBase CBest else XCInplace
  | XSubGet _ _ | XSubShallow _ | XSubSelect _ _ | XSubExclude _ _ | XLazyFlatten _ _ | XLazyNarrow _ _ _ _ => XCView
  | XSubClone _ | XSubUnary _ _ | XLazyGet _ _ | XLazyClone _ | XLazyDense _ _ => XCCopy
  | XMemmap _ | XShare _ => XCConv
  end.

Definition xsub (s : xst) (i : nat) : option subh := nth_error (xsubs s) i.
Definition xlz (s : xst) (i : nat) : option lazyh := nth_error (xlazy s) i.
Definition xwith_h (s : xst) (h : heap) : xst := mkX (with_h (xb s) h) (xsubs s) (xlazy s).
Definition xpush (s : xst) (h : heap) (r : ref) : xst := mkX (push (xb s) h r) (xsubs s) (xlazy s).
Definition xpush_sub (s : xst) (h : heap) (sh : subh) : xst := mkX (with_h (xb s) h) (xsubs s ++ [sh]) (xlazy s).
Definition xpush_lazy (s : xst) (h : heap) (L : lazyh) : xst := mkX (with_h (xb s) h) (xsubs s) (xlazy s ++ [L]).

Definition regs_nodes (rs : list ref) (ms : list nat) : option (list nat) :=
  all_some (map (fun i => match nth_error rs i with Some (RNode n) => Some n | _ => None end) ms).

(* clone every member (clone(True) of a stack: a stack of clones) *)
Fixpoint clone_all (h : heap) (ms : list nat) : option (heap * list nat) :=
  match ms with
  | [] => Some (h, [])
  | m :: t =>
      match map_tree (fuel_of h) false false false lf_copy h (RNode m) [] with
      | Some (h1, RNode c) => match clone_all h1 t with Some (h2, cs) => Some (h2, c :: cs) | None => None end
      | _ => None
      end
  end.

(* _key_list of a stack: the keys every member has, sorted (sorted(keys, key=str)); the leaf keys of the stack are enumerated
   through it at every level (self.items(True, True) of the generic methods) *)
Fixpoint ins_sorted (k : string) (l : list string) : list string :=
  match l with
  | [] => [k]
  | x :: t => if String.leb k x then k :: l else x :: ins_sorted k t
  end.
Definition sort_keys (l : list string) : list string := fold_right ins_sorted [] l.
Definition node_keys (h : heap) (m : nat) : list string :=
  match get_node h m with Some nd => map fst (nents nd) | None => [] end.
Definition lazy_keys (h : heap) (ms : list nat) : list string :=
  match ms with
  | [] => []
  | m0 :: rest => sort_keys (filter (fun k => forallb (fun m => memb_s k (node_keys h m)) rest) (node_keys h m0))
  end.
Fixpoint lazy_paths (fuel : nat) (h : heap) (ms : list nat) (pre : path) : option (list path) :=
  match fuel with
  | 0 => None
  | S f =>
      concat_opt (map (fun k =>
                         match all_some (map (member_leaf h [k]) ms) with
                         | Some _ => Some [(pre ++ [k])%list]
                         | None => match all_some (map (member_node h [k]) ms) with
                                   | Some ns => lazy_paths f h ns (pre ++ [k])%list
                                   | None => Some []
                                   end
                         end) (lazy_keys h ms))
  end.

(* stacked copy of every leaf key of the first member (generic flatten_keys over self.items() / get) *)
Fixpoint lazy_flat_ents (h : heap) (L : lazyh) (sep : string) (ks : list path) : option (heap * list (string * ref)) :=
  match ks with
  | [] => Some (h, [])
  | p :: t =>
      match all_some (map (member_leaf h p) (lmem L)) with
      | None => None
      | Some vs =>
          let '(h1, v) := lazy_stack_leaf h L vs in
          match lazy_flat_ents h1 L sep t with
          | Some (h2, es) => Some (h2, (join sep p, RLeaf v) :: es)
          | None => None
          end
      end
  end.

(* contiguous() / to_tensordict() / densify() of a stack (_lazy.py contiguous 1635, base.py to_tensordict 11776): a new TensorDict whose
   entries are the STACKED copies of the members' entries, key after key in the stack's (sorted) key order, nested stacks
   recursively; to_tensordict clones the stacked copy once more.  A stack never is contiguous (is_contiguous() is False):
   whatever the number of members, nothing in the result may share with a member *)
Fixpoint dense_ents (rec : heap -> list nat -> option (heap * nat)) (cl : bool) (h : heap) (L : lazyh) (ms : list nat)
  (ks : list string) : option (heap * list (string * ref)) :=
  match ks with
  | [] => Some (h, [])
  | k :: t =>
      match all_some (map (member_leaf h [k]) ms) with
      | Some vs =>
          let '(h1, v) := lazy_stack_leaf h L vs in
          let '(h2, v2) := (if cl then fresh_like h1 v (read h1 v) else (h1, v)) in
          match dense_ents rec cl h2 L ms t with
          | Some (h3, es) => Some (h3, (k, RLeaf v2) :: es)
          | None => None
          end
      | None =>
          match all_some (map (member_node h [k]) ms) with
          | Some ns =>
              match rec h ns with
              | Some (h1, n) => match dense_ents rec cl h1 L ms t with
                                | Some (h2, es) => Some (h2, (k, RNode n) :: es)
                                | None => None
                                end
              | None => None
              end
          | None => None
          end
      end
  end.
Fixpoint lazy_dense (fuel : nat) (cl : bool) (h : heap) (L : lazyh) (ms : list nat) : option (heap * nat) :=
  match fuel with
  | 0 => None
  | S f =>
      match dense_ents (fun h' ns => lazy_dense f cl h' L ns) cl h L ms (lazy_keys h ms) with
      | Some (h1, es) => Some (alloc_node h1 (mkNode es false))
      | None => None
      end
  end.

Definition xstep (s : xst) (i : xinstr) : xst * outcome :=
  let h := hp (xb s) in
  let fail e := (s, Raised e) in
  let fin (x : heap * outcome) := (xwith_h s (fst x), snd x) in
  match i with
  | XB i => let '(b', o) := step (xb s) i in (mkX b' (xsubs s) (xlazy s), o)
  | XMkSub r w =>
      match reg (xb s) r with
      | Some (RNode n) => (xpush_sub s h (mkSub n w), Done)
      | _ => fail EType
      end
  | XSubGet si p =>
      match xsub s si with
      | None => fail EType
      | Some sh =>
          match resolve h (RNode (ssrc sh)) p with
          | None => fail EKey
          | Some x => match map_tree (fuel_of h) false false false (lf_win (swin sh)) h x [] with
                      | Some (h1, y) => (xpush s h1 y, Done)
                      | None => fail EFuel
                      end
          end
      end
  | XSubSetU si p v =>
      match xsub s si, reg (xb s) v with
      | Some sh, Some val => fin (sub_set_ h (ssrc sh) (swin sh) p val)
      | _, _ => fail EType
      end
  | XSubUpdU si src =>
      match xsub s si, reg (xb s) src with
      | Some sh, Some (RNode o) => fin (sub_update_ h (ssrc sh) (swin sh) o)
      | _, _ => fail EType
      end
  | XSubSetAt si p v w2 =>
      match xsub s si, reg (xb s) v with
      | Some sh, Some (RLeaf o) =>
          match resolve h (RNode (ssrc sh)) p with
          | Some (RLeaf d) => fin (sub_set_at_leaf h d (swin sh) w2 (read h o))
          | Some (RNode _) => fail ENotModelled
          | None => fail EKey
          end
      | _, _ => fail EType
      end
  | XSubFill si p z =>
      match xsub s si with
      | None => fail EType
      | Some sh =>
          match resolve h (RNode (ssrc sh)) p with
          | None => fail EKey
          | Some (RLeaf d) =>
              (* data = self.get(key).fill_(z); self._set_tuple(key, data, inplace=True) *)
              let '(h1, tin) := win_get (swin sh) h d in
              match write_c false h1 tin (map (fun _ => z) (vcells tin)) with
              | (h2, Done) => fin (sub_set_ h2 (ssrc sh) (swin sh) p (RLeaf tin))
              | bad => fin bad
              end
          | Some (RNode m) =>
              (* data._fast_apply(fill, inplace=True) on the window of the nested node *)
              match leaves_of h (RNode m) with
              | None => fail EFuel
              | Some ls => let '(h1, vs) := win_vals (swin sh) h ls in
                           fin (write_list false h1 (map (fun pv => (snd pv, WUn (PConst z))) vs))
              end
          end
      end
  | XSubConstU si z =>
      match xsub s si with
      | None => fail EType
      | Some sh => match leaves_of h (RNode (ssrc sh)) with
                   | None => fail EFuel
                   | Some ls => let '(h1, vs) := win_vals (swin sh) h ls in
                                fin (write_list false h1 (map (fun pv => (snd pv, WUn (PConst z))) vs))
                   end
      end
  | XSubUnaryU si f =>
      match xsub s si with
      | None => fail EType
      | Some sh => match leaves_of h (RNode (ssrc sh)) with
                   | None => fail EFuel
                   | Some ls => let '(h1, vs) := win_vals (swin sh) h ls in
                                fin (write_list true h1 (map (fun pv => (snd pv, WUn f)) vs))
                   end
      end
  | XSubBinaryU si f src =>
      match xsub s si, reg (xb s) src with
      | Some sh, Some o =>
          match leaves_of h (RNode (ssrc sh)), leaves_of h o with
          | Some ls, Some lo =>
              let '(h1, vs) := win_vals (swin sh) h ls in
              match pair_all vs lo with
              | Some prs => fin (write_list true h1 (map (fun vo => (fst vo, WBin f (snd vo))) prs))
              | None => fail EKey
              end
          | _, _ => fail EFuel
          end
      | _, _ => fail EType
      end
  | XSubClone si =>
      match xsub s si with
      | None => fail EType
      | Some sh =>
          (* to_tensordict: value.clone() of every source[k][idx] *)
          match map_tree (fuel_of h) false false false
                         (fun p h0 v => let '(h1, v1) := win_get (swin sh) h0 v in fresh_like h1 v1 (read h1 v1))
                         h (RNode (ssrc sh)) [] with
          | Some (h1, y) => (xpush s h1 y, Done)
          | None => fail EFuel
          end
      end
  | XSubShallow si =>
      match xsub s si with
      | None => fail EType
      | Some sh =>
          match map_tree (fuel_of h) false false false lf_same h (RNode (ssrc sh)) [] with
          | Some (h1, RNode m) => (xpush_sub s h1 (mkSub m (swin sh)), Done)
          | _ => fail EFuel
          end
      end
  | XSubSelect si ks =>
      match xsub s si with
      | None => fail EType
      | Some sh =>
          match on h [RNode (ssrc sh)] (ISelect 0 ks) with
          | (h1, [x], Done) =>
              match map_tree (fuel_of h1) false false false (lf_win (swin sh)) h1 x [] with
              | Some (h2, y) => (xpush s h2 y, Done)
              | None => fail EFuel
              end
          | (_, _, Raised e) => fail e
          | _ => fail EType
          end
      end
  | XSubExclude si ks =>
      match xsub s si with
      | None => fail EType
      | Some sh =>
          match on h [RNode (ssrc sh)] (IExclude 0 ks) with
          | (h1, [x], Done) =>
              match map_tree (fuel_of h1) false false false (lf_win (swin sh)) h1 x [] with
              | Some (h2, y) => (xpush s h2 y, Done)
              | None => fail EFuel
              end
          | (_, _, Raised e) => fail e
          | _ => fail EType
          end
      end
  | XSubUnary si f =>
      match xsub s si with
      | None => fail EType
      | Some sh =>
          match map_tree (fuel_of h) false false false
                         (fun p h0 v => let '(h1, v1) := win_get (swin sh) h0 v in fresh_like h1 v1 (map (apf f) (read h1 v1)))
                         h (RNode (ssrc sh)) [] with
          | Some (h1, y) => (xpush s h1 y, Done)
          | None => fail EFuel
          end
      end
  | XMkLazy ms nb sels =>
      match regs_nodes (regs (xb s)) ms with
      | Some ns => if Nat.eqb (List.length ns) (List.length sels) then (xpush_lazy s h (mkLazy ns nb sels), Done) else fail EShape
      | None => fail EType
      end
  | XLazyMember li j =>
      match xlz s li with
      | Some L => match nth_error (lmem L) j with Some m => (xpush s h (RNode m), Done) | None => fail EKey end
      | None => fail EType
      end
  | XLazyGet li p =>
      match xlz s li with
      | None => fail EType
      | Some L =>
          match all_some (map (member_leaf h p) (lmem L)) with
          | Some vs => let '(h1, v) := lazy_stack_leaf h L vs in (xpush s h1 (RLeaf v), Done)
          | None =>
              match all_some (map (member_node h p) (lmem L)) with
              | Some ns => (xpush_lazy s h (mkLazy ns (lnb L) (lsel L)), Done)
              | None => fail EKey
              end
          end
      end
  | XLazySetU li p v =>
      match xlz s li, reg (xb s) v with
      | Some L, Some (RLeaf val) => fin (lazy_set_ h L p val)
      | Some _, Some (RNode _) => fail ENotModelled
      | _, _ => fail EType
      end
  | XLazyUpdU li src =>
      match xlz s li, reg (xb s) src with
      | Some L, Some o => fin (lazy_update_ h L o)
      | _, _ => fail EType
      end
  | XLazySetItem li src vnb parts =>
      match xlz s li, reg (xb s) src with
      | Some L, Some o => fin (fold_out (lazy_setitem_part L o vnb) h parts)
      | _, _ => fail EType
      end
  | XLazyFill li p z =>
      match xlz s li with
      | None => fail EType
      | Some L =>
          match all_some (map (member_leaf h p) (lmem L)) with
          | Some vs =>
              (* data = self.get(key) (a stacked copy); data.fill_(z); self._set_tuple(key, data, inplace=True) *)
              let '(h1, v) := lazy_stack_leaf h L vs in
              match write_c false h1 v (map (fun _ => z) (vcells v)) with
              | (h2, Done) => fin (lazy_set_ h2 L p v)
              | bad => fin bad
              end
          | None =>
              match all_some (map (member_node h p) (lmem L)) with
              | Some ns =>
                  match lazy_leaves h (mkLazy ns (lnb L) (lsel L)) with
                  | Some ls => fin (write_list false h (map (fun pv => (snd pv, WUn (PConst z))) ls))
                  | None => fail EFuel
                  end
              | None => fail EKey
              end
          end
      end
  | XLazyConstU li z =>
      match xlz s li with
      | None => fail EType
      | Some L => match lazy_leaves h L with
                  | Some ls => fin (write_list false h (map (fun pv => (snd pv, WUn (PConst z))) ls))
                  | None => fail EFuel
                  end
      end
  | XLazyUnaryU li f =>
      match xlz s li with
      | None => fail EType
      | Some L => match lazy_leaves h L with
                  | Some ls => fin (write_list true h (map (fun pv => (snd pv, WUn f)) ls))
                  | None => fail EFuel
                  end
      end
  | XLazyClone li =>
      match xlz s li with
      | None => fail EType
      | Some L => match clone_all h (lmem L) with
                  | Some (h1, cs) => (xpush_lazy s h1 (mkLazy cs (lnb L) (lsel L)), Done)
                  | None => fail EFuel
                  end
      end
  | XLazyFlatten li sep =>
      match xlz s li with
      | None => fail EType
      | Some L =>
          match lazy_paths (fuel_of h) h (lmem L) [] with
          | None => fail EFuel
          | Some ps =>
              (* the generic flatten_keys over self.items(True, True): stacked COPIES under the joined keys, set into
                 self.empty() — a stack of their slices along the stack dim (D73: nothing shares with the members) *)
              match lazy_flat_ents h L sep ps with
              | Some (h1, es) =>
                  let '(h2, m) := alloc_node h1 (mkNode es false) in
                  match unbind_all h2 (RNode m) (lnb L) (lsel L) with
                  | Some (h3, xs) =>
                      match all_some (map (fun x => match x with RNode n => Some n | RLeaf _ => None end) xs) with
                      | Some ns => (xpush_lazy s h3 (mkLazy ns (lnb L) (lsel L)), Done)
                      | None => fail EType
                      end
                  | None => fail EFuel
                  end
              | None => fail EKey
              end
          end
      end
  | XMemmap r =>
      match reg (xb s) r with
      | Some d => match memmap_tree (fuel_of h) h d with Some h1 => (xwith_h s h1, Done) | None => fail EFuel end
      | None => fail EType
      end
  | XShare r =>
      match reg (xb s) r with
      | Some d => let '(b', o) := step (xb s) (ILock r true) in (mkX b' (xsubs s) (xlazy s), o)
      | None => fail EType
      end
  | XLazyDense li cl =>
      match xlz s li with
      | None => fail EType
      | Some L => match lazy_dense (fuel_of h) cl h L (lmem L) with
                  | Some (h1, m) => (xpush s h1 (RNode m), Done)
                  | None => fail EFuel
                  end
      end
  | XLazyNarrow li js nb sels =>
      match xlz s li with
      | None => fail EType
      | Some L => match all_some (map (nth_error (lmem L)) js) with
                  | Some ns => if Nat.eqb (List.length ns) (List.length sels) then (xpush_lazy s h (mkLazy ns nb sels), Done)
                               else fail EShape
                  | None => fail EKey
                  end
      end
  end.

Fixpoint xrun (s : xst) (prog : list xinstr) : xst :=
  match prog with
  | [] => s
  | i :: t => xrun (fst (xstep s i)) t
  end.

Definition empty_xst : xst := mkX empty_st [] [].
