(* Model of tensordict's indexed WRITE, at the level of shapes and keys:
   _td.py::TensorDict.__setitem__ (value kinds; the batch-size rule for tensordict / dict values: equal -> as is,
   suffix of the indexed batch size -> expand on the left, else copy + batch_size reset which may raise),
   base.py::_batch_size_setter + _check_new_batch_size (what a batch-size reset accepts and what it does to nested nodes),
   _td.py::from_dict_instance as used by __setitem__ (every nested dict gets the ROOT's indexed batch size: finding D30),
   _td.py::_set_at_str / utils.py::_set_item (entry by entry, the same index; a nested node recurses into __setitem__),
   the new-key path: _get_sub_tensordict + _SubTensorDict._set_str (validation against the indexed batch size, the new
   entry is zeros(batch_size ++ value.shape[len(indexed_bs):]), then a write at the index), base.py::_expand_to_match_shape.
   What [leaf[idx] = value] accepts is torch's (Spec/C03_TorchSel.torch_write_ok, validated against torch in the harness). *)
From Coq Require Import ZArith List Bool String Lia.
Import ListNotations.
From TD Require Import Spec.PySlice Model.C03_Index Spec.C03_TorchIndex.
Open Scope nat_scope.

(* shape skeleton of a tensordict / of a tensordict value: leaves carry their full shape, nodes their batch size *)
Inductive vtree := VL (sh : list nat) | VN (bs : list nat) (kids : list (string * vtree)).
Inductive wvalue :=
| WScalar                       (* python number *)
| WTensor (sh : list nat)       (* tensor *)
| WTree (t : vtree)             (* tensordict *)
| WDict (t : vtree).            (* (nested) dict of tensors: batch sizes in [t] are ignored *)

(* ---- torch: what tensor[idx] = value accepts (value broadcast to the indexed shape after its leading 1s are dropped) *)
Fixpoint strip1 (s : list nat) : list nat := match s with 1 :: r => strip1 r | _ => s end.
Fixpoint bc_rev (v t : list nat) : bool :=
  match v, t with
  | [], _ => true
  | _ :: _, [] => false
  | x :: v', y :: t' => (Nat.eqb x y || Nat.eqb x 1) && bc_rev v' t'
  end.
Definition bcastable_to (v t : list nat) : bool := bc_rev (rev v) (rev t).
Definition torch_write_ok (L : list nat) (idx : list item) (v : list nat) : bool :=
  match torch_shape L idx with Some R => bcastable_to (strip1 v) R | None => false end.
Definition torch_index_ok (L : list nat) (idx : list item) : bool :=
  match torch_shape L idx with Some _ => true | None => false end.

(* ---- helpers *)
Definition prefix_is (new s : list nat) : bool := shape_eqb (firstn (List.length new) s) new.
Fixpoint tree_empty (t : vtree) : bool :=
  match t with VL _ => false | VN _ kids => forallb (fun p => tree_empty (snd p)) kids end.
Fixpoint find_key (k : string) (l : list (string * vtree)) : option vtree :=
  match l with [] => None | (k', c) :: r => if String.eqb k k' then Some c else find_key k r end.
Fixpoint replace_key (k : string) (c : vtree) (l : list (string * vtree)) : list (string * vtree) :=
  match l with [] => [] | (k', c') :: r => if String.eqb k k' then (k', c) :: r else (k', c') :: replace_key k c r end.

(* value.expand(T) for a value whose batch size has k dims: the first k dims of every entry are replaced by T *)
Fixpoint retarget (k : nat) (T : list nat) (t : vtree) : vtree :=
  match t with
  | VL s => VL (T ++ skipn k s)
  | VN b kids => VN (T ++ skipn k b) (map (fun p => (fst p, retarget k T (snd p))) kids)
  end.

(* value.batch_size = new  (_batch_size_setter after _check_new_batch_size): leaves must have [new] as prefix; nested
   nodes with fewer dims (or, when they hold nothing, a different prefix) are given [new] recursively; other nested nodes
   must have [new] as prefix *)
Fixpoint to_bs (fuel : nat) (new : list nat) (t : vtree) : res vtree :=
  match fuel with
  | 0 => Reject
  | S f =>
      match t with
      | VL _ => Reject
      | VN b kids =>
          if shape_eqb b new then Ok t else
          match (fix go (l : list (string * vtree)) : res (list (string * vtree)) :=
                   match l with
                   | [] => Ok []
                   | (k, c) :: r =>
                       match (match c with
                              | VL s => if prefix_is new s then Ok c else Reject
                              | VN cb ck =>
                                  if Nat.ltb (List.length cb) (List.length new) || (negb (prefix_is new cb) && tree_empty c)
                                  then to_bs f new c
                                  else if prefix_is new cb then Ok c else Reject
                              end), go r with
                       | Ok c', Ok r' => Ok ((k, c') :: r')
                       | _, _ => Reject
                       end
                   end) kids with
          | Ok kids' => Ok (VN new kids')
          | Reject => Reject
          end
      end
  end.

(* a dict value: nested dicts become nodes without batch dims, then the whole thing is built with batch size T *)
Fixpoint undict (t : vtree) : vtree :=
  match t with VL s => VL s | VN _ kids => VN [] (map (fun p => (fst p, undict (snd p))) kids) end.

Definition is_nil {X} (l : list X) : bool := match l with [] => true | _ => false end.

(* the container a new key gets: zeros(batch_size ++ shape[len(T):]); for a node, its first-level entries likewise and
   deeper nodes emptied (_expand_to_match_shape: data.empty(batch_size = ...)) *)
Definition new_shape (bs T s : list nat) : list nat := bs ++ skipn (List.length T) s.
Definition new_container (bs T : list nat) (item : vtree) : vtree :=
  match item with
  | VL s => VL (new_shape bs T s)
  | VN ib ik => VN (new_shape bs T ib)
                   (map (fun p => (fst p, match snd p with
                                          | VL s => VL (new_shape bs T s)
                                          | VN cb _ => VN (new_shape bs T cb) []
                                          end)) ik)
  end.

(* ---- __setitem__ : the destination after the write, or Reject when anything on the way raises.
   [idx] is the index after __setitem__'s Ellipsis conversion; the SAME [idx] goes to every entry. *)
Fixpoint setitem (fuel : nat) (dest : vtree) (idx : list item) (v : wvalue) : res vtree :=
  match fuel with
  | 0 => Reject
  | S f =>
      match dest with
      | VL L =>                                              (* tensor[idx] = value : torch *)
          match v with
          | WScalar => if torch_index_ok L idx then Ok dest else Reject
          | WTensor s => if torch_write_ok L idx s then Ok dest else Reject
          | WTree _ | WDict _ => Reject
          end
      | VN bs kids =>
          match v with
          | WScalar | WTensor _ =>                           (* for key in self.keys(): self.set_at_(key, value, index) *)
              match (fix go (l : list (string * vtree)) : res (list (string * vtree)) :=
                       match l with
                       | [] => Ok []
                       | (k, c) :: r =>
                           match setitem f c idx v, go r with
                           | Ok c', Ok r' => Ok ((k, c') :: r')
                           | _, _ => Reject
                           end
                       end) kids with
              | Ok kids' => Ok (VN bs kids')
              | Reject => Reject
              end
          | WTree _ | WDict _ =>
              match gbs bs idx with
              | Reject => Reject
              | Ok T =>
                  let v0 := match v with
                            | WDict t => to_bs (S f) T (undict t)            (* from_dict_instance(batch_size=indexed_bs) *)
                            | WTree t => Ok t
                            | _ => Reject
                            end in
                  match v0 with
                  | Reject => Reject
                  | Ok (VL _) => Reject
                  | Ok (VN vb vk as t0) =>
                      let v1 := if shape_eqb vb T then Ok t0
                                else if is_suffix vb T then Ok (retarget (List.length vb) T t0)   (* value.expand(indexed_bs) *)
                                else to_bs (S f) T t0 in                                     (* copy; batch_size = indexed_bs *)
                      match v1 with
                      | Ok (VN _ items) =>
                          match fold_left
                                  (fun (acc : res (list (string * vtree))) (p : string * vtree) =>
                                     match acc with
                                     | Reject => Reject
                                     | Ok ks =>
                                         let '(k, item) := p in
                                         match find_key k ks with
                                         | Some d =>                                        (* self._set_at_str(key, item, index) *)
                                             match (match d, item with
                                                    | VL _, VL s => setitem f d idx (WTensor s)
                                                    | VL _, VN _ _ => Reject
                                                    | VN _ _, VL s => setitem f d idx (WTensor s)
                                                    | VN _ _, VN _ _ => setitem f d idx (WTree item)
                                                    end) with
                                             | Ok d' => Ok (replace_key k d' ks)
                                             | Reject => Reject
                                             end
                                         | None =>                                          (* subtd.set(key, item, inplace=True) *)
                                             let item' := match item with
                                                          | VL s => if negb (is_nil T) && negb (prefix_is T s) then Reject else Ok item
                                                          | VN ib _ => if negb (is_nil T) && negb (prefix_is T ib)
                                                                       then to_bs (S f) T item else Ok item
                                                          end in
                                             match item' with
                                             | Reject => Reject
                                             | Ok it =>
                                                 match setitem f (new_container bs T it) idx
                                                               (match it with VL s => WTensor s | VN _ _ => WTree it end) with
                                                 | Ok d' => Ok (ks ++ [(k, d')])
                                                 | Reject => Reject
                                                 end
                                             end
                                         end
                                     end) items (Ok kids) with
                          | Ok kids' => Ok (VN bs kids')
                          | Reject => Reject
                          end
                      | _ => Reject
                      end
                  end
              end
          end
      end
  end.

(* the batch size a tensordict value is brought to before its entries are written *)
Definition setitem_target (bs : list nat) (idx : list item) : res (list nat) := gbs bs idx.
