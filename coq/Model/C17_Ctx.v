(* C17 — the context-manager protocol with its real fields: `_last_op` (set by the `_as_context_manager` wrapper of the
   call that produced / toggled the object, utils.py), `_last_op_queue` (base.py::__enter__ / __exit__), the weak
   reference to the original (possibly dead), the lock flag toggled by lock_ / unlock_ (their wrapper records the call only
   if `is_locked` changed), and the exception path of __exit__ (state-restoring inverses lock_/unlock_/to_module run even
   when the body raised an Exception; a BaseException that is not an Exception takes the normal path).
   Definitions only. *)
From Coq Require Import List String Bool.
Import ListNotations.
From TD Require Import Model.C17_Inverse.

Inductive cop := OpLock | OpUnlock | OpToModule | OpShape (name : string).
(* (name, (args, kwargs, weakref)): the arguments are the business of Model/C17_Inverse.v::reverse *)
Record oprec := { o_op : cop; o_alive : bool }.
Record tdobj := { locked : bool; last_op : option oprec; queue : list (option oprec) }.

Definition rec_of (c : cop) : oprec := {| o_op := c; o_alive := true |}.

(* lock_() / unlock_() of a root tensordict through `_as_context_manager("is_locked")`:
   out._last_op = (name, ...) if the attribute changed, None otherwise *)
Definition call_lock (o : tdobj) : tdobj :=
  {| locked := true; last_op := if locked o then None else Some (rec_of OpLock); queue := queue o |}.
Definition call_unlock (o : tdobj) : tdobj :=
  {| locked := false; last_op := if locked o then Some (rec_of OpUnlock) else None; queue := queue o |}.
(* any other decorated call whose result IS this object (identity transpose / permute / view, squeeze of a non-singleton):
   `_last_op` is overwritten *)
Definition call_set (v : option oprec) (o : tdobj) : tdobj :=
  {| locked := locked o; last_op := v; queue := queue o |}.

Definition enter_ (o : tdobj) : tdobj :=
  {| locked := locked o; last_op := last_op o; queue := queue o ++ [last_op o] |}.

Inductive exc := ExcNone | ExcException | ExcBase.
Definition is_exception (e : exc) : bool := match e with ExcException => true | _ => false end.
Definition state_op (c : cop) : bool := match c with OpShape _ => false | _ => true end.

Inductive exit_res :=
| ExitOk (o : tdobj) (ran : option cop)   (* the inverse that ran, if any *)
| ExitRaise (o : tdobj)                   (* the inverse raised: the original is gone (out_wr() is None) *)
| ExitEmpty.                              (* pop from an empty deque *)

(* [revert_on_exc]: the repair D6/D53 (true = the working tree) *)
Definition exit_ (revert_on_exc : bool) (o : tdobj) (e : exc) : exit_res :=
  match rev (queue o) with
  | [] => ExitEmpty
  | x :: r =>
      let o' := {| locked := locked o; last_op := last_op o; queue := rev r |} in
      match x with
      | None => ExitOk o' None
      | Some rc =>
          if is_exception e && negb (revert_on_exc && state_op (o_op rc)) then ExitOk o' None
          else match o_op rc with
               | OpLock => ExitOk (call_unlock o') (Some OpLock)
               | OpUnlock => ExitOk (call_lock o') (Some OpUnlock)
               | OpToModule => ExitOk o' (Some OpToModule)
               | OpShape n => if o_alive rc then ExitOk o' (Some (OpShape n)) else ExitRaise o'
               end
      end
  end.

(* ---------------- programs of nested blocks on ONE tensordict ---------------- *)
Inductive prog :=
| PSkip
| PRaise (e : exc)
| PSeq (a b : prog)
| PLock (body : prog)      (* with td.lock_(): body *)
| PUnlock (body : prog)    (* with td.unlock_(): body *)
| PBare (body : prog).     (* with td: body   (re-entering the object as it is) *)

(* what is pending after an __exit__ that was handed exception e: on the Exception path __exit__ returns False and the
   exception goes on; on every other path it returns a tensordict (self, or the result of the inverse), and when an
   exception is pending python evaluates the truth of that return value: bool(tensordict) raises RuntimeError, which
   replaces a pending BaseException that is not an Exception (e.g. KeyboardInterrupt) *)
Definition after_exit (e : exc) : exc := match e with ExcBase => ExcException | _ => e end.

Fixpoint run (fx : bool) (p : prog) (o : tdobj) : option (tdobj * exc) :=
  match p with
  | PSkip => Some (o, ExcNone)
  | PRaise e => Some (o, e)
  | PSeq a b => match run fx a o with Some (o1, ExcNone) => run fx b o1 | r => r end
  | PLock body =>
      match run fx body (enter_ (call_lock o)) with
      | Some (o2, e) => match exit_ fx o2 e with ExitOk o3 _ => Some (o3, after_exit e) | _ => None end
      | None => None
      end
  | PUnlock body =>
      match run fx body (enter_ (call_unlock o)) with
      | Some (o2, e) => match exit_ fx o2 e with ExitOk o3 _ => Some (o3, after_exit e) | _ => None end
      | None => None
      end
  | PBare body =>
      match run fx body (enter_ o) with
      | Some (o2, e) => match exit_ fx o2 e with ExitOk o3 _ => Some (o3, after_exit e) | _ => None end
      | None => None
      end
  end.

(* ---------------- several objects: arbitrary nesting of blocks on yielded objects ---------------- *)
Inductive ev :=
| EEnter (i : nat)
| EExit (i : nat) (e : exc)
| ECall (i : nat) (v : option oprec).   (* a decorated call whose result is object i: sets its _last_op *)

Definition heap := list tdobj.
Definition dflt : tdobj := {| locked := false; last_op := None; queue := [] |}.

(* log of the entries popped by the exits, in order *)
Fixpoint run_ev (l : list ev) (h : heap) (log : list (nat * option oprec)) : option (heap * list (nat * option oprec)) :=
  match l with
  | [] => Some (h, log)
  | EEnter i :: r => run_ev r (set_nth h i (enter_ (nth i h dflt))) log
  | ECall i v :: r => run_ev r (set_nth h i (call_set v (nth i h dflt))) log
  | EExit i e :: r =>
      let o := nth i h dflt in
      match exit_ true o e with
      | ExitEmpty => None
      | ExitOk o' _ | ExitRaise o' => run_ev r (set_nth h i o') (log ++ [(i, last (queue o) None)])
      end
  end.

Inductive balanced : list ev -> Prop :=
| b_nil : balanced []
| b_call i v : balanced [ECall i v]
| b_block i e body : balanced body -> balanced (EEnter i :: body ++ [EExit i e])
| b_app a b : balanced a -> balanced b -> balanced (a ++ b).

Definition ev_obj (x : ev) : nat := match x with EEnter i | EExit i _ | ECall i _ => i end.
