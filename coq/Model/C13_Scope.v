(* C13 — decidable side conditions of the restore theorems (definitions only): evaluated by the proofs (reflection
   lemmas in Proofs/C13_SwapP.v) and, through the extracted driver, by the harness on every generated case, so that the
   evidence says how many cases lay inside the theorems' domain. *)
From Coq Require Import ZArith List String Bool.
Import ListNotations.
From TD Require Import Model.C13_Swap.
Open Scope string_scope.
Open Scope list_scope.

(* what the three dicts of a module hold under one name *)
Definition slot3_t : Type := option (option obj) * option (option obj) * option obj.
Definition slot3 (n : mnode) (k : string) : slot3_t := (d_get (m_params n) k, d_get (m_bufs n) k, d_get (m_attrs n) k).
Definition fst3 (s : slot3_t) := fst (fst s).
Definition snd3 (s : slot3_t) := snd (fst s).
Definition thd3 (s : slot3_t) := snd s.

Definition wf3b (s : slot3_t) : bool :=
  match s with
  | (Some (Some o), None, None) => is_param o
  | (Some None, None, None) => true
  | (None, Some (Some o), None) => true          (* _buffers may hold an nn.Parameter (inside a block, since D131's repair) *)
  | (None, Some None, None) => true
  | (None, None, Some o) => negb (is_param o)
  | (None, None, None) => true
  | _ => false
  end.
Definition wfcb (cu : bool) (s : slot3_t) : bool :=
  if cu then match thd3 s with None => true | Some _ => false end else wf3b s.
Definition node_keys (n : mnode) : list string := map fst (m_params n) ++ map fst (m_bufs n) ++ map fst (m_attrs n).
Definition wf_nodeb (n : mnode) : bool := forallb (fun k => wfcb (m_custom n) (slot3 n k)) (node_keys n).
Definition wf_heapb (h : heap) : bool := forallb (fun e => wf_nodeb (snd e)) h.

(* since the repair of D131 a regular module accepts any tensor under any of its names; only the None entries of a
   custom-__setattr__ module must not be addressed *)
Definition ok3b (cu : bool) (s : slot3_t) (x : obj) : bool :=
  if cu then negb (match fst3 s with Some None => true | _ => false end) && negb (match snd3 s with Some None => true | _ => false end)
  else true.

Fixpoint leaves (t : ptd) : list (string * obj) :=
  match t with PTD ents =>
    (fix go (l : list (string * pent)) : list (string * obj) :=
       match l with
       | [] => []
       | (k, PLeaf (Some x)) :: r => (k, x) :: go r
       | (k, PLeaf None) :: r => go r
       | (_, PSub t') :: r => leaves t' ++ go r
       end) ents
  end.
Definition leavesL := fix go (l : list (string * pent)) : list (string * obj) :=
  match l with
  | [] => []
  | (k, PLeaf (Some x)) :: r => (k, x) :: go r
  | (k, PLeaf None) :: r => go r
  | (_, PSub t') :: r => leaves t' ++ go r
  end.

Definition scopeb (h : heap) (t : ptd) : bool :=
  forallb (fun kx => forallb (fun e => ok3b (m_custom (snd e)) (slot3 (snd e) (fst kx)) (snd kx)) h) (leaves t).

Fixpoint nodupb (l : list string) : bool :=
  match l with [] => true | a :: r => negb (existsb (String.eqb a) r) && nodupb r end.

Fixpoint keys_nodupb (t : ptd) : bool :=
  match t with PTD ents =>
    nodupb (map fst ents) &&
    (fix go (l : list (string * pent)) : bool :=
       match l with
       | [] => true
       | (_, PLeaf _) :: r => go r
       | (_, PSub t') :: r => keys_nodupb t' && go r
       end) ents
  end.

Definition block_okb (h : heap) (b : block) : bool :=
  negb (b_usd b) && (match b_inplace b with None | Some false => true | Some true => false end)
  && negb (b_manual b) && keys_nodupb (b_params b) && scopeb h (b_params b).

(* names of one module are pairwise different across _parameters, _buffers and _modules *)
Definition names_okb (h : heap) : bool :=
  forallb (fun e => nodupb (map fst (m_params (snd e)) ++ map fst (m_bufs (snd e)) ++ map fst (m_subs (snd e)))) h.

(* the domain of the program theorems, for one decoded case *)
Definition program_in_scope (h : heap) (bs : list block) : bool := wf_heapb h && forallb (block_okb h) bs.

(* ------------------------------------------------------------------ the domain of the in-place theorems *)
(* the tensor objects held by the modules *)
Definition opt_objs (d : list (string * option obj)) : list obj :=
  flat_map (fun e => match snd e with Some o => [o] | None => [] end) d.
Definition node_objs (n : mnode) : list obj := opt_objs (m_params n) ++ opt_objs (m_bufs n) ++ map snd (m_attrs n).
Definition heap_objs (h : heap) : list obj := flat_map (fun e => node_objs (snd e)) h.

(* no two distinct tensor objects of the module tree share an identity or a storage (the complement is D137), every one
   has a content, the allocator's next storage lies above everything in use *)
Definition tidyb (st : tstate) : bool :=
  let os := heap_objs (t_heap st) in
  forallb (fun a => forallb (fun b => implb ((oid a =? oid b)%Z || (ostor a =? ostor b)%Z) (obj_eqb a b)) os) os
  && forallb (fun o => (ostor o <? t_next st)%Z && match val_of st o with Some _ => true | None => false end) os
  && forallb (fun e => (fst e <? t_next st)%Z) (t_vals st).

Definition inplace_okb (b : block) : bool :=
  negb (b_usd b) && (match b_inplace b with Some true => true | _ => false end) && negb (b_manual b).
Definition block_ok2b (h : heap) (b : block) : bool := block_okb h b || inplace_okb b.

(* a non-empty program of in-place with-blocks (any nesting, any targets) on a tidy state: the domain of
   C13_restore_inplace_programs; with one block, of C13_inplace_contents_partial *)
Definition inplace_block_domainb (st : tstate) (bs : list block) : bool :=
  match bs with
  | [] => false
  | _ => forallb (fun b => inplace_okb b && negb (b_swap_dest b)) bs && tidyb st && wf_heapb (t_heap st)
  end.
