(* C14 — dataflow of TensorDictModule / TensorDictSequential.  DEFINITIONS ONLY.
   Transcribes tensordict/nn/common.py (TensorDictModule.forward, _write_to_tensordict, _OutKeysSelect, dispatch) and
   tensordict/nn/sequence.py (_compute_in_and_out_keys, select_subsequence, _run_module, forward), plus how forward copies
   its out_keys into the destination (select + update; behind [fixed_D143] the former update(keys_to_update=...)).

   Values are terms of a free algebra: "the same value" means "the same for every module function".
   A tensordict is its map leaf-key -> value (keys are tuples; depth <= 2 and prefix-free is the modelled domain of
   [upd_ktu]).  Object identity is equality of bindings: in one call every leaf function is applied at most once and the
   modelled code never clones, so two entries hold the identical object iff they hold the same term (checked against
   id() on every case by the harness). *)
From Coq Require Import List String Bool Arith.
Import ListNotations.
Open Scope list_scope.

Definition key := list string.

Fixpoint key_eqb (a b : key) : bool :=
  match a, b with
  | [], [] => true
  | x :: a', y :: b' => String.eqb x y && key_eqb a' b'
  | _, _ => false
  end.

Definition memk (k : key) (l : list key) : bool := existsb (key_eqb k) l.
Definition subk (a b : list key) : bool := forallb (fun k => memk k b) a.
Definition sink : key := ["_"%string].
Definition is_sink (k : key) : bool := key_eqb k sink.

Inductive term := In (k : key) | App (m o : nat) (args : list term).

Definition td := list (key * term).

Fixpoint get (k : key) (t : td) : option term :=
  match t with
  | [] => None
  | (k', v) :: r => if key_eqb k k' then Some v else get k r
  end.

Fixpoint set (k : key) (v : term) (t : td) : td :=
  match t with
  | [] => [(k, v)]
  | (k', v') :: r => if key_eqb k k' then (k, v) :: r else (k', v') :: set k v r
  end.

Definition keys (t : td) : list key := map fst t.
Definition has (k : key) (t : td) : bool := match get k t with Some _ => true | None => false end.
Definition select (ks : list key) (t : td) : td := filter (fun kv => memk (fst kv) ks) t.

Definition hdk (k : key) : string := match k with [] => EmptyString | f :: _ => f end.
Definition nested (k : key) : bool := Nat.ltb 1 (List.length k).
Definition has_node (f : string) (t : td) : bool :=
  existsb (fun kv => String.eqb (hdk (fst kv)) f && nested (fst kv)) t.

(* How forward copies the advertised out_keys from the executing tensordict into the destination.
   [fx = true] (the library today, D143 repaired in the modules): dst.update(src.select( *ktu, strict=False )) -- exactly
   the entries named by ktu (keys of the modelled domain are leaf keys, prefix-free).
   [fx = false] (before the repair): `dst.update(src, keys_to_update=ktu)`; base.py:update filters on the FIRST component
   of a key only; below an existing nested node the pruned keys filter exactly; a nested node the destination does not
   have yet is set as a whole, sibling leaves included (base.py itself still behaves so: test_update_select pins it). *)
Definition upd_cond_gen (fx : bool) (dst : td) (ktu : list key) (k : key) : bool :=
  if fx then memk k ktu
  else existsb (fun k' => String.eqb (hdk k') (hdk k)) ktu
       && (negb (nested k) || negb (has_node (hdk k) dst) || memk k ktu).

Definition upd_ktu_gen (fx : bool) (dst src : td) (ktu : list key) : td :=
  fold_left (fun acc k => match get k src with
                          | Some v => if upd_cond_gen fx dst ktu k then set k v acc else acc
                          | None => acc
                          end) (keys src) dst.

(* the switch: [true] = /repo with the repair of D143; [false] = the witness of the defect *)
Definition fixed_D143 : bool := true.
Notation upd_cond := (upd_cond_gen fixed_D143).
Notation upd_ktu := (upd_ktu_gen fixed_D143).

(* ------------------------------------------------------------------ modules *)
Inductive inplace := ITrue | IFalse | IEmpty.

Record leaf := { mid : nat; ins : list key; outs : list key; lsel : option (list key); linpl : inplace }.
Record scfg := { sinpl : option inplace; ssel : option (list key); spt : bool; sdict : bool }.
Inductive node := Leaf (l : leaf) | Seq (c : scfg) (ms : list node).

Definition default_cfg (d : bool) : scfg := {| sinpl := None; ssel := None; spt := false; sdict := d |}.
Definition is_seq (n : node) : bool := match n with Seq _ _ => true | Leaf _ => false end.

(* sequence.py:_compute_in_and_out_keys *)
Fixpoint dedup_last (l : list key) : list key :=
  match l with
  | [] => []
  | k :: r => if memk k r then dedup_last r else k :: dedup_last r
  end.

Definition add_ins (ok : list key) (ik mi : list key) : list key :=
  fold_left (fun ik k => if memk k (ok ++ ik) then ik else ik ++ [k]) mi ik.

Definition step_io (acc : list key * list key) (m : list key * list key) : list key * list key :=
  (add_ins (snd acc) (fst acc) (fst m), snd acc ++ snd m).

Definition leaf_out (l : leaf) : list key := match lsel l with Some s => s | None => outs l end.

Fixpoint io (n : node) : list key * list key :=
  match n with
  | Leaf l => (ins l, leaf_out l)
  | Seq c ms =>
      let r := fold_left (fun acc m => step_io acc (io m)) ms ([], []) in
      (fst r, match ssel c with Some s => s | None => dedup_last (snd r) end)
  end.

Definition in_keys (n : node) := fst (io n).
Definition out_keys (n : node) := snd (io n).

(* complete out_keys of a sequence (before any selection) *)
Definition all_out_keys (ms : list node) : list key :=
  dedup_last (snd (fold_left (fun acc m => step_io acc (io m)) ms ([], []))).

(* construction: select_out_keys rejects keys that are not out_keys *)
Fixpoint buildable (n : node) : bool :=
  match n with
  | Leaf l => match lsel l with Some s => subk s (outs l) | None => true end
  | Seq c ms => forallb buildable ms
                && match ssel c with Some s => subk s (all_out_keys ms) | None => true end
  end.

(* ------------------------------------------------------------------ forward *)
Inductive ret := RIn | ROut | RFresh (r : td).
Inductive outcome := Done (x : td) (o : option td) (r : ret) | Raised (x : td) (o : option td).

Fixpoint read_all (ks : list key) (x : td) : option (list term) :=
  match ks with
  | [] => Some []
  | k :: r => match get k x, read_all r x with
              | Some v, Some l => Some (v :: l)
              | _, _ => None
              end
  end.

Definition leaf_vals (l : leaf) (args : list term) : list (key * term) :=
  combine (outs l) (map (fun j => App (mid l) j args) (seq 0 (List.length (outs l)))).

(* _write_to_tensordict: every ORIGINAL out key except "_" *)
Definition write_all (kvs : list (key * term)) (d : td) : td :=
  fold_left (fun d kv => if is_sink (fst kv) then d else set (fst kv) (snd kv) d) kvs d.

(* _write_to_tensordict writes the outputs select_out_keys retained (`_out_key in self.out_keys`); for a TensorDictModule
   the _OutKeysSelect hook then leaves the tensordict alone (fix of D9 / D141) *)
Definition sel_vals (l : leaf) (kvs : list (key * term)) : list (key * term) :=
  match lsel l with None => kvs | Some s => filter (fun kv => memk (fst kv) s) kvs end.

Definition fwd_leaf (l : leaf) (x : td) (o : option td) : outcome :=
  match read_all (ins l) x with
  | None => Raised x o
  | Some args =>
      let w := fun d => write_all (sel_vals l (leaf_vals l args)) d in
      match o with
      | Some ot => Done x (Some (w ot)) ROut
      | None => match linpl l with
                | ITrue => Done (w x) None RIn
                | _ => Done x None (RFresh (w []))
                end
      end
  end.

Definition inp_of (cur : td) (sh : option td) : td := match sh with Some s => s | None => cur end.
Definition is_some {A} (o : option A) : bool := match o with Some _ => true | None => false end.

(* state of a running sequence: [cur] the executing tensordict; [sh] = None when it IS the caller's object,
   Some s when the caller's object is a different one (content s).  sequence.py:_run_module + the loop of forward. *)
Section Run.
  Variable F : node -> td -> option td -> outcome.
  Variable pt : bool.
  Fixpoint run_gen (ms : list node) (cur : td) (sh : option td) {struct ms} : (td * option td) + (td * option td) :=
    match ms with
    | [] => inl (cur, sh)
    | m :: r =>
        if negb pt || subk (fst (io m)) (keys cur) then
          match F m cur None with
          | Done cur' _ (RFresh f) => run_gen r f (match sh with None => Some cur' | s => s end)
          | Done cur' _ _ => run_gen r cur' sh
          | Raised cur' _ => inr (cur', sh)
          end
        else run_gen r cur sh
    end.
End Run.

(* what forward does once the modules have run *)
Definition finish_gen (fx : bool) (c : scfg) (okeys : list key) (o : option td) (st : (td * option td) + (td * option td)) : outcome :=
  match st with
  | inr (cur, sh) => Raised (inp_of cur sh) o
  | inl (cur, sh) =>
      let xin := inp_of cur sh in
      match o with
      | Some ot => Done xin (Some (upd_ktu_gen fx ot cur okeys)) ROut
      | None =>
          match sinpl c with
          | Some ITrue => match sh with
                          | None => Done cur None RIn                       (* update(self): no-op *)
                          | Some s => Done (upd_ktu_gen fx s cur okeys) None RIn
                          end
          | Some _ => Done xin None (RFresh (upd_ktu_gen fx [] cur okeys))
          | None =>
              if is_some (ssel c)
              then Done (upd_ktu_gen fx xin cur (okeys ++ keys xin)) None RIn
              else match sh with
                   | None => Done cur None RIn
                   | Some s => Done s None (RFresh cur)
                   end
          end
      end
  end.

Definition seq_okeys (c : scfg) (ms : list node) : list key :=
  match ssel c with Some s => s | None => all_out_keys ms end.
Definition seq_copied (c : scfg) (o : option td) : bool :=
  match o with Some _ => true | None => is_some (ssel c) end.

Fixpoint fwd_gen (fx : bool) (n : node) (x : td) (o : option td) {struct n} : outcome :=
  match n with
  | Leaf l => fwd_leaf l x o
  | Seq c ms =>
      finish_gen fx c (seq_okeys c ms) o (run_gen (fwd_gen fx) (spt c) ms x (if seq_copied c o then Some x else None))
  end.

Notation finish := (finish_gen fixed_D143).
Notation fwd := (fwd_gen fixed_D143).

Definition result_td (oc : outcome) : option td :=
  match oc with
  | Done x _ RIn => Some x
  | Done _ (Some o) ROut => Some o
  | Done _ None ROut => None
  | Done _ _ (RFresh r) => Some r
  | Raised _ _ => None
  end.

(* the `dispatch` decorator: keyword / positional tensors -> tensordict of the in_keys provided -> forward ->
   tuple(out[key] for key in out_keys if key != "_") *)
Definition dispatch_call (n : node) (provided : list key) : option (list term) :=
  let x := map (fun k => (k, In k)) (filter (fun k => memk k provided) (dedup_last (in_keys n))) in
  match result_td (fwd n x None) with
  | Some out => read_all (filter (fun k => negb (is_sink k)) (out_keys n)) out
  | None => None
  end.

(* ------------------------------------------------------------------ select_subsequence *)
Inductive sres := SOk (n : node) | SReject | SFuel.

Section Passes.
  Variable rec : node -> option (list key) -> option (list key) -> sres.
  (* forward pass: keep what can run from the available keys *)
  Fixpoint fpass (ms : list node) (avail : list key) : option (list node) :=
    match ms with
    | [] => Some []
    | m :: r =>
        let keep m' := if subk (in_keys m') avail
                       then option_map (cons m') (fpass r (avail ++ out_keys m'))
                       else fpass r avail in
        match m with
        | Leaf _ => keep m
        | Seq _ _ => match rec m (Some avail) None with
                     | SOk m' => keep m'
                     | SReject => fpass r avail           (* except ValueError: the module is removed *)
                     | SFuel => None
                     end
        end
    end.
  (* backward pass (from the last module): keep what conditions the needed keys.
     None = out of fuel; Some None = ValueError from a nested call (propagates) *)
  Fixpoint bpass (ms : list node) (need : list key) : option (option (list node * list key)) :=
    match ms with
    | [] => Some (Some ([], need))
    | m :: r =>
        match bpass r need with
        | Some (Some (kr, nr)) =>
            if existsb (fun k => memk k nr) (out_keys m) then
              match m with
              | Leaf _ => Some (Some (m :: kr, nr ++ in_keys m))
              | Seq _ _ => match rec m None (Some nr) with
                           | SOk m' => Some (Some (m' :: kr, nr ++ in_keys m'))
                           | SReject => Some None
                           | SFuel => None
                           end
              end
            else Some (Some (kr, nr))
        | other => other
        end
    end.
End Passes.

Fixpoint select_sub (fuel : nat) (n : node) (I S : option (list key)) {struct fuel} : sres :=
  match fuel with
  | 0 => SFuel
  | Datatypes.S f =>
      match n with
      | Leaf _ => SOk n
      | Seq c ms =>
          let avail0 := match I with Some i => i | None => in_keys n end in
          let need0 := match S with Some s => s | None => out_keys n end in
          match fpass (select_sub f) ms avail0 with
          | None => SFuel
          | Some k1 =>
              match bpass (select_sub f) k1 need0 with
              | None => SFuel
              | Some None => SReject
              | Some (Some (k2, _)) =>
                  match k2 with
                  | [] => SReject                                            (* "No modules left after selection" *)
                  | _ => SOk (Seq (default_cfg (sdict c)) k2)   (* ModuleDict: names kept by position (fix of D144) *)
                  end
              end
          end
      end
  end.

Fixpoint depth (n : node) : nat :=
  match n with
  | Leaf _ => 1
  | Seq _ ms => Datatypes.S (fold_right (fun m d => Nat.max (depth m) d) 0 ms)
  end.

Fixpoint leaves (n : node) : list leaf :=
  match n with
  | Leaf l => [l]
  | Seq _ ms => flat_map leaves ms
  end.
