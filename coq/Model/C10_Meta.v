(* C10 — the on-disk format of a memory-mapped tensordict as a codec.  Definitions only.

   Sources (tensordict 0.7.0 working tree):
     tensordict/_td.py      TensorDict._memmap_ (walk), _populate_memmap, _update_metadata, _save_metadata,
                            TensorDict._load_memmap, _make_memmap_subtd, make_memmap / make_memmap_from_tensor / _from_storage
     tensordict/base.py     memmap_ / memmap / memmap_like front-ends, load_memmap (dispatch on "_type"), _load_metadata
     tensordict/_lazy.py    LazyStackedTensorDict._memmap_ / _load_memmap  ({"_type", "stack_dim"}; members in "0", "1", ...)
     tensordict/tensorclass.py  _memmap_ / _load_memmap of tensorclasses ("_tensordict" sub-directory), NonTensorData
                            ("data" in meta.json or in other.pickle), NonTensorStack ("data" = tolist(), _from_list)
     tensordict/utils.py    _is_json_serializable, _STRDTYPE2DTYPE
     tensordict/memmap.py   MemoryMappedTensor.from_tensor (refusal of a tensor that has a file elsewhere; no file for 0 elements)

   A directory is  Dir files subs : files are keyed by a typed name (FLeaf k = "<k>.memmap", FMeta = "meta.json",
   FOther = "other.pickle", FPkl = "pickle.pkl"), sub-directories by their name (entry keys, "_tensordict", "0" "1" ...).
   A "<k>.memmap" file is the list of its cells together with the dtype they were written with; reading it back with
   another dtype or another element count is a reinterpretation of bytes, which this model does not follow (EReinterpret).

   This is the model of /repo WITH the C10 repairs (fixes/C10/*.diff; the earlier behaviour is in the history of this file
   and in fixes/C10/fixed.json):
     D101  a leaf with 0 elements still gets no file (torch.from_file creates none) but the loader builds it from its
           metadata record instead of skipping it;
     D102  an entry named "shape" / "device" / "_type" is refused at save time (ValueError) instead of being silently
           overwritten by _save_metadata;
     D103/D104  tuples and sets are no longer declared JSON-serialisable: payloads containing them go through pickle;
     D105  NonTensorStack writes "ndim" (how many levels of "data" are stack dimensions) when an item is itself a list —
           the only case where the nesting of "data" is ambiguous; the text of meta.json is unchanged otherwise — and
           _from_list stops there;
     D106  NonTensorData writes its "batch_size";
     D107  the dtype string table holds every dtype of torch;
     D108  a lazy stack writes "num_tensordicts" and the loader takes exactly that many members;
     D109  a NonTensorData save whose payload needs no pickle removes an other.pickle left by an earlier save. *)
From Coq Require Import ZArith List String Bool Ascii Decimal DecimalString.
Import ListNotations.
Open Scope string_scope.
Open Scope list_scope.

(* ------------------------------------------------------------------ errors *)
Inductive err := ETypeError | ERuntime | EKeyError | EFileNotFound | EValueError | EReinterpret | EOther
               | EIsADirectory | EPermission.      (* open(..., "wb") on a directory / in a read-only directory *)
Inductive res (A : Type) := Ok (a : A) | Raised (e : err).
Arguments Ok {A} a.
Arguments Raised {A} e.

Definition bind {A B} (r : res A) (f : A -> res B) : res B := match r with Ok a => f a | Raised e => Raised e end.

(* ------------------------------------------------------------------ dtypes: str(dtype) and utils._STRDTYPE2DTYPE *)
Inductive dtype := BF16 | BOOL | C128 | C32 | C64 | F16 | F32 | F64 | I16 | I32 | I64 | I8 | U8 | U16 | U32 | U64
                 | F8E4M3 | F8E5M2.   (* two of the dtypes _TORCH_DTYPES gets from `vars(torch)` (not listed by name there) *)

Definition dtype_str (d : dtype) : string :=
  match d with
  | BF16 => "torch.bfloat16" | BOOL => "torch.bool" | C128 => "torch.complex128" | C32 => "torch.complex32"
  | C64 => "torch.complex64" | F16 => "torch.float16" | F32 => "torch.float32" | F64 => "torch.float64"
  | I16 => "torch.int16" | I32 => "torch.int32" | I64 => "torch.int64" | I8 => "torch.int8" | U8 => "torch.uint8"
  | U16 => "torch.uint16" | U32 => "torch.uint32" | U64 => "torch.uint64"
  | F8E4M3 => "torch.float8_e4m3fn" | F8E5M2 => "torch.float8_e5m2"
  end.

Definition torch_dtypes : list dtype := [BF16; BOOL; C128; C32; C64; F16; F32; F64; I16; I32; I64; I8; U8; U16; U32; U64; F8E4M3; F8E5M2].
Definition strdtype2dtype : list (string * dtype) := map (fun d => (dtype_str d, d)) torch_dtypes.

Fixpoint sget {A} (k : string) (l : list (string * A)) : option A :=
  match l with [] => None | (k', v) :: r => if String.eqb k k' then Some v else sget k r end.

Definition str_dtype (s : string) : option dtype := sget s strdtype2dtype.

Definition dtype_eqb (a b : dtype) : bool := String.eqb (dtype_str a) (dtype_str b).

(* ------------------------------------------------------------------ non-tensor payloads and JSON *)
Inductive payload :=
| PStr (s : string) | PInt (z : Z) | PBool (b : bool) | PNone
| PList (l : list payload) | PTuple (l : list payload) | PSet (l : list payload)
| PDict (l : list (string * payload))
| PObj (n : nat).                    (* any object json cannot express (goes through pickle) *)

Inductive json :=
| JNull | JBool (b : bool) | JInt (z : Z) | JStr (s : string) | JArr (l : list json) | JObj (l : list (string * json)).

(* utils._is_json_serializable *)
Fixpoint is_json_serializable (p : payload) : bool :=
  match p with
  | PStr _ | PInt _ | PBool _ | PNone => true
  | PList l => (fix all (l : list payload) : bool := match l with [] => true | x :: r => is_json_serializable x && all r end) l
  | PTuple _ | PSet _ => false
  | PDict l => (fix all (l : list (string * payload)) : bool := match l with [] => true | (_, x) :: r => is_json_serializable x && all r end) l
  | PObj _ => false
  end.

(* orjson.dumps: tuples are arrays; sets and arbitrary objects are refused (TypeError) *)
Fixpoint json_of (p : payload) : option json :=
  match p with
  | PStr s => Some (JStr s) | PInt z => Some (JInt z) | PBool b => Some (JBool b) | PNone => Some JNull
  | PList l | PTuple l =>
      option_map JArr ((fix go (l : list payload) : option (list json) :=
        match l with [] => Some [] | x :: r => match json_of x, go r with Some a, Some b => Some (a :: b) | _, _ => None end end) l)
  | PSet _ => None
  | PDict l =>
      option_map JObj ((fix go (l : list (string * payload)) : option (list (string * json)) :=
        match l with [] => Some [] | (k, x) :: r => match json_of x, go r with Some a, Some b => Some ((k, a) :: b) | _, _ => None end end) l)
  | PObj _ => None
  end.

(* orjson.loads *)
Fixpoint payload_of_json (j : json) : payload :=
  match j with
  | JNull => PNone | JBool b => PBool b | JInt z => PInt z | JStr s => PStr s
  | JArr l => PList ((fix go (l : list json) : list payload := match l with [] => [] | x :: r => payload_of_json x :: go r end) l)
  | JObj l => PDict ((fix go (l : list (string * json)) : list (string * payload) :=
                        match l with [] => [] | (k, x) :: r => (k, payload_of_json x) :: go r end) l)
  end.

(* payloads that JSON gives back unchanged *)
Fixpoint plainb (p : payload) : bool :=
  match p with
  | PStr _ | PInt _ | PBool _ | PNone => true
  | PList l => (fix all (l : list payload) : bool := match l with [] => true | x :: r => plainb x && all r end) l
  | PDict l => (fix all (l : list (string * payload)) : bool := match l with [] => true | (_, x) :: r => plainb x && all r end) l
  | PTuple _ | PSet _ | PObj _ => false
  end.

(* python dict primitives on association lists in insertion order *)
Fixpoint jset {A} (k : string) (v : A) (l : list (string * A)) : list (string * A) :=
  match l with
  | [] => [(k, v)]
  | (k', v') :: r => if String.eqb k k' then (k', v) :: r else (k', v') :: jset k v r
  end.
Fixpoint jdel {A} (k : string) (l : list (string * A)) : list (string * A) :=
  match l with [] => [] | (k', v') :: r => if String.eqb k k' then r else (k', v') :: jdel k r end.
Definition smem {A} (k : string) (l : list (string * A)) : bool := match sget k l with Some _ => true | None => false end.

(* ------------------------------------------------------------------ tensordict trees *)
Inductive source := InMem | MMNoFile | MMElsewhere.     (* where the tensor lives before the save *)
Record leaf := { lshape : list nat; ldtype : dtype; lcells : list Z; lsrc : source }.

Inductive td :=
| Leaf (l : leaf)                                  (* only as an entry of a Node *)
| Node (bs : list nat) (ents : list (string * td)) (* TensorDict: batch size, _tensordict in insertion order *)
| Lazy (sd : nat) (ms : list td)                   (* LazyStackedTensorDict *)
| TCls (cls : string) (nt : list (string * payload)) (inner : td)
                                                   (* a tensorclass instance: class name, its _non_tensordict (the Optional
                                                      fields left None; any payload in general), its _tensordict *)
| NData (bs : list nat) (p : payload)              (* NonTensorData *)
| NStack (items : list td).                        (* NonTensorStack (stack_dim 0) of NonTensorData / NonTensorStack *)

Fixpoint shape_eqb (a b : list nat) : bool :=
  match a, b with [], [] => true | x :: r, y :: s => Nat.eqb x y && shape_eqb r s | _, _ => false end.
Definition is_leaf (t : td) : bool := match t with Leaf _ => true | _ => false end.
Definition numel (s : list nat) : nat := fold_right Nat.mul 1 s.

(* type(value).__name__ *)
Definition cls_name (t : td) : string :=
  match t with
  | Leaf _ => "Tensor" | Node _ _ => "TensorDict" | Lazy _ _ => "LazyStackedTensorDict" | TCls c _ _ => c
  | NData _ _ => "NonTensorData" | NStack _ => "NonTensorStack"
  end.

(* ------------------------------------------------------------------ directories *)
Inductive fname := FLeaf (k : string) | FMeta | FOther | FPkl.
Inductive content :=
| CJson (j : json)
| CCells (d : dtype) (c : list Z)
| CPickle (p : payload).
Inductive dir := Dir (files : list (fname * content)) (subs : list (string * dir)).

Definition fname_eqb (a b : fname) : bool :=
  match a, b with
  | FLeaf x, FLeaf y => String.eqb x y
  | FMeta, FMeta | FOther, FOther | FPkl, FPkl => true
  | _, _ => false
  end.
Fixpoint fget (k : fname) (l : list (fname * content)) : option content :=
  match l with [] => None | (k', v) :: r => if fname_eqb k k' then Some v else fget k r end.
(* open(..., "wb") / torch.from_file on a path: replace the file if it exists, else create it *)
Fixpoint fset (k : fname) (v : content) (l : list (fname * content)) : list (fname * content) :=
  match l with
  | [] => [(k, v)]
  | (k', v') :: r => if fname_eqb k k' then (k', v) :: r else (k', v') :: fset k v r
  end.

(* os.remove *)
Fixpoint fdel (k : fname) (l : list (fname * content)) : list (fname * content) :=
  match l with [] => [] | (k', v') :: r => if fname_eqb k k' then r else (k', v') :: fdel k r end.

Definition render (f : fname) : string :=
  match f with FLeaf k => k ++ ".memmap" | FMeta => "meta.json" | FOther => "other.pickle" | FPkl => "pickle.pkl" end.

Definition string_of_nat (n : nat) : string := NilEmpty.string_of_uint (Nat.to_uint n).   (* str(i) *)

Definition empty_dir : dir := Dir [] [].
Definition dir_files (d : dir) := match d with Dir f _ => f end.
Definition dir_subs (d : dir) := match d with Dir _ s => s end.

(* ------------------------------------------------------------------ saving: _memmap_ run sequentially over an existing directory *)
Definition jnat (n : nat) : json := JInt (Z.of_nat n).
Definition jshape (s : list nat) : json := JArr (map jnat s).

(* _update_metadata(is_collection=False) *)
Definition leaf_record (l : leaf) : json :=
  JObj [("device", JStr "cpu"); ("shape", jshape (lshape l)); ("dtype", JStr (dtype_str (ldtype l))); ("is_nested", JBool false)].
(* _update_metadata(is_collection=True) *)
Definition coll_record (t : td) : json := JObj [("type", JStr (cls_name t))].
Definition entry_record (t : td) : json := match t with Leaf l => leaf_record l | _ => coll_record t end.

(* _save_metadata: metadata.update({"shape", "device", "_type"}) on the dict filled during the walk *)
Definition node_meta (bs : list nat) (ents : list (string * td)) : list (string * json) :=
  let m := fold_left (fun m kv => jset (fst kv) (entry_record (snd kv)) m) ents [] in
  jset "_type" (JStr "TensorDict") (jset "device" (JStr "cpu") (jset "shape" (jshape bs) m)).

(* NonTensorData.tolist / NonTensorStack.tolist *)
Fixpoint nest (bs : list nat) (p : payload) : payload :=
  match bs with [] => p | n :: r => PList (repeat (nest r p) n) end.
Fixpoint tolist (t : td) : payload :=
  match t with
  | NData bs p => nest bs p
  | NStack items => PList ((fix go (l : list td) : list payload := match l with [] => [] | x :: r => tolist x :: go r end) items)
  | _ => PNone
  end.

(* batch size of a NonTensorStack / NonTensorData *)
Fixpoint stack_bs (t : td) : list nat :=
  match t with
  | NData bs _ => bs
  | NStack items => List.length items :: match items with x :: _ => stack_bs x | [] => [] end
  | _ => []
  end.

(* an item (below the stack dimensions) is itself a list: tolist() alone does not tell where the stack dimensions end *)
Definition is_plist (p : payload) : bool := match p with PList _ => true | _ => false end.
Fixpoint has_list_leaf (t : td) : bool :=
  match t with
  | NData bs p => match bs with [] => is_plist p | _ => false end
  | NStack items => (fix any (l : list td) : bool := match l with [] => false | x :: r => has_list_leaf x || any r end) items
  | _ => false
  end.
Definition stack_ndim (t : td) : option nat := if has_list_leaf t then Some (List.length (stack_bs t)) else None.

Record opts := { copy_existing : bool; like : bool }.

(* MemoryMappedTensor.from_tensor into "<key>.memmap" (memmap.py:167-275) *)
(* memmap_like first replaces every tensor by a fresh expanded empty one: nothing is "already on disk" then *)
Definition refused (o : opts) (l : leaf) : bool :=
  match lsrc l with MMElsewhere => negb (copy_existing o) && negb (like o) | _ => false end.
Definition populate (o : opts) (k : string) (l : leaf) (files : list (fname * content)) : res (list (fname * content)) :=
  if refused o l then Raised ERuntime
  else if Nat.eqb (numel (lshape l)) 0 then Ok files      (* torch.from_file(size=0): no file *)
  else Ok (fset (FLeaf k) (CCells (ldtype l) (if like o then repeat 0%Z (numel (lshape l)) else lcells l)) files).

Definition sub_dir (k : string) (subs : list (string * dir)) : dir := match sget k subs with Some d => d | None => empty_dir end.

(* the metadata files of the non-tensor classes *)
Definition ndata_files (bs : list nat) (p : payload) (files : list (fname * content)) : res (list (fname * content)) :=
  if is_json_serializable p then
    match json_of p with
    | Some j => Ok (fdel FOther      (* nothing to pickle: an other.pickle left by an earlier save is removed *)
                      (fset FMeta (CJson (JObj [("_type", JStr "NonTensorData"); ("batch_size", jshape bs); ("data", j); ("_metadata", JNull)])) files))
    | None => Raised ETypeError
    end
  else Ok (fset FOther (CPickle (PDict [("data", p)]))
             (fset FMeta (CJson (JObj [("_type", JStr "NonTensorData"); ("batch_size", jshape bs); ("_metadata", JNull)])) files)).

Definition nstack_files (ndim : option nat) (data : payload) (files : list (fname * content)) : res (list (fname * content)) :=
  let head := [("_type", JStr "NonTensorStack"); ("stack_dim", JInt 0); ("device", JNull)]
              ++ match ndim with Some n => [("ndim", jnat n)] | None => [] end in
  if is_json_serializable data then
    match json_of data with
    | Some j => Ok (fset FMeta (CJson (JObj (head ++ [("data", j)]))) files)
    | None => Raised ETypeError
    end
  else Ok (fset FMeta (CJson (JObj (head ++ [("data", JStr "pickle.pkl")]))) (fset FPkl (CPickle data) files)).

(* the metadata file of a tensorclass instance (tensorclass.py _memmap_.save_metadata, cls not NonTensorData):
     metadata = {"_type": str(cls)}; for key, value in _non_tensordict.items(): json-serialisable -> metadata[key], else
     -> to_pickle[key]; meta.json written; other.pickle written when to_pickle is not empty, REMOVED otherwise *)
Definition ser_fields (nt : list (string * payload)) : list (string * payload) :=
  filter (fun kv => is_json_serializable (snd kv)) nt.
Definition pkl_fields (nt : list (string * payload)) : list (string * payload) :=
  filter (fun kv => negb (is_json_serializable (snd kv))) nt.
Fixpoint json_fields (l : list (string * payload)) : option (list (string * json)) :=
  match l with
  | [] => Some []
  | (k, x) :: r => match json_of x, json_fields r with Some a, Some b => Some ((k, a) :: b) | _, _ => None end
  end.
Definition tc_meta (c : string) (jl : list (string * json)) : list (string * json) :=
  fold_left (fun m kv => jset (fst kv) (snd kv) m) jl [("_type", JStr c)].
Definition tc_files (c : string) (nt : list (string * payload)) (files : list (fname * content)) : res (list (fname * content)) :=
  match json_fields (ser_fields nt) with
  | None => Raised ETypeError
  | Some jl =>
      let files1 := fset FMeta (CJson (JObj (tc_meta c jl))) files in
      Ok (match pkl_fields nt with [] => fdel FOther files1 | pk => fset FOther (CPickle (PDict pk)) files1 end)
  end.
Definition tc_removes (nt : list (string * payload)) : list fname := match pkl_fields nt with [] => [FOther] | _ => [] end.

Definition reserved (k : string) : bool := String.eqb k "shape" || String.eqb k "device" || String.eqb k "_type".
Definition lazy_meta (sd n : nat) : list (string * json) :=
  [("_type", JStr "LazyStackedTensorDict"); ("stack_dim", jnat sd); ("num_tensordicts", jnat n)].

(* save_over o t d : the directory after t._memmap_(prefix=d) has run with executor=None.
   Entries are visited in insertion order; a leaf writes its file, a collection recurses into its sub-directory
   (created if missing); the node's meta.json is written last.  Files and directories that were there stay. *)
Fixpoint save_over (o : opts) (t : td) (d : dir) {struct t} : res dir :=
  match d with Dir files subs =>
  match t with
  | Leaf _ => Raised EOther
  | Node bs ents =>
      bind ((fix go (es : list (string * td)) (files : list (fname * content)) (subs : list (string * dir))
               : res (list (fname * content) * list (string * dir)) :=
               match es with
               | [] => Ok (files, subs)
               | (k, x) :: r =>
                   if reserved k then Raised EValueError      (* _check_memmap_key *)
                   else match x with
                        | Leaf l => bind (populate o k l files) (fun f' => go r f' subs)
                        | c => bind (save_over o c (sub_dir k subs)) (fun d' => go r files (jset k d' subs))
                        end
               end) ents files subs)
           (fun fs => Ok (Dir (fset FMeta (CJson (JObj (node_meta bs ents))) (fst fs)) (snd fs)))
  | Lazy sd ms =>
      let files' := fset FMeta (CJson (JObj (lazy_meta sd (List.length ms)))) files in
      bind ((fix go (ms : list td) (i : nat) (subs : list (string * dir)) : res (list (string * dir)) :=
               match ms with
               | [] => Ok subs
               | m :: r => bind (save_over o m (sub_dir (string_of_nat i) subs)) (fun d' => go r (S i) (jset (string_of_nat i) d' subs))
               end) ms 0 subs)
           (fun subs' => Ok (Dir files' subs'))
  | TCls c nt inner =>
      bind (tc_files c nt files) (fun files' =>
      bind (save_over o inner (sub_dir "_tensordict" subs)) (fun d' => Ok (Dir files' (jset "_tensordict" d' subs))))
  | NData bs p => bind (ndata_files bs p files) (fun f' => Ok (Dir f' subs))
  | NStack items => bind (nstack_files (stack_ndim t) (tolist t) files) (fun f' => Ok (Dir f' subs))
  end end.

Definition encode (o : opts) (t : td) : res dir := save_over o t empty_dir.
Definition default_opts : opts := {| copy_existing := false; like := false |}.

(* ------------------------------------------------------------------ loading: load_memmap *)
Definition jget (k : string) (j : json) : option json := match j with JObj l => sget k l | _ => None end.
Definition jnat_of (j : json) : option nat := match j with JInt z => if (z <? 0)%Z then None else Some (Z.to_nat z) | _ => None end.
Fixpoint jshape_of_list (l : list json) : option (list nat) :=
  match l with [] => Some [] | x :: r => match jnat_of x, jshape_of_list r with Some a, Some b => Some (a :: b) | _, _ => None end end.
Definition jshape_of (j : json) : option (list nat) := match j with JArr l => jshape_of_list l | _ => None end.
Definition jstr_of (j : json) : option string := match j with JStr s => Some s | _ => None end.

(* NonTensorStack._from_list (tensorclass.py:3671) *)
Definition plen (p : payload) : nat := match p with PList l => List.length l | _ => 0 end.
Fixpoint all_ok {A} (l : list (res A)) : res (list A) :=
  match l with [] => Ok [] | x :: r => bind x (fun a => bind (all_ok r) (fun b => Ok (a :: b))) end.
(* a NonTensorStack of rebuilt items whose batch sizes differ (ragged data) is a heterogeneous lazy stack or an error
   depending on ranks and on the parent: not followed *)
Definition uniform_bs (items : list td) : bool :=
  match items with [] => false | x :: r => forallb (fun y => shape_eqb (stack_bs y) (stack_bs x)) r end.
(* ndim: how many levels of the data are stack dimensions (None: a directory written before "ndim" existed —
   every level of equally long lists is taken for one) *)
Definition deeper (ndim : option nat) : bool := match ndim with None => true | Some n => Nat.ltb 1 n end.
Fixpoint from_list (ndim : option nat) (data : payload) : res td :=
  match data with
  | PList l =>
      let nested := forallb is_plist l && forallb (fun x => Nat.eqb (plen x) (plen (hd PNone l))) l && deeper ndim in
      bind (all_ok ((fix go (l : list payload) : list (res td) :=
                       match l with [] => [] | x :: r => (if nested then from_list (option_map pred ndim) x else Ok (NData [] x)) :: go r end) l))
           (fun items => if uniform_bs items then Ok (NStack items) else Raised EReinterpret)
  | p => Ok (NData [] p)
  end.

(* one record of a TensorDict's meta.json during TensorDict._load_memmap: a leaf to read, a sub-directory to visit, or nothing *)
Inductive rec_kind := RLeaf (t : td) | RPath | RSkip.
Definition load_record (files : list (fname * content)) (k : string) (r : json) : res rec_kind :=
  match r with
  | JObj _ =>
      match jget "type" r with
      | Some _ => Ok RPath
      | None =>
          match jget "dtype" r, jget "shape" r with
          | Some jd, Some js =>
              match jstr_of jd, jshape_of js with
              | Some sd, Some sh =>
                  match fget (FLeaf k) files with
                  | None =>
                      (* no file: an entry without elements has none, anything else is skipped *)
                      if Nat.eqb (numel sh) 0 then
                        match str_dtype sd with
                        | None => Raised EKeyError
                        | Some dt => Ok (RLeaf (Leaf {| lshape := sh; ldtype := dt; lcells := []; lsrc := MMElsewhere |}))
                        end
                      else Ok RSkip
                  | Some c =>
                      match str_dtype sd with
                      | None => Raised EKeyError
                      | Some dt =>
                          match c with
                          | CCells dt' cells =>
                              if dtype_eqb dt dt' && Nat.eqb (List.length cells) (numel sh)
                              then Ok (RLeaf (Leaf {| lshape := sh; ldtype := dt; lcells := cells; lsrc := MMElsewhere |}))
                              else Raised EReinterpret
                          | _ => Raised EReinterpret
                          end
                      end
                  end
              | _, _ => Raised EOther
              end
          | _, _ => Ok RSkip
          end
      end
  | _ => Ok RSkip
  end.

Fixpoint load_records (files : list (fname * content)) (m : list (string * json)) : res (list (string * td) * list string) :=
  match m with
  | [] => Ok ([], [])
  | (k, r) :: rest =>
      bind (load_record files k r) (fun rk =>
      bind (load_records files rest) (fun acc =>
        match rk with
        | RLeaf t => Ok ((k, t) :: fst acc, snd acc)
        | RPath => Ok (fst acc, k :: snd acc)
        | RSkip => Ok acc
        end))
  end.

(* result._set_str(key, loaded, validated=False): a NonTensorData whose batch size does not start with the node's (one
   loaded from a directory written before "batch_size" existed has []) takes the batch size of the node *)
Fixpoint is_prefix (a b : list nat) : bool :=
  match a, b with [], _ => true | x :: r, y :: s => Nat.eqb x y && is_prefix r s | _, _ => false end.
Definition adopt (bs : list nat) (t : td) : td :=
  match t with NData b p => if is_prefix bs b then NData b p else NData bs p | _ => t end.

Fixpoint load_subs (bs : list nat) (paths : list string) (ds : list (string * res td)) : res (list (string * td)) :=
  match ds with
  | [] => Ok []
  | (k, r) :: rest =>
      if existsb (String.eqb k) paths
      then bind r (fun t => bind (load_subs bs paths rest) (fun acc => Ok ((k, adopt bs t) :: acc)))
      else load_subs bs paths rest
  end.

(* LazyStackedTensorDict._load_memmap: i = 0; while (prefix / str(i)).exists(): load it *)
Fixpoint load_members (fuel i : nat) (ds : list (string * res td)) : res (list td) :=
  match fuel with
  | O => Ok []
  | S f =>
      match sget (string_of_nat i) ds with
      | None => Ok []
      | Some r => bind r (fun t => bind (load_members f (S i) ds) (fun acc => Ok (t :: acc)))
      end
  end.

(* TensorDict._load_memmap *)
Definition load_node (files : list (fname * content)) (ds : list (string * res td)) (m : list (string * json)) : res td :=
  match sget "shape" m with
  | Some js =>
      match jshape_of js with
      | Some bs =>
          bind (load_records files (jdel "device" (jdel "shape" m))) (fun lp =>
          bind (load_subs bs (snd lp) ds) (fun subs => Ok (Node bs (fst lp ++ subs))))
      | None => Raised EOther
      end
  | None => Raised EKeyError
  end.

(* LazyStackedTensorDict._load_memmap *)
Definition load_lazy (ds : list (string * res td)) (m : list (string * json)) : res td :=
  match sget "stack_dim" m with
  | Some j =>
      match jnat_of j with
      | Some sd =>
          (* while (num_tensordicts is None or i < num_tensordicts) and (prefix / str(i)).exists() *)
          let fuel := match sget "num_tensordicts" m with
                      | Some jn => match jnat_of jn with Some n => n | None => S (List.length ds) end
                      | None => S (List.length ds)
                      end in
          bind (load_members fuel 0 ds) (fun ms => match ms with [] => Raised ERuntime | _ => Ok (Lazy sd ms) end)
      | None => Raised EOther
      end
  | None => Raised EKeyError
  end.

(* NonTensorStack._load_memmap *)
Definition load_nstack (files : list (fname * content)) (ds : list (string * res td)) (m : list (string * json)) : res td :=
  let ndim := match sget "ndim" m with Some jn => jnat_of jn | None => None end in
  match sget "data" m with
  | Some (JStr f) => match fget FPkl files with Some (CPickle p) => from_list ndim p | _ => Raised EFileNotFound end
  | Some j => from_list ndim (payload_of_json j)
  | None => bind (load_members (S (List.length ds)) 0 ds) (fun ms =>
              match ms with [] => Raised ERuntime | _ => Ok (NStack ms) end)
  end.

(* tensorclass _load_memmap on a NonTensorData: non_tensordict = metadata minus _type, updated with other.pickle *)
Definition load_ndata (files : list (fname * content)) (m : list (string * json)) : res td :=
  let from_meta := match sget "data" m with Some j => payload_of_json j | None => PNone end in
  let bs := match sget "batch_size" m with Some j => match jshape_of j with Some b => b | None => [] end | None => [] end in
  match fget FOther files with
  | Some (CPickle (PDict l)) => Ok (NData bs (match sget "data" l with Some p => p | None => from_meta end))
  | Some _ => Raised EOther
  | None => Ok (NData bs from_meta)
  end.

(* tensorclass _load_memmap on any other registered class: non_tensordict = metadata minus "_type", updated with
   other.pickle; the tensordict from "_tensordict"; cls._from_tensordict(td, non_tensordict) drops a None whose name is
   also an entry of the tensordict and refuses (KeyError) any other value under such a name (the field table of the class
   is not modelled: names outside it are a ValueError there) *)
Definition tc_check_keys (inner : td) (nt : list (string * payload)) : res (list (string * payload)) :=
  match inner with
  | Node _ ents =>
      (fix go (l : list (string * payload)) : res (list (string * payload)) :=
         match l with
         | [] => Ok []
         | (k, v) :: r =>
             if smem k ents then match v with PNone => go r | _ => Raised EKeyError end
             else bind (go r) (fun acc => Ok ((k, v) :: acc))
         end) nt
  | _ => Ok nt
  end.
Definition load_tc (c : string) (files : list (fname * content)) (ds : list (string * res td)) (m : list (string * json)) : res td :=
  let from_meta := map (fun kv => (fst kv, payload_of_json (snd kv))) (jdel "_type" m) in
  bind (match fget FOther files with
        | Some (CPickle (PDict l)) => Ok (fold_left (fun acc kv => jset (fst kv) (snd kv) acc) l from_meta)
        | Some _ => Raised EOther
        | None => Ok from_meta
        end) (fun nt =>
  match sget "_tensordict" ds with
  | Some r => bind r (fun inner => bind (tc_check_keys inner nt) (fun nt' => Ok (TCls c nt' inner)))
  | None => Raised EValueError
  end).

(* load_memmap: dispatch on metadata["_type"] *)
Definition load_top (files : list (fname * content)) (ds : list (string * res td)) : res td :=
  match fget FMeta files with
  | Some (CJson (JObj m)) =>
      match sget "_type" m with
      | Some (JStr c) =>
          if String.eqb c "TensorDict" then load_node files ds m
          else if String.eqb c "LazyStackedTensorDict" then load_lazy ds m
          else if String.eqb c "NonTensorStack" then load_nstack files ds m
          else if String.eqb c "NonTensorData" then load_ndata files m
          else load_tc c files ds m
      | Some _ => Raised ERuntime
      | None => Raised EKeyError
      end
  | Some _ => Raised EOther
  | None => Raised EFileNotFound
  end.

Fixpoint decode (d : dir) : res td :=
  match d with
  | Dir files subs =>
      load_top files ((fix go (l : list (string * dir)) : list (string * res td) :=
                         match l with [] => [] | (k, x) :: r => (k, decode x) :: go r end) subs)
  end.

(* ------------------------------------------------------------------ what a loaded tensordict is compared with *)
(* the loader puts tensors first (metadata order) and sub-collections after them (directory order); a tensor that was
   loaded lives in a file of this directory; content of non-tensor entries unchanged *)
Definition loaded_leaf (l : leaf) : leaf := {| lshape := lshape l; ldtype := ldtype l; lcells := lcells l; lsrc := MMElsewhere |}.
Fixpoint norm (t : td) : td :=
  match t with
  | Leaf l => Leaf (loaded_leaf l)
  | Node bs ents =>
      let ents' := (fix go (es : list (string * td)) : list (string * td) :=
                      match es with [] => [] | (k, x) :: r => (k, norm x) :: go r end) ents in
      Node bs (filter (fun kv => is_leaf (snd kv)) ents' ++ filter (fun kv => negb (is_leaf (snd kv))) ents')
  | Lazy sd ms => Lazy sd ((fix go (l : list td) : list td := match l with [] => [] | x :: r => norm x :: go r end) ms)
  | TCls c nt inner => TCls c (ser_fields nt ++ pkl_fields nt) (norm inner)   (* json fields first, pickled ones after *)
  | NData bs p => NData bs p
  | NStack items => NStack ((fix go (l : list td) : list td := match l with [] => [] | x :: r => norm x :: go r end) items)
  end.

(* ------------------------------------------------------------------ the domain of the round-trip theorem *)
Fixpoint nodupb (l : list string) : bool :=
  match l with [] => true | k :: r => negb (existsb (String.eqb k) r) && nodupb r end.
Definition builtin_cls (c : string) : bool :=
  String.eqb c "TensorDict" || String.eqb c "LazyStackedTensorDict" || String.eqb c "NonTensorData" || String.eqb c "NonTensorStack".
Definition is_collection (t : td) : bool := match t with Node _ _ | Lazy _ _ | TCls _ _ _ => true | _ => false end.
Definition td_keys (t : td) : list string := match t with Node _ ents => map fst ents | _ => [] end.
Definition leaf_ok (o : opts) (l : leaf) : bool :=
  Nat.eqb (List.length (lcells l)) (numel (lshape l)) && negb (refused o l).

(* items of a NonTensorStack: scalar (batch size []) NonTensorData (any payload), or, all of them, NonTensorStacks of one
   common batch size (NonTensorData items with a batch size are written here as stacks of scalars: same tolist()) *)
Fixpoint stack_ok (t : td) : bool :=
  match t with
  | NData bs p => match bs with [] => true | _ => false end
  | NStack items =>
      negb (Nat.eqb (List.length items) 0)
      && (fix all (l : list td) : bool := match l with [] => true | x :: r => stack_ok x && all r end) items
      && (forallb (fun x => match x with NData _ _ => true | _ => false end) items
          || forallb (fun x => match x with NStack its => Nat.eqb (List.length its) (List.length (match hd (NData [] PNone) items with NStack i0 => i0 | _ => [] end)) | _ => false end) items)
      && uniform_bs items
  | _ => false
  end.

Fixpoint valid (o : opts) (t : td) : bool :=
  match t with
  | Leaf l => leaf_ok o l
  | Node bs ents =>
      nodupb (map fst ents) && forallb (fun kv => negb (reserved (fst kv))) ents
      && (fix all (es : list (string * td)) : bool :=
            match es with
            | [] => true
            | (_, x) :: r => valid o x && match x with NData b _ => is_prefix bs b | _ => true end && all r
            end) ents
  | Lazy _ ms =>
      negb (Nat.eqb (List.length ms) 0)
      && (fix all (l : list td) : bool := match l with [] => true | x :: r => valid o x && is_collection x && all r end) ms
  | TCls c nt inner =>
      negb (builtin_cls c) && valid o inner && is_collection inner
      (* field names are distinct, none is "_type", none is also an entry of the tensordict *)
      && nodupb (map fst nt) && negb (smem "_type" nt) && forallb (fun kv => negb (existsb (String.eqb (fst kv)) (td_keys inner))) nt
  | NData _ _ => true
  | NStack _ => stack_ok t
  end.

Definition valid_root (o : opts) (t : td) : bool := valid o t && negb (like o) && negb (is_leaf t).

(* ------------------------------------------------------------------ make_memmap / make_memmap_from_tensor / make_memmap_from_storage
   (_td.py: _make_memmap_subtd and the make_memmap family): a new tensor entry is added to a saved tensordict under a (nested) key;
   the metadata file of the node that receives it is READ from disk, extended and written back; missing intermediate
   nodes are created as empty tensordicts, saved in their own directory and registered in their parent's metadata by
   the same read-modify-write.  The three entry points differ in where the bytes come from (fresh zeros the caller then
   fills, a tensor, a storage that already is the file); the model writes the final cells.
   State: the tensordict in memory (whose keys decide "already exists") and the directory. *)
Definition resave_meta (bs : list nat) (m : list (string * json)) : json :=
  JObj (jset "_type" (JStr "TensorDict") (jset "device" (JStr "cpu") (jset "shape" (jshape bs) m))).

Definition load_meta (files : list (fname * content)) : res (list (string * json)) :=
  match fget FMeta files with
  | Some (CJson (JObj m)) => Ok m
  | Some _ => Raised EOther
  | None => Raised EFileNotFound
  end.

Fixpoint grow_at (ks : list string) (k : string) (l : leaf) (t : td) (d : dir) {struct ks} : res (td * dir) :=
  match t, d with
  | Node bs ents, Dir files subs =>
      match ks with
      | [] =>
          if smem k ents then Raised ERuntime        (* "The key ... already exists within the target tensordict" *)
          else if reserved k then Raised EValueError (* _check_memmap_key *)
          else
            bind (load_meta files) (fun m =>
              let files1 := if Nat.eqb (numel (lshape l)) 0 then files else fset (FLeaf k) (CCells (ldtype l) (lcells l)) files in
              Ok (Node bs (ents ++ [(k, Leaf l)]),
                  Dir (fset FMeta (CJson (resave_meta bs (jset k (leaf_record l) m))) files1) subs))
      | k0 :: rest =>
          match sget k0 ents with
          | Some (Node bs0 ents0) =>
              bind (grow_at rest k l (Node bs0 ents0) (sub_dir k0 subs)) (fun td' =>
                Ok (Node bs (jset k0 (fst td') ents), Dir files (jset k0 (snd td') subs)))
          | Some _ => Raised EOther
          | None =>
              let sub0 := Node bs [] in
              if reserved k0 then Raised EValueError else
              bind (save_over default_opts sub0 (sub_dir k0 subs)) (fun d0 =>
              bind (load_meta files) (fun m =>
              let files' := fset FMeta (CJson (resave_meta bs (jset k0 (coll_record sub0) m))) files in
              bind (grow_at rest k l sub0 d0) (fun td' =>
                Ok (Node bs (ents ++ [(k0, fst td')]), Dir files' (jset k0 (snd td') subs)))))
          end
      end
  | _, _ => Raised EOther
  end.

Record grow_op := { gpath : list string; gkey : string; gleaf : leaf }.
Fixpoint grow_all (ops : list grow_op) (t : td) (d : dir) : list (res unit) * (td * dir) :=
  match ops with
  | [] => ([], (t, d))
  | o :: r =>
      match grow_at (gpath o) (gkey o) (gleaf o) t d with
      | Ok td' => let rr := grow_all r (fst td') (snd td') in (Ok tt :: fst rr, snd rr)
      | Raised e => let rr := grow_all r t d in (Raised e :: fst rr, snd rr)     (* a refused call changes nothing *)
      end
  end.
