(* Model of base.py::_get_names_idx (dim names of an indexed result, as rewritten by fix D21) and of the index-dispatch of
   base.py::__getitem__ / _td.py::_index_tensordict that decides which index OBJECT reaches the leaves. *)
From Coq Require Import ZArith List Bool Lia.
Import ListNotations.
From TD Require Import Spec.PySlice Model.C03_Index.
Open Scope nat_scope.

(* ---------------- _get_names_idx ---------------- *)
(* if fewer non-None items than batch dims: idx = ( *idx, Ellipsis ); then convert_ellipsis_to_idx *)
Definition names_prepare (bs : list nat) (idx : list item) : res (list item) :=
  let idx1 := if Nat.ltb (length (filter (fun it => negb (is_none it)) idx)) (length bs) then idx ++ [IEll] else idx in
  convert_ellipsis idx1 bs.

(* the loop: [take] = idx_to_take (Some i = source dim i, None = no name) *)
Fixpoint names_loop (idx : list item) (count : nat) (take : list (option nat)) (advpos : nat) (advsrc : option nat)
                    (advndim numadv : nat) (sep disj : bool) : list (option nat) :=
  match idx with
  | [] =>
      if Nat.ltb 0 numadv then
        let block := repeat advsrc advndim in
        if disj then block ++ take else firstn advpos take ++ block ++ skipn advpos take
      else take
  | it :: r =>
      match it with
      | INone => names_loop r count (take ++ [None]) advpos advsrc advndim numadv (Nat.ltb 0 numadv) disj
      | IInt _ | IAdv0 => names_loop r (S count) take advpos advsrc advndim numadv sep disj
      | IAdv sh =>
          let first := Nat.eqb numadv 0 in
          names_loop r (S count) take (if first then length take else advpos) (if first then Some count else None)
                     (Nat.max advndim (length sh)) (S numadv) sep (if first then disj else disj || sep)
      | IMask sh _ =>
          let first := Nat.eqb numadv 0 in
          names_loop r (count + length sh) take (if first then length take else advpos) None
                     (Nat.max advndim 1) (S numadv) sep (if first then disj else disj || sep)
      | ISl _ _ _ | IEll =>
          names_loop r (S count) (take ++ [Some count]) advpos advsrc advndim numadv (Nat.ltb 0 numadv) disj
      end
  end.

Definition names_take (bs : list nat) (idx : list item) : res (list (option nat)) :=
  match names_prepare bs idx with
  | Reject => Reject
  | Ok idx' => Ok (names_loop idx' 0 [] 0 None 0 0 false false)
  end.

(* names[i] : IndexError when i is not a batch dim *)
Fixpoint pick_names {X} (names : list (option X)) (take : list (option nat)) : res (list (option X)) :=
  match take with
  | [] => Ok []
  | None :: r => match pick_names names r with Ok l => Ok (None :: l) | Reject => Reject end
  | Some i :: r =>
      match nth_error names i, pick_names names r with
      | Some nm, Ok l => Ok (nm :: l)
      | _, _ => Reject
      end
  end.

Definition all_none {X} (l : list (option X)) : bool := forallb (fun o => match o with None => true | Some _ => false end) l.

(* [fast] = the index is one torch boolean tensor (alone or in a 1-tuple): names = [None] + names[ndim:] *)
Definition names_idx {X} (names : option (list (option X))) (bs : list nat) (idx : list item) (fast : bool)
  : res (option (list (option X))) :=
  match names with
  | None => Ok None
  | Some nm =>
      let r := match fast, idx with
               | true, [IMask sh _] => Ok (None :: skipn (length sh) nm)
               | _, _ => match names_take bs idx with Reject => Reject | Ok tk => pick_names nm tk end
               end in
      match r with
      | Reject => Reject
      | Ok l => Ok (if all_none l then None else Some l)
      end
  end.

(* ---------------- which index object reaches the leaves (view vs copy is decided by torch from its class) ----------------
   __getitem__: str / tuple-of-str -> key path (not modelled here); () and Ellipsis -> self; int -> _index_tensordict(int);
   anything else is wrapped in a 1-tuple; an Ellipsis inside a tuple is expanded against the batch size; a tuple of full
   slices -> self; otherwise the tuple goes UNCHANGED (no list / range / ndarray -> tensor conversion) to every leaf
   through _get_item(leaf, index) = leaf[index]. *)
Inductive handed :=
| HSelf                       (* the tensordict itself: every leaf is the same object *)
| HIndex (idx : list item)    (* every leaf is leaf[idx] with this very index *)
| HRaise.

Definition getitem_dispatch (bs : list nat) (idx : list item) : handed :=
  match idx with
  | [] => HSelf
  | _ =>
      match (if existsb is_ell idx then convert_ellipsis idx bs else Ok idx) with
      | Reject => HRaise
      | Ok idx' => if forallb is_full_slice idx' then HSelf else if rank0_guard bs idx' then HIndex idx' else HRaise
      end
  end.
