(* Model of LazyStackedTensorDict.__setitem__ with a tensordict value (_lazy.py:2178-2297): the list of writes the
   code performs on its members, in order.  A write is  target[idx] = src  where target is a member (or a view of
   members obtained by basic indexing) and src an expression over the value; or the REPLACEMENT of a member object
   (self.tensordicts[i] = value[i], defect D23).  Definitions only. *)
From Coq Require Import ZArith List Bool Lia.
Import ListNotations.
From TD Require Import Spec.PySlice Spec.C08_Dense Model.C08_Lazy.
Open Scope Z_scope.

Definition VID : nat := 999%nat.      (* id of the leaf that stands for the value being written *)

Inductive wr :=
  | WSet (target : arr) (idx : list item) (src : arr)    (* target[idx] = src ; idx = [] : target.update(src, inplace=True) *)
  | WReplace (slot : Z) (src : arr).                     (* self.tensordicts[slot] = src *)

(* value.unbind(d)[k] / value.split(sizes, d)[k] as expressions *)
Definition v_unbind (v : arr) (d : nat) : res (list arr) :=
  match shape_of v with
  | Some sh => match nth_error sh d with
               | Some s => Ok (map (fun k => Index (select_idx d (Z.of_nat k)) v) (seq 0 (Z.to_nat s)))
               | None => Raised
               end
  | None => Raised
  end.
Definition v_split (v : arr) (sizes : list Z) (d : nat) : res (list arr) :=
  match shape_of v with
  | Some sh => match nth_error sh d with
               | Some s => (* D4 (C02): the first piece's batch size is not clamped; when it exceeds the dim the piece is
                              incoherent and what follows is member-level coercion -- outside the model *)
                           if (match sizes with s0 :: _ => s <? s0 | [] => false end) then OutOfModel else
                           rbind (td_split_pieces s sizes) (fun pcs =>
                           Ok (map (fun se => Index (narrow_idx d (fst se) (snd se)) v) pcs))
               | None => Raised
               end
  | None => Raised
  end.
Definition mask_count (it : item) : Z := match it with IMask _ bits => lenZ (true_pos bits) | _ => 0 end.

Fixpoint zip_strict {A B} (l : list A) (m : list B) : res (list (A * B)) :=
  match l, m with
  | [], [] => Ok []
  | x :: l', y :: m' => rbind (zip_strict l' m') (fun r => Ok ((x, y) :: r))
  | _, _ => Raised
  end.

Section SetItem.
  Variable lz_setitem : arr -> list item -> arr -> res (list wr).   (* recursive occurrence *)
  Variable fuel' : nat.

  (* member[idx] = value  /  member.update(value, inplace=True) *)
  Definition m_setitem (m : arr) (idx : list item) (v : arr) : res (list wr) :=
    if is_stack m then lz_setitem m idx v else Ok [WSet m idx v].

  Fixpoint m_update (fuel : nat) (m : arr) (v : arr) : res (list wr) :=
    match fuel with
    | O => OutOfFuel
    | S f =>
      match m with
      | Stack sd _ parts =>
          (* LazyStackedTensorDict.update(dense value): value.unbind(stack_dim) zipped with the members *)
          rbind (v_unbind v sd) (fun vs =>
          rbind (zip_strict parts vs) (fun pv =>
          rbind (rmap (fun p => m_update f (fst p) (snd p)) pv) (fun ws => Ok (concat ws))))
      | _ => Ok [WSet m [] v]
      end
    end.
  Definition m_set_or_update (m : arr) (idx : list item) (v : arr) : res (list wr) :=
    if is_empty_idx idx then m_update fuel' m v else m_setitem m idx v.

  (* def assign(converted_idx, value=value), recursive on the nested list of an integer tensor of rank >= 2 *)
  Fixpoint assign (parts : list arr) (unbind_dim : nat) (sub : list item) (full : arr) (t : nest) : res (list wr) :=
    match t with
    | NLeaf _ => Raised
    | NList l =>
        rbind (v_unbind full unbind_dim) (fun vs =>
        (fix go (l : list nest) (i : nat) : res (list wr) :=
           match l with
           | [] => Ok []
           | NLeaf j :: r =>
               rbind (of_opt (nth_error vs i)) (fun vi =>
               rbind (if is_empty_idx sub
                      then (if fixed_D23 then rbind (member parts j) (fun m => m_update fuel' m vi)
                            else match norm_i j (lenZ parts) with Some j' => Ok [WReplace j' vi] | None => Raised end)
                      else rbind (member parts j) (fun m => m_setitem m sub vi)) (fun w =>
               rbind (go r (S i)) (fun ws => Ok (w ++ ws))))
           | (NList _ as t') :: r =>
               (* assign(item, value[i]) (fix C08-D34; before, assign(item) re-bound the default: the full value) *)
               rbind (of_opt (nth_error vs i)) (fun vi =>
               rbind (assign parts unbind_dim sub vi t') (fun w => rbind (go r (S i)) (fun ws => Ok (w ++ ws))))
           end) l 0%nat)
    end.

  Definition setitem_body (lz_get : arr -> list item -> res arr) (self : arr) (sd : nat) (parts : list arr)
                          (shape : list Z) (index : list item) (v : arr) : res (list wr) :=
    let n := List.length parts in
    rbind (split_index sd n shape index) (fun sp =>
    match sp_kind sp with
    | KNest t sub =>
        if sp_isint sp then Raised else
        rbind (nonneg_nat (Z.of_nat sd - sp_num_single sp + sp_num_none sp - sp_num_squash sp)) (fun ud =>
        assign parts ud sub v t)
    | KDict es =>
        if sp_isint sp then
          rbind (rmap (fun e => rbind (member parts (fst e)) (fun m => m_set_or_update m (snd e) v)) es) (fun ws => Ok (concat ws))
        else if negb (sp_has_bool sp) then
          rbind (nonneg_nat (Z.of_nat sd - sp_num_single sp + sp_num_none sp - sp_num_squash sp)) (fun ud =>
          rbind (v_unbind v ud) (fun vs =>
          rbind (zip_strict es vs) (fun ev =>
          rbind (rmap (fun p => let '((i, sub), vi) := p in
                                rbind (member parts i) (fun m => m_set_or_update m sub vi)) ev) (fun ws => Ok (concat ws)))))
        else
          rbind (nonneg_nat (sp_split_dim sp)) (fun sdim =>
          rbind (v_split v (map mask_count (sp_masks sp)) sdim) (fun vs =>
          if mask_rank0 (sp_masks sp) then
            rbind (zip_strict es (sp_masks sp)) (fun em =>
            rbind (zip_strict em vs) (fun emv =>
            rbind (rmap (fun p => let '(((i, sub), mk), vi) := p in
                                  if mask_any mk then rbind (member parts i) (fun m => m_setitem m sub vi) else Ok []) emv)
                  (fun ws => Ok (concat ws))))
          else
            rbind (zip_strict es vs) (fun ev =>
            rbind (rmap (fun p => let '((i, sub), vi) := p in
                                  rbind (lz_get self (repeat (ISl None None None) (cursor_at index (sp_mask_loc sp)) ++ [IInt i])) (fun x =>
                                  m_setitem x sub vi)) ev) (fun ws => Ok (concat ws)))))
    end).
End SetItem.

(* the value handed to the branches: expanded to the indexed batch size when its shape differs *)
Definition prep_value (v : arr) (gbs : list Z) : arr :=
  match shape_of v with
  | Some vs => if list_eqb vs gbs then v else Expand gbs v
  | None => v
  end.

Fixpoint lz_setitem (fuel : nat) (self : arr) (index : list item) (v : arr) : res (list wr) :=
  match fuel with
  | O => OutOfFuel
  | S f =>
      match self with
      | Stack sd bs0 parts =>
          match shape_of self with
          | Some shape =>
              rbind (convert_ellipsis index (List.length shape)) (fun idx' =>
              match res_shape idx' shape with        (* indexed_bs = _getitem_batch_size(self.batch_size, index) *)
              | Some gbs =>
                  let v' := prep_value v gbs in
                  match shape_of v' with
                  | Some _ => setitem_body (lz_setitem f) f (lz_getitem f) self sd parts shape idx' v'
                  | None => Raised                      (* expand failed *)
                  end
              | None => Raised
              end)
          | None => Raised
          end
      | _ => Ok [WSet self index v]
      end
  end.

Definition run_setitem (fuel : nat) (self : arr) (index : list item) (vsh : list Z) : res (list wr) :=
  lz_setitem fuel self index (Leaf VID vsh).

(* ------------------------------------------------------------------------------------------------------------
   LazyStackedTensorDict.update_ (_lazy.py:3042-3067) with a tensordict source, dense OR lazy (stacked along any dim):
   batch_size[stack_dim] of the source must equal the member count; the source is unbound along SELF's stack dim
   (source.unbind = _unbind when it is a lazy stack: its own members when the dims agree, a re-stacking of the members'
   unbind otherwise) and zipped with the members; a lazy member recurses, a plain one is updated in place *)
Fixpoint lz_update_ (fuel : nat) (self : arr) (src : arr) : res (list wr) :=
  match fuel with
  | O => OutOfFuel
  | S f =>
    match self with
    | Stack sd _ parts =>
        match shape_of src with
        | Some ssh =>
            match nth_error ssh sd with
            | Some s =>
                if negb (s =? lenZ parts) then Raised else
                rbind (if is_stack src then lz_unbind f src (Z.of_nat sd) else v_unbind src sd) (fun vs =>
                rbind (zip_strict parts vs) (fun pv =>
                rbind (rmap (fun p => lz_update_ f (fst p) (snd p)) pv) (fun ws => Ok (concat ws))))
            | None => Raised                      (* IndexError: batch_size[stack_dim] *)
            end
        | None => Raised
        end
    | _ => Ok [WSet self [] src]
    end
  end.

(* the sources the correspondence uses: the value itself, or the lazy stack of its slices along dim k *)
Definition lazy_source (vsh : list Z) (k : nat) : res arr :=
  match nth_error vsh k with
  | Some s => Ok (Stack k (remove_at k vsh) (map (fun j => Index (select_idx k (Z.of_nat j)) (Leaf VID vsh)) (seq 0 (Z.to_nat s))))
  | None => Raised
  end.
Definition run_update_ (fuel : nat) (self : arr) (mode : Z) (vsh : list Z) : res (list wr) :=
  if mode <? 0 then lz_update_ fuel self (Leaf VID vsh)
  else rbind (lazy_source vsh (Z.to_nat mode)) (lz_update_ fuel self).

(* ------------------------------------------------------------------------------------------------------------
   evaluation of a write plan (for the correspondence): final content of every member position.
   content: association list (member id, flat position) -> flat position in the value; later entries win. *)
Definition leaf_bs_w (tab : list (nat * list Z)) (j : nat) : list Z :=
  (fix go (tab : list (nat * list Z)) : list Z :=
     match tab with [] => [] | (k, bs) :: r => if Nat.eqb k j then bs else go r end) tab.

Inductive ev (A : Type) := EvOk (a : A) | EvCoerce | EvFail.
Arguments EvOk {A} a. Arguments EvCoerce {A}. Arguments EvFail {A}.

(* EvCoerce: the value handed to a member does not have the indexed shape; TensorDict.__setitem__ then tries to
   expand / re-interpret it (member-level coercion, not modelled: the case is left to the oracle) *)
Definition eval_wset (tab : list (nat * list Z)) (vsh : list Z) (target : arr) (idx : list item) (src : arr)
  : ev (list ((nat * Z) * Z)) :=
  match shape_of target with
  | None => EvFail
  | Some tsh =>
    match res_shape idx tsh with
    | None => EvFail
    | Some rs =>
        match shape_of src with
        | None => EvFail
        | Some ss =>
            if negb (list_eqb ss rs) then EvCoerce else
            match all_some (map (fun r =>
              match opt_bind (src_of idx tsh r) (at_ target), at_ src r with
              | Some (j, ix), Some (_, vix) => Some ((j, ravel (leaf_bs_w tab j) ix), ravel vsh vix)
              | _, _ => None
              end) (all_indices rs)) with
            | Some l => EvOk l
            | None => EvFail
            end
        end
    end
  end.

Fixpoint eval_plan (tab : list (nat * list Z)) (vsh : list Z) (plan : list wr) : ev (list ((nat * Z) * Z) * bool) :=
  match plan with
  | [] => EvOk ([], false)
  | WSet t idx src :: r =>
      match eval_wset tab vsh t idx src, eval_plan tab vsh r with
      | EvOk w, EvOk (ws, rep) => EvOk (w ++ ws, rep)
      | EvFail, _ | _, EvFail => EvFail
      | _, _ => EvCoerce
      end
  | WReplace _ _ :: r => match eval_plan tab vsh r with EvOk (ws, _) => EvOk (ws, true) | e => e end
  end.

(* last write wins: look the key up from the end *)
Definition lookup_last (ws : list ((nat * Z) * Z)) (j : nat) (p : Z) : option Z :=
  fold_left (fun acc e => if Nat.eqb (fst (fst e)) j && (snd (fst e) =? p) then Some (snd e) else acc) ws None.

