(* C04 — one step of a history: an operation of the public API applied to the current subject, with everything the
   correspondence observes (state afterwards, outcome class, returned value, out-of-place results, the object the
   history continues with).  Definitions only. *)
From Coq Require Import ZArith List String Bool Ascii.
Import ListNotations.
From TD Require Import Model.Keys Model.C04_Tree Model.C04_Ops Model.C04_Views.
Open Scope string_scope.
Open Scope list_scope.

Inductive op :=
| ONop
| OSet (k : pykey) (v : tree)
| OSetItem (k : pykey) (v : tree)
| ODel (k : pykey)
| ODelItem (k : pykey)
| OPop (k : pykey) (dflt : option Z)
| ORename (k1 k2 : pykey) (safe : bool)
| OUpdate (items : list (pykey * tree))
| OSetDefault (k : pykey) (v : tree)
| OSelect (ks : list pykey) (inplace strict cont : bool)
| OExclude (ks : list pykey) (inplace cont : bool)
| OSplit (sets : list (list pykey)) (inplace strict : bool) (dflt : option Z) (cont : option nat)
| OFlatten (sep : string) (inplace cont : bool)
| OUnflatten (sep : string) (inplace cont : bool)
| OClear
| OFilterEmpty.

Inductive retval := RNone | RVal (v : tree) | RDefault (z : Z) | RPyNone.

Record stepres := mk_stepres {
  sr_self : ents;                  (* the subject afterwards (also after a raise) *)
  sr_err : option err;
  sr_ret : retval;
  sr_results : option (list ents); (* out-of-place results *)
  sr_cont : ents                   (* the object the history goes on with *)
}.

Definition plain (es : ents) (e : option err) : stepres := mk_stepres es e RNone None es.

Definition of_res (es : ents) (r : res ents) : stepres :=
  match r with Ok es' => plain es' None | Raise e => plain es (Some e) end.

(* out-of-place / in-place operation returning one tensordict *)
Definition one_result (inplace cont : bool) (r : ents * res ents) : stepres :=
  match r with
  | (self', Raise e) => plain self' (Some e)
  | (self', Ok out) =>
      if inplace then plain self' None
      else mk_stepres self' None RNone (Some [out]) (if cont then out else self')
  end.

Definition step (es : ents) (o : op) : stepres :=
  match o with
  | ONop => plain es None
  | OSet k v => of_res es (set_ k v es)
  | OSetItem k v => match cpp_unravel_to_tuple k with [] => plain es (Some EUnmodelled) | p => of_res es (set_tuple p v es) end
  | ODel k | ODelItem k => of_res es (del_ k es)
  | OPop k d =>
      match pop k (match d with Some _ => true | None => false end) es with
      | (es', Ok (PVal v)) => mk_stepres es' None (RVal v) None es'
      | (es', Ok PDefault) => mk_stepres es' None (match d with Some z => RDefault z | None => RPyNone end) None es'
      | (es', Raise e) => plain es' (Some e)
      end
  | ORename k1 k2 safe => let '(es', e) := rename k1 k2 safe es in plain es' e
  | OUpdate items => let '(es', e) := update items es in plain es' e
  | OSetDefault k v =>
      match setdefault k v es with
      | (es', Ok (Some w)) => mk_stepres es' None (RVal w) None es'
      | (es', Ok None) => mk_stepres es' None RPyNone None es'
      | (es', Raise e) => plain es' (Some e)
      end
  | OSelect ks inplace strict cont => one_result inplace cont (select ks strict inplace es)
  | OExclude ks inplace cont => one_result inplace cont (exclude ks inplace es)
  | OSplit sets inplace strict d cont =>
      match split_keys sets inplace strict d es with
      | (es', Raise e) => plain es' (Some e)
      | (es', Ok outs) =>
          mk_stepres es' None RNone (Some outs)
                     (match cont with Some i => nth i outs es' | None => es' end)
      end
  | OFlatten sep inplace cont =>
      if inplace then let '(es', e) := flatten_in sep es in plain es' e
      else one_result false cont (es, flatten_out sep es)
  | OUnflatten sep inplace cont =>
      if inplace then let '(es', e) := unflatten_in sep es in plain es' e
      else match unflatten_in sep es with
           | (out, None) => one_result false cont (es, Ok out)
           | (_, Some e) => plain es (Some e)
           end
  | OClear => plain (clear es) None
  | OFilterEmpty => plain (filter_empty es) None
  end.

(* a history: every operation is applied to the object the previous step continues with *)
Fixpoint run (es : ents) (ops : list op) : ents :=
  match ops with [] => es | o :: r => run (sr_cont (step es o)) r end.
