(* nn/sequence.py TensorDictSequential.forward and nn/probabilistic.py ProbabilisticTensorDictSequential.forward:
     compile:  keys = [k for k in {k for k in self.out_keys}.union({k for k in tensordict.keys(True, True)})]
     eager:    keys = list(set(self.out_keys + list(tensordict.keys(True, True))))
   A Python set is modelled as a duplicate-free list (iteration order unspecified: only membership and size are meant). *)
From Coq Require Import List Bool.
Import ListNotations.

Section SeqKeys.
  Context {K : Type} (keqb : K -> K -> bool).

  Definition mem (k : K) (l : list K) : bool := existsb (keqb k) l.
  Fixpoint to_set (l : list K) : list K :=             (* set(l) / {k for k in l}: first occurrence kept *)
    match l with
    | [] => []
    | x :: r => let s := to_set r in if mem x s then s else x :: s
    end.
  Definition union (a b : list K) : list K := a ++ filter (fun k => negb (mem k a)) b.   (* a.union(b) *)

  Definition keys_compile (out_keys td_keys : list K) : list K := union (to_set out_keys) (to_set td_keys).
  Definition keys_eager (out_keys td_keys : list K) : list K := to_set (out_keys ++ td_keys).
End SeqKeys.
