(* C01 — index writes: td[idx] = value (tensor / scalar / tensordict / dict), set_at_(key, value, idx),
   update_at_(source, idx) on plain TensorDict trees.  Definitions only.

   Sources (tensordict/, working tree):
     _td.py    TensorDict.__setitem__ 810 (Ellipsis conversion, indexed batch size, value device / batch-size rule:
               equal -> as is, suffix -> expand on the left, else copy + batch_size assignment; existing keys through
               _set_at_str, missing keys through _get_sub_tensordict(index).set(key, item, inplace=True)),
               _set_at_str 2579, _set_at_tuple 2675,
               _SubTensorDict.__init__ 3632, _SubTensorDict._set_str 3747 (validation against the INDEXED batch size, the
               new entry is created in the parent with shape batch_size ++ value.shape[len(indexed):], then written at
               the index), empty 3376
     base.py   set_at_ 6424, update_at_ 7065, _validate_value 11467 (check_shape=False on the set_at_ path),
               _expand_to_match_shape 14012
     utils.py  _set_item 557 (tensor[index] = value; a nested tensordict entry recurses into its own __setitem__),
               convert_ellipsis_to_idx 223 and _getitem_batch_size 1830 are Model/C03_Index.convert_ellipsis / gbs.
   What torch accepts for  leaf[idx] = value  is stated through Spec/C03_TorchIndex.torch_shape (the shape of leaf[idx])
   plus torch's value rule: the value, its leading 1s dropped, broadcasts to that shape.

   Index grammar: ints, slices, None, Ellipsis, at most ONE advanced index (list / integer tensor with values in range,
   or a boolean mask).  Outside it the model answers Unmodelled. *)
From Coq Require Import ZArith List String Bool Arith.
Import ListNotations.
From TD Require Import Model.C01_Tree Model.C01_Ops Model.C01_Scope.
From TD Require Model.C03_Index Spec.C03_TorchIndex.
Open Scope string_scope.
Open Scope list_scope.
Open Scope nat_scope.


Definition idx := list C03_Index.item.

Definition is_adv (it : C03_Index.item) : bool := match it with C03_Index.IAdv _ | C03_Index.IMask _ _ => true | _ => false end.
Definition is_mask (it : C03_Index.item) : bool := match it with C03_Index.IMask _ _ => true | _ => false end.
Definition is_adv0 (it : C03_Index.item) : bool := match it with C03_Index.IAdv0 => true | _ => false end.
(* outside the grammar of this model *)
Definition idx_unm (ix : idx) : bool :=
  Nat.ltb 1 (List.length (filter is_adv ix)) || existsb is_adv0 ix.

Fixpoint strip1 (s : list nat) : list nat := match s with 1 :: r => strip1 r | _ => s end.

(* torch:  dest[ix] = value  for a tensor dest of shape dsh on dd and a tensor value of shape vsh on vd.
   Quirks kept: with a basic index the value is copied (copy_): a meta value cannot be copied into a cpu tensor
   (NotImplementedError); with an advanced index the write is index_put_, which performs no shape check at all as soon as
   one side lives on meta (and accepts a meta value for a cpu destination); torch tolerates several Ellipsis (outside the
   grammar here). *)
Definition leaf_write (dsh : list nat) (dd : dev) (ix : idx) (vsh : list nat) (vd : dev) : outcome :=
  if idx_unm ix then Unmodelled
  else if Nat.ltb 1 (List.length (filter C03_Index.is_ell ix)) then Unmodelled
  else
    match C03_TorchIndex.torch_shape dsh ix with
    | None =>
        (* index_put_ with a meta side checks nothing, not even the shape of a mask: what torch then does with an index it
           would otherwise refuse is left unmodelled *)
        if existsb is_adv ix && (dev_eqb dd META || dev_eqb vd META) then Unmodelled else Raised
    | Some R =>
        if existsb is_adv ix && (dev_eqb dd META || dev_eqb vd META) then Done
        else if bcast_rev (rev R) (rev (strip1 vsh)) && negb (dev_eqb dd CPU && dev_eqb vd META)
        then Done else Raised
    end.

(* _validate_value(value, check_shape=False) of a tensor on a node with device dv: only the device cast is left *)
Definition cast_leaf_fails (dv : option dev) (vd : dev) : bool := odev_eqb dv (Some CPU) && dev_eqb vd META.
Definition cast_leaf_dev (dv : option dev) (vd : dev) : dev := match dv with Some d => d | None => vd end.

(* node[ix] = tensor   (__setitem__, tensor branch): `for key in self.keys(): self.set_at_(key, value, index)`.
   Nothing but element values changes, so only the outcome is returned.  A nested tensordict entry receives
   nested[ix] = value: the same function one level down (the Ellipsis was expanded against THIS node's batch size). *)
Fixpoint write_leaf (ix : idx) (vsh : list nat) (vd : dev) (self : tree) : outcome :=
  match self with
  | Node KTd bs dv _ es =>
      match C03_Index.convert_ellipsis ix bs with
      | C03_Index.Reject => Raised
      | C03_Index.Ok ix' =>
          (fix go (es : ents) : outcome :=
             match es with
             | [] => Done
             | (_, c) :: r =>
                 if cast_leaf_fails dv vd then Raised
                 else
                   match (match c with
                          | Leaf dsh dd => leaf_write dsh dd ix' vsh (cast_leaf_dev dv vd)
                          | Node KTd _ _ _ _ => write_leaf ix' vsh (cast_leaf_dev dv vd) c
                          | Node KNt _ _ _ _ => Unmodelled
                          end) with
                   | Done => go r
                   | o => o
                   end
             end) es
      end
  | _ => Unmodelled
  end.

(* value.expand(T) of a tensordict whose batch size has k dims (only used on values without dim names) *)
Fixpoint retarget (k : nat) (T : list nat) (t : tree) : tree :=
  match t with
  | Leaf sh d => Leaf (T ++ skipn k sh) d
  | Node kd b dv _ es => Node kd (T ++ skipn k b) dv None (map (fun kv => (fst kv, retarget k T (snd kv))) es)
  end.

(* _expand_to_match_shape(parent.batch_size, entry, len(indexed), device): what is pre-allocated in the parent for an
   entry of a tensordict value that is auto-created by an index write *)
Definition expand_entry (bs : list nat) (n : nat) (dv : option dev) (c : tree) : option tree :=
  match c with
  | Leaf sh _ => Some (Leaf (bs ++ skipn n sh) (match dv with Some d => d | None => CPU end))
  | Node KTd cbs _ cnm _ =>
      let nb := bs ++ skipn n cbs in
      Some (Node KTd nb dv (match cnm with Some _ => if Nat.eqb (List.length nb) (List.length cbs) then cnm else None | None => None end) [])
  | Node KNt _ _ _ _ => None
  end.

Fixpoint map_opt {A B : Type} (f : A -> option B) (l : list A) : option (list B) :=
  match l with
  | [] => Some []
  | a :: r => match f a, map_opt f r with Some b, Some r' => Some (b :: r') | _, _ => None end
  end.

Section with_rec.
  (* rec ix value node = node[ix] = value for a tensordict value (write_td below, one unit of fuel less) *)
  Variable rec : idx -> tree -> tree -> tree * outcome.

  (* TensorDict._set_at_str(key, item, ix, validated=True) *)
  Definition at_str (k : string) (item : tree) (ix : idx) (self : tree) : tree * outcome :=
    match self with
    | Node KTd bs dv nm es =>
        match aget k es with
        | None => (self, Raised)
        | Some (Leaf dsh dd) =>
            match item with
            | Leaf vsh vd => (self, leaf_write dsh dd ix vsh vd)
            | Node KNt _ _ _ _ => (self, Unmodelled)
            | Node KTd _ _ _ _ => (self, Raised)               (* tensor[ix] = tensordict: TypeError *)
            end
        | Some (Node KTd cb cd cn ce) =>
            match item with
            | Leaf vsh vd => (self, write_leaf ix vsh vd (Node KTd cb cd cn ce))
            | Node KTd _ _ _ _ =>
                let '(c', o) := rec ix item (Node KTd cb cd cn ce) in (Node KTd bs dv nm (aset k c' es), o)
            | Node KNt _ _ _ _ => (self, Unmodelled)
            end
        | Some (Node KNt _ _ _ _) => (self, Unmodelled)
        end
    | _ => (self, Unmodelled)
    end.

  (* self._get_sub_tensordict(ix).set(k, item, inplace=True) for a key k that self does not hold:
     _SubTensorDict._set_str — validation against the indexed batch size ibs, pre-allocation in the parent, write.
     Dim names (the indexed names of the source, refine_names of the value, the raising names setter of the
     sub-tensordict) are outside the model: a named side with a tensordict item is Unmodelled. *)
  Definition sub_set (k : string) (item : tree) (ix : idx) (ibs : list nat) (self : tree) : tree * outcome :=
    match self with
    | Node KTd bs dv nm es =>
        let n := List.length ibs in
        let check := negb (Nat.eqb n 0) in
        if check && is_node item && (has_names self || has_names item) then (self, Unmodelled)
        else
          match snd (validate_tree (Node KTd ibs dv None []) item) with
          | Err => (self, Raised)
          | Unm => (self, Unmodelled)
          | Ok v2 =>
              let created : option tree :=
                match v2 with
                | Leaf _ _ => expand_entry bs n dv v2        (* torch.zeros(( *parent.batch_size, *value.shape[n:]), device=self.device) *)
                | Node KTd vbs _ vnm ves =>
                    (* _expand_to_match_shape: `if not parent_batch_size and self_batch_dims == 1: data.new_zeros(data.shape[1:])`
                       (a None index on a tensordict without batch dims) is left unmodelled for tensordict items *)
                    if Nat.eqb (List.length bs) 0 && Nat.eqb n 1 then None
                    else
                      match expand_entry bs n dv v2, map_opt (fun kv => option_map (pair (fst kv)) (expand_entry bs n dv (snd kv))) ves with
                      | Some (Node _ nb ndv nnm _), Some ces => Some (Node KTd nb ndv nnm ces)
                      | _, _ => None
                      end
                | Node KNt _ _ _ _ => None
                end in
              match created with
              | None => (self, Unmodelled)
              | Some c => at_str k v2 ix (Node KTd bs dv nm (aset k c es))
              end
          end
    | _ => (self, Unmodelled)
    end.
End with_rec.

Definition node_ents (t : tree) : ents := match t with Node _ _ _ _ es => es | Leaf _ _ => [] end.

(* node[ix] = tensordict value  (__setitem__, tensordict branch) *)
Fixpoint write_td (fuel : nat) (ix : idx) (v self : tree) {struct fuel} : tree * outcome :=
  match fuel with
  | O => (self, Unmodelled)
  | S f =>
      match self, v with
      | Node KTd bs dv nm es, Node KTd vbs vdv vnm ves =>
          match C03_Index.convert_ellipsis ix bs with
          | C03_Index.Reject => (self, Raised)
          | C03_Index.Ok ix1 =>
              if idx_unm ix1 then (self, Unmodelled)
              else
                match C03_Index.gbs bs ix1 with
                | C03_Index.Reject => (self, Raised)
                | C03_Index.Ok ibs =>
                    (* `elif value.device != self.device: value = value.to(self.device)` (to(None) is the identity) *)
                    let cast_fails := match dv with
                                      | Some CPU => negb (odev_eqb vdv (Some CPU)) && has_meta v
                                      | _ => false
                                      end in
                    let v1 := match dv with
                              | Some d => if odev_eqb vdv (Some d) then v else to_dev d v
                              | None => v
                              end in
                    if cast_fails then (self, Raised)
                    else
                      let r2 : res tree :=
                        if shape_eqb (tshape v1) ibs then Ok v1
                        else if C03_Index.is_suffix (tshape v1) ibs
                             then (if no_names v1 then Ok (retarget (List.length (tshape v1)) ibs v1) else Unm)
                             else let '(v', ok) := set_bs true v1 ibs in if ok then Ok v' else Err in
                      match r2 with
                      | Err => (self, Raised)
                      | Unm => (self, Unmodelled)
                      | Ok v2 =>
                          let keys0 := map fst es in
                          seq_steps
                            (fun (kc : string * tree) (s : tree) =>
                               if smem (fst kc) keys0 then at_str (write_td f) (fst kc) (snd kc) ix1 s
                               else sub_set (write_td f) (fst kc) (snd kc) ix1 ibs s)
                            (node_ents v2) self
                      end
                end
          end
      | Node KTd _ _ _ _, _ => (self, Unmodelled)
      | _, _ => (self, Unmodelled)
      end
  end.

Definition wfuel (v self : tree) : nat := S (S (depth v + depth self)).

Definition all_vtree (items : list (string * value)) : bool :=
  forallb (fun kv => match snd kv with VTree _ => true | _ => false end) items.

(* td[ix] = value *)
Definition setitem_idx (ix : idx) (v : value) (self : tree) : tree * outcome :=
  match self with
  | Node KTd bs dv nm es =>
      match v with
      | VTree (Leaf vsh vd) => if idx_unm ix then (self, Unmodelled) else (self, write_leaf ix vsh vd self)
      | VTree (Node KTd vb vd vn ve) => write_td (wfuel (Node KTd vb vd vn ve) self) ix (Node KTd vb vd vn ve) self
      | VTree (Node KNt _ _ _ _) => (self, Unmodelled)
      | VStr => (self, Unmodelled)
      | VDict items =>
          (* from_dict_instance(value, batch_size=indexed, device=self.device): TensorDict.from_dict(.., batch_size=[])
             then `out.batch_size = indexed`.  Nested dicts take another path (left unmodelled). *)
          if negb (all_vtree items) then (self, Unmodelled)
          else
            match C03_Index.convert_ellipsis ix bs with
            | C03_Index.Reject => (self, Raised)
            | C03_Index.Ok ix1 =>
                if idx_unm ix1 then (self, Unmodelled)
                else
                  match C03_Index.gbs bs ix1 with
                  | C03_Index.Reject => (self, Raised)
                  | C03_Index.Ok ibs =>
                      match conv v (Node KTd [] dv None []) with
                      | Err => (self, Raised)
                      | Unm => (self, Unmodelled)
                      | Ok t0 =>
                          let '(t1, ok) := set_bs true t0 ibs in
                          if ok then write_td (wfuel t1 self) ix1 t1 self else (self, Raised)
                      end
                  end
            end
      end
  | _ => (self, Unmodelled)
  end.

(* _set_at_str(key, value, ix, validated=False): _validate_value(check_shape=False) — only the device cast — then the write *)
Definition at_str_unvalidated (k : string) (v : value) (ix : idx) (self : tree) : tree * outcome :=
  match self with
  | Node KTd bs dv nm es =>
      match v with
      | VTree t =>
          let cast_fails := match dv with
                            | Some CPU => negb (odev_eqb (tdev t) (Some CPU)) && has_meta t
                            | _ => false
                            end in
          let t1 := match dv with
                    | Some d => if odev_eqb (tdev t) (Some d) then t else to_dev d t
                    | None => t
                    end in
          if idx_unm ix then (self, Unmodelled)
          else if cast_fails then (self, Raised)
          else at_str (write_td (wfuel t1 self)) k t1 ix self
      | _ => (self, Unmodelled)
      end
  | _ => (self, Unmodelled)
  end.

(* set_at_(key, value, ix)  (_set_at_tuple) *)
Fixpoint set_at (p : list string) (v : value) (ix : idx) (self : tree) : tree * outcome :=
  match self with
  | Node KTd bs dv nm es =>
      match p with
      | [] => (self, Raised)
      | [k] => at_str_unvalidated k v ix self
      | k :: rest =>
          match aget k es with
          | None => (self, Raised)
          | Some (Leaf _ _) => (self, Raised)
          | Some (Node KNt _ _ _ _) => (self, Unmodelled)
          | Some (Node KTd cb cd cn ce) =>
              let '(c', o) := set_at rest v ix (Node KTd cb cd cn ce) in (Node KTd bs dv nm (aset k c' es), o)
          end
      end
  | _ => (self, Unmodelled)
  end.

(* update_at_(source, ix): one set_at_ per item of the source, in order; `idx == ()` is update_ (not modelled) *)
Definition update_at (v : value) (ix : idx) (self : tree) : tree * outcome :=
  match ix with
  | [] => (self, Unmodelled)
  | _ =>
      match v with
      | VDict items =>
          seq_steps (fun (kv : string * value) (s : tree) =>
                       match snd kv with
                       | VTree _ => set_at [fst kv] (snd kv) ix s
                       | _ => (s, Raised)                        (* not in _ACCEPTED_CLASSES: TypeError *)
                       end) items self
      | VTree (Node KTd _ _ _ ves) =>
          seq_steps (fun (kc : string * tree) (s : tree) => set_at [fst kc] (VTree (snd kc)) ix s) ves self
      | _ => (self, Unmodelled)
      end
  end.

(* ---- the three public calls as ops on a node, and at a handle ---- *)
Inductive iop :=
| ISetItem (ix : idx) (v : value)
| ISetAt (key : list string) (ix : idx) (v : value)
| IUpdateAt (v : value) (ix : idx).

Definition inode_step (o : iop) (self : tree) : tree * outcome :=
  match o with
  | ISetItem ix v => setitem_idx ix v self
  | ISetAt key ix v => if through_nt key self then (self, Unmodelled) else set_at key v ix self
  | IUpdateAt v ix => update_at v ix self
  end.

Definition istep (t : tree) (path : list string) (o : iop) : tree * outcome := at_path path (inode_step o) t.

Definition iop_value (o : iop) : value := match o with ISetItem _ v | ISetAt _ _ v | IUpdateAt v _ => v end.
