(* C20 — the thread-pool form of apply (_fast_apply(num_threads=n)):
     base.py::_multithread_apply_nest   flat phase (submit one task per leaf), then rebuild
     _td.py::_multithread_apply_flat    futures appended to the flat list and to the nested `local_futures`;
                                        the nested call forwards default= (not call_on_nested=, as _apply_nest)
     _td.py::_multithread_rebuild       zip(self.keys(), local_futures); the nested rebuild receives out[key]; names= is
                                        not forwarded; the filter_empty rule of _apply_nest; the result is created eagerly;
                                        non-tensor entries: a copy of self's entry (as _apply_nest)
   (as of the repairs of S15 / S16 / C12-b / C12-c / C20-d / C20-g; before them: default= dropped below the root, the ROOT out and
    the ROOT names handed to every nested rebuild, `filter_empty and not any_set` only, device != out.device always raised)
   Tasks complete in an arbitrary order [pi]; the rebuild reads each result with Future.result().
   Definitions only. *)
From Coq Require Import ZArith List String Bool.
Import ListNotations.
From TD Require Import Model.C20_Apply.
Open Scope string_scope.

Section Sched.
Variable A : Type.
Variable o : opts.
Variable fn : option (list string) -> tree A -> list (option (tree A)) -> option A.

(* local_futures: positional, nested like the tensordict; ids index the flat list `futures` *)
Inductive lf := LFut (id : nat) | LList (l : list lf).
Record task := mkTask { tk_key : option (list string); tk_item : tree A; tk_args : list (option (tree A)) }.

(* the flat phase: the tasks in submission order and the nested local_futures; ids start at [base] *)
Fixpoint flat_items (dflt con : bool) (prefix : list string) (sm : meta) (sf : forest A) (others : list (tree A))
         (items : forest A) (base : nat) {struct items} : res (list task * list lf) :=
  match items with
  | FNil => Ok ([], [])
  | FCons k item rest =>
      let here : res (list task * lf) :=
        if negb con && negb (o_is_leaf o (kind_of A item)) then
          bind (others_node A dflt (stand_in A item) others k) (fun others' =>
          match item with
          | Node _ im g =>
              (* item._multithread_apply_flat(fn, *_others, default=…, named=…, nested_keys=…, prefix=…, is_leaf=…, …):
                 call_on_nested= is not forwarded (as in _apply_nest) *)
              bind (flat_items dflt false (prefix ++ [k])%list im g others' g base) (fun tl => Ok (fst tl, LList (snd tl)))
          | NonT _ _ _ => Ok ([], LList [])          (* a non-tensor entry holds no tensor: no task *)
          | Leaf _ _ => Raised EAttr
          end)
        else
          bind (others_leaf A dflt others k) (fun args =>
          Ok ([mkTask (keyarg o prefix k) item args], LFut base)) in
      bind here (fun h =>
      bind (flat_items dflt con prefix sm sf others rest (base + List.length (fst h))) (fun r =>
      Ok ((fst h ++ fst r)%list, snd h :: snd r)))
  end.

(* the pool: tasks complete in the order [pi] (a list of task ids) *)
Definition exec (t : task) : option A := fn (tk_key t) (tk_item t) (tk_args t).
Definition run_tasks (tasks : list task) (pi : list nat) : list (nat * option A) :=
  flat_map (fun id => match nth_error tasks id with Some t => [(id, exec t)] | None => [] end) pi.
Fixpoint log_get (log : list (nat * option A)) (id : nat) : option (option A) :=
  match log with
  | [] => None
  | (i, r) :: rest => if Nat.eqb i id then Some r else log_get rest id
  end.

Inductive mres (X : Type) :=
| MOk (x : X)
| MRaised (e : err)
| MCyclic            (* (before the repair of S16) out[key] = out: the structure that is returned contains itself *)
| MStuck             (* a future that never completes / positional mismatch (zip strict) *)
| MUnmodelled.
Arguments MOk {X} x.
Arguments MRaised {X} e.
Arguments MCyclic {X}.
Arguments MStuck {X}.
Arguments MUnmodelled {X}.
Definition mbind {X Y} (r : mres X) (f : X -> mres Y) : mres Y :=
  match r with MOk x => f x | MRaised e => MRaised e | MCyclic => MCyclic | MStuck => MStuck | MUnmodelled => MUnmodelled end.
Definition of_res {X} (r : res X) : mres X :=
  match r with Ok x => MOk x | Raised e => MRaised e | Unmodelled => MUnmodelled end.

Variable log : list (nat * option A).

(* the three setters of _multithread_rebuild *)
Definition set_item_mt (r : racc A) (k : string) (v : tree A) : res (racc A) :=
  if o_checked o && negb (o_inplace o) then Ok (mkAcc A (r_obj A r) (r_meta A r) (fset A (r_f A r) k v))   (* result._tensordict[key] = item_trsf *)
  else set_item A o r k v.

(* the beginning of _multithread_rebuild: the same choices and checks as _apply_nest, the result created at once *)
Definition rebuild_init (so : obj) (sm : meta) (sf : forest A) (out : option (tree A)) (names : option dnames) : res (racc A) :=
  bind (level_init A o so sm sf out) (fun i => Ok (match i with Some a => a | None => make_result A o sm names end)).

(* a non-tensor entry: NonTensorData._multithread_rebuild returns what NonTensorData._apply_nest returns — a copy of self's
   entry with the batch_size / device overrides, whatever out= holds under the key (repair of C20-g; before it: the wrapped
   empty tensordict was rebuilt into out[key] and re-wrapped, so the new entry carried the metadata of out[key], and in
   place the entry itself was handed back) *)

(* [out]: the out= of this level (the object being written when not in place) *)
Fixpoint rebuild_items (out : option (tree A)) (sf : forest A) (items : forest A) (lfs : list lf) (acc : racc A) (any : bool)
         {struct items} : mres (racc A * bool) :=
  match items, lfs with
  | FNil, [] => MOk (acc, any)
  | FCons k item rest, l :: lrest =>
      match l with
      | LFut id =>
          match log_get log id with
          | None => MStuck
          | Some (Some a) =>
              mbind (of_res (set_item_mt acc k (Leaf New (VNew a)))) (fun acc' => rebuild_items out sf rest lrest acc' true)
          | Some None => rebuild_items out sf rest lrest acc any
          end
      | LList sub =>
          (* out._get_str(key, default=None) if out is not None else None — out is the object being written *)
          let out_now := match out with Some _ => if o_inplace o then out else Some (acc_tree A acc) | None => None end in
          mbind (of_res (out_child A out_now k)) (fun out_k =>
          match item with
          | Leaf _ _ => MStuck
          | Node io im g =>
              mbind (of_res (rebuild_init io im g out_k None)) (fun init =>
              mbind (rebuild_items out_k g g sub init false) (fun ra =>
              match level_finish A o im g None (Some (fst ra)) (snd ra) with
              | Some v => mbind (of_res (set_item_mt acc k v)) (fun acc' => rebuild_items out sf rest lrest acc' true)
              | None => rebuild_items out sf rest lrest acc any
              end))
          | NonT io d im =>
              mbind (of_res (set_item_mt acc k (nont_apply A o d im out_k))) (fun acc' => rebuild_items out sf rest lrest acc' true)
          end)
      end
  | _, _ => MStuck
  end.

End Sched.

Arguments MOk {X} x.
Arguments MRaised {X} e.
Arguments MCyclic {X}.
Arguments MStuck {X}.
Arguments MUnmodelled {X}.

Section Front.
Variable A : Type.
Variable o : opts.
Variable fn : option (list string) -> tree A -> list (option (tree A)) -> option A.

(* _fast_apply(…, num_threads=n) = _multithread_apply_nest, then propagate_lock *)
Definition mt_front (con propagate : bool) (self : tree A) (others : list (tree A)) (out : option (tree A))
           (names : option dnames) (pi : list nat) : mres (option (tree A)) :=
  match self with
  | Node so sm sf =>
      mbind (of_res (flat_items A o (o_default o) con [] sm sf others sf 0)) (fun tl =>
      let log := run_tasks A fn (fst tl) pi in
      mbind (of_res (rebuild_init A o so sm sf out names)) (fun init =>
      mbind (rebuild_items A o log out sf sf (snd tl) init false) (fun ra =>
      let r := level_finish A o sm sf names (Some (fst ra)) (snd ra) in
      MOk (if propagate && negb (o_inplace o) && m_lock sm then option_map (t_lock A) r else r))))
  | _ => MUnmodelled
  end.

Definition st_front (con propagate : bool) (self : tree A) (others : list (tree A)) (out : option (tree A))
           (names : option dnames) : mres (option (tree A)) :=
  of_res (front A o fn con propagate self others out names).

(* number of tasks the flat phase submits *)
Fixpoint ntasks (con : bool) (f : forest A) : nat :=
  match f with
  | FNil => 0
  | FCons _ t r =>
      (if negb con && negb (o_is_leaf o (kind_of A t)) then
         match t with Node _ _ g => ntasks false g | _ => 0 end
       else 1) + ntasks con r
  end.
End Front.
