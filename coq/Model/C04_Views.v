(* C04 — model of the key / item / value views of a TensorDict for every include_nested x leaves_only x sort x is_leaf
   combination: _TensorDictKeysView.__iter__ / _iter_helper / __len__ (_td.py:4459-4515), TensorDict.keys / items /
   values fast paths (_td.py:3374-3493), TensorDictBase.items / values (base.py:7151-7290), to_dict (base.py:11658).
   Definitions only.  A key is printed as its path; a path of length one is the bare string in python. *)
From Coq Require Import ZArith List String Bool Ascii.
Import ListNotations.
From TD Require Import Model.C04_Tree.
Open Scope string_scope.
Open Scope list_scope.

(* sorted(..., key=lambda k: ".".join(k)): python's sort is stable; insertion from the right keeps ties in order *)
Definition sort_name (p : list string) : string := join "." p.

Fixpoint insert_by {A} (name : A -> string) (x : A) (l : list A) : list A :=
  match l with
  | [] => [x]
  | y :: r => if String.leb (name x) (name y) then x :: y :: r else y :: insert_by name x r
  end.

Definition sort_by {A} (name : A -> string) (l : list A) : list A := fold_right (insert_by name) [] l.

(* _iter_helper: the children of a nested node come BEFORE the node itself; a NonTensorData is not descended into *)
Fixpoint iter_helper (lo nt : bool) (prefix : list string) (v : tree) : list (list string) :=
  match v with
  | Leaf _ _ => []
  | Node es =>
      (fix go (es : ents) : list (list string) :=
         match es with
         | [] => []
         | (k, w) :: r =>
             (match w with Node _ => iter_helper lo nt (prefix ++ [k]) w | Leaf _ _ => [] end)
             ++ (if negb lo || is_leafb nt w then [prefix ++ [k]] else [])
             ++ go r
         end) es
  end.

Definition keys_unsorted (inc lo nt : bool) (es : ents) : list (list string) :=
  if inc then iter_helper lo nt [] (Node es)
  else map (fun kv => [fst kv]) (if lo then filter (fun kv => is_leafb nt (snd kv)) es else es).

(* td.keys(include_nested, leaves_only, is_leaf, sort=...) iterated.  (The _StringKeys fast path for the flag-free call
   yields the same sequence: the dict keys, sorted by themselves when sort=True.) *)
Definition keys_view (inc lo so nt : bool) (es : ents) : list (list string) :=
  let l := keys_unsorted inc lo nt es in if so then sort_by sort_name l else l.

(* items: the node comes BEFORE its children (base.py:7199-7221); the (include_nested, leaves_only, unsorted) fast path
   of TensorDict.items lists the same leaves in the same order *)
Fixpoint items_pre (lo nt : bool) (prefix : list string) (v : tree) : list (list string * tree) :=
  match v with
  | Leaf _ _ => []
  | Node es =>
      (fix go (es : ents) : list (list string * tree) :=
         match es with
         | [] => []
         | (k, w) :: r =>
             (if negb lo || is_leafb nt w then [(prefix ++ [k], w)] else [])
             ++ (match w with Node _ => items_pre lo nt (prefix ++ [k]) w | Leaf _ _ => [] end)
             ++ go r
         end) es
  end.

Definition items_unsorted (inc lo nt : bool) (es : ents) : list (list string * tree) :=
  if inc then items_pre lo nt [] (Node es)
  else map (fun kv => ([fst kv], snd kv)) (if lo then filter (fun kv => is_leafb nt (snd kv)) es else es).

Definition items_view (inc lo so nt : bool) (es : ents) : list (list string * tree) :=
  let l := items_unsorted inc lo nt es in if so then sort_by (fun kv => sort_name (fst kv)) l else l.

(* values: the values of the items (after the fix of D41 the flag-free sorted call no longer indexes an empty zip) *)
Definition values_view (inc lo so nt : bool) (es : ents) : res (list tree) :=
  Ok (map snd (items_view inc lo so nt es)).

Definition len_view (inc lo so nt : bool) (es : ents) : nat := List.length (keys_view inc lo so nt es).

(* to_dict: the nested dict with the same keys in the same order *)
Definition to_dict (es : ents) : ents := es.
