(* C13 — model of swapping parameters into a module (definitions only).
   Transcribed from /repo:
     tensordict/_td.py        TensorDict._from_module (:386), TensorDict._to_module (:467), _set_tensor_dict (:4602)
     tensordict/base.py       TensorDictBase.to_module (:2655), __enter__/__exit__ (:11347)
     tensordict/utils.py      _as_context_manager (:1033)
     tensordict/_contextlib.py _reverse_to_module (:331)
     torch.nn.utils._named_member_accessor.swap_tensor (path taken for module types with their own __setattr__)
   Objects are identities (oid) with an immutable class (nn.Parameter / Buffer / plain tensor) and a storage id; the
   numeric content lives in a store indexed by storage (only in-place copies write it).  Python dicts are association
   lists in insertion order.  Errors are explicit results that carry the state the code leaves behind. *)
From Coq Require Import ZArith List String Bool.
Import ListNotations.
Open Scope string_scope.
Open Scope list_scope.

(* ------------------------------------------------------------------ objects *)
Inductive okind := KParam | KBuffer | KPlain.
Record obj := mkObj { oid : Z; okd : okind; ostor : Z }.

Definition okind_eqb (a b : okind) : bool :=
  match a, b with KParam, KParam | KBuffer, KBuffer | KPlain, KPlain => true | _, _ => false end.
Definition obj_eqb (a b : obj) : bool := (oid a =? oid b)%Z && okind_eqb (okd a) (okd b) && (ostor a =? ostor b)%Z.
Definition is_param (o : obj) : bool := match okd o with KParam => true | _ => false end.

(* ------------------------------------------------------------------ Python dict = association list, insertion order *)
Section Dict.
  Context {V : Type}.
  Fixpoint d_get (d : list (string * V)) (k : string) : option V :=
    match d with [] => None | (k', v) :: r => if String.eqb k k' then Some v else d_get r k end.
  (* d.pop(k) / del d[k]: keys are unique in a Python dict; the model removes every entry with that key, which is
     the same thing on a list with unique keys *)
  Fixpoint d_del (d : list (string * V)) (k : string) : list (string * V) :=
    match d with [] => [] | (k', v) :: r => if String.eqb k k' then d_del r k else (k', v) :: d_del r k end.
  (* d[k] = v : in place when the key exists, appended otherwise *)
  Fixpoint d_set (d : list (string * V)) (k : string) (v : V) : list (string * V) :=
    match d with [] => [(k, v)] | (k', v') :: r => if String.eqb k k' then (k', v) :: r else (k', v') :: d_set r k v end.
  Definition d_mem (d : list (string * V)) (k : string) : bool := match d_get d k with Some _ => true | None => false end.
End Dict.

Section ZDict.
  Context {V : Type}.
  Fixpoint z_get (d : list (Z * V)) (k : Z) : option V :=
    match d with [] => None | (k', v) :: r => if (k =? k')%Z then Some v else z_get r k end.
  Fixpoint z_set (d : list (Z * V)) (k : Z) (v : V) : list (Z * V) :=
    match d with [] => [(k, v)] | (k', v') :: r => if (k =? k')%Z then (k', v) :: r else (k', v') :: z_set r k v end.
End ZDict.

(* ------------------------------------------------------------------ modules *)
Record mnode := mkNode {
  m_custom : bool;                          (* type(module).__setattr__ is not nn.Module.__setattr__ *)
  m_params : list (string * option obj);    (* module._parameters (None entries allowed) *)
  m_bufs   : list (string * option obj);    (* module._buffers *)
  m_attrs  : list (string * obj);           (* tensor-valued entries of module.__dict__ *)
  m_subs   : list (string * option Z) }.    (* module._modules: ids of children (None entries allowed) *)

Definition heap := list (Z * mnode).

Definition with_params n p := mkNode (m_custom n) p (m_bufs n) (m_attrs n) (m_subs n).
Definition with_bufs n b := mkNode (m_custom n) (m_params n) b (m_attrs n) (m_subs n).
Definition with_attrs n a := mkNode (m_custom n) (m_params n) (m_bufs n) a (m_subs n).

(* t_saved: memo["inplace"] of the current public to_module call (repair of D134): id(out) -> the clone taken the first
   time the object was overwritten in place *)
Record tstate := mkSt { t_heap : heap; t_vals : list (Z * Z); t_next : Z; t_saved : list (Z * obj) }.

Definition FRESH_BASE : Z := 1000000.

Definition st_heap st h := mkSt h (t_vals st) (t_next st) (t_saved st).
Definition clear_saved st := mkSt (t_heap st) (t_vals st) (t_next st) [].
Definition val_of (st : tstate) (o : obj) : option Z := z_get (t_vals st) (ostor o).

(* a new tensor object *)
Definition fresh_clone (st : tstate) (o : obj) : obj * tstate :=
  let c := mkObj (t_next st) KPlain (t_next st) in     (* x.clone(): plain tensor, own storage, same content *)
  let vals := match val_of st o with Some v => z_set (t_vals st) (ostor c) v | None => t_vals st end in
  (c, mkSt (t_heap st) vals (t_next st + 1)%Z (t_saved st)).
Definition fresh_wrap (st : tstate) (k : okind) (o : obj) : obj * tstate :=
  (mkObj (t_next st) k (ostor o), mkSt (t_heap st) (t_vals st) (t_next st + 1)%Z (t_saved st)).  (* nn.Parameter(x) / Buffer(x): shares x's storage *)
Definition copy_into (st : tstate) (dst src : obj) : tstate :=     (* dst.data.copy_(src.data) *)
  match val_of st src with
  | Some v => mkSt (t_heap st) (z_set (t_vals st) (ostor dst) v) (t_next st) (t_saved st)
  | None => st
  end.

(* ------------------------------------------------------------------ parameter tensordicts / swap dicts *)
Inductive ptd := PTD (ents : list (string * pent))
with pent := PLeaf (o : option obj) | PSub (t : ptd).

Definition p_ents (t : ptd) := match t with PTD e => e end.

Inductive exn := EInject | EInjectBase | EKeyError | ETypeError | EAttrError | EOther.
Definition is_Exception (e : exn) : bool := match e with EInjectBase => false | _ => true end.

(* ------------------------------------------------------------------ _set_tensor_dict (_td.py:4602) *)
(* result: the node afterwards, and Some out / None when __dict__.pop(name) raised KeyError.
   Switches (true = the code after the fix: commit; false = the behaviour that was found, kept as a witness):
   f131  a value popped from _buffers goes back into _buffers whatever its class (before: an nn.Parameter given for a
         buffer name went to _parameters, and on the way back the buffer, found nowhere in _buffers, ended in __dict__)
   f134  in-place path: an object overwritten a second time in one to_module call (tied under two names) keeps the
         clone saved the first time (before: a clone of the current content, i.e. of the first supplied value) *)
Definition save_clone (st : tstate) (o c : obj) : tstate :=
  mkSt (t_heap st) (t_vals st) (t_next st) (z_set (t_saved st) (oid o) c).

Definition set_tensor_dict_gen (f131 f134 : bool) (n : mnode) (name : string) (tensor : obj) (inplace : bool) (st : tstate)
  : mnode * option obj * tstate :=
  (* out = _parameters.pop(name, None) *)
  let po := d_get (m_params n) name in
  let n1 := match po with Some _ => with_params n (d_del (m_params n) name) | None => n end in
  let found1 := match po with Some (Some o) => Some o | _ => None end in
  (* if out is None: out = _buffers.pop(name, None); was_buffer = out is not None *)
  let bo := match found1 with Some _ => None | None => d_get (m_bufs n1) name end in
  let n2 := match found1, bo with None, Some _ => with_bufs n1 (d_del (m_bufs n1) name) | _, _ => n1 end in
  let found2 := match bo with Some (Some o) => Some o | _ => None end in
  let was_buffer := match found2 with Some _ => true | None => false end in
  (* if out is None: out = __dict__.pop(name) *)
  let r3 := match found1, found2 with
            | Some o, _ => Some (o, n2)
            | None, Some o => Some (o, n2)
            | None, None => match d_get (m_attrs n2) name with
                            | Some o => Some (o, with_attrs n2 (d_del (m_attrs n2) name))
                            | None => None
                            end
            end in
  match r3 with
  | None => (n2, None, st)                                      (* KeyError; the pops already happened *)
  | Some (out, n3) =>
      let '(tensor', out', st') :=
        if inplace then
          match (if f134 then z_get (t_saved st) (oid out) else None) with
          | Some c => (out, c, copy_into st out tensor)          (* id(out) in saved: out_tmp = saved[id(out)] *)
          | None =>
              let '(c, st1) := fresh_clone st out in            (* out_tmp = out.clone() *)
              let st1' := if f134 then save_clone st1 out c else st1 in
              (out, c, copy_into st1' out tensor)               (* out.data.copy_(tensor.data); tensor, out = out, out_tmp *)
          end
        else (tensor, out, st) in
      let n4 :=
        if f131 && was_buffer then with_bufs n3 (d_set (m_bufs n3) name (Some tensor'))
        else if is_param tensor' then with_params n3 (d_set (m_params n3) name (Some tensor'))
        else if was_buffer then with_bufs n3 (d_set (m_bufs n3) name (Some tensor'))
        else with_attrs n3 (d_set (m_attrs n3) name tensor') in
      (n4, Some out', st')
  end.

Definition fixed_D131 : bool := true.
Definition fixed_D134 : bool := true.
Definition set_tensor_dict := set_tensor_dict_gen fixed_D131 fixed_D134.

(* ------------------------------------------------------------------ torch's swap_tensor (custom __setattr__ path) *)
Inductive swapres := SwOk (n : mnode) (orig : option obj) | SwErr (e : exn).
Definition swap_tensor (n : mnode) (name : string) (tensor : obj) : swapres :=
  match d_get (m_params n) name with
  | Some orig => SwOk (with_params n (d_set (m_params n) name (Some tensor))) orig
  | None =>
    match d_get (m_bufs n) name with
    | Some orig => SwOk (with_bufs n (d_set (m_bufs n) name (Some tensor))) orig
    | None =>
      match d_get (m_attrs n) name with
      | Some orig =>
          (* setattr(module, name, tensor): a Parameter is registered, anything else stays a plain attribute *)
          if is_param tensor
          then SwOk (with_params (with_attrs n (d_del (m_attrs n) name)) (d_set (m_params n) name (Some tensor))) (Some orig)
          else SwOk (with_attrs n (d_set (m_attrs n) name tensor)) (Some orig)
      | None => if d_mem (m_subs n) name then SwErr ETypeError else SwErr EAttrError
      end
    end
  end.

(* ------------------------------------------------------------------ _to_module (_td.py:467) *)
Record tmcfg := mkCfg { c_inplace : option bool; c_return_swap : bool; c_usd : bool }.

Definition memo_t := list (Z * ptd).

Inductive tmres := TmOk (st : tstate) (memo : memo_t) (swap : ptd) | TmErr (st : tstate) (e : exn).

Definition h_get (h : heap) (m : Z) : option mnode := z_get h m.
Definition h_set (h : heap) (m : Z) (n : mnode) : heap := z_set h m n.

Definition is_leaf_ent (e : string * pent) : bool := match snd e with PLeaf _ => true | PSub _ => false end.

(* flatten_keys drops sub-tensordicts without any leaf *)
Fixpoint ptd_empty (t : ptd) : bool :=
  match t with PTD ents =>
    (fix go (l : list (string * pent)) : bool :=
       match l with
       | [] => true
       | (_, PLeaf _) :: _ => false
       | (_, PSub t') :: r => ptd_empty t' && go r
       end) ents
  end.

(* a None value somewhere in the tensordict (only a swap returned for a custom-__setattr__ module can hold one):
   flatten_keys(".") raises AttributeError on it *)
Fixpoint ptd_has_none (t : ptd) : bool :=
  match t with PTD ents =>
    (fix go (l : list (string * pent)) : bool :=
       match l with
       | [] => false
       | (_, PLeaf None) :: _ => true
       | (_, PLeaf (Some _)) :: r => go r
       | (_, PSub t') :: r => ptd_has_none t' || go r
       end) ents
  end.

(* Switches for repaired defects (true = the code after the fix: commit; false = the behaviour that was found):
   D6   __exit__ returned early, without inverting to_module, when the body raised an Exception
   D132 convert_type re-wrapped every Parameter/Buffer (nn.Parameter(x) / Buffer(x)) under use_state_dict
   D133 _reverse_to_module re-issued to_module with the recorded swap_dest keyword as well (TypeError) *)
Definition fixed_D6 : bool := true.
Definition fixed_D132 : bool := true.
Definition fixed_D133 : bool := true.

(* convert_type under use_state_dict: a value is re-wrapped only when it does not already have the class of the
   original (x and y are the same object unless a state-dict hook replaced x, which the model does not have);
   before the repair of D132 Parameters and Buffers were always re-wrapped, plain tensors pass *)
Definition usd_wrap (st : tstate) (o : obj) : obj * tstate :=
  if fixed_D132 then (o, st) else
  match okd o with
  | KParam => fresh_wrap st KParam o
  | KBuffer => fresh_wrap st KBuffer o
  | KPlain => (o, st)
  end.

(* One leaf entry `key: tensor` of the loop `for key, value in input.items()`.
   Result: state afterwards, and either the value stored in the swap (Some out; out may be None in the
   custom-__setattr__ path, where torch's swap_tensor returns the None held by the slot) or the exception class.
   (In the custom path with inplace=True the code reads the local variable local_out before assigning it:
   UnboundLocalError, or AttributeError when an earlier entry bound it to a dict; both are EAttrError here.) *)
Definition leaf_step (cfg : tmcfg) (m : Z) (key : string) (x : obj) (st : tstate) : tstate * (option obj + exn) :=
  let inplace := match c_inplace cfg with Some b => b | None => false end in
  match h_get (t_heap st) m with
  | None => (st, inr EOther)
  | Some node =>
      if m_custom node then
        if inplace then (st, inr EAttrError)
        else
          let '(x', st1) := if c_usd cfg then usd_wrap st x else (x, st) in
          match swap_tensor node key x' with
          | SwErr e => (st1, inr e)
          | SwOk node' orig => (st_heap st1 (h_set (t_heap st1) m node'), inl orig)
          end
      else
        let '(x', st1) := if c_usd cfg then usd_wrap st x else (x, st) in
        let '(node', out, st2) := set_tensor_dict node key x' inplace st1 in
        let st3 := st_heap st2 (h_set (t_heap st2) m node') in
        match out with
        | None => (st3, inr EKeyError)
        | Some o => (st3, inl (Some o))
        end
  end.

Definition push (cfg : tmcfg) (acc : list (string * pent)) (key : string) (v : pent) : list (string * pent) :=
  if c_return_swap cfg then acc ++ [(key, v)] else acc.

(* The loop over the entries, with the recursive call on sub-tensordicts passed as [rec] (to_mod below instantiates
   it with itself; the recursion is structural on the tensordict).  [phase_leaves] only matters under
   use_state_dict, where flatten_keys(".").unflatten_keys(".") lists the leaves first and then the non-empty
   sub-tensordicts: the entries are then walked twice. *)
Definition tm_go (rec : ptd -> Z -> tstate -> memo_t -> tmres) (cfg : tmcfg) (m : Z) (custom : bool)
                 (subs : list (string * option Z)) :=
  fix go (phase_leaves : bool) (l : list (string * pent)) (st : tstate) (memo : memo_t)
         (acc : list (string * pent)) {struct l} : tstate * memo_t * list (string * pent) * option exn :=
    match l with
    | [] => (st, memo, acc, None)
    | (key, PLeaf (Some x)) :: r =>
        if c_usd cfg && negb phase_leaves then go phase_leaves r st memo acc else
        match leaf_step cfg m key x st with
        | (st', inl out) => go phase_leaves r st' memo (push cfg acc key (PLeaf out))
        | (st', inr e) => (st', memo, acc, Some e)
        end
    | (key, PLeaf None) :: r =>
        (* a None value is not a tensor: treated as a sub-module entry *)
        if c_usd cfg then go phase_leaves r st memo acc else
        if custom then (st, memo, acc, Some ETypeError)            (* module._modules.get(key) -> weakref.ref(None) *)
        else if d_mem subs key then (st, memo, acc, Some EAttrError)
        else (st, memo, acc, Some EKeyError)
    | (key, PSub t') :: r =>
        if c_usd cfg && (phase_leaves || ptd_empty t') then go phase_leaves r st memo acc else
        match d_get subs key with
        | None => (st, memo, acc, Some (if custom then ETypeError else EKeyError))
        | Some None => (st, memo, acc, Some ETypeError)            (* weakref.ref(None) *)
        | Some (Some child) =>
            match z_get memo child with
            | Some sw => go phase_leaves r st memo (push cfg acc key (PSub sw))
            | None =>
                match rec t' child st memo with
                | TmErr st' e => (st', memo, acc, Some e)
                | TmOk st' memo' sw => go phase_leaves r st' memo' (push cfg acc key (PSub sw))
                end
            end
        end
    end.

(* _to_module: the module registers its (still empty) swap dict in the memo before the loop (memo[ref(module)] =
   _swap), so a module is processed at most once per call of the public to_module when return_swap=True. *)
Fixpoint to_mod (cfg : tmcfg) (t : ptd) (m : Z) (st : tstate) (memo : memo_t) {struct t} : tmres :=
  match h_get (t_heap st) m with
  | None => TmErr st EOther                                   (* dangling module id: outside the model's domain *)
  | Some node0 =>
    if c_usd cfg && (match c_inplace cfg with Some _ => true | None => false end) then TmErr st EOther else
    if c_usd cfg && ptd_has_none t then TmErr st EAttrError else      (* self.flatten_keys(".") *)
    let memo0 := if c_return_swap cfg then z_set memo m (PTD []) else memo in
    match t with PTD ents =>
      let go := tm_go (to_mod cfg) cfg m (m_custom node0) (m_subs node0) in
      let fin (r : tstate * memo_t * list (string * pent) * option exn) : tmres :=
        match r with
        | (st2, memo2, acc2, Some e) => TmErr st2 e
        | (st2, memo2, acc2, None) => TmOk st2 (if c_return_swap cfg then z_set memo2 m (PTD acc2) else memo2) (PTD acc2)
        end in
      if c_usd cfg then
        match go true ents st memo0 [] with
        | (st1, memo1, acc1, Some e) => TmErr st1 e
        | (st1, memo1, acc1, None) => fin (go false ents st1 memo1 acc1)
        end
      else fin (go true ents st memo0 [])
    end
  end.

(* the public to_module: a fresh memo per call (module -> swap, and the in-place clones) *)
Definition to_module (cfg : tmcfg) (t : ptd) (m : Z) (st : tstate) : tmres := to_mod cfg t m (clear_saved st) [].

(* ------------------------------------------------------------------ _quick_set (closure in _to_module) *)
Definition p_get (t : ptd) (k : string) : option pent := d_get (p_ents t) k.
Definition p_set (t : ptd) (k : string) (v : pent) : ptd := PTD (d_set (p_ents t) k v).

Definition pent_is (a : option pent) (o : option obj) : bool :=
  match a, o with
  | Some (PLeaf (Some x)), Some y => obj_eqb x y
  | _, _ => false
  end.

Inductive qres := QOk (t : ptd) | QErr (e : exn).
Fixpoint quick_set (sw : ptd) (dest : ptd) {struct sw} : qres :=
  match sw with PTD ents =>
    (fix go (l : list (string * pent)) (dest : ptd) : qres :=
       match l with
       | [] => QOk dest
       | (key, PSub s') :: r =>
           match p_get dest key with
           | None => QErr EKeyError
           | Some (PLeaf _) => QErr EOther                    (* tensor._get_str: AttributeError -> RuntimeError *)
           | Some (PSub d') =>
               match quick_set s' d' with
               | QErr e => QErr e
               | QOk d'' => go r (p_set dest key (PSub d''))
               end
           end
       | (key, PLeaf o) :: r =>
           if pent_is (p_get dest key) o then go r dest else go r (p_set dest key (PLeaf o))
       end) ents dest
  end.

(* ------------------------------------------------------------------ the with-statement protocol *)

(* b_live: the tensordict to_module was called on (the SOURCE) is still referenced by someone when the block is left.
   The recorded operation only holds a weak reference to it: `with params.data.to_module(m):` leaves with a dead one. *)
Record block := mkBlock {
  b_target : Z; b_inplace : option bool; b_usd : bool; b_swap_dest : bool; b_manual : bool; b_live : bool; b_params : ptd }.

Inductive exckind := XNone | XExc | XBase.
Record excspec := mkExc { x_kind : exckind; x_level : nat; x_fires : bool }.

Inductive outcome := OOk | ORaise (e : exn).

Inductive evkind := EvInit | EvEnter | EvExit.
Record event := mkEv { ev_kind : evkind; ev_level : nat; ev_out : outcome; ev_state : tstate }.

Definition body_raise (x : excspec) (lvl : nat) : outcome :=
  match x_kind x with
  | XNone => OOk
  | XExc => if Nat.eqb (x_level x) lvl && x_fires x then ORaise EInject else OOk
  | XBase => if Nat.eqb (x_level x) lvl && x_fires x then ORaise EInjectBase else OOk
  end.

Definition cfg_of (b : block) (return_swap : bool) : tmcfg := mkCfg (b_inplace b) return_swap (b_usd b).

(* _reverse_to_module: self = swap (the object the with-statement holds), out = the source tensordict or None when
   the weak reference is dead.  What is re-installed comes from the swap alone; out is only where the values leaving the
   module are written (swap_dest=out, _quick_set), and with out = None a new tensordict is returned instead.
   AttributeError is re-raised as RuntimeError. *)
Definition reverse_to_module (b : block) (swap : ptd) (st : tstate) : tstate * outcome :=
  if b_swap_dest b && negb fixed_D133 then (st, ORaise ETypeError)               (* to_module with kwargs and swap_dest=out: repeated keyword *)
  else
    match to_module (cfg_of b true) swap (b_target b) st with
    | TmErr st' e => (st', ORaise (match e with EAttrError => EOther | _ => e end))
    | TmOk st' _ sw' =>
        if b_live b then
          match quick_set sw' (b_params b) with
          | QErr e => (st', ORaise e)
          | QOk _ => (st', OOk)
          end
        else (st', OOk)
    end.

(* __exit__(exc) after the body finished with outcome [oc] *)
Definition exit_block_gen (fixed : bool) (b : block) (swap : ptd) (oc : outcome) (st : tstate) : tstate * outcome :=
  match oc with
  | ORaise e =>
      if is_Exception e then
        if fixed then let '(st', r) := reverse_to_module b swap st in (st', match r with OOk => oc | _ => r end)
        else (st, oc)                                          (* return False: nothing is inverted *)
      else
        let '(st', r) := reverse_to_module b swap st in
        (* the inverse returns a tensordict; Python asks for its truth value to decide about suppression: raises *)
        (st', match r with OOk => ORaise EOther | _ => r end)
  | OOk => reverse_to_module b swap st
  end.

Fixpoint run_blocks_gen (fixed : bool) (x : excspec) (bs : list block) (lvl : nat) (st : tstate)
  : tstate * list event * outcome :=
  match bs with
  | [] => (st, [], OOk)
  | b :: rest =>
      match to_module (cfg_of b true) (b_params b) (b_target b) st with
      | TmErr st1 e => (st1, [mkEv EvEnter lvl (ORaise e) st1], ORaise EOther)   (* the harness wraps it (EnterFailed) *)
      | TmOk st1 _ swap0 =>
        (* a user-supplied swap_dest (an empty tensordict here) is filled by _quick_set at the end of _to_module:
           a nested entry is looked up with default=NO_DEFAULT -> KeyError, after the module has been swapped *)
        match (if b_swap_dest b then quick_set swap0 (PTD []) else QOk swap0) with
        | QErr e => (st1, [mkEv EvEnter lvl (ORaise e) st1], ORaise EOther)
        | QOk swap =>
          let '(st2, evs, oc_inner) := run_blocks_gen fixed x rest (S lvl) st1 in
          let oc := match oc_inner with OOk => body_raise x lvl | _ => oc_inner end in
          let ev1 := mkEv EvEnter lvl OOk st1 in
          if b_manual b then
            match oc with
            | ORaise _ => (st2, ev1 :: evs, oc)               (* no with-statement: nothing happens on the way out *)
            | OOk =>
                match to_module (cfg_of b false) swap (b_target b) st2 with
                | TmErr st3 e => (st3, ev1 :: evs ++ [mkEv EvExit lvl (ORaise e) st3], ORaise e)
                | TmOk st3 _ _ => (st3, ev1 :: evs ++ [mkEv EvExit lvl OOk st3], OOk)
                end
            end
          else
            let '(st3, oc') := exit_block_gen fixed b swap oc st2 in
            (st3, ev1 :: evs ++ [mkEv EvExit lvl oc' st3], oc')
        end
      end
  end.

(* the code as it is (with the repairs recorded by the switches above) *)
Definition exit_block := exit_block_gen fixed_D6.
Definition run_blocks := run_blocks_gen fixed_D6.

Definition run_program (x : excspec) (bs : list block) (st : tstate) : list event :=
  let '(_, evs, _) := run_blocks x bs 0 st in mkEv EvInit 0 OOk st :: evs.

(* ------------------------------------------------------------------ _from_module (_td.py:386), filter_empty=True *)
Inductive fmres := FmNone | FmTd (t : ptd) | FmOutOfFuel.

Definition own_leaves (n : mnode) : list (string * pent) :=
  flat_map (fun e => match snd e with Some o => [(fst e, PLeaf (Some o))] | None => [] end) (m_params n)
  ++ flat_map (fun e => match snd e with Some o => [(fst e, PLeaf (Some o))] | None => [] end) (m_bufs n).

(* destination[name] = ... on a dict: a buffer named like a parameter would overwrite it; names are disjoint in a
   well-formed module, the model keeps the dict semantics *)
Definition dict_of (l : list (string * pent)) : list (string * pent) :=
  fold_left (fun d e => d_set d (fst e) (snd e)) l [].

Fixpoint from_module (fuel : nat) (h : heap) (m : Z) : fmres :=
  match fuel with
  | O => FmOutOfFuel
  | S fuel' =>
    match h_get h m with
    | None => FmOutOfFuel
    | Some n =>
      let dest := dict_of (own_leaves n) in
      let r := fold_left (fun (acc : option (list (string * pent))) (e : string * option Z) =>
                 match acc, snd e with
                 | None, _ => None
                 | Some d, None => Some d
                 | Some d, Some c =>
                     match from_module fuel' h c with
                     | FmOutOfFuel => None
                     | FmNone => Some d
                     | FmTd t => Some (d_set d (fst e) (PSub t))
                     end
                 end) (m_subs n) (Some dest) in
      match r with
      | None => FmOutOfFuel
      | Some [] => FmNone
      | Some d => FmTd (PTD d)
      end
    end
  end.
