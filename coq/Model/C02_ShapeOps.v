(* Model (definitions only): the shape operations of tensordict's TensorDict, transcribed function by function from
   tensordict/_td.py (expand 1625, _unbind 1667, split 1716, masked_select 1789, _view 1805, reshape 1826,
   repeat_interleave 1849, _repeat 1884, _transpose 1897, _permute 1924, _squeeze 1964, _unsqueeze 2020),
   tensordict/base.py (unbind 3337, chunk 3362, repeat 3637, transpose 4045, flatten 7532, unflatten 7608,
   _fast_apply/_apply_nest with call_on_nested=True), tensordict/_torch_func.py (_gather 102, _cat 293, _stack 447),
   tensordict/utils.py (_maybe_correct_neg_dim, _infer_size_impl, _get_shape_from_args).

   A tensordict is a [tree]: entries are leaves (a tensor = its shape) or nested nodes (batch size, dim names,
   entries).  Every operation computes what the code computes, in the code's order: the new batch size, the new
   names, and the ARGUMENT HANDED TO torch FOR EACH ENTRY (what torch then does to an entry's shape is
   Spec/C02_TorchShape).  Nested nodes are treated by calling the (public) method on them, as the code does through
   call_on_nested=True.  Quirks of the code are kept (the findings D4, D5, D22, S5 and C02-a..m live here); each is
   guarded by a [fixed_*] switch so that the model can follow a repair of /repo.
   Errors are explicit: [Raised k] (exception class), [Diverges] (the call does not return), [Unmodelled]
   (a chain of calls on an incoherent tree that the model does not follow). *)
From Coq Require Import ZArith List Bool String.
Import ListNotations.
From TD Require Import Spec.PySlice Spec.C02_TorchShape.
Open Scope Z_scope.

(* ---- switches: false = /repo as it is today; true = the suggested minimal repair (findings.d/C02.json) *)
Definition fixed_D4 : bool := true.         (* split: k <= 0 and negative sizes rejected, first size clamped (fixes/C02/D4) *)
Definition fixed_D5 : bool := true.         (* squeeze(None): sizes and names filtered separately, view with one tuple, nested
                                               tensordicts squeezed dim by dim (fixes/C02/D5-C02a): the model below IS the repaired code *)
Definition fixed_D22 : bool := true.        (* stack / cat: range check of dim after normalisation (D22-C02b, C02-c) *)
Definition fixed_S5 : bool := true.         (* flatten / repeat_interleave: range check of dims (S5, C02-d) *)
Definition fixed_C02e : bool := true.       (* chunk on a size-0 dim: `chunks` empty chunks *)
Definition fixed_C02f : bool := true.       (* expand: -1 resolved against the existing dim *)
Definition fixed_C02g : bool := true.       (* unflatten: -1 inferred before it is written into batch_size *)
Definition fixed_C02h : bool := true.       (* view / reshape: -1 inferred from batch_size.numel(), guard against 0 // 0 *)
Definition fixed_C02k : bool := true.       (* permute of a prefix keeps the names of the remaining dims *)
Definition fixed_C02m : bool := true.       (* repeat: entries repeated with one tuple *)
Definition fixed_C02ij : bool := true.      (* gather: index rank = batch rank, only trailing dims of the index are expanded *)

Inductive errk := EIndex | EValue | ERuntime | EType | EAssert | EKey.
Inductive out (A : Type) : Type := Done (a : A) | Raised (k : errk) | Diverges | Unmodelled.
Arguments Done {A} a.
Arguments Raised {A} k.
Arguments Diverges {A}.
Arguments Unmodelled {A}.

Definition bindo {A B} (r : out A) (f : A -> out B) : out B :=
  match r with Done a => f a | Raised k => Raised k | Diverges => Diverges | Unmodelled => Unmodelled end.
Notation "'let*' x := r 'in' k" := (bindo r (fun x => k)) (at level 200, x name, r at level 100, k at level 200).

Definition lift {A} (k : errk) (r : res A) : out A := match r with Ok a => Done a | Reject => Raised k end.

Definition dimnames := option (list (option string)).

Inductive tree :=
| Leaf (sh : list Z)
| Node (bs : list Z) (nm : dimnames) (ents : list (string * tree)).

Definition top_shape (t : tree) : list Z := match t with Leaf sh => sh | Node bs _ _ => bs end.

(* ---- Python list helpers *)
Definition len {A} (l : list A) : Z := Z.of_nat (List.length l).
Definition lastn {A} (k : nat) (l : list A) : list A := skipn (List.length l - k) l.

(* l[a:b] *)
Definition py_slice {A} (l : list A) (a b : Z) : list A :=
  let '(s, e, _) := py_indices (Some a) (Some b) 1 (len l) in
  if s <? e then firstn (Z.to_nat (e - s)) (skipn (Z.to_nat s) l) else [].
(* l[a:] and l[:b] *)
Definition py_from {A} (l : list A) (a : Z) : list A := py_slice l a (len l).
Definition py_upto {A} (l : list A) (b : Z) : list A := py_slice l 0 b.
(* list.insert(i, x): i is clamped, negative counts from the end *)
Definition py_insert {A} (l : list A) (i : Z) (x : A) : list A :=
  let n := len l in
  let j := if i <? 0 then Z.max 0 (i + n) else Z.min i n in
  insert_nth (Z.to_nat j) x l.
(* l[i] / l.pop(i) with an index already known to be in [-n, n) *)
Definition py_pos {A} (l : list A) (i : Z) : nat := Z.to_nat (if i <? 0 then i + len l else i).

Definition names_list (nm : dimnames) (n : nat) : list (option string) :=
  match nm with Some l => l | None => repeat None n end.
Definition has_names (nm : dimnames) : bool := match nm with Some _ => true | None => false end.

(* tensordict.utils._maybe_correct_neg_dim *)
Definition correct_neg_dim (d : Z) (n : nat) : out nat :=
  let m := Z.of_nat n in
  let nd := if d <? 0 then m + d else d in
  if (nd <? 0) || (m <=? nd) then Raised EIndex else Done (Z.to_nat nd).

(* tensordict.utils._infer_size_impl (a copy of torch.jit's): numel is TensorDictBase.numel() = max(1, prod bs) *)
Fixpoint infer_scan (l : list Z) (i : nat) (newsize : Z) (infer : option nat) : out (Z * option nat) :=
  match l with
  | [] => Done (newsize, infer)
  | x :: r =>
      if x =? -1 then
        match infer with
        | Some _ => Raised EAssert
        | None => infer_scan r (S i) newsize (Some i)
        end
      else if 0 <=? x then infer_scan r (S i) (newsize * x) infer
      else Raised EAssert
  end.

Definition infer_size_impl (shape : list Z) (numel : Z) : out (list Z) :=
  let* p := infer_scan shape 0 1 None in
  let '(newsize, infer) := p in
  let okb := (numel =? newsize) ||
             (match infer with Some _ => (0 <? newsize) && (numel mod newsize =? 0) | None => false end) in
  if negb okb then Raised EAssert else
  match infer with
  | Some i => if newsize =? 0 then Raised EAssert      (* fixes/C02/C02-h: "it can be any value" (was 0 // 0) *)
              else Done (set_nth i (numel / newsize) shape)
  | None => Done shape
  end.

Definition td_numel (bs : list Z) : Z := if fixed_C02h then prodZ bs else Z.max 1 (prodZ bs).

Definition is_identity (l : list Z) : bool := list_eqb l (map Z.of_nat (seq 0 (List.length l))).
Definition rangeZ (a b : nat) : list Z := map Z.of_nat (seq a (b - a)).

Definition all_none (l : list (option string)) : bool :=
  forallb (fun x => match x with None => true | Some _ => false end) l.

(* ==================================================================================================
   operations with one result that go through _fast_apply(call_on_nested=True)
   ================================================================================================== *)
Inductive sop :=
| OPermute (dims : list Z)
| OTranspose (d0 d1 : Z)
| OSqueeze (d : option Z)
| OUnsqueeze (d : Z)
| OExpand (shape : list Z)
| OView (shape : list Z)          (* tensor.view(tuple) / td.view(tuple) *)
| OViewStar (shape : list Z)      (* tensor.view( *sizes ): with no size at all a torch tensor raises TypeError *)
| OReshape (shape : list Z)
| OFlatten (a b : Z)
| OUnflatten (d : Z) (sizes : list Z)
| ORepeat (reps : list Z)         (* tensor.repeat( *reps ) *)
| ORepInt (r : Z) (d : Z)         (* repeat_interleave(r, dim=d) with an explicit dim *)
| OSqueezeDims (ds : list nat)    (* x.squeeze(i) for i in ds (descending): the calls squeeze() makes on a nested tensordict *)
| OSqueezeAllChild (bs' : list Z) (n : nat) (ds : list nat).
                                  (* the call squeeze() makes on an entry: view of the tuple bs' ++ shape[n:] on a tensor,
                                     squeeze dim by dim (OSqueezeDims ds) on a nested tensordict *)

(* what torch does when the call reaches a tensor *)
Definition leaf_op (o : sop) (sh : list Z) : out (list Z) :=
  match o with
  | OPermute dims => lift ERuntime (t_permute sh dims)
  | OTranspose a b => lift EIndex (t_transpose sh a b)
  | OSqueeze None => lift ERuntime (t_squeeze_all sh)
  | OSqueeze (Some d) => lift EIndex (t_squeeze_dim sh d)
  | OUnsqueeze d => lift EIndex (t_unsqueeze sh d)
  | OExpand s => lift ERuntime (t_expand sh s)
  | OView s => lift ERuntime (t_view sh s)
  | OViewStar s => match s with [] => Raised EType | _ => lift ERuntime (t_view sh s) end
  | OReshape s => lift ERuntime (t_reshape sh s)
  | OFlatten a b => lift ERuntime (t_flatten sh a b)
  | OUnflatten d sizes => lift ERuntime (t_unflatten sh d sizes)
  | ORepeat reps => match reps with
                    | [] => if fixed_C02m then lift ERuntime (t_repeat sh reps) else Raised EType
                    | _ => lift ERuntime (t_repeat sh reps)
                    end
  | ORepInt r d => lift ERuntime (t_repeat_interleave sh r (Some d))
  | OSqueezeDims ds =>
      (fix go (l : list nat) (cur : list Z) : out (list Z) :=
         match l with
         | [] => Done cur
         | i :: r => let* nxt := lift EIndex (t_squeeze_dim cur (Z.of_nat i)) in go r nxt
         end) ds sh
  | OSqueezeAllChild bs' n _ => lift ERuntime (t_view sh (bs' ++ skipn n sh))
  end.

(* what the tensordict method computes at a node before visiting the entries:
   SSelf = the method returns self; SStep bs' names' child = result metadata + the call made on an entry of shape csh *)
Inductive step :=
| SSelf
| SStep (bs' : list Z) (nm' : dimnames) (child : list Z -> sop).

Definition squeeze_pairs (bs : list Z) (nl : list (option string)) : list (Z * option string) :=
  filter (fun p => negb (fst p =? 1)) (combine bs nl).

(* positions of the size-1 dims, descending *)
Definition singletons_desc (bs : list Z) : list nat :=
  rev (map fst (filter (fun p => snd p =? 1) (combine (seq 0 (List.length bs)) bs))).

(* td.squeeze(i) for i in ds, one after the other: a dim that is not 1 is left alone, a dim out of range raises *)
Fixpoint squeeze_chain (ds : list nat) (bs : list Z) (nl : list (option string)) (done : list nat)
  : out (list Z * list (option string) * list nat) :=
  match ds with
  | [] => Done (bs, nl, rev done)
  | i :: r =>
      if (List.length bs <=? i)%nat then Raised EIndex
      else if nthZ bs i =? 1 then squeeze_chain r (remove_nth i bs) (remove_nth i nl) (i :: done)
      else squeeze_chain r bs nl done
  end.

Definition node_step (o : sop) (bs : list Z) (nm : dimnames) : out step :=
  let n := List.length bs in
  let nl := names_list nm n in
  match o with
  | OPermute dims =>
      (* _td.py:_permute *)
      let dl := map (fun d => if 0 <=? d then d else Z.of_nat n + d) dims in
      if existsb (fun d => (d <? 0) || (Z.of_nat n <=? d)) dl then Raised EValue
      else
        let p := map Z.to_nat dl in
        if negb (forallb (fun d => d <? len dl) dl && nodupb p) then Raised EValue
        else if is_identity dl then Done SSelf
        else
          let k := List.length dl in
          Done (SStep (map (nthZ bs) p ++ skipn k bs)
                      (if has_names nm then Some (map (fun i => nth i nl None) p ++ (if fixed_C02k then skipn k nl else [])) else None)
                      (fun csh => OPermute (dl ++ rangeZ k (List.length csh))))
  | OTranspose d0 d1 =>
      (* base.py:transpose + _td.py:_transpose *)
      let m := Z.of_nat n in
      let a := if d0 <? 0 then m + d0 else d0 in
      let b := if d1 <? 0 then m + d1 else d1 in
      if (a <? 0) || (b <? 0) || (m <=? a) || (m <=? b) then Raised EValue
      else
        let i := Z.to_nat (Z.min a b) in
        let j := Z.to_nat (Z.max a b) in
        if Nat.eqb i j then Done SSelf
        else Done (SStep (swap_nth bs i j)
                         (if has_names nm then Some (set_nth j (nth i nl None) (set_nth i (nth j nl None) nl)) else None)
                         (fun _ => OTranspose (Z.of_nat i) (Z.of_nat j)))
  | OSqueeze None =>
      (* _td.py:_squeeze, dim is None (after fixes/C02/D5-C02a): names and sizes filtered separately, no names rather
         than an empty list; entries: tensors are viewed with one tuple, nested tensordicts squeezed dim by dim *)
      let bs' := filter (fun x => negb (x =? 1)) bs in
      let nm' := if has_names nm
                 then (match map snd (squeeze_pairs bs nl) with [] => None | l => Some l end)
                 else None in
      if list_eqb bs' bs then Done SSelf
      else Done (SStep bs' nm' (fun _ => OSqueezeAllChild bs' n (singletons_desc bs)))
  | OSqueeze (Some d) =>
      let* nd := correct_neg_dim d n in
      if negb (nthZ bs nd =? 1) then Done SSelf
      else Done (SStep (remove_nth nd bs)
                       (if has_names nm then Some (remove_nth nd nl) else None)
                       (fun _ => OSqueeze (Some (Z.of_nat nd))))
  | OUnsqueeze d =>
      let m := Z.of_nat n in
      let nd := if d <? 0 then m + d + 1 else d in
      if (m <? nd) || (nd <? 0) then Raised ERuntime
      else
        let i := Z.to_nat nd in
        Done (SStep (insert_nth i 1 bs)
                    (if has_names nm then Some (insert_nth i None nl) else None)
                    (fun _ => OUnsqueeze nd))
  | OExpand shape =>
      (* _td.py:expand: sizes are compared literally (-1 is not resolved: C02-f) *)
      let m := List.length shape in
      if (m <? n)%nat then Raised ERuntime
      else
        (* -1 keeps the size of an existing dim (fixes/C02/C02-f) *)
        let shape := if fixed_C02f
                     then firstn (m - n) shape ++ map (fun p => if snd p =? -1 then fst p else snd p) (combine bs (skipn (m - n) shape))
                     else shape in
        let tail := skipn (m - n) shape in
        if existsb (fun p => negb (fst p =? 1) && negb (snd p =? fst p)) (combine bs tail) then Raised ERuntime
        else Done (SStep shape
                         (if has_names nm then Some (repeat None (m - n) ++ nl) else None)
                         (fun csh => let k := (List.length csh - n)%nat in
                                     OExpand (match k with O => shape | _ => shape ++ lastn k csh end)))
  | OView shape | OViewStar shape =>
      (* _td.py:_view *)
      let* sh := (if existsb (fun x => x <? 0) shape then infer_size_impl shape (td_numel bs) else Done shape) in
      if list_eqb sh bs then Done SSelf
      else Done (SStep sh None (fun csh => OView (sh ++ skipn n csh)))
  | OReshape shape =>
      let* sh := (if existsb (fun x => x <? 0) shape then infer_size_impl shape (td_numel bs) else Done shape) in
      if list_eqb sh bs then Done SSelf
      else Done (SStep sh None (fun csh => OReshape (sh ++ skipn n csh)))
  | OFlatten a b =>
      (* base.py:flatten: only end_dim is range-checked, and only from below (S5) *)
      let m := Z.of_nat n in
      let s := if a <? 0 then m + a else a in
      let e := if b <? 0 then m + b else b in
      if fixed_S5 && ((s <? 0) || (m <=? s) || (e <? 0) || (m <=? e)) then Raised EIndex   (* _maybe_correct_neg_dim on both *)
      else if (b <? 0) && (e <? 0) then Raised EValue
      else if e <=? s then Raised EValue
      else
        let nelt := prodZ (py_slice bs s (e + 1)) in
        let bs' := if 0 <? s then py_upto bs s ++ nelt :: py_from bs (e + 1) else nelt :: py_from bs (e + 1) in
        let kept := map snd (filter (fun p => (Z.of_nat (fst p) <? s) || (e <? Z.of_nat (fst p)))
                                    (combine (seq 0 n) nl)) in
        Done (SStep bs' (if has_names nm then Some (py_insert kept s None) else None)
                    (fun _ => OFlatten s e))
  | OUnflatten d sizes =>
      (* base.py:unflatten: sizes are copied literally into batch_size (C02-g); names are set afterwards
         through the names setter (length check) *)
      let* nd := correct_neg_dim d n in
      let* sizes := (if fixed_C02g && existsb (fun x => x <? 0) sizes then infer_size_impl sizes (nthZ bs nd) else Done sizes) in
      let bs' := if (0 <? nd)%nat then firstn nd bs ++ sizes ++ skipn (S nd) bs else sizes ++ skipn 1 bs in
      let nm' := if has_names nm
                 then Some ((fix ins (k : nat) (l : list (option string)) :=
                               match k with O => l | S k' => ins k' (insert_nth nd None l) end)
                            (List.length sizes - 1)%nat nl)
                 else None in
      Done (SStep bs' nm' (fun _ => OUnflatten (Z.of_nat nd) sizes))
  | ORepeat reps =>
      (* base.py:repeat + _td.py:_repeat *)
      if negb (Nat.eqb (List.length reps) n) then Raised EValue
      else Done (SStep (map2_mul bs reps) None
                       (fun csh => ORepeat (reps ++ repeat 1 (List.length csh - n))))
  | ORepInt r d =>
      (* _td.py:repeat_interleave with an explicit dim on a batch of rank >= 1 (the rank-0 and dim=None
         spellings are chains of calls: see td_repeat_interleave) *)
      match bs with
      | [] => Unmodelled
      | _ =>
          let dc := if 0 <=? d then d else Z.of_nat n + d in
          if dc <? 0 then Raised EValue
          else if fixed_S5 && (Z.of_nat n <=? dc) then Raised EValue
          else Done (SStep (map (fun p => if Z.of_nat (fst p) =? dc then snd p * r else snd p) (combine (seq 0 n) bs))
                           None (fun _ => ORepInt r dc))
      end
  | OSqueezeDims ds | OSqueezeAllChild _ _ ds =>
      let* r := squeeze_chain ds bs nl [] in
      let '(bs', nl', sq) := r in
      match sq with
      | [] => Done SSelf
      | _ => Done (SStep bs' (if has_names nm then Some nl' else None) (fun _ => OSqueezeDims sq))
      end
  end.

(* the names setter run by unflatten after the entries are done: length check (ValueError), all-None = no names *)
Definition unflatten_names_check (o : sop) (t : tree) : out tree :=
  match o, t with
  | OUnflatten _ _, Node bs (Some l) ents =>
      if Nat.eqb (List.length (filter (fun x => match x with None => true | Some _ => false end) l)) (List.length bs)
      then Done (Node bs None ents)          (* `if num_none == self.batch_dims: self.names = None` *)
      else if negb (Nat.eqb (List.length l) (List.length bs)) then Raised EValue
      else Done t
  | _, _ => Done t
  end.

Fixpoint apply (t : tree) (o : sop) {struct t} : out tree :=
  match t with
  | Leaf sh => let* s := leaf_op o sh in Done (Leaf s)
  | Node bs nm ents =>
      let* st := node_step o bs nm in
      match st with
      | SSelf => Done t
      | SStep bs' nm' child =>
          let* ents' :=
            (fix go (l : list (string * tree)) : out (list (string * tree)) :=
               match l with
               | [] => Done []
               | (k, c) :: r =>
                   let* c' := apply c (child (top_shape c)) in
                   let* r' := go r in
                   Done ((k, c') :: r')
               end) ents in
          unflatten_names_check o (Node bs' nm' ents')
      end
  end.

(* ---- repeat_interleave: the spellings that are chains of calls *)
Definition td_repeat_interleave (t : tree) (r : Z) (d : option Z) : out tree :=
  match t with
  | Leaf sh => let* s := lift ERuntime (t_repeat_interleave sh r d) in Done (Leaf s)
  | Node bs _ _ =>
      match bs, d with
      | [], _ =>
          (* self.unsqueeze(0).repeat_interleave(repeats, dim): the batch is now [1] *)
          let* t1 := apply t (OUnsqueeze 0) in
          apply t1 (ORepInt r (match d with Some d => d | None => 0 end))
      | [_], None => apply t (ORepInt r 0)
      | _, None => let* t1 := apply t (OReshape [-1]) in apply t1 (ORepInt r 0)
      | _, Some d => apply t (ORepInt r d)
      end
  end.

(* ==================================================================================================
   unbind (base.py:unbind + _td.py:_unbind)
   ================================================================================================== *)
(* i-th element of every per-entry result list: the entries of the i-th output *)
Fixpoint nth_of_each {A} (i : nat) (l : list (string * list A)) : option (list (string * A)) :=
  match l with
  | [] => Some []
  | (k, xs) :: r =>
      match nth_error xs i, nth_of_each i r with
      | Some x, Some r' => Some ((k, x) :: r')
      | _, _ => None
      end
  end.

Definition assemble (count : nat) (bs' : list Z) (nm' : dimnames) (per : list (string * list tree)) : out (list tree) :=
  (* _zip_strict(tds, unbound): every entry must give exactly [count] pieces *)
  if negb (forallb (fun p => Nat.eqb (List.length (snd p)) count) per) then Raised EValue
  else
    (fix go (i k : nat) : out (list tree) :=
       match k with
       | O => Done []
       | S k' =>
           match nth_of_each i per with
           | Some ents => let* r := go (S i) k' in Done (Node bs' nm' ents :: r)
           | None => Raised EValue
           end
       end) O count.

(* _unbind(dim) with dim already non-negative *)
Fixpoint unbind_at (t : tree) (d : nat) {struct t} : out (list tree) :=
  match t with
  | Leaf sh => let* l := lift EIndex (t_unbind sh (Z.of_nat d)) in Done (map Leaf l)
  | Node bs nm ents =>
      let n := List.length bs in
      if (n <=? d)%nat then Raised EIndex       (* self.batch_size[dim] *)
      else
        let nl := names_list nm n in
        let bs' := remove_nth d bs in
        let nm' := if has_names nm then (let l := remove_nth d nl in if all_none l then None else Some l) else None in
        let count := Z.to_nat (nthZ bs d) in
        let* per :=
          (fix go (l : list (string * tree)) : out (list (string * list tree)) :=
             match l with
             | [] => Done []
             | (k, c) :: r =>
                 let* cs := unbind_at c d in
                 let* r' := go r in
                 Done ((k, cs) :: r')
             end) ents in
        assemble count bs' nm' per
  end.

Definition td_unbind (t : tree) (d : Z) : out (list tree) :=
  match t with
  | Leaf sh => let* l := lift EIndex (t_unbind sh d) in Done (map Leaf l)
  | Node bs _ _ => let* nd := correct_neg_dim d (List.length bs) in unbind_at t nd
  end.

(* ==================================================================================================
   split / chunk (_td.py:split, base.py:chunk): slices of the entries, batch sizes computed separately
   ================================================================================================== *)
(* the int branch: pieces [idx0, idx1) while idx1 < max; fuel = max_size (each turn adds k >= 1) *)
Fixpoint split_int_loop (fuel : nat) (idx1 max k : Z) : list (Z * Z) :=
  match fuel with
  | O => []
  | S f => if idx1 <? max then (let n1 := Z.min max (idx1 + k) in (idx1, n1) :: split_int_loop f n1 max k) else []
  end.

Definition split_int_segments (max k : Z) : out (list (Z * Z)) :=
  if 0 <? k then
    let i1 := Z.min max k in Done ((0, i1) :: split_int_loop (Z.to_nat max) i1 max k)
  else if fixed_D4 then (if (k =? 0) && (max =? 0) then Done [(0, 0)] else Raised ERuntime)
  else if (k =? 0) && (max =? 0) then Done [(0, 0)]
  else Diverges.                                   (* D4: idx1 never reaches max_size *)

(* the list branch: the first size is taken as it is, the following ones are clamped to max_size *)
Fixpoint split_list_loop (l : list Z) (idx1 max : Z) : list (Z * Z) * Z :=
  match l with
  | [] => ([], idx1)
  | x :: r => let n1 := Z.min max (idx1 + x) in
              let '(segs, last) := split_list_loop r n1 max in ((idx1, n1) :: segs, last)
  end.

Definition split_list_segments (max : Z) (l : list Z) : out (list (Z * Z)) :=
  match l with
  | [] => Raised ERuntime
  | x :: r =>
      (* after fixes/C02/D4: negative sizes are rejected and the first size is clamped like the following ones;
         sizes that sum beyond the dim are still truncated (test_split_lazy relies on it): finding D4 (reduced) *)
      if fixed_D4 && negb (forallb (fun y => 0 <=? y) l) then Raised ERuntime
      else
        let x' := if fixed_D4 then Z.min max x else x in
        let '(segs, last) := split_list_loop r x' max in
        if last <? max then Raised ERuntime else Done ((0, x') :: segs)
  end.

(* tensor[(slice(None),)*d + (slice(a, b),)] on an entry, td._index_tensordict(index, new_batch_size=...) on a node *)
Fixpoint slice_tree (t : tree) (d : nat) (a b : Z) (new_bs : list Z) (nm_root : option dimnames) {struct t} : tree :=
  match t with
  | Leaf sh => Leaf (set_nth d (range_len (py_indices (Some a) (Some b) 1 (nthZ sh d))) sh)
  | Node bs nm ents =>
      let n := List.length bs in
      Node new_bs (match nm_root with Some x => x | None => nm end)
           ((fix go (l : list (string * tree)) : list (string * tree) :=
               match l with
               | [] => []
               | (k, c) :: r => (k, slice_tree c d a b (new_bs ++ skipn n (top_shape c)) None) :: go r
               end) ents)
  end.

Definition td_split (t : tree) (size : Z + list Z) (d : Z) : out (list tree) :=
  match t with
  | Leaf _ => Unmodelled
  | Node bs nm ents =>
      let n := List.length bs in
      let* nd := correct_neg_dim d n in
      let max := nthZ bs nd in
      let* segs := (match size with inl k => split_int_segments max k | inr l => split_list_segments max l end) in
      let names := if has_names nm then Some nm else Some None in
      Done (map (fun seg => slice_tree t nd (fst seg) (snd seg) (set_nth nd (snd seg - fst seg) bs) names) segs)
  end.

Definition td_chunk (t : tree) (chunks d : Z) : out (list tree) :=
  match t with
  | Leaf _ => Unmodelled
  | Node bs _ _ =>
      if chunks <? 1 then Raised EValue
      else
        let n := len bs in
        (* self.batch_size[dim] with the raw dim: Python indexing *)
        if (d <? - n) || (n <=? d) then Raised EIndex
        else
          let sz := nthZ bs (py_pos bs d) in
          let k := - ((sz) / (- chunks)) in
          if fixed_C02e && (k =? 0) then td_split t (inr (repeat 0 (Z.to_nat chunks))) d   (* a dim of size 0 *)
          else td_split t (inl k) d
  end.

(* ==================================================================================================
   gather (_torch_func.py:_gather), without out=
   ================================================================================================== *)
Fixpoint gather_at (t : tree) (d : Z) (ishape : list Z) {struct t} : out tree :=
  match t with
  | Leaf sh => let* s := lift ERuntime (t_gather sh d ishape) in Done (Leaf s)
  | Node bs nm ents =>
      let n := List.length bs in
      match ishape with
      | [] => Raised EType                      (* len() of a 0-d tensor *)
      | i0 :: _ =>
          if i0 =? 0 then Raised ERuntime       (* "Cannot use torch.gather with an empty index" *)
          else
            let dd := if d <? 0 then Z.of_nat n + d else d in
            if (Z.of_nat n - 1 <? dd) || (dd <? 0) then Raised ERuntime
            else if fixed_C02ij && negb (Nat.eqb (List.length ishape) n) then Raised ERuntime
            else
              let di := Z.to_nat dd in
              let* ents' :=
                (fix go (l : list (string * tree)) : out (list (string * tree)) :=
                   match l with
                   | [] => Done []
                   | (k, c) :: r =>
                       let csh := top_shape c in
                       let m := List.length csh in
                       let idx0 := ishape ++ repeat 1 (m - List.length ishape) in
                       let target := if fixed_C02ij then ishape ++ skipn (List.length ishape) csh
                                     else set_nth di (nthZ idx0 di) csh in
                       let* _e := lift ERuntime (t_expand idx0 target) in
                       let* c' := gather_at c dd target in
                       let* r' := go r in
                       Done ((k, c') :: r')
                   end) ents in
              Done (Node ishape (if Nat.eqb (List.length ishape) n then nm else None) ents')
      end
  end.

(* ==================================================================================================
   masked_select (_td.py:masked_select): every entry is indexed by the (squeezed) boolean mask, the result is
   rebuilt by the TensorDict constructor, which checks the entries against the computed batch size
   ================================================================================================== *)
(* `while mask_expand.ndimension() > self.batch_dims: squeeze(-1)`, stopping when nothing was squeezed *)
Fixpoint squeeze_mask (fuel : nat) (ms : list Z) (n : nat) : list Z :=
  match fuel with
  | O => ms
  | S f =>
      if (n <? List.length ms)%nat then
        match rev ms with
        | x :: r => if x =? 1 then squeeze_mask f (rev r) n else ms
        | [] => ms
        end
      else ms
  end.

Fixpoint is_prefix (a b : list Z) : bool :=
  match a, b with
  | [], _ => true
  | x :: a', y :: b' => (x =? y) && is_prefix a' b'
  | _, [] => false
  end.

(* value[mask]: the mask must have exactly the leading dims of what it indexes; those dims collapse to [cnt] *)
Fixpoint mask_index (t : tree) (ms : list Z) (cnt : Z) {struct t} : out tree :=
  let k := List.length ms in
  match t with
  | Leaf sh => if is_prefix ms sh then Done (Leaf (cnt :: skipn k sh)) else Raised EIndex
  | Node bs nm ents =>
      if negb (is_prefix ms bs) then Raised EIndex
      else
        let* ents' :=
          (fix go (l : list (string * tree)) : out (list (string * tree)) :=
             match l with
             | [] => Done []
             | (key, c) :: r => let* c' := mask_index c ms cnt in let* r' := go r in Done ((key, c') :: r')
             end) ents in
        let nl := names_list nm (List.length bs) in
        let nm' := if has_names nm then (let l := None :: skipn k nl in if all_none l then None else Some l) else None in
        Done (Node (cnt :: skipn k bs) nm' ents')
  end.

Definition td_masked_select (t : tree) (mshape : list Z) (cnt : Z) : out tree :=
  match t with
  | Leaf _ => Unmodelled
  | Node bs nm ents =>
      let ms := squeeze_mask (List.length mshape) mshape (List.length bs) in
      let* ents' :=
        (fix go (l : list (string * tree)) : out (list (string * tree)) :=
           match l with
           | [] => Done []
           | (key, c) :: r => let* c' := mask_index c ms cnt in let* r' := go r in Done ((key, c') :: r')
           end) ents in
      let bs' := cnt :: py_from bs (len mshape) in
      (* TensorDict(source=d, batch_size=...): "batch dimension mismatch" *)
      if forallb (fun e => is_prefix bs' (top_shape (snd e))) ents' then Done (Node bs' None ents') else Raised ERuntime
  end.

(* ==================================================================================================
   stack / cat without out= (_torch_func.py:_stack, _cat); operands have the same keys
   ================================================================================================== *)
Fixpoint lookup (k : string) (l : list (string * tree)) : option tree :=
  match l with
  | [] => None
  | (k', v) :: r => if String.eqb k k' then Some v else lookup k r
  end.

Fixpoint collect (k : string) (others : list tree) : option (list tree) :=
  match others with
  | [] => Some []
  | Node _ _ ents :: r =>
      match lookup k ents, collect k r with Some v, Some vs => Some (v :: vs) | _, _ => None end
  | Leaf _ :: _ => None
  end.

(* all operands are leaves / all are nodes *)
Definition all_leaves (l : list tree) : option (list (list Z)) :=
  fold_right (fun t acc => match t, acc with Leaf s, Some r => Some (s :: r) | _, _ => None end) (Some []) l.

Fixpoint stack_at (fuel : nat) (first : tree) (others : list tree) (d : Z) {struct fuel} : out tree :=
  match fuel with
  | O => Unmodelled
  | S fuel' =>
      match first with
      | Leaf sh =>
          match all_leaves others with
          | Some shs => let* s := lift ERuntime (t_stack (sh :: shs) d) in Done (Leaf s)
          | None => Raised ERuntime
          end
      | Node bs nm ents =>
          let n := Z.of_nat (List.length bs) in
          let dd := if d <? 0 then n + d + 1 else d in
          if negb (forallb (fun t => match t with Node b _ _ => list_eqb b bs | Leaf _ => false end) others)
          then Raised ERuntime
          else if fixed_D22 && ((dd <? 0) || (n <? dd)) then Raised EIndex
          else
            let* ents' :=
              (fix go (l : list (string * tree)) : out (list (string * tree)) :=
                 match l with
                 | [] => Done []
                 | (k, c) :: r =>
                     match collect k others with
                     | None => Raised EKey
                     | Some cs =>
                         (* shapes of the values must agree (else "The shapes of the tensors to stack is incompatible") *)
                         if negb (forallb (fun t => list_eqb (top_shape t) (top_shape c)) cs) then Raised ERuntime
                         else
                           let* c' := stack_at fuel' c cs dd in
                           let* r' := go r in
                           Done ((k, c') :: r')
                     end
                 end) ents in
            (* LazyStackedTensorDict._compute_batch_size: list.insert(dim, len) *)
            Done (Node (py_insert bs dd (Z.of_nat (S (List.length others)))) None ents')
      end
  end.

Fixpoint depth (t : tree) : nat :=
  match t with
  | Leaf _ => 1
  | Node _ _ ents => S (fold_right (fun p acc => Nat.max (depth (snd p)) acc) 0%nat ents)
  end.

Definition td_stack (ts : list tree) (d : Z) : out tree :=
  match ts with
  | [] => Raised ERuntime
  | t :: r => stack_at (S (depth t)) t r d
  end.

Fixpoint cat_at (fuel : nat) (first : tree) (others : list tree) (d : Z) {struct fuel} : out tree :=
  match fuel with
  | O => Unmodelled
  | S fuel' =>
      match first with
      | Leaf sh =>
          match all_leaves others with
          | Some shs => let* s := lift ERuntime (t_cat (sh :: shs) d) in Done (Leaf s)
          | None => Raised ERuntime
          end
      | Node bs nm ents =>
          let n := Z.of_nat (List.length bs) in
          let dd := if d <? 0 then n + d else d in
          if n <=? dd then Raised ERuntime
          else if fixed_D22 && (dd <? 0) then Raised ERuntime
          else if (dd <? - n) then Raised EIndex                 (* batch_size[dim] = ...: Python indexing *)
          else
            match forallb (fun t => match t with Node _ _ _ => true | Leaf _ => false end) others with
            | false => Raised ERuntime
            | true =>
                let others_bs := map top_shape others in
                (* td.batch_size[dim] for td in list: Python indexing on every operand *)
                if negb (forallb (fun b => (- len b <=? dd) && (dd <? len b)) others_bs) then Raised EIndex
                else
                  let total := sumZ (map (fun b => nthZ b (py_pos b dd)) (bs :: others_bs)) in
                  let bs' := set_nth (py_pos bs dd) total bs in
                  let* ents' :=
                    (fix go (l : list (string * tree)) : out (list (string * tree)) :=
                       match l with
                       | [] => Done []
                       | (k, c) :: r =>
                           match collect k others with
                           | None => Raised EKey
                           | Some cs =>
                               let* c' := cat_at fuel' c cs dd in
                               let* r' := go r in
                               Done ((k, c') :: r')
                           end
                       end) ents in
                  Done (Node bs' (if has_names nm then nm else None) ents')
            end
      end
  end.

Definition td_cat (ts : list tree) (d : Z) : out tree :=
  match ts with
  | [] => Raised ERuntime
  | t :: r => cat_at (S (depth t)) t r d
  end.

(* ==================================================================================================
   stack / cat with out= a TensorDict (_torch_func.py:_stack / _cat, out is not None; _td.py:_stack_onto_)
   The destination keeps its structure; what the model decides is whether the call is accepted.
   ================================================================================================== *)
Fixpoint stack_out_at (fuel : nat) (first : tree) (others : list tree) (d : Z) (dest : tree) {struct fuel} : out tree :=
  match fuel with
  | O => Unmodelled
  | S fuel' =>
      match first, dest with
      | Leaf sh, Leaf dsh =>
          match all_leaves others with
          | Some shs =>
              (* torch.stack(..., out=dest): a destination of another shape is resized (with a warning) *)
              let* s := lift ERuntime (t_stack (sh :: shs) d) in Done (Leaf s)
          | None => Raised ERuntime
          end
      | Node bs nm ents, Node obs onm oents =>
          let n := Z.of_nat (List.length bs) in
          let dd := if d <? 0 then n + d + 1 else d in
          if fixed_D22 && ((dd <? 0) || (n <? dd)) then Raised EIndex
          else if negb (forallb (fun t => match t with Node b _ _ => list_eqb b bs | Leaf _ => false end) others)
          then Raised ERuntime
          else if negb (list_eqb (py_insert bs dd (Z.of_nat (S (List.length others)))) obs) then Raised ERuntime
          else
            let* _r :=
              (fix go (l : list (string * tree)) : out (list (string * tree)) :=
                 match l with
                 | [] => Done []
                 | (k, dst) :: r =>
                     match lookup k ents, collect k others with
                     | Some c, Some cs =>
                         let* c' := stack_out_at fuel' c cs dd dst in
                         let* r' := go r in
                         Done ((k, c') :: r')
                     | _, _ => Unmodelled
                     end
                 end) oents in
            Done (Node obs onm _r)
      | _, _ => Raised ERuntime
      end
  end.

Definition td_stack_out (ts : list tree) (d : Z) (dest : tree) : out tree :=
  match ts with
  | [] => Raised ERuntime
  | t :: r => stack_out_at (S (depth t)) t r d dest
  end.

Fixpoint cat_out_at (fuel : nat) (first : tree) (others : list tree) (d : Z) (dest : tree) {struct fuel} : out tree :=
  match fuel with
  | O => Unmodelled
  | S fuel' =>
      match first, dest with
      | Leaf sh, Leaf dsh =>
          match all_leaves others with
          | Some shs =>
              let* s := lift ERuntime (t_cat (sh :: shs) d) in Done (Leaf s)
          | None => Raised ERuntime
          end
      | Node bs nm ents, Node obs onm oents =>
          let n := Z.of_nat (List.length bs) in
          let dd := if d <? 0 then n + d else d in
          if n <=? dd then Raised ERuntime
          else if fixed_D22 && (dd <? 0) then Raised ERuntime
          else if (dd <? - n) then Raised EIndex
          else if negb (forallb (fun t => match t with Node _ _ _ => true | Leaf _ => false end) others) then Raised ERuntime
          else
            let others_bs := map top_shape others in
            if negb (forallb (fun b => (- len b <=? dd) && (dd <? len b)) others_bs) then Raised EIndex
            else
              let total := sumZ (map (fun b => nthZ b (py_pos b dd)) (bs :: others_bs)) in
              if negb (list_eqb (set_nth (py_pos bs dd) total bs) obs) then Raised ERuntime
              else
                (* `for key in keys` : the operands' keys *)
                let* _r :=
                  (fix go (l : list (string * tree)) : out (list (string * tree)) :=
                     match l with
                     | [] => Done []
                     | (k, c) :: r =>
                         match lookup k oents, collect k others with
                         | Some dst, Some cs =>
                             let* c' := cat_out_at fuel' c cs dd dst in
                             let* r' := go r in
                             Done ((k, c') :: r')
                         | _, _ => Raised EKey
                         end
                     end) ents in
                Done (Node obs onm (map (fun e => match lookup (fst e) _r with Some c' => (fst e, c') | None => e end) oents))
      | _, _ => Raised ERuntime
      end
  end.

Definition td_cat_out (ts : list tree) (d : Z) (dest : tree) : out tree :=
  match ts with
  | [] => Raised ERuntime
  | t :: r => cat_out_at (S (depth t)) t r d dest
  end.
