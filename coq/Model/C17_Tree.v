(* C17 — write-back on trees.  `__exit__` -> `_reverse_*` -> `out.update_(inv)` (locked original) or
   `out.update(inv, inplace=False)` (unlocked), where [out] is the ORIGINAL and [inv] the inverse-transformed yielded object.
   A leaf is a tensor object: its identity [sid] (storage) and its content [c].  A node is its storage dict in insertion order.
   base.py::update_ (the `_items_list(True, True, sorting_keys=keys, default="intersection")` + `_foreach_copy_` route and its
   per-leaf fallback) and base.py::update (recursion into entries that are nodes on both sides, rebinding otherwise).
   Definitions only. *)
From Coq Require Import ZArith List String Bool.
Import ListNotations.
Open Scope string_scope.
Open Scope list_scope.

Inductive ktree := KLeaf (sid : nat) (c : Z) | KNode (es : list (string * ktree)).
Definition kents := list (string * ktree).

Fixpoint kget (k : string) (es : kents) : option ktree :=
  match es with [] => None | (k', v) :: r => if String.eqb k' k then Some v else kget k r end.

(* d[k] = v : an existing key keeps its position, a new key goes last *)
Fixpoint kset (k : string) (v : ktree) (es : kents) : kents :=
  match es with
  | [] => [(k, v)]
  | (k', v') :: r => if String.eqb k' k then (k', v) :: r else (k', v') :: kset k v r
  end.

(* the leaf at a path *)
Fixpoint kfind (p : list string) (es : kents) : option (nat * Z) :=
  match p with
  | [] => None
  | k :: rest =>
      match kget k es with
      | None => None
      | Some (KLeaf s c) => match rest with [] => Some (s, c) | _ => None end
      | Some (KNode sub) => match rest with [] => None | _ => kfind rest sub end
      end
  end.

(* leaves with their paths, in iteration order: items(include_nested=True, leaves_only=True) *)
Fixpoint kleaves (prefix : list string) (t : ktree) : list (list string * (nat * Z)) :=
  match t with
  | KLeaf s c => [(prefix, (s, c))]
  | KNode es => (fix go (es : kents) := match es with [] => [] | (k, w) :: r => kleaves (prefix ++ [k]) w ++ go r end) es
  end.
Definition kleaves_es (es : kents) : list (list string * (nat * Z)) := kleaves [] (KNode es).

(* ---------------- locked: update_ ---------------- *)
(* every leaf of [t] (the original) that [inv] also has at the same path gets inv's content; identity and structure stay *)
Fixpoint copy_in (inv : kents) (prefix : list string) (t : ktree) : ktree :=
  match t with
  | KLeaf s c => KLeaf s (match kfind prefix inv with Some (_, c') => c' | None => c end)
  | KNode es => KNode ((fix go (es : kents) : kents :=
                          match es with [] => [] | (k, w) :: r => (k, copy_in inv (prefix ++ [k]) w) :: go r end) es)
  end.
Definition copy_es (inv : kents) (prefix : list string) (es : kents) : kents :=
  match copy_in inv prefix (KNode es) with KNode r => r | KLeaf _ _ => es end.

Definition has_leaf_at (es : kents) (p : list string) : bool := match kfind p es with Some _ => true | None => false end.

(* no common leaf at all and inv has a leaf: the per-leaf fallback raises KeyError; otherwise the common leaves are copied
   and the leaves only inv has are skipped *)
Definition update_inplace_t (out inv : kents) : option kents :=
  let li := kleaves_es inv in
  if existsb (fun pl => has_leaf_at out (fst pl)) li || (match li with [] => true | _ => false end)
  then Some (copy_es inv [] out) else None.

(* ---------------- unlocked: update(inv, inplace=False) ---------------- *)
(* for key, value in inv.items(): both nodes -> target.update(value); otherwise self[key] = value (rebinding, new keys last) *)
Fixpoint upd_node (v : ktree) (tgt : kents) : kents :=
  match v with
  | KLeaf _ _ => tgt
  | KNode sub =>
      (fix go (sub : kents) (acc : kents) : kents :=
         match sub with
         | [] => acc
         | (k, w) :: r =>
             go r (match w, kget k acc with
                   | KNode _, Some (KNode tsub) => kset k (KNode (upd_node w tsub)) acc
                   | _, _ => kset k w acc
                   end)
         end) sub tgt
  end.
Definition update_t (out inv : kents) : kents := upd_node (KNode inv) out.

Definition writeback_t (locked : bool) (out inv : kents) : option kents :=
  if locked then update_inplace_t out inv else Some (update_t out inv).

(* what does not depend on contents: keys, their order, the identities of the leaves *)
Fixpoint skel (t : ktree) : ktree :=
  match t with
  | KLeaf s _ => KLeaf s 0
  | KNode es => KNode ((fix go (es : kents) : kents := match es with [] => [] | (k, w) :: r => (k, skel w) :: go r end) es)
  end.
Definition skel_es (es : kents) : kents := match skel (KNode es) with KNode r => r | KLeaf _ _ => es end.

(* one step of the unlocked update, as the loop body sees it *)
Definition upd_step (acc : kents) (kw : string * ktree) : kents :=
  match snd kw, kget (fst kw) acc with
  | KNode _, Some (KNode tsub) => kset (fst kw) (KNode (upd_node (snd kw) tsub)) acc
  | _, _ => kset (fst kw) (snd kw) acc
  end.
