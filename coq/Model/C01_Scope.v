(* C01 — the domain of the theorems as boolean predicates (definitions only; the harness evaluates them on every
   generated case so that the evidence can say how many cases lay inside the theorems' domain). *)
From Coq Require Import List String Bool Arith.
Import ListNotations.
From TD Require Import Model.C01_Tree Model.C01_Ops.
From TD Require Model.C04_Tree.
Open Scope string_scope.
Open Scope list_scope.

(* what a caller may hand over: tensordicts that are coherent by themselves (they are states of other tensordicts);
   tensors and python objects are unconstrained *)
Fixpoint value_okb (v : value) : bool :=
  match v with
  | VTree t => coh [] None t
  | VStr => true
  | VDict items => forallb (fun kv => value_okb (snd kv)) items
  end.

(* largest batch rank among the nodes of a subtree *)
Fixpoint max_rank (t : tree) : nat :=
  match t with
  | Leaf _ _ => 0
  | Node _ bs _ _ es => Nat.max (List.length bs) (fold_right (fun kv m => Nat.max (max_rank (snd kv)) m) 0 es)
  end.


(* no dim names at a node and below it *)
Fixpoint no_names (t : tree) : bool :=
  match t with
  | Leaf _ _ => true
  | Node _ _ _ nm es => match nm with None => true | Some _ => false end && forallb (fun kv => no_names (snd kv)) es
  end.
Definition no_names_below (t : tree) : bool :=
  match t with Leaf _ _ => true | Node _ _ _ _ es => forallb (fun kv => no_names (snd kv)) es end.

Definition node_keys (t : tree) : list string := match t with Node _ _ _ _ es => map fst es | Leaf _ _ => [] end.

(* the domain of C01_step, decided from the node the call is issued on and the call.  After the repairs D101/D102/D103
   no recorded defect of the modelled calls is left; what remains are two hypotheses of the PROOF (not refuted, see
   notes): when a batch size is assigned (batch_size =, auto_batch_size_) on a node, the nodes below it carry no dim
   names — a dim-name conflict while the names are pushed down is the one way the call can still fail after it started
   to resize nested nodes — and auto_batch_size_(k) is in its growing regime (k not below the rank of a node below). *)
Definition clean0 (self : tree) (o : op0) : bool :=
  match o with
  | OSet _ v _ | OSet_ _ v | OSetDefault _ v | OUpdate v _ => value_okb v
  | OBatchSize _ _ => no_names_below self
  | OAutoBS k => no_names_below self && match k with None => true | Some kk => Nat.leb (max_rank self) kk end
  | _ => true
  end.

(* the property's exclusion seen from the node: the new batch size still extends the parent's *)
Definition node_scope (pbs : list nat) (o : op0) : bool :=
  match o with
  | OBatchSize _ new => prefixb pbs new
  | OAutoBS (Some kk) => Nat.leb (List.length pbs) kk
  | _ => true
  end.

Fixpoint subtree (path : list string) (t : tree) : option tree :=
  match path with
  | [] => Some t
  | k :: r =>
      match t with
      | Node KTd _ _ _ es => match aget k es with Some c => subtree r c | None => None end
      | _ => None
      end
  end.

Definition cleanb (t : tree) (o : op) : bool :=
  match o with OAt path o0 => match subtree path t with Some n => clean0 n o0 | None => true end end.

