(* C01 — the domain of the theorems as boolean predicates (definitions only; the harness evaluates them on every
   generated case so that the evidence can say how many cases lay inside the theorems' domain). *)
From Coq Require Import List String Bool Arith.
Import ListNotations.
From TD Require Import Model.C01_Tree Model.C01_Ops.
From TD Require Model.C04_Tree.
Open Scope string_scope.
Open Scope list_scope.

(* what a caller may hand over: tensordicts that are coherent by themselves (they are states of other tensordicts)
   and contain no hollow node (findings D101/D102 live there); tensors and python objects are unconstrained *)
Fixpoint value_okb (v : value) : bool :=
  match v with
  | VTree t => coh [] None t && hollow_free t
  | VStr => true
  | VDict items => forallb (fun kv => value_okb (snd kv)) items
  end.

(* largest batch rank among the nodes of a subtree *)
Fixpoint max_rank (t : tree) : nat :=
  match t with
  | Leaf _ _ => 0
  | Node _ bs _ _ es => Nat.max (List.length bs) (fold_right (fun kv m => Nat.max (max_rank (snd kv)) m) 0 es)
  end.


Definition node_keys (t : tree) : list string := match t with Node _ _ _ _ es => map fst es | Leaf _ _ => [] end.

(* the region where the code is free of the recorded defects, decided from the node the call is issued on and the call:
   - values are tensordicts that are coherent by themselves and contain no hollow node (D101/D102 need one),
   - batch_size is assigned on a node without hollow descendants (D101/D102),
   - rename_key_ gets a plain string as new key, unflatten_keys finds no key to split (D103),
   - auto_batch_size_(k) is in its growing regime: k is not below the rank of a node of the subtree (D108 otherwise),
     and the subtree has no hollow node (D101) *)
Definition clean0 (self : tree) (o : op0) : bool :=
  match o with
  | OSet _ v _ | OSet_ _ v | OSetDefault _ v | OUpdate v _ => value_okb v
  | ORename _ new _ => Nat.eqb (List.length new) 1
  | OBatchSize _ _ => hollow_free self
  | OUnflatten sep => forallb (fun k => negb (C04_Tree.str_contains sep k)) (node_keys self)
  | OAutoBS k => hollow_free self && match k with None => true | Some kk => Nat.leb (max_rank self) kk end
  | _ => true
  end.

(* the property's exclusion seen from the node: the new batch size still extends the parent's *)
Definition node_scope (pbs : list nat) (o : op0) : bool :=
  match o with
  | OBatchSize _ new => prefixb pbs new
  | OAutoBS (Some kk) => Nat.leb (List.length pbs) kk
  | _ => true
  end.

Fixpoint subtree (path : list string) (t : tree) : option tree :=
  match path with
  | [] => Some t
  | k :: r =>
      match t with
      | Node KTd _ _ _ es => match aget k es with Some c => subtree r c | None => None end
      | _ => None
      end
  end.

Definition cleanb (t : tree) (o : op) : bool :=
  match o with OAt path o0 => match subtree path t with Some n => clean0 n o0 | None => true end end.

