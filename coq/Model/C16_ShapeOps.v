(* Model (definitions only): the shape operations of C02 applied to a non-tensor entry.
     tensorclass.py  _wrap_td_method: a method of a NonTensorData that is not overridden (view, reshape, permute, transpose,
                     squeeze, unsqueeze, flatten, unflatten, expand, repeat, repeat_interleave) is called on its `_tensordict`
                     - a TensorDict WITHOUT entries that carries the batch size - and the result is wrapped again with the SAME
                     non-tensor data: only the batch size changes, the payload is shared.  The batch size is computed by the
                     code C02 transcribes (Model/C02_ShapeOps.apply, used here on the tree `Node batch_size None []`).
     _lazy.py        LazyStackedTensorDict._view / reshape on a NonTensorStack (what TensorDict.view / reshape calls on the entry
                     once the -1 is resolved and the shape differs from the batch size): a target that merges dims i..j of the
                     batch size (utils._check_is_flatten) or splits one (utils._check_is_unflatten) reorganises the lazy stack;
                     any other target: `view` raises RuntimeError, `reshape` falls back to TensorDict.reshape(self, shape), which
                     sees a container without keys: the entry comes back as an EMPTY TensorDict, the payloads are lost
                     (finding C16-i).
   [SLost bs] = the call returns, the entry is a plain tensordict of batch size bs without payloads;
   [SReorg] = the call returns a reorganised lazy stack (its content is checked by the oracle run only). *)
From Coq Require Import ZArith List Bool Lia.
Import ListNotations.
From TD Require Import Spec.PySlice Spec.C16_ObjArray Model.C16_NonTensor.
From TD Require Spec.C02_TorchShape Model.C02_ShapeOps.
Open Scope nat_scope.

Definition zs (sh : list nat) : list Z := map Z.of_nat sh.
Definition ns (sh : list Z) : list nat := map Z.to_nat sh.

Inductive sres := SOk (y : nt) | SLost (bs : list nat) | SRaised | SReorg | SOut.

(* NonTensorData._tensordict *)
Definition empty_td (sh : list nat) : C02_ShapeOps.tree := C02_ShapeOps.Node (zs sh) None [].

Definition shared_op (o : C02_ShapeOps.sop) (p : payload) (sh : list nat) : sres :=
  match C02_ShapeOps.apply (empty_td sh) o with
  | C02_ShapeOps.Done t' => SOk (Shared p (ns (C02_ShapeOps.top_shape t')))
  | C02_ShapeOps.Raised _ => SRaised
  | _ => SOut
  end.

(* utils._check_is_flatten(new_shape, old_shape, return_flatten_dim=True): Some (i, j) = new_shape is old_shape with the dims
   i..j merged *)
Fixpoint scan_same (new old : list nat) (i : nat) (lim : Z) : nat :=
  match new, old with
  | a :: new', b :: old' => if (Z.of_nat i <? lim)%Z && Nat.eqb a b then scan_same new' old' (S i) lim else i
  | _, _ => i
  end.

Definition check_is_flatten (new old : list nat) : option (nat * nat) :=
  match new with
  | [] => None
  | _ =>
      if negb (Nat.eqb (prod new) (prod old)) then None
      else
        let i := scan_same new old 0 (Z.of_nat (Nat.min (length new) (length old)) - 1)%Z in
        let j := (Z.of_nat (length old) - (Z.of_nat (length new) - Z.of_nat i))%Z in
        if (Z.of_nat i <=? j)%Z
           && shape_eqb (firstn i new) (firstn i old)
           && shape_eqb (skipn (S i) new) (skipn (S (Z.to_nat j)) old)
           && Nat.eqb (prod (firstn (S (Z.to_nat j) - i) (skipn i old))) (nth i new 0)
        then Some (i, Z.to_nat j) else None
  end.
Definition check_is_unflatten (new old : list nat) : option (nat * nat) := check_is_flatten old new.

(* TensorDict.view / TensorDict.reshape on a tensordict whose non-tensor entry is the stack x: -1 resolved against the number
   of elements, the same shape returns self; else the entry's own view / reshape *)
Definition stack_reshape (is_view : bool) (x : nt) (tgt : list Z) : sres :=
  match shape x with
  | None => SOut
  | Some old =>
      match (if existsb (fun d => (d <? 0)%Z) tgt
             then C02_ShapeOps.infer_size_impl tgt (C02_ShapeOps.td_numel (zs old))
             else C02_ShapeOps.Done tgt) with
      | C02_ShapeOps.Done t =>
          let new := ns t in
          if shape_eqb new old then SOk x
          else match check_is_flatten new old, check_is_unflatten new old with
               | None, None =>
                   if negb (Nat.eqb (prod new) (prod old)) then (if is_view then SRaised else SOut)
                   else if is_view then SRaised else SLost new
               | _, _ => SReorg         (* the lazy stack is reorganised: covered by the oracle run only *)
               end
      | C02_ShapeOps.Raised _ => SRaised
      | _ => SOut
      end
  end.

Definition shape_op (o : C02_ShapeOps.sop) (x : nt) : sres :=
  match x with
  | Shared p sh => shared_op o p sh
  | Stack _ _ =>
      match o with
      | C02_ShapeOps.OView tgt => stack_reshape true x tgt
      | C02_ShapeOps.OReshape tgt => stack_reshape false x tgt
      | _ => SOut
      end
  end.

(* ---------------- NonTensorStack.from_list (every nested list becomes a stack along dim 0; a payload becomes a NonTensorData
   without batch dims; an empty list cannot be stacked) *)
Fixpoint from_list (t : tree) : res nt :=
  match t with
  | Leaf p => Ok (Shared p [])
  | Node l =>
      match l with
      | [] => Raised
      | _ => rbind ((fix mp (l : list tree) : res (list nt) :=
                       match l with
                       | [] => Ok []
                       | c :: r => rbind (from_list c) (fun y => rbind (mp r) (fun ys => Ok (y :: ys)))
                       end) l) (fun ys => Ok (Stack 0 ys))
      end
  end.
