(* C17 — flatten_keys / unflatten_keys as context managers, on key trees.
   The tree functions themselves are C04's (read-only, validated there against the code): [flatten_out]
   (_flatten_keys_outplace), [unflatten_in] (unflatten_keys(inplace=True) on the shallow clone), [join] (separator.join),
   [split] / [str_contains] (key.split(separator), `separator in key`).  Here: what the two `_reverse_*` functions make of
   them — the object written back into the original — and the side condition under which a flat name splits back into
   the path it was joined from.  Definitions only. *)
From Coq Require Import ZArith List String Bool Ascii.
Import ListNotations.
From TD Require Import Model.C04_Tree Model.C04_Ops Model.C17_Tree.
Open Scope string_scope.
Open Scope list_scope.

(* names of the leaves in the flattened object *)
Definition flat_names (sep : string) (es : ents) : list (string * tree) :=
  map (fun pv => (join sep (fst pv), snd pv)) (leaves true [] (Node es)).

(* what unflatten_keys makes of one root key *)
Definition py_key_path (sep k : string) : list string := if str_contains sep k then split sep k else [k].
Definition unflat_paths (sep : string) (flat : list (string * tree)) : list (list string * tree) :=
  map (fun kv => (py_key_path sep (fst kv), snd kv)) flat.

(* str.split matches leftmost: the component [a] followed by [rest] (which starts with the separator) is cut at the joint
   iff the separator does not match at any position inside a — a match may straddle the joint *)
Fixpoint suffix_free (sep a rest : string) : bool :=
  match a with
  | EmptyString => true
  | String c a' => negb (String.prefix sep (a ++ rest)) && suffix_free sep a' rest
  end.

Fixpoint clean_path (sep : string) (p : list string) : bool :=
  match p with
  | [] => false
  | [x] => negb (str_contains sep x)
  | x :: r => suffix_free sep x (sep ++ join sep r) && clean_path sep r
  end.

(* the simple sufficient condition, exact for separators of one character *)
Definition no_sep_inside (sep : string) (p : list string) : bool :=
  match p with [] => false | _ => forallb (fun x => negb (str_contains sep x)) p end.

(* ---- the blocks ---- *)
(* edits made to the yielded object inside the block: set(key, leaf) in order (new keys go last) *)
Definition apply_sets (sets : list (string * tree)) (y : ents) : ents :=
  fold_left (fun acc kv => aset (fst kv) (snd kv) acc) sets y.

(* edits with nested keys (the yielded object of unflatten_keys is nested) *)
Definition apply_psets (sets : list (list string * tree)) (y : ents) : res ents :=
  fold_left (fun acc pv => match acc with Ok a => set_tuple (fst pv) (snd pv) a | Raise e => Raise e end) sets (Ok y).

(* with td.flatten_keys(sep) as y: <sets>  -- the object _reverse_flatten_keys writes back: y.unflatten_keys(sep) *)
Definition inv_of_flatten_block (sep : string) (orig : ents) (sets : list (string * tree)) : res ents :=
  match flatten_out sep orig with
  | Raise e => Raise e
  | Ok y => match unflatten_in sep (apply_sets sets y) with (inv, None) => Ok inv | (_, Some e) => Raise e end
  end.

(* with td.unflatten_keys(sep) as y: <sets>  -- written back: y.flatten_keys(sep) *)
Definition inv_of_unflatten_block (sep : string) (orig : ents) (sets : list (list string * tree)) : res ents :=
  match unflatten_in sep orig with
  | (_, Some e) => Raise e
  | (y, None) => match apply_psets sets y with Ok y' => flatten_out sep y' | Raise e => Raise e end
  end.

(* a leaf object is identified with its content id: flatten_keys / unflatten_keys hand the same tensors on, a set() in the
   block brings a new one *)
Fixpoint to_k (t : tree) : ktree :=
  match t with
  | Leaf _ z => KLeaf (Z.to_nat z) z
  | Node es => KNode ((fix go (es : ents) : kents := match es with [] => [] | (k, w) :: r => (k, to_k w) :: go r end) es)
  end.
Definition to_kents (es : ents) : kents := match to_k (Node es) with KNode r => r | KLeaf _ _ => [] end.

Inductive block_res := BOk (after : kents) | BForwardRaises | BExitRaises.

Definition flatten_keys_block (sep : string) (locked : bool) (orig : ents) (sets : list (string * tree)) : block_res :=
  match flatten_out sep orig with
  | Raise _ => BForwardRaises
  | Ok _ =>
      match inv_of_flatten_block sep orig sets with
      | Raise _ => BExitRaises
      | Ok inv => match writeback_t locked (to_kents orig) (to_kents inv) with Some r => BOk r | None => BExitRaises end
      end
  end.

Definition unflatten_keys_block (sep : string) (locked : bool) (orig : ents) (sets : list (list string * tree)) : block_res :=
  match unflatten_in sep orig with
  | (_, Some _) => BForwardRaises
  | (_, None) =>
      match inv_of_unflatten_block sep orig sets with
      | Raise _ => BExitRaises
      | Ok inv => match writeback_t locked (to_kents orig) (to_kents inv) with Some r => BOk r | None => BExitRaises end
      end
  end.
