(* C09 — model of how pointwise ops, comparisons and softmax dispatch on a LazyStackedTensorDict (definitions only).
   A lazy stack = the list of its member trees + stack_dim; the entries of member i lack the stack dim.
   Transcribes /repo with fixes/C09/D50-D51, D52, D53 applied ([fixed_lazy] = true; [false] = before them):
     _lazy.py  items / values with is_leaf=_NESTED_TENSORS_AS_LISTS: member-indexed keys (str(i), *key)    [1798-1855]
     base.py   the fused binary family on those items; _update_items_list writes a left-over entry (i, k) into
               member i (D52)                                                                              [10382-10441]
     base.py   _maybe_broadcast_other on a lazy self: operands expanded to the broadcast shape B, unbound along the
               stack dim, member i called with slice i (D50-D51); a stack that had to be expanded is dense  [214-290]
     _lazy.py  _dispatch_comparison: members zipped with other.unbind(stack_dim)                           [2474-2530]
     _lazy.py  softmax: dim translated to the members' own dim, dense when it is the stack dim (D53)        [2578-2592]
     _lazy.py  _cast_reduction: to_tensordict() first (batch size and names of the stack)                            [2510-2575] *)
From Coq Require Import ZArith List String Bool Arith Ascii.
Import ListNotations.
From TD Require Import Model.Dual Model.C09_Align Model.C09_Shape Model.C09_Reduce.

Definition fixed_lazy : bool := true.

(* ------------------------------------------------------------------ member-indexed keys
   (str(i), *key): any injective pairing does; the index is written in unary, "|" closes it *)
Fixpoint mkey (i : nat) (k : string) : string :=
  match i with
  | O => String "|"%char k
  | S i' => String "#"%char (mkey i' k)
  end.
(* the key of member i behind a member-indexed key (None: it belongs to another member) *)
Fixpoint strip (i : nat) (mk : string) : option string :=
  match i, mk with
  | O, String c r => if Ascii.eqb c "|"%char then Some r else None
  | S i', String c r => if Ascii.eqb c "#"%char then strip i' r else None
  | _, EmptyString => None
  end.

Section LazyAlign.
  Context {V : Type}.
  Definition lazy := list (@items V).

  (* self._items_list(True, True) on a lazy stack: for i, td in enumerate(self.tensordicts): for key, val in td.items(...) *)
  Fixpoint lazy_items_from (i : nat) (l : lazy) : @items V :=
    match l with
    | [] => []
    | m :: r => map (fun kv => (mkey i (fst kv), snd kv)) m ++ lazy_items_from (S i) r
    end.
  Definition lazy_items (l : lazy) : @items V := lazy_items_from 0 l.

  Inductive lazy_operand := LOpScalar | LOpLazy (o : lazy).
  Definition flat_operand (o : lazy_operand) : @operand V :=
    match o with LOpScalar => OpScalar | LOpLazy l => OpTd (lazy_items l) end.

  (* the entries of a fused result that belong to member i, under their own keys:
     _fast_apply(pop, named=True, nested_keys=True, is_leaf=_NESTED_TENSORS_AS_LISTS) calls pop((str(i), *key)) in
     member i, and (D52) _update_items_list sets a left-over entry (i, k) in member i.
     [fixed = false]: the left-over entries are written by result.update(items) under their member-indexed keys *)
  Definition member_part {A} (i : nat) (r : list (string * A)) : list (string * A) :=
    fold_right (fun kv acc => match strip i (fst kv) with Some k => (k, snd kv) :: acc | None => acc end) [] r.

  Inductive lazy_result (A : Type) :=
  | LzMembers (ms : list (list (string * A)))                 (* a lazy stack of these members *)
  | LzStray (ms : list (list (string * A))) (stray : list (string * A)).  (* + entries written under member-indexed keys *)
  Arguments LzMembers {A} ms.
  Arguments LzStray {A} ms stray.

  (* out-of-place fused binary op between a lazy stack and a lazy stack of the same batch shape (or a scalar):
     one fused call on the member-indexed items of both sides *)
  Definition lazy_binary_plan (fixed : bool) (fx49 : bool) (f : family) (s : lazy) (o : lazy_operand) (d : @dflt V)
    : res (lazy_result (V * @rhs V)) :=
    match binary_plan fx49 f false (lazy_items s) (flat_operand o) d with
    | Raised => Raised
    | Ok r =>
        let n := List.length s in
        if fixed then Ok (LzMembers (map (fun i => member_part i r) (seq 0 n)))
        else
          let own := filter (fun kv => mem (fst kv) (keys_of (lazy_items s))) r in
          let left := filter (fun kv => negb (mem (fst kv) (keys_of (lazy_items s)))) r in
          match left with
          | [] => Ok (LzMembers (map (fun i => member_part i own) (seq 0 n)))
          | _ => Ok (LzStray (map (fun i => member_part i own) (seq 0 n)) left)
          end
    end.
End LazyAlign.
Arguments LzMembers {A} ms.
Arguments LzStray {A} ms stray.

(* ------------------------------------------------------------------ comparisons: members zipped with other.unbind(stack_dim) *)
Section LazyCompare.
  Context {V : Type}.
  (* for td0, td1 in _zip_strict(self.tensordicts, other.unbind(stack_dim)): out.append(td0 <op> td1) *)
  Fixpoint lazy_compare (s o : list (tree V)) : res (list (@cres V)) :=
    match s, o with
    | [], [] => Ok []
    | a :: s', b :: o' => match lazy_compare s' o' with Ok r => Ok (cmp_tree a b :: r) | Raised => Raised end
    | _, _ => Raised                                                   (* _zip_strict *)
    end.
End LazyCompare.

(* ------------------------------------------------------------------ _maybe_broadcast_other on a lazy self *)
Definition insert_at {A} (n : nat) (x : A) (l : list A) : list A := firstn n l ++ x :: skipn n l.
Definition remove_at {A} (n : nat) (l : list A) : list A := firstn n l ++ skipn (S n) l.

Inductive lplan :=
| LDirect                              (* func(self, others...): the fused path on the member-indexed items *)
| LMember (B : shape) (sd' : nat) (p : bplan)
                                       (* the (expanded) stack of shape B is lazy, its stack dim is sd': member i runs
                                          op(slice i along sd' of every operand expanded to B);
                                          p = what the member's own wrapper decides for those slices *)
| LDense (p : bplan)                   (* self had to be expanded and maybe_dense_stack gave a dense tensordict:
                                          lazy operands are densified *)
| LUnsliced (B : shape)                (* before D50-D51: the per-leaf closure runs on member leaves with the whole operand *)
| LRaised.

Definition slice_kind (B' : shape) (o : okind) : okind :=
  match o with KTensor _ => KTensor B' | KTd _ => KTd B' | x => x end.

(* LazyStackedTensorDict.expand(shape): stack_dim = len(shape) + self.stack_dim - self.ndimension() *)
Definition expand_stack_dim (bs : shape) (sd : nat) (B : shape) : nat := List.length B + sd - List.length bs.

(* [hetero]: the members cannot be stacked densely (exclusive keys, heterogeneous shapes) — the expanded stack stays lazy *)
Definition lazy_maybe_broadcast (fixed hetero : bool) (bs : shape) (sd : nat) (others : list okind) : lplan :=
  if negb (existsb (needs_bcast bs) others) then LDirect else
  match sequence (map oshape others) with
  | None => LRaised
  | Some shs =>
      let shapes := bs :: fold_right (fun o acc => match o with Some s => s :: acc | None => acc end) [] shs in
      match bcast_all shapes with
      | None => LRaised
      | Some B =>
          let dense := if existsb is_tensor others
                       then (if existsb is_td others then BRaised else BPerLeaf B)
                       else BRecurse B in
          let member := fun sd' => LMember B sd' (maybe_broadcast (remove_at sd' B) (map (slice_kind (remove_at sd' B)) others)) in
          if shape_eqb B bs
          then (if fixed then member sd
                else if existsb is_tensor others then LUnsliced B else LDense dense)
          else if hetero
          then (if fixed then member (expand_stack_dim bs sd B)      (* stack_dim = self_expand.stack_dim *)
                else if existsb is_tensor others then LUnsliced B else LDense dense)
          else LDense dense
      end
  end.

(* x.unbind(d)[i] as a view *)
Definition v_select (v : view) (d i : nat) : view :=
  {| vshape := remove_at d (vshape v); vidx := fun j => vidx v (insert_at d i j) |}.

(* the view of a tensor operand of shape [s] that reaches torch in member [i] for its leaf of shape
   remove_at sd B ++ feat:  other.expand(B).unbind(sd)[i], then the member's own wrapper on that slice *)
Definition member_operand_view (s B : shape) (sd i : nat) (feat : shape) : res view :=
  match v_expand (base_view s) B with
  | Raised => Raised
  | Ok v =>
      let w := v_select v sd i in
      match operand_view (vshape w) (vshape w) feat with
      | Ok u => Ok {| vshape := vshape u; vidx := fun p => vidx w (vidx u p) |}
      | Raised => Raised
      end
  end.
(* before D50-D51: expand_as_right(other.expand(B), x) on the member's leaf x of shape remove_at sd B ++ feat *)
Definition unsliced_operand_view (s B : shape) (sd : nat) (feat : shape) : res view :=
  match v_expand (base_view s) B with
  | Raised => Raised
  | Ok v => expand_as_right v (remove_at sd B ++ feat)
  end.

(* ------------------------------------------------------------------ softmax on a lazy stack *)
Inductive sm_plan :=
| SmDense (d : nat)        (* self.to_tensordict().softmax(d) *)
| SmMember (d : nat)       (* every member: softmax over ITS batch dim d *)
| SmLeaf (d : nat)         (* before D53: torch.softmax(x, dim=d) on the member leaves *)
| SmRaised.
Definition lazy_softmax (fixed : bool) (nb sd : nat) (dim : Z) : sm_plan :=
  match correct_neg_dim dim nb with
  | None => SmRaised
  | Some d =>
      if fixed then (if Nat.eqb d sd then SmDense d else SmMember (if Nat.ltb d sd then d else d - 1))
      else SmLeaf d
  end.

(* ------------------------------------------------------------------ reductions through _cast_reduction:
   td = self.to_tensordict(); td._cast_reduction(...): the dense copy has the batch size and the names of the stack *)
(* quirk: LazyStackedTensorDict._has_names() = all(td._has_names() for td in members): members without batch dims
   carry no names, so the dense copy of a rank-1 named stack is unnamed *)
Definition lazy_dense_names (bs : shape) (names : names_t) : names_t :=
  if Nat.leb (List.length bs) 1 then None else names.
Definition lazy_front (fx : bool) (op : redop) (bs : shape) (names : names_t) (dim : dimarg) (kd : kdarg) : res red_out :=
  front fx op bs (lazy_dense_names bs names) dim kd.
