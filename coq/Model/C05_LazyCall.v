(* C05 — structural calls issued on a LazyStackedTensorDict and routed to its members, transcribed (definitions only).
   Sources: tensordict/_lazy.py  LazyStackedTensorDict._set_str / _set_tuple / __setitem__(key) (no test at the stack: every
            member's own _set_str tests its flag), del_ (@lock_blocked on the derived is_locked, then the members, each id once,
            KeyError of a member swallowed, any other exception escapes), rename_key_ (no test at the stack), _select (no test at
            the stack; select() passes strict=True), _exclude (`if inplace and self.is_locked: raise`, then the members),
            update (@lock_blocked at the stack, then TensorDictBase.update -- @lock_blocked again -- on every member).
   A member can be a TensorDict (the call lands: Model/C05_Lock.v [step] with the member as its own handle) or another lazy stack
   (the same dispatch again).  The loop over the members stops at the first member that raises: what the earlier members accepted
   stays done (partial effect) -- see [each].  Fuel as in C05_Lock.v. *)
From Coq Require Import List String Bool Arith PeanoNat.
Import ListNotations.
From TD Require Import Model.C05_Heap Model.C05_Lock.

Inductive lcall :=
| LSet (k : string)                          (* L.set(k, tensor) / L[k] = tensor: one fresh leaf (the unbound slice) per member *)
| LDel (k : string)                          (* L.del_(k) / del L[k] *)
| LRename (k k' : string) (safe : bool)      (* L.rename_key_(k, k', safe=) *)
| LSelect (ks : list string)                 (* L.select(ks.., inplace=True) *)
| LExclude (ks : list string)                (* L.exclude(ks.., inplace=True) *)
| LUpdate (k : string).                      (* L.update({k: tensor}) *)

(* does the stack itself test its (derived) lock state before it hands the call to its members? *)
Definition stack_guard (c : lcall) : bool :=
  match c with
  | LDel _ | LExclude _ | LUpdate _ => true
  | LSet _ | LRename _ _ _ | LSelect _ => false
  end.

(* the call as it lands on a TensorDict member m (issued on m itself) *)
Definition member_op (c : lcall) (m : nat) : op :=
  match c with
  | LSet k => OSet m k VLeaf
  | LDel k => ODel m m k
  | LRename k k' sf => ORename m k k' sf
  | LSelect ks => OSelect m ks
  | LExclude ks => OExclude m ks
  | LUpdate k => OSet m k VLeaf        (* TensorDictBase.update: lock_blocked, then _set_tuple -> _set_str: the same flag twice *)
  end.

(* `for td in self.tensordicts: td.<call>(...)`: the first member that does not return normally ends the loop, the state reached
   so far is kept *)
Fixpoint each (f : st -> nat -> option (st * outcome)) (s : st) (ms : list nat) : option (st * outcome) :=
  match ms with
  | [] => Some (s, Done)
  | m :: r => match f s m with
              | None => None
              | Some (s1, Done) => each f s1 r
              | Some (s1, out) => Some (s1, out)
              end
  end.

(* del_: each distinct member once; a member's KeyError is swallowed; KeyError at the end when no member had the key *)
Fixpoint del_each (f : st -> nat -> option (st * outcome)) (s : st) (ms seen : list nat) (deleted : bool) : option (st * outcome) :=
  match ms with
  | [] => Some (s, if deleted then Done else Raised EKey)
  | m :: r =>
      if memb m seen then del_each f s r seen deleted else
      match f s m with
      | None => None
      | Some (s1, Done) => del_each f s1 r (m :: seen) true
      | Some (s1, Raised EKey) => del_each f s1 r (m :: seen) deleted
      | Some (s1, out) => Some (s1, out)
      end
  end.

Fixpoint lroute (fuel : nat) (c : lcall) (s : st) (n : nat) : option (st * outcome) :=
  match fuel with
  | 0 => None
  | S f =>
    match lookup (hp s) n with
    | None => Some (s, Invalid)
    | Some nd =>
      match nk nd with
      | KTd => step (S f) s (member_op c n)
      | KLazy =>
        match node_children nd with
        | [] => Some (s, Invalid)       (* a stack without members: not generated (del_ ends in `raise None`) *)
        | ms =>
          match (if stack_guard c then is_locked (S f) (hp s) n else Some false) with
          | None => None
          | Some true => Some (s, Raised ELock)
          | Some false =>
              match c with
              | LDel _ => del_each (lroute f c) s ms [] false
              | _ => each (lroute f c) s ms
              end
          end
        end
      end
    end
  end.

(* a public call: one of C05_Lock.v, or a structural call on a lazy-stack handle *)
Inductive lop := LBase (o : op) | LCall (l : nat) (c : lcall).

Definition lstep (fuel : nat) (s : st) (o : lop) : option (st * outcome) :=
  match o with
  | LBase o => step fuel s o
  | LCall l c => if negb (is_lazy s l) then Some (s, Invalid) else lroute fuel c s l
  end.

Fixpoint lrun (ff : st -> nat) (s : st) (ops : list lop) : option (st * list outcome) :=
  match ops with
  | [] => Some (s, [])
  | o :: r => match lstep (ff s) s o with
              | None => None
              | Some (s1, out) => match lrun ff s1 r with
                                  | Some (s2, outs) => Some (s2, out :: outs)
                                  | None => None
                                  end
              end
  end.

Definition lunguarded (o : lop) : Prop :=
  match o with
  | LBase (OMakeMemmap _ _) => True
  | LBase (OMemmap _) => True
  | _ => False
  end.
