(* Memoisation of the batched views of a LOCKED tensordict (C19, direction (c)).
   tensordict/utils.py:930-984 `cache`: per-object dict  fun.__name__ -> key -> value, key = _make_cache_key(args, kwargs);
   TensorDict._add_batch_dim(self, in_dim=, vmap_level=) is called with keyword arguments only, so the key is
   ((), (("in_dim", d), ("vmap_level", L))) — modelled as the pair (d, L).  Unlocked objects bypass the cache; unlock erases it;
   a rebinding write under lock (_set_str(ignore_lock=True): make_memmap*, non-tensor promotion, _td.py:2486-2492) erases it
   through _erase_cache_upwards (repair of D19/D60, in the tree today: [fixed_rebind] = true).
   Leaves are storage ids: the batched view wraps the SAME tensor objects, so it reads the current content of the storage. *)
From Coq Require Import ZArith List Bool Lia.
Import ListNotations.
From TD Require Import Model.C19_Vmap Model.C19_Content.
Open Scope nat_scope.

Definition vkey := (Z * nat)%type.                       (* (in_dim, vmap_level) *)
Definition vkey_eqb (a b : vkey) : bool := Z.eqb (fst a) (fst b) && Nat.eqb (snd a) (snd b).

(* a batched view: along which dim, at which level, over which leaf objects (key, storage id) *)
Record view := { v_in : Z; v_level : nat; v_leaves : list (nat * nat) }.

Record node := { leaves : list (nat * nat);              (* key -> storage id (the tensor object bound to the key) *)
                 store : list (nat * Z);                  (* storage id -> content (most recent first) *)
                 locked : bool;
                 vcache : list (vkey * view);             (* td._cache["_add_batch_dim"] *)
                 ncopy : option (list (nat * nat)) }.     (* only in the seeded variant C19-1: a memoised clone(False) *)

Fixpoint find_view (k : vkey) (c : list (vkey * view)) : option view :=
  match c with
  | [] => None
  | (k', v) :: r => if vkey_eqb k k' then Some v else find_view k r
  end.

Fixpoint read (s : list (nat * Z)) (id : nat) : Z :=
  match s with
  | [] => 0%Z
  | (i, z) :: r => if Nat.eqb id i then z else read r id
  end.

Fixpoint rebind (l : list (nat * nat)) (k id : nat) : list (nat * nat) :=
  match l with
  | [] => [(k, id)]                                      (* a new entry *)
  | (k', i) :: r => if Nat.eqb k k' then (k, id) :: r else (k', i) :: rebind r k id
  end.

Fixpoint sid_of (l : list (nat * nat)) (k : nat) : option nat :=
  match l with
  | [] => None
  | (k', i) :: r => if Nat.eqb k k' then Some i else sid_of r k
  end.

(* fix_rebind: rebinding under lock erases the cache (true in the tree today).
   memo_none: the shallow copy handed to the function for an in_dim=None tensordict is memoised while locked — FALSE in the
   tree (functional_modules.py:236-239 makes a fresh arg.clone(False) on every call); true = the seeded variant C19-1 *)
Record mcfg := { fix_rebind : bool; memo_none : bool }.
Definition repo_cfg : mcfg := {| fix_rebind := true; memo_none := false |}.

Inductive mop :=
| MVmap (in_dim : Z) (level : nat)        (* a vmap call reaches td._add_batch_dim(in_dim=.., vmap_level=..) *)
| MWrite (k : nat) (z : Z)                (* in-place write: td.set_(k, ..), update_, apply_ : same tensor object, new content *)
| MRebind (k id : nat) (z : Z)            (* the entry is bound to another tensor object (under lock: make_memmap* ...) *)
| MPass (k id : nat) (z : Z)              (* a vmap call with this tensordict at in_dim None whose function writes entry k (a new
                                             tensor object id) into the tensordict it RECEIVES *)
| MUnlock | MLock.

(* the freshly computed view *)
Definition fresh (n : node) (d : Z) (l : nat) : view := {| v_in := d; v_level := l; v_leaves := leaves n |}.

(* what the function sees through a view: (key, current content of the object the view holds) *)
Definition see (n : node) (v : view) : list (nat * Z) := map (fun ki => (fst ki, read (store n) (snd ki))) (v_leaves v).

Definition upd (n : node) (lv : list (nat * nat)) (st : list (nat * Z)) (lk : bool) (vc : list (vkey * view))
  (nc : option (list (nat * nat))) : node :=
  {| leaves := lv; store := st; locked := lk; vcache := vc; ncopy := nc |}.

(* the view of an un-batched tensordict argument: in_dim None is written -1, level 0 *)
Definition none_view (lv : list (nat * nat)) : view := {| v_in := (-1)%Z; v_level := 0; v_leaves := lv |}.

Definition mstep (c : mcfg) (n : node) (op : mop) : node * option view :=
  match op with
  | MVmap d l =>
      if locked n then
        match find_view (d, l) (vcache n) with
        | Some v => (n, Some v)
        | None => let v := fresh n d l in
                  (upd n (leaves n) (store n) true (((d, l), v) :: vcache n) (ncopy n), Some v)
        end
      else (n, Some (fresh n d l))
  | MWrite k z =>
      match sid_of (leaves n) k with
      | Some id => (upd n (leaves n) ((id, z) :: store n) (locked n) (vcache n) (ncopy n), None)
      | None => (n, None)
      end
  | MRebind k id z =>
      let er := fix_rebind c && locked n in
      (upd n (rebind (leaves n) k id) ((id, z) :: store n) (locked n)
           (if er then [] else vcache n) (if er then None else ncopy n), None)
  | MPass k id z =>
      if memo_none c && locked n then
        let cp := match ncopy n with Some cp => cp | None => leaves n end in
        (upd n (leaves n) ((id, z) :: store n) (locked n) (vcache n) (Some (rebind cp k id)), Some (none_view cp))
      else (n, Some (none_view (leaves n)))
  | MUnlock => (upd n (leaves n) (store n) false [] None, None)
  | MLock => (upd n (leaves n) (store n) true (vcache n) (ncopy n), None)
  end.

(* run a history; collect, for every vmap call, what the function saw and what the per-sample loop would see *)
Fixpoint mrun (c : mcfg) (n : node) (ops : list mop) : list (list (nat * Z) * list (nat * Z)) :=
  match ops with
  | [] => []
  | op :: r =>
      match mstep c n op with
      | (n', Some v) => (see n v, see n (none_view (leaves n))) :: mrun c n' r
      | (n', None) => mrun c n' r
      end
  end.

(* every memoised view is the view a fresh computation would give, and an unlocked tensordict memoises nothing *)
Definition cache_inv (n : node) : Prop :=
  (forall k v, In (k, v) (vcache n) -> v = fresh n (fst k) (snd k)) /\ (locked n = false -> vcache n = []).

(* ---------------- dim names of a SHARED batched view under un-batching ----------------
   A batched view is un-batched more than once when the function returns it several times (tuple outputs with their own
   out_dims), when it is the memoised view of a locked tensordict (one un-batching per vmap call), and the clone(False) handed
   over for an in_dim = None tensordict shares its names LIST with the caller's tensordict.
   TensorDict._maybe_remove_batch_dim (_td.py): names = self._maybe_names(); if names: new_names = list(names);
   new_names.insert(out_dim, None) — the insert goes into a COPY ([copy_names] = true, the tree).  copy_names = false is the
   seeded variant C19-3 (insert into the view's own list). *)
Definition unbatch_names (copy_names : bool) (vn : names) (o : Z) : names * names :=
  let r := names_remove vn o in
  (r, if copy_names then vn else match r with Some _ => r | None => vn end).

(* un-batch the same view once per out_dim: the names of every result, and the names the view is left with *)
Fixpoint unbatch_seq (copy_names : bool) (vn : names) (os : list Z) : list names * names :=
  match os with
  | [] => ([], vn)
  | o :: r => let '(res, vn1) := unbatch_names copy_names vn o in
              let '(rs, vn2) := unbatch_seq copy_names vn1 r in (res :: rs, vn2)
  end.
