(* C06 — the memoisation layer of tensordict (utils.py:889-960 cache / _make_cache_key / _unfold_sequence / erase_cache,
   base.py:4214 _erase_cache, base.py:13030-13160 lock graph, _lazy.py:3124-3190 derived lock of lazy stacks,
   _td.py:2511-2590 _set_at_str rebinding, _td.py:2964-3130 make_memmap*, _td.py:2750-2840 _memmap_) over a flat,
   path-addressed heap.  Definitions only.

   What is transcribed literally: the decorator (consulted only when the node is locked; a Tensor result is never stored;
   key computed from the raw positional/keyword arguments: str/int/bool/slice/Ellipsis by value, list/tuple recursively,
   EVERYTHING ELSE BY id()), erase_cache on _propagate_unlock and on the lazy names setter, the writes that are permitted
   under lock and what they touch.  What is abstracted: a memoised method's result is a *reference structure* (which leaf
   objects / storages / metadata it holds), not element values; key order inside results is the heap order.

   [fixes] switches each recorded defect off (the model with [repo] is /repo as it is today, C06 and C05 repairs applied). *)
From Coq Require Import ZArith List String Bool Arith.
Import ListNotations.
Open Scope string_scope.
Open Scope list_scope.

(* ------------------------------------------------------------------------------------------------ arguments and keys *)
Record obj := { o_addr : nat;   (* id(o) *)
                o_uid : nat;    (* which object it is (never reused) *)
                o_sem : nat }.  (* what it means to the callee: for an is_leaf callable the mask of leaf kinds it accepts *)

(* Python values as the key computation sees them.  bool is a subclass of int, True == 1 and hash(True) == hash(1):
   a bool IS the int 0/1 here (the conflation is built into the representation).  None is an object like any other
   (the singleton at address 0). *)
Inductive arg :=
| AStr (s : string) | AInt (z : Z) | ASlice (a b c : option Z) | AEll
| AObj (o : obj)                     (* None, callables, tensors, floats, ... : by id() *)
| ASeq (l : list arg).               (* list or tuple: unfolded recursively into a tuple *)

Inductive katom :=
| KStr (s : string) | KInt (z : Z) | KSlice (a b c : option Z) | KEll | KId (addr : nat) | KTup (l : list katom).

Definition none_obj : obj := {| o_addr := 0; o_uid := 0; o_sem := 0 |}.     (* callers' objects have addresses >= 1 *)
Definition ANone : arg := AObj none_obj.
Definition ABool (b : bool) : arg := AInt (if b then 1 else 0)%Z.
Definition is_none (a : arg) : bool := match a with AObj o => Nat.eqb (o_addr o) 0 | _ => false end.

(* utils.py:889 _unfold_sequence, one item *)
Fixpoint unfold_arg (a : arg) : katom :=
  match a with
  | AStr s => KStr s
  | AInt z => KInt z
  | ASlice a b c => KSlice a b c
  | AEll => KEll
  | AObj o => KId (o_addr o)
  | ASeq l => KTup (map unfold_arg l)
  end.

Fixpoint insert_kw (x : string * arg) (l : list (string * arg)) : list (string * arg) :=
  match l with
  | [] => [x]
  | y :: r => if String.leb (fst x) (fst y) then x :: l else y :: insert_kw x r
  end.
Definition sort_kw (l : list (string * arg)) : list (string * arg) := fold_right insert_kw [] l.

Definition ckey := (katom * katom)%type.

(* utils.py:900 _make_cache_key (the two fast paths return what the general path returns) *)
Definition make_cache_key (args : list arg) (kwargs : list (string * arg)) : ckey :=
  match args, kwargs with
  | [], [] => (KTup [], KTup [])
  | [AStr s], [] => (KTup [KStr s], KTup [])
  | _, _ => (KTup (map unfold_arg args),
             KTup (map (fun kv => KTup [KStr (fst kv); unfold_arg (snd kv)]) (sort_kw kwargs)))
  end.

Definition opt_Z_eqb (a b : option Z) : bool :=
  match a, b with Some x, Some y => Z.eqb x y | None, None => true | _, _ => false end.

Fixpoint katom_eqb (a b : katom) : bool :=
  match a, b with
  | KStr s, KStr t => String.eqb s t
  | KInt x, KInt y => Z.eqb x y
  | KSlice a1 b1 c1, KSlice a2 b2 c2 => opt_Z_eqb a1 a2 && opt_Z_eqb b1 b2 && opt_Z_eqb c1 c2
  | KEll, KEll => true
  | KId x, KId y => Nat.eqb x y
  | KTup l, KTup m =>
      (fix go (l m : list katom) : bool :=
         match l, m with
         | [], [] => true
         | x :: l', y :: m' => katom_eqb x y && go l' m'
         | _, _ => false
         end) l m
  | _, _ => false
  end.
Definition ckey_eqb (a b : ckey) : bool := katom_eqb (fst a) (fst b) && katom_eqb (snd a) (snd b).

(* ------------------------------------------------------------------------------------------------ the heap *)
Definition path := list string.

Fixpoint path_eqb (a b : path) : bool :=
  match a, b with
  | [], [] => true
  | x :: a', y :: b' => String.eqb x y && path_eqb a' b'
  | _, _ => false
  end.

(* [strip p q] = Some r  iff  q = p ++ r *)
Fixpoint strip (p q : path) : option path :=
  match p, q with
  | [], _ => Some q
  | x :: p', y :: q' => if String.eqb x y then strip p' q' else None
  | _ :: _, [] => None
  end.
Definition path_mem (p : path) (l : list path) : bool := existsb (path_eqb p) l.
Definition is_prefix (p q : path) : bool := match strip p q with Some _ => true | None => false end.
Definition proper_prefix (p q : path) : bool := match strip p q with Some (_ :: _) => true | _ => false end.

Inductive lkind := KTensor | KNonTensorData | KNonTensorStack.
Definition lkind_eqb (a b : lkind) : bool :=
  match a, b with KTensor, KTensor | KNonTensorData, KNonTensorData | KNonTensorStack, KNonTensorStack => true | _, _ => false end.
Definition kind_bit (k : lkind) : nat := match k with KTensor => 0 | KNonTensorData => 1 | KNonTensorStack => 2 end.

Record leaf := { l_uid : nat;       (* the bound object *)
                 l_kind : lkind;
                 l_stor : nat;      (* its storage (tensors): in-place writes change the store, not the leaf *)
                 l_payload : Z;     (* content of a non-tensor object (immutable object: a new payload is a new object) *)
                 l_dtype : nat; l_numel : nat; l_esize : nat;
                 l_mm : bool }.     (* a MemoryMappedTensor: memmap_() keeps it as it is *)

Record nmeta := { m_bs : list nat; m_names : option (list string); m_dev : nat }.

Inductive nkind := NTD | NLAZY.
Definition nkind_eqb (a b : nkind) : bool := match a, b with NTD, NTD | NLAZY, NLAZY => true | _, _ => false end.

(* what a memoised result holds *)
Inductive item :=
| ILeaf (l : leaf)                                        (* the bound object itself *)
| INode (uid : nat)                                       (* a nested tensordict object *)
| IShare (k : lkind) (stor : nat) (payload : Z) (dtype numel : nat)   (* a new object on the same storage (detach, batched view) *)
| ICopy (k : lkind) (content : Z) (dtype numel : nat).    (* a stacked COPY of a lazy stack's entry: content frozen *)

Inductive cval :=
| VView (incl lo : bool) (mask : nat) (sort : bool) (pins : list obj)       (* _TensorDictKeysView: live, retains is_leaf *)
| VList (l : list (path * item))                                            (* _values_list / _items_list *)
| VKeys (l : list string)
| VTd (meta : list (path * nmeta)) (l : list (path * item)) (pins : list obj)   (* a tensordict result; _last_op retains the arguments *)
| VNat (n : nat) | VOptNat (o : option nat) | VBool (b : bool)
| VNames (l : option (list string))
| VTensor                                                                   (* a torch.Tensor result: never stored *)
| VRaise.                                                                   (* TypeError and friends: nothing stored *)

Inductive meth := MNestedKeys | MValuesList | MItemsList | MSortedKeys | MFlattenKeys | MUnflattenKeys | MDetach
                | MDtype | MDepth | MBytes | MParamCount | MAddBatchDim
                | MKeyList | MHasExclusive | MLazyGetStr.

Definition meth_name (m : meth) : string :=
  match m with
  | MNestedKeys => "_nested_keys" | MValuesList => "_values_list" | MItemsList => "_items_list" | MSortedKeys => "sorted_keys"
  | MFlattenKeys => "flatten_keys" | MUnflattenKeys => "unflatten_keys" | MDetach => "detach" | MDtype => "_dtype"
  | MDepth => "_depth" | MBytes => "bytes" | MParamCount => "param_count" | MAddBatchDim => "_add_batch_dim"
  | MKeyList => "_key_list" | MHasExclusive => "_has_exclusive_keys" | MLazyGetStr => "_get_str"
  end.
Definition meth_eqb (a b : meth) : bool := String.eqb (meth_name a) (meth_name b).
Definition all_meths : list meth :=
  [MNestedKeys; MValuesList; MItemsList; MSortedKeys; MFlattenKeys; MUnflattenKeys; MDetach; MDtype; MDepth; MBytes; MParamCount;
   MAddBatchDim; MKeyList; MHasExclusive; MLazyGetStr].

Record centry := { e_meth : meth; e_key : ckey; e_val : cval;
                   e_args : list arg; e_kwargs : list (string * arg) }.   (* ghost: the call that created the entry *)

Record node := { n_path : path; n_uid : nat; n_kind : nkind;
                 n_flag : option bool;        (* _is_locked: Some b; a lazy stack that was never locked itself has None *)
                 n_parents : list path;       (* __lock_parents_weakrefs (nodes of a tree: paths) *)
                 n_memmap : bool; n_meta : nmeta;
                 n_cache : list centry }.     (* _cache: method -> key -> value, flattened *)

Record state := { nodes : list node; leaves : list (path * leaf); store : list (nat * Z) }.

Definition find_node (s : state) (p : path) : option node := find (fun n => path_eqb (n_path n) p) (nodes s).
Definition find_leaf (s : state) (p : path) : option leaf :=
  match find (fun pl => path_eqb (fst pl) p) (leaves s) with Some pl => Some (snd pl) | None => None end.
Definition store_get (st : list (nat * Z)) (k : nat) : Z :=
  match find (fun kv => Nat.eqb (fst kv) k) st with Some kv => snd kv | None => 0%Z end.
Definition store_set (st : list (nat * Z)) (k : nat) (v : Z) : list (nat * Z) :=
  (k, v) :: filter (fun kv => negb (Nat.eqb (fst kv) k)) st.

Definition is_child (p q : path) : bool := match strip p q with Some [_] => true | _ => false end.
Definition children_nodes (s : state) (p : path) : list node := filter (fun n => is_child p (n_path n)) (nodes s).

(* _lazy.py:3124 is_locked: the flag if it is set, otherwise "all members are locked (and there is a member)";
   members of a lazy stack are TensorDicts here (one level of derivation) *)
Definition flag_locked (n : node) : bool := match n_flag n with Some b => b | None => false end.
(* D64 repaired: utils.cache does not memoise for a lazy stack whose lock is only derived (_is_locked is None) *)
Definition fixed_D64 : bool := true.
Definition node_locked (s : state) (n : node) : bool :=
  match n_flag n with
  | Some b => b
  | None => let ms := children_nodes s (n_path n) in
            negb (match ms with [] => true | _ => false end) && forallb flag_locked ms
  end.

(* the decorator memoises: locked, and (D64) not merely through its members *)
Definition cache_active (s : state) (n : node) : bool :=
  node_locked s n && (negb fixed_D64 || match n_flag n with Some _ => true | None => false end).

(* ------------------------------------------------------------------------------------------------ binding of arguments *)
Definition truthy (a : arg) : bool :=
  match a with
  | AInt z => negb (Z.eqb z 0) | AStr s => negb (String.eqb s "")
  | AObj o => negb (Nat.eqb (o_addr o) 0)                                  (* None is falsy *)
  | ASeq l => negb (match l with [] => true | _ => false end) | _ => true
  end.

Fixpoint lookup_kw (k : string) (l : list (string * arg)) : option arg :=
  match l with [] => None | (k', v) :: r => if String.eqb k k' then Some v else lookup_kw k r end.

(* Python binding: [pos] positional-or-keyword parameters, [kwonly] keyword-only ones, each with its default *)
Fixpoint bind_pos (pos : list (string * arg)) (args : list arg) (kwargs : list (string * arg)) : option (list (string * arg)) :=
  match pos, args with
  | [], [] => Some []
  | [], _ :: _ => None                                                 (* too many positional arguments *)
  | (k, d) :: pos', [] =>
      match bind_pos pos' [] kwargs with
      | Some r => Some ((k, match lookup_kw k kwargs with Some v => v | None => d end) :: r)
      | None => None end
  | (k, _) :: pos', a :: args' =>
      match lookup_kw k kwargs with
      | Some _ => None                                                 (* multiple values for argument *)
      | None => match bind_pos pos' args' kwargs with Some r => Some ((k, a) :: r) | None => None end
      end
  end.
Definition bind (pos kwonly : list (string * arg)) (args : list arg) (kwargs : list (string * arg)) : option (list (string * arg)) :=
  if forallb (fun kv => existsb (fun pd => String.eqb (fst pd) (fst kv)) (pos ++ kwonly)) kwargs
  then match bind_pos pos args kwargs with
       | Some r => Some (r ++ map (fun kd => (fst kd, match lookup_kw (fst kd) kwargs with Some v => v | None => snd kd end)) kwonly)
       | None => None
       end
  else None.                                                           (* unexpected keyword argument *)

Definition par (env : list (string * arg)) (k : string) : arg := match lookup_kw k env with Some v => v | None => ANone end.

Definition signature (m : meth) : list (string * arg) * list (string * arg) :=
  match m with
  | MNestedKeys => ([("include_nested", ABool false); ("leaves_only", ABool false); ("is_leaf", ANone)], [("sort", ABool false)])
  | MValuesList => ([("include_nested", ABool false); ("leaves_only", ABool false)],
                    [("collapse", ABool false); ("is_leaf", ANone); ("sorting_keys", ANone)])
  | MItemsList => ([("include_nested", ABool false); ("leaves_only", ABool false)],
                   [("collapse", ABool false); ("is_leaf", ANone); ("sorting_keys", ANone); ("default", ANone)])
  | MFlattenKeys => ([("separator", AStr "."); ("inplace", ABool false); ("is_leaf", ANone)], [])
  | MUnflattenKeys => ([("separator", AStr "."); ("inplace", ABool false)], [])
  | MBytes | MParamCount => ([], [("count_duplicates", ABool true)])
  | MAddBatchDim => ([], [("in_dim", AInt 0); ("vmap_level", AInt 1)])
  | MLazyGetStr => ([("key", ANone); ("default", ANone)], [])
  | _ => ([], [])
  end.

(* ------------------------------------------------------------------------------------------------ fresh computations *)
(* A method of node p sees the tensordict through [view_of s p]: the nodes at or below p and the entries below p with
   paths relative to p, and — only if a lazy stack lies in that subtree, because stacking copies — the element store. *)
Record ninfo := { i_uid : nat; i_kind : nkind; i_meta : nmeta }.
Record sview := { v_nodes : list (path * ninfo); v_leaves : list (path * leaf); v_store : list (nat * Z) }.

Definition info (n : node) : ninfo := {| i_uid := n_uid n; i_kind := n_kind n; i_meta := n_meta n |}.
Definition leaves_under (s : state) (p : path) : list (path * leaf) :=
  flat_map (fun ql => match strip p (fst ql) with Some r => [(r, snd ql)] | None => [] end) (leaves s).
Definition nodes_under (s : state) (p : path) : list (path * ninfo) :=
  flat_map (fun n => match strip p (n_path n) with Some r => [(r, info n)] | None => [] end) (nodes s).
Definition has_lazy (l : list (path * ninfo)) : bool := existsb (fun rn => nkind_eqb (i_kind (snd rn)) NLAZY) l.
Definition view_of (s : state) (p : path) : sview :=
  {| v_nodes := nodes_under s p; v_leaves := leaves_under s p;
     v_store := if has_lazy (nodes_under s p) then store s else [] |}.

Definition nontensor_fn : obj := {| o_addr := 2; o_uid := 2; o_sem := 7 |}.   (* tensordict.base._is_leaf_nontensor, a module-level function *)
Definition mask_default : nat := 1.        (* _default_is_leaf / _NESTED_TENSORS_AS_LISTS: tensors *)
Definition mask_nontensor : nat := 7.      (* _is_leaf_nontensor: tensors and non-tensor data *)
Definition leaf_ok (mask : nat) (l : leaf) : bool := Nat.testbit mask (kind_bit (l_kind l)).
Definition mask_of (a : arg) (dflt : nat) : nat := match a with AObj o => if Nat.eqb (o_addr o) 0 then dflt else o_sem o | _ => dflt end.
Definition pins_of (l : list arg) : list obj :=
  flat_map (fun a => match a with AObj o => if Nat.eqb (o_addr o) 0 then [] else [o] | _ => [] end) l.

Definition default_meta : nmeta := {| m_bs := []; m_names := None; m_dev := 0 |}.
Definition self_meta (v : sview) : nmeta :=
  match find (fun rn => path_eqb (fst rn) []) (v_nodes v) with Some rn => i_meta (snd rn) | None => default_meta end.
Definition metas (v : sview) : list (path * nmeta) := map (fun rn => (fst rn, i_meta (snd rn))) (v_nodes v).
Definition sub_nodes (v : sview) : list (path * ninfo) := filter (fun rn => match fst rn with [] => false | _ => true end) (v_nodes v).
Definition members (v : sview) : list (path * ninfo) := filter (fun rn => match fst rn with [_] => true | _ => false end) (v_nodes v).

(* does the way from the viewing node down to the entry at r cross a lazy stack (the viewing node included)? *)
Definition crosses_lazy (v : sview) (r : path) : bool :=
  existsb (fun rn => nkind_eqb (i_kind (snd rn)) NLAZY && proper_prefix (fst rn) r) (v_nodes v).

(* content of an entry: tensors and NonTensorStacks are mutable objects (content in the store, changed by in-place writes);
   a NonTensorData is immutable (a new payload is a new object) *)
Definition content_of (st : list (nat * Z)) (l : leaf) : Z :=
  match l_kind l with KNonTensorData => l_payload l | _ => store_get st (l_stor l) end.

Definition materialise (v : sview) (l : leaf) : item :=
  ICopy (l_kind l) (content_of (v_store v) l) (l_dtype l) (l_numel l).     (* torch.stack / lazy_stack of the members' entries *)
Definition share (l : leaf) : item := IShare (l_kind l) (l_stor l) (l_payload l) (l_dtype l) (l_numel l).

(* entries as a traversal hands them out: the object itself, or a stacked copy below a lazy stack *)
Definition entry_item (v : sview) (rl : path * leaf) : path * item :=
  (fst rl, if crosses_lazy v (fst rl) then materialise v (snd rl) else ILeaf (snd rl)).
Definition entry_share (v : sview) (rl : path * leaf) : path * item :=
  (fst rl, if crosses_lazy v (fst rl) then materialise v (snd rl) else share (snd rl)).
Definition entry_ref (rl : path * leaf) : path * item := (fst rl, ILeaf (snd rl)).

Definition depth1 {A} (rl : path * A) : bool := match fst rl with [_] => true | _ => false end.

(* [mat]: entries below a lazy stack come as stacked copies (collapse=True / default traversal) or, with
   _NESTED_TENSORS_AS_LISTS, as the members' own entries *)
Definition values_of (v : sview) (incl lo : bool) (mask : nat) (mat : bool) : list (path * item) :=
  let ls := v_leaves v in
  let ls := if incl then ls else filter depth1 ls in
  let ls := if lo then filter (fun rl => leaf_ok mask (snd rl)) ls else ls in
  let ns := if lo then [] else
              map (fun rn => (fst rn, INode (i_uid (snd rn)))) (if incl then sub_nodes v else filter depth1 (sub_nodes v)) in
  map (if mat then entry_item v else entry_ref) ls ++ ns.

Fixpoint nat_mem (x : nat) (l : list nat) : bool := match l with [] => false | y :: r => Nat.eqb x y || nat_mem x r end.

Definition common_dtype (l : list (path * leaf)) : option nat :=
  match l with
  | [] => None
  | rl :: r => if forallb (fun x => Nat.eqb (l_dtype (snd x)) (l_dtype (snd rl))) r then Some (l_dtype (snd rl)) else None
  end.

Definition top_keys_at (v : sview) (p : path) : list string :=
  flat_map (fun ql => match strip p (fst ql) with Some [k] => [k] | _ => [] end) (v_leaves v)
  ++ flat_map (fun rn => match strip p (fst rn) with Some [k] => [k] | _ => [] end) (v_nodes v).
Definition top_keys (v : sview) : list string := top_keys_at v [].

Definition str_mem (x : string) (l : list string) : bool := existsb (String.eqb x) l.
Definition names_eqb (a b : option (list string)) : bool :=
  match a, b with
  | None, None => true
  | Some x, Some y => path_eqb x y
  | _, _ => false
  end.

(* keys present in every member of a lazy stack *)
Definition lazy_common_keys (v : sview) : list string :=
  match members v with
  | [] => []
  | m0 :: ms => filter (fun k => forallb (fun m => str_mem k (top_keys_at v (fst m))) ms) (top_keys_at v (fst m0))
  end.

(* set(td.keys(True, True)) of the member at p: default is_leaf, i.e. tensor entries *)
Definition leaf_paths_at (v : sview) (p : path) : list path :=
  flat_map (fun ql => match strip p (fst ql) with Some r => if leaf_ok mask_default (snd ql) then [r] else [] | None => [] end) (v_leaves v).

(* ---- results computed FROM another memoised result (the callee's list), as the method bodies do *)
Definition item_uid (i : item) : option nat := match i with ILeaf l => Some (l_uid l) | INode u => Some u | _ => None end.
Fixpoint dedup_items (seen : list nat) (l : list (path * item)) : list (path * item) :=
  match l with
  | [] => []
  | ri :: r => match item_uid (snd ri) with
               | Some u => if nat_mem u seen then dedup_items seen r else ri :: dedup_items (u :: seen) r
               | None => ri :: dedup_items seen r
               end
  end.
Definition item_numel (i : item) : nat :=
  match i with ILeaf l => l_numel l | IShare _ _ _ _ nu => nu | ICopy _ _ _ nu => nu | INode _ => 0 end.
Definition item_bytes (i : item) : nat := match i with ILeaf l => l_numel l * l_esize l | _ => 0 end.
(* base.py:4593 bytes / :4574 param_count over self._values_list(True, True) *)
Definition bytes_of (count_dup : bool) (l : list (path * item)) : nat :=
  fold_right Nat.add 0 (map (fun ri => item_bytes (snd ri)) (if count_dup then l else dedup_items [] l)).
Definition count_of (count_dup : bool) (l : list (path * item)) : nat :=
  fold_right Nat.add 0 (map (fun ri => item_numel (snd ri)) (if count_dup then l else dedup_items [] l)).

Definition key_path (a : arg) : option path :=
  match a with
  | AStr k => Some [k]
  | ASeq l => (fix go (l : list arg) : option path :=
                 match l with [] => Some [] | AStr k :: r => option_map (cons k) (go r) | _ => None end) l
  | _ => None
  end.
(* base.py:7353: source = dict(zip(keys, vals)); [source[key] for key in sorting_keys] — KeyError when a key is missing *)
Fixpoint reorder (keys : list arg) (l : list (path * item)) : option (list (path * item)) :=
  match keys with
  | [] => Some []
  | k :: r => match key_path k with
              | None => None
              | Some q => match find (fun ri => path_eqb (fst ri) q) l, reorder r l with
                          | Some ri, Some rest => Some (ri :: rest) | _, _ => None end
              end
  end.
Definition reorder_val (sk : arg) (sub : cval) : cval :=
  match sk, sub with
  | ASeq keys, VList l => match reorder keys l with
                          | Some r => if Nat.ltb (List.length r) (List.length l) then VRaise else VList r   (* "Some keys were not found" *)
                          | None => VRaise end
  | _, _ => VRaise
  end.

(* the result of running method [m] afresh (from the tensordict itself, no memoised callee) on what the node sees *)
Definition freshv (v : sview) (m : meth) (args : list arg) (kwargs : list (string * arg)) : cval :=
  match bind (fst (signature m)) (snd (signature m)) args kwargs with
  | None => VRaise
  | Some env =>
    match m with
    | MNestedKeys =>
        VView (truthy (par env "include_nested")) (truthy (par env "leaves_only")) (mask_of (par env "is_leaf") mask_default)
              (truthy (par env "sort")) (pins_of [par env "is_leaf"])
    | MValuesList | MItemsList =>
        (* base.py:7335/7367: is_leaf is honoured only with collapse=True; otherwise _NESTED_TENSORS_AS_LISTS *)
        let mask := if truthy (par env "collapse") then mask_of (par env "is_leaf") mask_default else mask_default in
        let all := VList (values_of v (truthy (par env "include_nested")) (truthy (par env "leaves_only")) mask (truthy (par env "collapse"))) in
        if is_none (par env "sorting_keys") then all else reorder_val (par env "sorting_keys") all
    | MSortedKeys => VKeys (top_keys v)
    | MFlattenKeys =>
        if truthy (par env "inplace") then VRaise    (* blocked under lock; not a read *)
        else VTd [([], self_meta v)]
                 (map (entry_item v) (filter (fun rl => leaf_ok (mask_of (par env "is_leaf") mask_nontensor) (snd rl)) (v_leaves v)))
                 (pins_of (map snd env))             (* _last_op keeps (args, kwargs) alive *)
    | MUnflattenKeys =>
        if truthy (par env "inplace") then VRaise
        else VTd (metas v)
                 (map (fun rl => match l_kind (snd rl) with KTensor => entry_item v rl | _ => entry_share v rl end) (v_leaves v))
                 (pins_of (map snd env))
    | MDetach => VTd (metas v) (map (entry_share v) (v_leaves v)) []
    | MAddBatchDim => VTd (metas v) (map (entry_share v) (v_leaves v)) []
    | MDtype => VOptNat (common_dtype (filter (fun rl => leaf_ok mask_default (snd rl)) (v_leaves v)))
    | MDepth => VNat (fold_right Nat.max 0 (map (fun rl => Nat.pred (List.length (fst rl)))
                                              (filter (fun rl => leaf_ok mask_nontensor (snd rl)) (v_leaves v))))
    | MBytes => VNat (bytes_of (truthy (par env "count_duplicates")) (values_of v true true mask_default false))
    | MParamCount => VNat (count_of (truthy (par env "count_duplicates")) (values_of v true true mask_default false))
    | MKeyList => VKeys (lazy_common_keys v)
    | MHasExclusive =>
        VBool (match members v with
               | [] => false
               | m0 :: ms => negb (forallb (fun m => forallb (fun q => path_mem q (leaf_paths_at v (fst m))) (leaf_paths_at v (fst m0))
                                                    && Nat.eqb (List.length (leaf_paths_at v (fst m))) (List.length (leaf_paths_at v (fst m0)))) ms)
               end)
    | MLazyGetStr =>
        (* _lazy.py:1130: every member is asked in turn; the first member without the entry makes the call return [default];
           tensors are stacked (a Tensor: never stored), non-tensor entries become a stack OF the members' objects, nested nodes a
           lazy stack OF the members' node objects; a mixture cannot be stacked *)
        match par env "key" with
        | AStr k =>
            let per := map (fun m => (find (fun ql => path_eqb (fst ql) (fst m ++ [k])) (v_leaves v),
                                      find (fun rn => path_eqb (fst rn) (fst m ++ [k])) (v_nodes v))) (members v) in
            if existsb (fun x => match x with (None, None) => true | _ => false end) per
            then VTd [] [] (pins_of [par env "default"])
            else if forallb (fun x => match x with (Some ql, _) => lkind_eqb (l_kind (snd ql)) KTensor | _ => false end) per
            then VTensor
            else if forallb (fun x => match x with (Some ql, _) => negb (lkind_eqb (l_kind (snd ql)) KTensor) | _ => false end) per
            then VList (flat_map (fun x => match x with (Some ql, _) => [([k], ILeaf (snd ql))] | _ => [] end) per)
            else if forallb (fun x => match x with (None, Some _) => true | _ => false end) per
            then VTd [] (flat_map (fun x => match x with (_, Some rn) => [(fst rn, INode (i_uid (snd rn)))] | _ => [] end) per) (pins_of [par env "default"])
            else VRaise
        | _ => VRaise
        end
    end
  end.

Definition fresh (s : state) (n : node) (m : meth) (args : list arg) (kwargs : list (string * arg)) : cval :=
  freshv (view_of s (n_path n)) m args kwargs.

(* memoised calls a method makes on the same node while it runs (they fill / hit the cache too); keyword arguments in sorted order *)
Definition subcalls (m : meth) (env : list (string * arg)) : list (meth * list arg * list (string * arg)) :=
  match m with
  | MDepth => [(MNestedKeys, [], [("include_nested", ABool true); ("is_leaf", AObj nontensor_fn); ("leaves_only", ABool true);
                                  ("sort", ABool false)])]
  | MBytes | MParamCount => [(MValuesList, [ABool true; ABool true], [])]
  | MValuesList =>
      if is_none (par env "sorting_keys") then []
      else [(MItemsList, [], [("collapse", par env "collapse"); ("include_nested", par env "include_nested");
                              ("is_leaf", par env "is_leaf"); ("leaves_only", par env "leaves_only")])]
  | _ => []
  end.

(* ------------------------------------------------------------------------------------------------ the decorator *)
Definition cache_lookup (c : list centry) (m : meth) (k : ckey) : option centry :=
  find (fun e => meth_eqb (e_meth e) m && ckey_eqb (e_key e) k) c.

Definition is_tensor_result (v : cval) : bool := match v with VTensor => true | _ => false end.
Definition is_raise (v : cval) : bool := match v with VRaise => true | _ => false end.

Definition with_cache (n : node) (c : list centry) : node :=
  {| n_path := n_path n; n_uid := n_uid n; n_kind := n_kind n; n_flag := n_flag n; n_parents := n_parents n;
     n_memmap := n_memmap n; n_meta := n_meta n; n_cache := c |}.
Definition add_entry (s : state) (p : path) (e : centry) : state :=
  {| nodes := map (fun x => if path_eqb (n_path x) p then with_cache x (e :: n_cache x) else x) (nodes s);
     leaves := leaves s; store := store s |}.

Inductive access := Hit | Miss | Bypass.     (* Bypass: not locked — the cache is neither read nor written *)

(* what the method body returns when its memoised callees returned [subvals] (in the order of [subcalls]) *)
Definition body (s : state) (n : node) (m : meth) (args : list arg) (kwargs : list (string * arg)) (subvals : list cval) : cval :=
  match bind (fst (signature m)) (snd (signature m)) args kwargs with
  | None => VRaise
  | Some env =>
      match m, subvals with
      | MBytes, [VList l] => VNat (bytes_of (truthy (par env "count_duplicates")) l)
      | MParamCount, [VList l] => VNat (count_of (truthy (par env "count_duplicates")) l)
      | MBytes, _ | MParamCount, _ => VRaise
      | MValuesList, [sub] => reorder_val (par env "sorting_keys") sub
      | _, _ => fresh s n m args kwargs
      end
  end.

(* utils.py:932 newfun: the decorator around a body whose value [v] is already known *)
Definition decorate (s : state) (p : path) (m : meth) (args : list arg) (kwargs : list (string * arg)) (v : cval)
  : state * option (access * cval) :=
  match find_node s p with
  | None => (s, None)
  | Some n =>
      if negb (cache_active s n) then (s, Some (Bypass, v))
      else
        let k := make_cache_key args kwargs in
        match cache_lookup (n_cache n) m k with
        | Some e => (s, Some (Hit, e_val e))
        | None =>
            if is_tensor_result v || is_raise v then (s, Some (Miss, v))          (* "we don't cache tensors" *)
            else (add_entry s p {| e_meth := m; e_key := k; e_val := v; e_args := args; e_kwargs := kwargs |}, Some (Miss, v))
        end
  end.

(* a memoised callee without callees of its own *)
Definition call0 (s : state) (p : path) (m : meth) (args : list arg) (kwargs : list (string * arg)) : state * cval :=
  match find_node s p with
  | None => (s, VRaise)
  | Some n => match decorate s p m args kwargs (fresh s n m args kwargs) with
              | (s', Some (_, v)) => (s', v)
              | (s', None) => (s', VRaise)
              end
  end.

Definition run_subcalls (s : state) (p : path) (cs : list (meth * list arg * list (string * arg))) : state * list cval :=
  fold_left (fun acc c => let r := call0 (fst acc) p (fst (fst c)) (snd (fst c)) (snd c) in (fst r, snd acc ++ [snd r])) cs (s, []).

(* memoised calls a lazy stack's method makes on its MEMBERS while it runs: _has_exclusive_keys (_lazy.py:356) asks every
   member for set(td.keys(True, True)) — the members' memoised key views — and stops at the first member that differs *)
Fixpoint upto_first {A} (f : A -> bool) (l : list A) : list A :=
  match l with [] => [] | x :: r => if f x then [x] else x :: upto_first f r end.

Definition keys_kwargs : list (string * arg) :=
  [("include_nested", ABool true); ("is_leaf", ANone); ("leaves_only", ABool true); ("sort", ABool false)].

Definition member_calls (s : state) (p : path) (n : node) (m : meth) : state :=
  match n_kind n, m with
  | NLAZY, MHasExclusive =>
      let v := view_of s p in
      match members v with
      | [] => s
      | m0 :: ms =>
          let differs := fun x => negb (forallb (fun q => path_mem q (leaf_paths_at v (fst x))) (leaf_paths_at v (fst m0))
                                        && Nat.eqb (List.length (leaf_paths_at v (fst x))) (List.length (leaf_paths_at v (fst m0)))) in
          fold_left (fun st x => fst (call0 st (p ++ fst x) MNestedKeys [] keys_kwargs)) (m0 :: upto_first differs ms) s
      end
  | _, _ => s
  end.

(* one public read.  The body runs on a miss, when the node is not locked, and — with the verification hook on — also on
   a hit (the hook recomputes); its memoised callees on the same node (and, for a lazy stack, on its members) are issued then.
   Result: (access, value returned to the caller, value of the body if it ran). *)
Definition read (hooked : bool) (s : state) (p : path) (m : meth) (args : list arg) (kwargs : list (string * arg))
  : state * option (access * cval * option cval) :=
  match find_node s p with
  | None => (s, None)
  | Some n =>
      let env := match bind (fst (signature m)) (snd (signature m)) args kwargs with Some e => e | None => [] end in
      let hit := cache_active s n && match cache_lookup (n_cache n) m (make_cache_key args kwargs) with Some _ => true | None => false end in
      if hit && negb hooked
      then match decorate s p m args kwargs VRaise with          (* a hit never looks at the body value *)
           | (s', Some (a, v)) => (s', Some (a, v, None))
           | (s', None) => (s', None)
           end
      else
        let sv := run_subcalls (member_calls s p n m) p (subcalls m env) in
        match find_node (fst sv) p with
        | None => (fst sv, None)
        | Some n1 =>
            let v := body (fst sv) n1 m args kwargs (snd sv) in
            match decorate (fst sv) p m args kwargs v with
            | (s', Some (a, r)) => (s', Some (a, r, Some v))
            | (s', None) => (s', None)
            end
        end
  end.

(* ------------------------------------------------------------------------------------------------ locking *)
Definition upd_nodes (s : state) (f : node -> node) : state :=
  {| nodes := map f (nodes s); leaves := leaves s; store := store s |}.

Definition with_lock (n : node) (flag : option bool) (parents : list path) (mm : bool) (c : list centry) : node :=
  {| n_path := n_path n; n_uid := n_uid n; n_kind := n_kind n; n_flag := flag; n_parents := parents;
     n_memmap := mm; n_meta := n_meta n; n_cache := c |}.

Definition add_parents (old new : list path) : list path := old ++ filter (fun q => negb (path_mem q old)) new.

(* the chain of nodes from p (included) down to q (excluded) *)
Definition chain (s : state) (p q : path) : list path :=
  map n_path (filter (fun a => is_prefix p (n_path a) && proper_prefix (n_path a) q) (nodes s)).

(* base.py:13030 / _lazy.py:3163 _propagate_lock from root p: every node below becomes locked and registers the chain *)
Definition propagate_lock (s : state) (p : path) : state :=
  upd_nodes s (fun n => if is_prefix p (n_path n)
                        then with_lock n (Some true) (if path_eqb (n_path n) p then n_parents n else add_parents (n_parents n) (chain s p (n_path n)))
                                       (n_memmap n) (n_cache n)
                        else n).

(* base.py _propagate_unlock / _lazy.py: @erase_cache on every node of the subtree; a lazy stack's flag becomes None; _is_memmap
   (and _is_shared) are cleared.  [keep]: what is left of _is_memmap once unlock_ is over — an unlock_ that ends up REFUSED puts the
   flags back (D68 repaired: TensorDictBase._unset_shared_memmap records them for the running unlock_) *)
Definition propagate_unlock_k (keep : bool) (s : state) (p : path) : state :=
  upd_nodes s (fun n => if is_prefix p (n_path n)
                        then with_lock n (match n_kind n with NTD => Some false | NLAZY => None end) (n_parents n) (keep && n_memmap n) []
                        else n).
Definition propagate_unlock (s : state) (p : path) : state := propagate_unlock_k false s p.

(* base.py:13123 _check_unlock over the subtree: some registered parent is still locked *)
Definition unlock_blocked (s : state) (p : path) : bool :=
  existsb (fun n => is_prefix p (n_path n)
                    && existsb (fun q => match find_node s q with Some a => flag_locked a | None => false end) (n_parents n)) (nodes s).

(* _check_unlock clears the record of a TensorDict.  A lazy stack: before D56 (C05) its parents were derived from its members'
   (no setter: AttributeError, pass); since D56 it has a record of its own, cleared here as well.  The model keeps the stack's
   record in both versions: a stale entry is harmless, because a node that is flagged again has registered itself again in
   every node below it on the way down (_propagate_lock), and [unlock_blocked] only asks for parents that are flagged. *)
Definition clear_parents (s : state) (p : path) : state :=
  upd_nodes s (fun n => if is_prefix p (n_path n) && nkind_eqb (n_kind n) NTD
                        then with_lock n (n_flag n) [] (n_memmap n) (n_cache n) else n).

Record fixes := { fix_rebind : bool;    (* D19/S4/D60: _set_str(ignore_lock=True) under lock erases the caches of the node and of its lock parents *)
                  fix_meta : bool;      (* D63: the names setter, _erase_names and _change_batch_size do the same when the node is locked *)
                  fix_memmap : bool;    (* D61: _memmap_(inplace) on a locked node does the same, node by node *)
                  fix_lockgraph : bool; (* D7 (C05): _memmap_ leaves the flags alone; memmap_() locks its result through
                                           base._lock_graph = root._propagate_lock(None), whatever the flags are *)
                  fix_lockflag : bool;  (* D55 (C05): lock_ returns early on the stored flag _is_locked, not on the derived is_locked *)
                  fix_unlockflags : bool; (* D68: a refused unlock_ restores the _is_memmap / _is_shared flags that _propagate_unlock cleared *)
                  fix_attach : bool     (* D69: _make_memmap_subtd locks the nested tensordict it binds under a locked one (flag, lock parents) and
                                           gives it the memmap flag of the tensordict it is bound to *) }.
(* /repo with the fix: commits of C06 and of C05 (lock graph) applied *)
Definition repo : fixes := {| fix_rebind := true; fix_meta := true; fix_memmap := true; fix_lockgraph := true; fix_lockflag := true; fix_unlockflags := true; fix_attach := true |}.
(* /repo before them (the refutations of C06 were stated about this one) *)
Definition unrepaired : fixes := {| fix_rebind := false; fix_meta := false; fix_memmap := false; fix_lockgraph := false; fix_lockflag := false; fix_unlockflags := false; fix_attach := false |}.
Definition all_fixed : fixes := repo.

Inductive outcome := Done | RaisedLock | RaisedOther | NoSuchTarget.

(* base.py lock_: `if self._is_locked: return self` (D55 repaired; before: `if self.is_locked`, which is the derived lock for a
   lazy stack whose members were each locked on their own) *)
Definition lock_ (fx : fixes) (s : state) (p : path) : state * outcome :=
  match find_node s p with
  | None => (s, NoSuchTarget)
  | Some n => if (if fix_lockflag fx then flag_locked n else node_locked s n) then (s, Done) else (propagate_lock s p, Done)
  end.

Definition unlock_ (fx : fixes) (s : state) (p : path) : state * outcome :=
  match find_node s p with
  | None => (s, NoSuchTarget)
  | Some n =>
      let s1 := propagate_unlock s p in
      if unlock_blocked s1 p
      then (* except Exception: self.lock_(); [D68 repaired: restore _is_shared / _is_memmap of every node]; raise *)
           (propagate_lock (propagate_unlock_k (fix_unlockflags fx) s p) p, RaisedLock)
      else (clear_parents s1 p, Done)
  end.

(* ------------------------------------------------------------------------------------------------ writes *)
(* TensorDictBase._erase_cache_upwards, called by every node whose path satisfies [touched]: the node's own cache and the
   caches of the nodes registered as its lock parents *)
Definition erase_touched (s : state) (touched : path -> bool) : state :=
  upd_nodes s (fun x => if touched (n_path x)
                           || existsb (fun y => touched (n_path y) && path_mem (n_path x) (n_parents y)) (nodes s)
                        then with_cache x [] else x).

Definition set_leaf (s : state) (p : path) (l : leaf) : state :=
  {| nodes := nodes s;
     leaves := if existsb (fun ql => path_eqb (fst ql) p) (leaves s)
               then map (fun ql => if path_eqb (fst ql) p then (p, l) else ql) (leaves s)
               else leaves s ++ [(p, l)];
     store := store s |}.

Definition remove_under (s : state) (p : path) : state :=
  {| nodes := filter (fun n => negb (is_prefix p (n_path n))) (nodes s);
     leaves := filter (fun ql => negb (is_prefix p (fst ql))) (leaves s);
     store := store s |}.

(* what td.set(key, value) discards when key held a nested tensordict: the node and everything below it *)
Definition remove_below (s : state) (p : path) : state :=
  {| nodes := filter (fun n => negb (is_prefix p (n_path n))) (nodes s);
     leaves := filter (fun ql => negb (proper_prefix p (fst ql))) (leaves s);
     store := store s |}.

Definition parent_of (p : path) : path := removelast p.

Definition owner_locked (s : state) (p : path) : option bool :=
  match find_node s (parent_of p) with Some n => Some (node_locked s n) | None => None end.

Definition new_node (p : path) (uid : nat) (meta : nmeta) (locked mm : bool) (parents : list path) : node :=
  {| n_path := p; n_uid := uid; n_kind := NTD; n_flag := Some locked; n_parents := parents; n_memmap := mm; n_meta := meta; n_cache := [] |}.

Inductive op :=
| OLock (p : path) | OUnlock (p : path)
| ORead (p : path) (m : meth) (args : list arg) (kwargs : list (string * arg))
| OInplace (p : path) (v : Z)                 (* set_ / copy_ / set_at_ / update_ / tensor.add_ ... : the storage content changes *)
| OSet (p : path) (l : leaf)                  (* td.set(key, value): new entry or rebinding; blocked when the owner is locked *)
| OSetNode (p : path) (uid : nat) (meta : nmeta)   (* td.set(key, TensorDict()) : a new empty nested node *)
| ODel (p : path)                             (* del_ of a leaf or of a whole nested node; blocked when the owner is locked *)
| OPromote (p : path) (l : leaf)              (* td[idx] = <non-tensor>: NonTensorData -> NonTensorStack, _set_str(ignore_lock=True) *)
| OMakeMemmap (p : path) (l : leaf)           (* make_memmap / _from_tensor / _from_storage: NEW entry, ignore_lock=True *)
| OMakeMemmapNested (p : path) (uid : nat) (k : string) (l : leaf)
                                              (* make_memmap* with the nested key (last p, k) on the node above p: _make_memmap_subtd binds
                                                 the missing nested tensordict at p, then NEW entry p ++ [k] in it, ignore_lock=True *)
| OMemmap (p : path) (base : nat)             (* memmap_() in place: every tensor entry is replaced by a MemoryMappedTensor *)
| OSetNames (p : path) (names : option (list string))
| OSetBatchSize (p : path) (bs : list nat).

Definition with_meta (n : node) (m : nmeta) : node :=
  {| n_path := n_path n; n_uid := n_uid n; n_kind := n_kind n; n_flag := n_flag n; n_parents := n_parents n;
     n_memmap := n_memmap n; n_meta := m; n_cache := n_cache n |}.

(* _td.py:2308 names setter and _rename_subtds.  Names are lists with "None" for an unnamed dim; all-"None" = no names.
   value None (or all None): the node and its DIRECT nested nodes lose their names (_erase_names is not recursive);
   value V: every nested node, recursively, gets V followed by its own names beyond len(V) (rename_) *)
Definition names_list (m : nmeta) : list string :=
  match m_names m with Some l => l | None => repeat "None" (List.length (m_bs m)) end.
Definition norm_names (l : list string) : option (list string) :=
  if forallb (String.eqb "None") l then None else Some l.
Definition names_value (names : option (list string)) : option (list string) :=
  match names with Some l => norm_names l | None => None end.
Definition set_names (s : state) (p : path) (names : option (list string)) : state :=
  upd_nodes s (fun x =>
    match names_value names with
    | None => if path_eqb (n_path x) p || is_child p (n_path x)
              then with_meta x {| m_bs := m_bs (n_meta x); m_names := None; m_dev := m_dev (n_meta x) |} else x
    | Some l => if is_prefix p (n_path x)
                then with_meta x {| m_bs := m_bs (n_meta x);
                                    m_names := norm_names (l ++ skipn (List.length l) (names_list (n_meta x)));
                                    m_dev := m_dev (n_meta x) |}
                else x
    end).
(* the nodes whose names setter / _erase_names runs *)
Definition names_touched (p : path) (names : option (list string)) (x : path) : bool :=
  match names_value names with
  | None => path_eqb x p || is_child p x
  | Some _ => is_prefix p x
  end.

(* `if self._is_locked:` of the node at path x *)
Definition locked_at (s : state) (x : path) : bool :=
  match find_node s x with Some n => flag_locked n | None => false end.

Definition is_node_path (s : state) (p : path) : bool := match find_node s p with Some _ => true | None => false end.

Definition has_leaf (s : state) (p : path) : bool := match find_leaf s p with Some _ => true | None => false end.

(* _td.py _make_memmap_subtd, one missing level, no memmap prefix: result_tmp = result.empty() (batch size, names, device of the
   tensordict [o] it is bound to); result._tensordict[key] = result_tmp; when [o] is locked it erases upwards (D19/D60 repair) and
     repaired (D69)  result_tmp gets o's memmap flag and result_tmp._propagate_lock(o's lock parents + [o]): flagged, registered
     unrepaired      result_tmp stays as empty() made it: not locked, no parents, not memmap
   The erasure is computed first here: the new node has no cache and is nobody's parent, the order does not show. *)
Definition attach_node (fx : fixes) (s : state) (p : path) (uid : nat) (o : node) : state :=
  let s0 := if fix_rebind fx && flag_locked o then erase_touched s (fun x => path_eqb x (n_path o)) else s in
  {| nodes := nodes s0 ++ [new_node p uid (n_meta o) (fix_attach fx && flag_locked o) (fix_attach fx && n_memmap o)
                                    (if fix_attach fx && flag_locked o then n_parents o ++ [n_path o] else [])];
     leaves := leaves s0; store := store s0 |}.

Definition step (fx : fixes) (hooked : bool) (s : state) (o : op) : state * outcome :=
  match o with
  | OLock p => lock_ fx s p
  | OUnlock p => unlock_ fx s p
  | ORead p m args kwargs => match read hooked s p m args kwargs with (s', Some _) => (s', Done) | (s', None) => (s', NoSuchTarget) end
  | OInplace p v =>
      match find_leaf s p with
      | Some l =>
          let s1 := {| nodes := nodes s; leaves := leaves s; store := store_set (store s) (l_stor l) v |} in
          match l_kind l with
          | KNonTensorData => (s, RaisedOther)           (* an immutable non-tensor entry has no in-place copy *)
          | KTensor => (s1, Done)
          | KNonTensorStack =>
              (* td[idx] = <non-tensor> on an entry that is a stack already: modified in place; memoised tensordicts hold COPIES
                 of non-tensor content, so (D19 repair) the owner erases upwards when it is locked *)
              ((if fix_rebind fx && locked_at s (parent_of p) then erase_touched s1 (fun x => path_eqb x (parent_of p)) else s1), Done)
          end
      | None => (s, NoSuchTarget)
      end
  | OSet p l =>
      match p, owner_locked s p with
      | [], _ | _, None => (s, NoSuchTarget)
      | _, Some true => (s, RaisedLock)
      | _, Some false => (set_leaf (remove_below s p) p l, Done)
      end
  | OSetNode p uid meta =>
      match p, owner_locked s p with
      | [], _ | _, None => (s, NoSuchTarget)
      | _, Some true => (s, RaisedLock)
      | _, Some false =>
          let s1 := remove_under s p in
          ({| nodes := nodes s1 ++ [new_node p uid meta false false []]; leaves := leaves s1; store := store s1 |}, Done)
      end
  | ODel p =>
      match p, owner_locked s p with
      | [], _ | _, None => (s, NoSuchTarget)
      | _, Some true => (s, RaisedLock)
      | _, Some false => if is_node_path s p || (match find_leaf s p with Some _ => true | None => false end)
                         then (remove_under s p, Done) else (s, RaisedOther)
      end
  | OPromote p l =>
      match find_leaf s p, find_node s (parent_of p) with
      | Some old, Some n =>
          match l_kind old with
          | KTensor => (s, RaisedOther)
          | KNonTensorStack => (s, RaisedOther)     (* a NonTensorStack is a lazy stack with a lock of its own: not modelled *)
          | KNonTensorData =>
              if n_memmap n then (s, RaisedOther)                                     (* _SHARED_INPLACE_ERROR *)
              else if is_node_path s p then (s, RaisedOther)                          (* a name is an entry or a nested node, not both *)
              else let s1 := set_leaf s p l in
                   ((if fix_rebind fx && flag_locked n then erase_touched s1 (fun x => path_eqb x (parent_of p)) else s1), Done)
          end
      | _, _ => (s, NoSuchTarget)
      end
  | OMakeMemmap p l =>
      match find_node s (parent_of p), p with
      | Some n, _ :: _ =>
          if negb (n_memmap n) then (s, RaisedOther)
          else if is_node_path s p || (match find_leaf s p with Some _ => true | None => false end) then (s, RaisedOther)
          else let s1 := set_leaf s p l in
               ((if fix_rebind fx && flag_locked n then erase_touched s1 (fun x => path_eqb x (parent_of p)) else s1), Done)
      | _, _ => (s, NoSuchTarget)
      end
  | OMakeMemmapNested p uid k l =>
      match find_node s (parent_of p), p with
      | Some o, _ :: _ =>
          if negb (n_memmap o) then (s, RaisedOther)                       (* "Can only make a memmap tensor within a memory-mapped tensordict" *)
          else if has_leaf s p then (s, RaisedOther)                       (* the first key names an entry, not a nested tensordict *)
          else if negb (is_node_path s p) && (existsb (fun x => is_prefix p (n_path x)) (nodes s) || existsb (fun ql => is_prefix p (fst ql)) (leaves s))
          then (s, RaisedOther)                                            (* not a tree (something below p without p): never built *)
          else
            let s1 := if is_node_path s p then s else attach_node fx s p uid o in
            (* ... then as with a plain key on the nested tensordict (no is_memmap test there) *)
            match find_node s1 p with
            | Some x =>
                if is_node_path s1 (p ++ [k]) || has_leaf s1 (p ++ [k]) then (s1, RaisedOther)
                else let s2 := set_leaf s1 (p ++ [k]) l in
                     ((if fix_rebind fx && flag_locked x then erase_touched s2 (fun y => path_eqb y (parent_of (p ++ [k]))) else s2), Done)
            | None => (s1, NoSuchTarget)
            end
      | _, _ => (s, NoSuchTarget)
      end
  | OMemmap p base =>
      (* base.py memmap_(): result = self._memmap_(inplace=True, ...); return _lock_graph(result).
         _td.py _memmap_, node by node down the subtree: a node whose flag is set erases upwards (D61), then _is_memmap = True,
         device cpu, every plain tensor entry is replaced by a MemoryMappedTensor.  The flags:
           repaired (D7)   _memmap_ does not touch _is_locked; afterwards _lock_graph runs root._propagate_lock(None) from p
                           unconditionally: every node of the subtree is flagged (a lazy stack too) and registers the chain of
                           nodes from p down to it, exactly as lock_() on an unlocked p does; p's own parents are untouched
           unrepaired      _memmap_ writes dest._is_locked = True on every TensorDict node (a lazy stack keeps its flag), the
                           lock_() that follows returns early: nobody registers a parent *)
      match find_node s p with
      | None => (s, NoSuchTarget)
      | Some _ =>
          let s1 := {| nodes := map (fun n => if is_prefix p (n_path n)
                                              then with_lock n (if fix_lockgraph fx then n_flag n
                                                                else match n_kind n with NTD => Some true | NLAZY => n_flag n end)
                                                             (n_parents n) true (n_cache n)
                                              else n) (nodes s);
                       leaves := map (fun ql => if is_prefix p (fst ql) && lkind_eqb (l_kind (snd ql)) KTensor && negb (l_mm (snd ql))
                                                then (fst ql, {| l_uid := base + l_uid (snd ql); l_kind := KTensor; l_stor := base + l_stor (snd ql);
                                                                 l_payload := l_payload (snd ql); l_dtype := l_dtype (snd ql);
                                                                 l_numel := l_numel (snd ql); l_esize := l_esize (snd ql); l_mm := true |})
                                                else ql) (leaves s);
                       store := flat_map (fun ql => if is_prefix p (fst ql) && lkind_eqb (l_kind (snd ql)) KTensor && negb (l_mm (snd ql))
                                                    then [(base + l_stor (snd ql), store_get (store s) (l_stor (snd ql)))] else []) (leaves s)
                                ++ store s |} in
          let s2 := upd_nodes s1 (fun n => if is_prefix p (n_path n) then with_meta n {| m_bs := m_bs (n_meta n); m_names := m_names (n_meta n); m_dev := 1 |} else n) in
          (* each node of the subtree that was locked already erases upwards before its entries are replaced (inside _memmap_,
             i.e. before the lock graph is built: the parents it reaches are those registered before the call) *)
          let s3 := if fix_memmap fx then erase_touched s2 (fun x => is_prefix p x && locked_at s x) else s2 in
          ((if fix_lockgraph fx then propagate_lock s3 p else s3), Done)
      end
  | OSetNames p names =>
      match find_node s p with
      | None => (s, NoSuchTarget)
      | Some n =>
          (* _td.py names setter: accepted under lock; see [set_names].  _lazy.py:474: the setter of a lazy stack carries @erase_cache *)
          let s1 := set_names s p names in
          let s2 := match n_kind n with
                    | NLAZY => upd_nodes s1 (fun x => if path_eqb (n_path x) p then with_cache x [] else x)
                    | NTD => s1 end in
          ((if fix_meta fx then erase_touched s2 (fun x => names_touched p names x && locked_at s x) else s2), Done)
      end
  | OSetBatchSize p bs =>
      match find_node s p with
      | None => (s, NoSuchTarget)
      | Some n =>
          match n_kind n with
          | NLAZY => (s, RaisedOther)
          | NTD =>
              (* base.py:2914 _batch_size_setter (shrinking): new size; if the node has names they are cut to the new rank and
                 re-assigned through the names setter *)
              let s0 := upd_nodes s (fun x => if path_eqb (n_path x) p
                                              then with_meta x {| m_bs := bs; m_names := None; m_dev := m_dev (n_meta x) |} else x) in
              let s1 := match m_names (n_meta n) with
                        | None => s0
                        | Some l => set_names s0 p (Some (firstn (List.length bs) l))
                        end in
              let touched := fun x => path_eqb x p
                                      || match m_names (n_meta n) with
                                         | None => false
                                         | Some l => names_touched p (Some (firstn (List.length bs) l)) x
                                         end in
              ((if fix_meta fx then erase_touched s1 (fun x => touched x && locked_at s x) else s1), Done)
          end
      end
  end.

Definition run (fx : fixes) (hooked : bool) (s : state) (ops : list op) : state := fold_left (fun st o => fst (step fx hooked st o)) ops s.

(* ------------------------------------------------------------------------------------------------ observation *)
(* what a user can see of a memoised result in state s: element values come from the store *)
Inductive oitem := OTensor (content : Z) (dtype numel : nat) | ONonTensor (k : lkind) (payload : Z) | ONode (uid : nat).
Definition obs_item (st : list (nat * Z)) (i : item) : oitem :=
  match i with
  | ILeaf l => match l_kind l with KTensor => OTensor (content_of st l) (l_dtype l) (l_numel l) | k => ONonTensor k (content_of st l) end
  | INode u => ONode u
  | IShare KTensor stor _ dt nu => OTensor (store_get st stor) dt nu
  | IShare KNonTensorStack stor _ _ _ => ONonTensor KNonTensorStack (store_get st stor)
  | IShare k _ pay _ _ => ONonTensor k pay
  | ICopy KTensor c dt nu => OTensor c dt nu
  | ICopy k c _ _ => ONonTensor k c
  end.

Inductive oval := ObsKeys (l : list path) | ObsItems (meta : list (path * nmeta)) (l : list (path * oitem)) | ObsScalar (v : cval).

Definition view_keys (s : state) (p : path) (incl lo : bool) (mask : nat) : list path :=
  map fst (values_of (view_of s p) incl lo mask false).

Definition observe (s : state) (p : path) (v : cval) : oval :=
  match v with
  | VView incl lo mask _ _ => ObsKeys (view_keys s p incl lo mask)          (* live: re-read from the tensordict *)
  | VList l => ObsItems [] (map (fun ri => (fst ri, obs_item (store s) (snd ri))) l)
  | VTd meta l _ => ObsItems meta (map (fun ri => (fst ri, obs_item (store s) (snd ri))) l)
  | other => ObsScalar other
  end.
