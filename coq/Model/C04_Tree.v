(* C04 — model of the nested storage of a TensorDict and of its elementary mapping operations.
   Definitions only.  Sources: tensordict/_td.py (_get_str, _get_tuple, _set_str, _set_tuple, del_),
   tensordict/utils.py (_get_leaf_tensordict), python dict semantics of `self._tensordict`.

   A node is its `_tensordict` storage dict: an association list in insertion order (python dict order is observable
   through keys()).  A leaf is a tensor (LT) or a NonTensorData (LS), identified by an integer content id. *)
From Coq Require Import ZArith List String Bool Ascii.
Import ListNotations.
Open Scope string_scope.
Open Scope list_scope.

Inductive lkind := LT | LS.
Inductive tree := Leaf (k : lkind) (z : Z) | Node (es : list (string * tree)).
Definition ents := list (string * tree).

(* exception classes the code distinguishes in its own try/except blocks: KeyError vs everything else.
   EUnmodelled: the model does not claim to follow the code there (paths through a NonTensorData leaf, whose hidden
   storage accepts writes; hash-ordered iteration over prefix-related keys).  EFuel: fuel exhausted (never, see proofs). *)
Inductive err := EKey | EOther | EUnmodelled | EFuel.
Inductive res (A : Type) := Ok (a : A) | Raise (e : err).
Arguments Ok {A} a.
Arguments Raise {A} e.

(* ---- python dict primitives ---- *)
Fixpoint aget (k : string) (es : ents) : option tree :=
  match es with
  | [] => None
  | (k', v) :: r => if String.eqb k k' then Some v else aget k r
  end.

Definition amem (k : string) (es : ents) : bool := match aget k es with Some _ => true | None => false end.

(* d[k] = v : an existing key keeps its position, a new key goes last *)
Fixpoint aset (k : string) (v : tree) (es : ents) : ents :=
  match es with
  | [] => [(k, v)]
  | (k', v') :: r => if String.eqb k k' then (k', v) :: r else (k', v') :: aset k v r
  end.

(* del d[k] / d.pop(k, None) *)
Fixpoint adel (k : string) (es : ents) : ents :=
  match es with
  | [] => []
  | (k', v') :: r => if String.eqb k k' then r else (k', v') :: adel k r
  end.

Definition is_nilb {A} (l : list A) : bool := match l with [] => true | _ => false end.

(* ---- _get_str / _get_tuple (_td.py:2703-2720) ----
   has_default = false stands for default=NO_DEFAULT.  `first._get_tuple` on a tensor raises AttributeError, which
   _get_tuple turns into ValueError (EOther). *)
Inductive gres := GVal (v : tree) | GDef | GRaise (e : err).

Fixpoint get_tuple (p : list string) (es : ents) (has_default : bool) : gres :=
  match p with
  | [] => GRaise EOther
  | k :: rest =>
      match aget k es with
      | None => if has_default then GDef else GRaise EKey
      | Some v =>
          match rest with
          | [] => GVal v
          | _ :: _ =>
              match v with
              | Node sub => get_tuple rest sub has_default
              | Leaf LT _ => GRaise EOther
              | Leaf LS _ => GRaise EUnmodelled
              end
          end
      end
  end.

(* ---- _set_tuple / _set_str with inplace=False (_td.py:2409-2502) ----
   a missing first key is created as an empty nested node (_create_nested_str) BEFORE the recursion; the recursion into
   a fresh empty node cannot raise (Proofs: set_tuple_nil_ok), so no partial effect is lost by returning Raise. *)
Fixpoint set_tuple (p : list string) (v : tree) (es : ents) : res ents :=
  match p with
  | [] => Raise EOther
  | k :: rest =>
      match rest with
      | [] => Ok (aset k v es)
      | _ :: _ =>
          match aget k es with
          | None => match set_tuple rest v [] with Ok sub => Ok (aset k (Node sub) es) | Raise e => Raise e end
          | Some (Node sub) => match set_tuple rest v sub with Ok sub' => Ok (aset k (Node sub') es) | Raise e => Raise e end
          | Some (Leaf LT _) => Raise EKey
          | Some (Leaf LS _) => Raise EUnmodelled
          end
      end
  end.

(* ---- del_ (_td.py:2597) with _get_leaf_tensordict (utils.py:1318) ---- *)
Fixpoint del_tuple (p : list string) (es : ents) : res ents :=
  match p with
  | [] => Raise EOther
  | k :: rest =>
      match rest with
      | [] => if amem k es then Ok (adel k es) else Raise EKey
      | _ :: _ =>
          match aget k es with
          | None => Raise EKey
          | Some (Node sub) => match del_tuple rest sub with Ok sub' => Ok (aset k (Node sub') es) | Raise e => Raise e end
          | Some (Leaf LT _) => Raise EOther
          | Some (Leaf LS _) => Raise EUnmodelled
          end
      end
  end.

(* ---- strings: separator.join(key), `separator in key`, key.split(separator) ---- *)
Definition join (sep : string) (p : list string) : string := String.concat sep p.

Fixpoint str_contains (sep s : string) : bool :=
  if String.prefix sep s then true else match s with EmptyString => false | String _ r => str_contains sep r end.

(* python str.split(sep) for a non-empty sep: left-to-right, non-overlapping.  [skip] characters of a matched separator
   remain to be dropped; [cur] is the current token, reversed. *)
Fixpoint rev_string (acc s : string) : string :=
  match s with EmptyString => acc | String c r => rev_string (String c acc) r end.

Fixpoint split_go (sep : string) (skip : nat) (cur : string) (s : string) : list string :=
  match s with
  | EmptyString => [rev_string EmptyString cur]
  | String c r =>
      match skip with
      | S n => split_go sep n cur r
      | O =>
          if String.prefix sep s
          then rev_string EmptyString cur :: split_go sep (String.length sep - 1) EmptyString r
          else split_go sep O (String c cur) r
      end
  end.

Definition split (sep s : string) : list string := split_go sep 0 EmptyString s.

(* ---- leaves ---- *)
(* is_leaf of a stored value: default = _default_is_leaf (tensors only), nt = _is_leaf_nontensor (tensors and non-tensors) *)
Definition is_leafb (nt : bool) (v : tree) : bool :=
  match v with Leaf LT _ => true | Leaf LS _ => nt | Node _ => false end.

Definition is_nodeb (v : tree) : bool := match v with Node _ => true | Leaf _ _ => false end.

(* TensorDict.is_empty (_td.py:453): False as soon as an entry is a tensor, a non-tensor, or a non-empty node *)
Fixpoint has_leaf (v : tree) : bool :=
  match v with
  | Leaf _ _ => true
  | Node es => (fix go (es : ents) : bool := match es with [] => false | (_, w) :: r => has_leaf w || go r end) es
  end.

Definition is_empty (es : ents) : bool := negb (has_leaf (Node es)).
