(* C04 — model of the mapping operations of TensorDict, transcribed function by function from
   tensordict/base.py (get, set, pop, update, setdefault, select, exclude, split_keys, flatten_keys, unflatten_keys,
   filter_empty_, clear, __contains__) and tensordict/_td.py (rename_key_, del_, _select, _exclude,
   _TensorDictKeysView.__contains__), tensordict/utils.py (_StringKeys.__contains__).  Definitions only.
   Keys arrive as python objects (Model/Keys.pykey) and go through the C++ unravelling first, as in the code. *)
From Coq Require Import ZArith List String Bool Ascii.
Import ListNotations.
From TD Require Import Model.Keys Model.C04_Tree.
Open Scope string_scope.
Open Scope list_scope.

Definition is_tuple (k : pykey) : bool := match k with KT _ => true | _ => false end.

Definition keyres_eqb (a b : keyres) : bool :=
  match a, b with
  | RStr s, RStr t => String.eqb s t
  | RTup l, RTup m => if list_eq_dec string_dec l m then true else false
  | _, _ => false
  end.

(* _unravel_key_to_tuple applied to the result of unravel_key (a str, or a flat tuple of str) *)
Definition keyres_path (r : keyres) : list string := match r with RStr s => [s] | RTup l => l | RRaise => [] end.

(* ---------------------------------------------------------------- membership ---- *)

(* _StringKeys.__contains__ (utils.py:995): what `key in td.keys()` runs *)
Definition skeys_contains (k : pykey) (es : ents) : res bool :=
  match k with
  | KS s => Ok (amem s es)
  | _ => match cpp_unravel_to_tuple k with
         | [] => Raise EOther
         | [s] => Ok (amem s es)
         | _ :: _ :: _ => Raise EOther
         end
  end.

(* _TensorDictKeysView.__contains__ (_td.py:4552) on the unravelled key, for a view that is not leaves_only
   (what rename_key_, setdefault and TensorDictBase.__contains__ consult). *)
Definition view_contains_path (inc : bool) (p : list string) (es : ents) : res bool :=
  match p with
  | [] => Raise EOther
  | [k] => Ok (amem k es)
  | k :: (_ :: _) as rest =>
      if inc then
        match aget k es with
        | None => Ok false
        | Some (Leaf LT _) => Ok false
        | Some (Leaf LS _) => Raise EUnmodelled
        | Some (Node sub) =>
            match rest with
            | [k1] => Ok (amem k1 sub)
            | _ =>
                match get_tuple (removelast rest) sub true with
                | GDef => Ok false
                | GVal (Node s2) => Ok (amem (last rest "") s2)
                | GVal (Leaf LT _) => Ok false
                | GVal (Leaf LS _) => Raise EUnmodelled
                | GRaise e => Raise e
                end
            end
        end
      else Raise EOther
  end.

Definition view_contains (inc : bool) (k : pykey) (es : ents) : res bool :=
  view_contains_path inc (cpp_unravel_to_tuple k) es.

(* the same walk for any view: once the entry is located, a leaves_only view answers with the filter its __iter__
   applies, is_leaf(entry_class(key)) (fix of S7: the located entry used to be reported whatever leaves_only said) *)
Definition entry_listed (lo nt : bool) (k : string) (es : ents) : bool :=
  match aget k es with Some v => negb lo || is_leafb nt v | None => false end.

Definition view_contains_lo (inc lo nt : bool) (p : list string) (es : ents) : res bool :=
  match p with
  | [] => Raise EOther
  | [k] => Ok (entry_listed lo nt k es)
  | k :: (_ :: _) as rest =>
      if inc then
        match aget k es with
        | None => Ok false
        | Some (Leaf LT _) => Ok false
        | Some (Leaf LS _) => Raise EUnmodelled
        | Some (Node sub) =>
            match rest with
            | [k1] => Ok (entry_listed lo nt k1 sub)
            | _ =>
                match get_tuple (removelast rest) sub true with
                | GDef => Ok false
                | GVal (Node s2) => Ok (entry_listed lo nt (last rest "") s2)
                | GVal (Leaf LT _) => Ok false
                | GVal (Leaf LS _) => Raise EUnmodelled
                | GRaise e => Raise e
                end
            end
        end
      else Raise EOther
  end.

(* td.keys(include_nested, leaves_only, is_leaf).__contains__ : the fast path of TensorDict.keys (no flag, default
   is_leaf) hands out a _StringKeys, every other combination a _TensorDictKeysView *)
Definition keys_contains (inc lo nt : bool) (k : pykey) (es : ents) : res bool :=
  if negb inc && negb lo && negb nt then skeys_contains k es
  else view_contains_lo inc lo nt (cpp_unravel_to_tuple k) es.

(* TensorDictBase.__contains__ (base.py:520) *)
Definition td_contains (k : pykey) (es : ents) : res bool :=
  match k with
  | KS s => Ok (amem s es)
  | KT _ =>
      match cpp_unravel_key k with
      | RStr s => view_contains_path true [s] es
      | RTup [] => Raise EOther
      | RTup l => view_contains_path true l es
      | RRaise => Raise EOther
      end
  | KBad => Raise EOther
  end.

(* ---------------------------------------------------------------- get / set / del / pop ---- *)

(* TensorDictBase.get (base.py:6442); has_default=false is the v0.7 default `None`, which is a default too: the public
   get never raises for a missing key.  [dflt] = true when the caller passed an explicit default. *)
Definition get (k : pykey) (es : ents) : gres :=
  match cpp_unravel_to_tuple k with
  | [] => GRaise EKey
  | p => get_tuple p es true
  end.

Definition set_ (k : pykey) (v : tree) (es : ents) : res ents := set_tuple (cpp_unravel_to_tuple k) v es.

Definition del_ (k : pykey) (es : ents) : res ents := del_tuple (cpp_unravel_to_tuple k) es.

(* pop (base.py:7483): get then del_ inside one try/except KeyError *)
Inductive popret := PVal (v : tree) | PDefault.

Definition pop_path (p : list string) (has_default : bool) (es : ents) : ents * res popret :=
  match p with
  | [] => (es, Raise EKey)
  | _ =>
      match get_tuple p es has_default with
      | GRaise EKey => (es, if has_default then Ok PDefault else Raise EKey)
      | GRaise e => (es, Raise e)
      | GDef =>
          match del_tuple p es with
          | Ok es' => (es', Ok PDefault)
          | Raise EKey => (es, if has_default then Ok PDefault else Raise EKey)
          | Raise e => (es, Raise e)
          end
      | GVal v =>
          match del_tuple p es with
          | Ok es' => (es', Ok (PVal v))
          | Raise EKey => (es, if has_default then Ok (PVal v) else Raise EKey)
          | Raise e => (es, Raise e)
          end
      end
  end.

Definition pop (k : pykey) (has_default : bool) (es : ents) : ents * res popret :=
  pop_path (cpp_unravel_to_tuple k) has_default es.

(* ---------------------------------------------------------------- rename_key_ (_td.py:2608) ---- *)
(* on the unravelled keys.  When the new key lies underneath the old one the entry is detached first (fix of D42);
   otherwise the value is stored under the new key first (sharing the object) and the old key is deleted afterwards,
   unless the new key is a prefix of the old one. *)
Definition keyres_in_keys (r : keyres) (es : ents) : res bool :=
  (* `r in self.keys(include_nested=isinstance(r, tuple))` / `r in self.keys(include_nested=True)` agree on both shapes *)
  match r with
  | RStr s => Ok (amem s es)
  | RTup l => view_contains_path true l es
  | RRaise => Raise EOther
  end.

Definition list_string_eqb (l m : list string) : bool := if list_eq_dec string_dec l m then true else false.

Definition rename_r (o n : keyres) (safe : bool) (es : ents) : ents * option err :=
  if keyres_eqb o n then
    match keyres_in_keys o es with
    | Ok true => (es, None)
    | Ok false => (es, Some EKey)
    | Raise e => (es, Some e)
    end
  else
    match (if safe then keyres_in_keys n es else Ok false) with
    | Raise e => (es, Some e)
    | Ok true => (es, Some EKey)
    | Ok false =>
        match (match keyres_path o with [] => GRaise EKey | p => get_tuple p es false end) with
        | GRaise e => (es, Some e)
        | GDef => (es, Some EOther)
        | GVal v =>
            let oldt := keyres_path o in
            let newt := keyres_path n in
            let under := list_string_eqb (firstn (List.length oldt) newt) oldt in
            match (if under then del_tuple oldt es else Ok es) with
            | Raise e => (es, Some e)
            | Ok es0 =>
                match (match n with RStr s => Ok (aset s v es0) | _ => set_tuple newt v es0 end) with
                | Raise e => (es0, Some e)
                | Ok es1 =>
                    let keep := match o with
                                | RTup lo => list_string_eqb (firstn (List.length newt) lo) newt
                                | _ => false
                                end in
                    if under || keep then (es1, None)
                    else match del_tuple oldt es1 with
                         | Ok es2 => (es2, None)
                         | Raise e => (es1, Some e)
                         end
                end
            end
        end
    end.

Definition rename (k1 k2 : pykey) (safe : bool) (es : ents) : ents * option err :=
  match k1, k2 with
  | KBad, _ | _, KBad => (es, Some EOther)
  | _, _ => rename_r (cpp_unravel_key k1) (cpp_unravel_key k2) safe es
  end.

(* ---------------------------------------------------------------- update (base.py:6580) ---- *)
(* update({p: v}) for one item; nodes are merged in place (the partial effect of a failing item stays), anything else
   goes through _set_tuple.  is_leaf = _is_leaf_nontensor: tensors and non-tensors are leaves of both sides. *)
Fixpoint upd_item (v : tree) : list string -> ents -> ents * option err :=
  fix go (p : list string) (es : ents) {struct p} : ents * option err :=
    match p with
    | [] => (es, Some EOther)
    | k :: sub =>
        match aget k es, v with
        | Some (Node tsub), Node vs =>
            match sub with
            | _ :: _ => let '(t', e) := go sub tsub in (aset k (Node t') es, e)
            | [] =>
                let '(t', e) :=
                  (fix items (l : ents) (acc : ents) {struct l} : ents * option err :=
                     match l with
                     | [] => (acc, None)
                     | (k', v') :: r =>
                         match upd_item v' [k'] acc with
                         | (acc', None) => items r acc'
                         | (acc', Some e) => (acc', Some e)
                         end
                     end) vs tsub in
                (aset k (Node t') es, e)
            end
        | _, _ => match set_tuple p v es with Ok es' => (es', None) | Raise e => (es, Some e) end
        end
    end.

Fixpoint update (items : list (pykey * tree)) (es : ents) : ents * option err :=
  match items with
  | [] => (es, None)
  | (k, v) :: r =>
      match upd_item v (cpp_unravel_to_tuple k) es with
      | (es', None) => update r es'
      | (es', Some e) => (es', Some e)
      end
  end.

(* ---------------------------------------------------------------- setdefault (base.py:7123) ---- *)
Definition setdefault (k : pykey) (v : tree) (es : ents) : ents * res (option tree) :=
  let present := if is_tuple k then view_contains true k es else skeys_contains k es in
  match present with
  | Raise e => (es, Raise e)
  | Ok b =>
      match (if b then Ok es else set_ k v es) with
      | Raise e => (es, Raise e)
      | Ok es' =>
          match get k es' with
          | GVal w => (es', Ok (Some w))
          | GDef => (es', Ok None)
          | GRaise e => (es', Raise e)
          end
      end
  end.

(* ---------------------------------------------------------------- _select (_td.py:3276) ---- *)
(* keys are unravelled paths; [] stands for the empty tuple (key[0] raises IndexError).
   groups: keys_to_select, an insertion-ordered dict first key -> list of sub-keys *)
Fixpoint group_add (k : string) (sub : list string) (g : list (string * list (list string))) :=
  match g with
  | [] => [(k, [sub])]
  | (k', l) :: r => if String.eqb k k' then (k', l ++ [sub]) :: r else (k', l) :: group_add k sub r
  end.

(* first loop: source dict and groups, or the error raised on the way *)
Fixpoint select_scan (keys : list (list string)) (strict : bool) (es : ents)
         (source : ents) (g : list (string * list (list string))) : res (ents * list (string * list (list string))) :=
  match keys with
  | [] => Ok (source, g)
  | [] :: _ => Raise EOther
  | (k :: sub) :: r =>
      match aget k es with
      | None => if strict then Raise EKey else select_scan r strict es source g
      | Some val =>
          select_scan r strict es (aset k val source) (if is_nilb sub then g else group_add k sub g)
      end
  end.

(* returns (self afterwards, result).  inplace: nested nodes are pruned in place as the second loop proceeds and the
   root storage is replaced at the very end, so a failure leaves the nodes pruned so far. *)
Fixpoint select_ (fuel : nat) (keys : list (list string)) (strict inplace : bool) (es : ents) : ents * res ents :=
  match fuel with
  | O => (es, Raise EFuel)
  | S fuel' =>
      match select_scan keys strict es [] [] with
      | Raise e => (es, Raise e)
      | Ok (source, g) =>
          let '(es_after, r) :=
            (fix loop (g : list (string * list (list string))) (es_cur source : ents) {struct g} : ents * res ents :=
               match g with
               | [] => (es_cur, Ok source)
               | (k, subs) :: gr =>
                   match aget k source with
                   | Some (Node n) =>
                       match select_ fuel' subs strict inplace n with
                       | (n_after, Raise e) => ((if inplace then aset k (Node n_after) es_cur else es_cur), Raise e)
                       | (n_after, Ok n_sel) =>
                           loop gr (if inplace then aset k (Node n_after) es_cur else es_cur) (aset k (Node n_sel) source)
                       end
                   | Some (Leaf LT _) => (es_cur, Raise EOther)
                   | Some (Leaf LS _) => (es_cur, Raise EUnmodelled)
                   | None => (es_cur, Raise EOther)
                   end
               end) g es source in
          match r with
          | Raise e => (es_after, Raise e)
          | Ok source' => ((if inplace then source' else es), Ok source')
          end
      end
  end.

Definition max_len (keys : list (list string)) : nat := fold_right (fun p m => Nat.max (List.length p) m) 0 keys.

(* select (base.py:11389): unravel_key_list, then _select *)
Definition select (keys : list pykey) (strict inplace : bool) (es : ents) : ents * res ents :=
  match cpp_unravel_key_list keys with
  | None => (es, Raise EOther)
  | Some rs => let ps := map keyres_path rs in select_ (S (max_len ps)) ps strict inplace es
  end.

(* ---------------------------------------------------------------- _exclude (_td.py:3328) ---- *)
(* first loop over the working dict wd (the storage itself when inplace, a shallow copy otherwise); `key[0] in
   self._tensordict` looks at the storage of self: wd when inplace, the untouched original otherwise *)
Fixpoint exclude_scan (keys : list (list string)) (inplace : bool) (orig wd : ents)
         (g : list (string * list (list string))) : ents * res (list (string * list (list string))) :=
  match keys with
  | [] => (wd, Ok g)
  | [] :: _ => (wd, Raise EOther)
  | [k] :: r => exclude_scan r inplace orig (adel k wd) g
  | (k :: sub) :: r =>
      exclude_scan r inplace orig wd (if amem k (if inplace then wd else orig) then group_add k sub g else g)
  end.

Fixpoint exclude_ (fuel : nat) (keys : list (list string)) (inplace : bool) (es : ents) : ents * res ents :=
  match fuel with
  | O => (es, Raise EFuel)
  | S fuel' =>
      match keys with
      | [] => (es, Ok es)
      | _ =>
          match exclude_scan keys inplace es es [] with
          | (wd, Raise e) => ((if inplace then wd else es), Raise e)
          | (wd, Ok g) =>
              let '(wd', r) :=
                (fix loop (g : list (string * list (list string))) (wd : ents) {struct g} : ents * option err :=
                   match g with
                   | [] => (wd, None)
                   | (k, subs) :: gr =>
                       match aget k wd with
                       | None => loop gr wd
                       | Some (Node n) =>
                           match exclude_ fuel' subs inplace n with
                           | (n_after, Raise e) => ((if inplace then aset k (Node n_after) wd else wd), Some e)
                           | (n_after, Ok n_res) => loop gr (aset k (Node n_res) wd)
                           end
                       | Some (Leaf LT _) => (wd, Some EOther)
                       | Some (Leaf LS _) => (wd, Some EUnmodelled)
                       end
                   end) g wd in
              match r with
              | Some e => ((if inplace then wd' else es), Raise e)
              | None => ((if inplace then wd' else es), Ok wd')
              end
          end
      end
  end.

Definition exclude (keys : list pykey) (inplace : bool) (es : ents) : ents * res ents :=
  match cpp_unravel_key_list keys with
  | None => (es, Raise EOther)
  | Some rs => let ps := map keyres_path rs in exclude_ (S (max_len ps)) ps inplace es
  end.

(* ---------------------------------------------------------------- filter_empty_ (base.py:6297) ---- *)
(* deletes, deepest first, every nested node without a leaf underneath; the net effect is this pruning *)
Fixpoint prune (v : tree) : tree :=
  match v with
  | Leaf _ _ => v
  | Node es =>
      Node ((fix go (es : ents) : ents :=
               match es with
               | [] => []
               | (k, w) :: r => if is_nodeb w && negb (has_leaf w) then go r else (k, prune w) :: go r
               end) es)
  end.

Definition filter_empty (es : ents) : ents := match prune (Node es) with Node es' => es' | Leaf _ _ => es end.

(* ---------------------------------------------------------------- split_keys (base.py:12831) ---- *)
Definition prefix_of (p q : list string) : bool := list_string_eqb (firstn (List.length p) q) p.

Fixpoint any_prefix_pair (ps : list (list string)) : bool :=
  match ps with
  | [] => false
  | p :: r => existsb (fun q => prefix_of p q || prefix_of q p) r || any_prefix_pair r
  end.

(* one key set: pops from last_out, sets into out *)
Fixpoint split_set (ks : list pykey) (strict : bool) (dflt : option Z) (last_out out : ents) : res (ents * ents) :=
  match ks with
  | [] => Ok (last_out, out)
  | k :: r =>
      match pop k (negb strict) last_out with
      | (_, Raise e) => Raise e
      | (lo', Ok (PVal v)) =>
          match set_ k v out with Ok out' => split_set r strict dflt lo' out' | Raise e => Raise e end
      | (lo', Ok PDefault) =>
          match dflt with
          | None => split_set r strict dflt lo' out
          | Some z => match set_ k (Leaf LT z) out with Ok out' => split_set r strict dflt lo' out' | Raise e => Raise e end
          end
      end
  end.

Fixpoint split_sets (sets : list (list pykey)) (strict : bool) (dflt : option Z) (last_out : ents) (outs : list ents)
  : res (ents * list ents) :=
  match sets with
  | [] => Ok (last_out, outs)
  | ks :: r =>
      match split_set ks strict dflt last_out [] with
      | Raise e => Raise e
      | Ok (lo', out) => split_sets r strict dflt lo' (outs ++ [out])
      end
  end.

(* in-place epilogue: self.pop(key, default) for every key of the python set keys_to_del (hash order: the model pops in
   list order and declines (EUnmodelled) when the order could matter) *)
Fixpoint split_pops (ks : list pykey) (strict : bool) (es : ents) : ents * option err :=
  match ks with
  | [] => (es, None)
  | k :: r =>
      match pop k (negb strict) es with
      | (es', Ok _) => split_pops r strict es'
      | (es', Raise EKey) => if strict then (es', Some EKey) else split_pops r strict es'
      | (es', Raise e) => (es', Some e)
      end
  end.

Definition split_keys (sets : list (list pykey)) (inplace strict : bool) (dflt : option Z) (es : ents)
  : ents * res (list ents) :=
  let allk := List.concat sets in
  if inplace && any_prefix_pair (map cpp_unravel_to_tuple allk) then (es, Raise EUnmodelled) else
  match split_sets sets strict dflt es [] with
  | Raise e => (es, Raise e)
  | Ok (last_out, outs) =>
      if inplace then
        match split_pops allk strict es with
        | (es', Some e) => (es', Raise e)
        | (es', None) => let f := filter_empty es' in (f, Ok (outs ++ [f]))
        end
      else (es, Ok (outs ++ [filter_empty last_out]))
  end.

(* ---------------------------------------------------------------- leaves in iteration order ---- *)
(* items(include_nested=True, leaves_only=True, is_leaf) / keys(True, True, is_leaf): same sequence of leaves *)
Fixpoint leaves (nt : bool) (prefix : list string) (v : tree) : list (list string * tree) :=
  match v with
  | Leaf _ _ => []
  | Node es =>
      (fix go (es : ents) : list (list string * tree) :=
         match es with
         | [] => []
         | (k, w) :: r =>
             (match w with
              | Node _ => leaves nt (prefix ++ [k]) w
              | Leaf _ _ => if is_leafb nt w then [(prefix ++ [k], w)] else []
              end) ++ go r
         end) es
  end.

Fixpoint has_dup (l : list string) : bool :=
  match l with [] => false | x :: r => (if in_dec string_dec x r then true else false) || has_dup r end.

(* _flatten_keys_outplace (base.py:12643) *)
Definition flatten_out (sep : string) (es : ents) : res ents :=
  let lv := leaves true [] (Node es) in
  let names := map (fun pv => join sep (fst pv)) lv in
  if has_dup names then Raise EKey else Ok (combine names (map snd lv)).

Definition path_keyres (p : list string) : keyres := match p with [s] => RStr s | _ => RTup p end.

(* _flatten_keys_inplace (base.py:12750, after the fix of D24/D24b): collect the leaves, exclude every root key, bind
   each leaf under its flat name; colliding names raise before anything is touched *)
Fixpoint rename_all (l : list (keyres * keyres)) (safe : bool) (es : ents) : ents * option err :=
  match l with
  | [] => (es, None)
  | (o, n) :: r =>
      match rename_r o n safe es with
      | (es', None) => rename_all r safe es'
      | (es', Some e) => (es', Some e)
      end
  end.

Definition flatten_in (sep : string) (es : ents) : ents * option err :=
  let lv := leaves true [] (Node es) in
  let names := map (fun pv => join sep (fst pv)) lv in
  if has_dup names then (es, Some EKey) else
  let emptied := fold_left (fun acc k => adel k acc) (map fst es) es in
  (fold_left (fun acc nv => aset (fst nv) (snd nv) acc) (combine names (map snd lv)) emptied, None).

(* unflatten_keys(inplace=True) (base.py:12722): only the keys of the root are looked at *)
Fixpoint unflatten_loop (sep : string) (ks : list string) (es : ents) : ents * option err :=
  match ks with
  | [] => (es, None)
  | k :: r =>
      if str_contains sep k then
        match rename_r (RStr k) (path_keyres (split sep k)) true es with
        | (es', None) => unflatten_loop sep r es'
        | (es', Some e) => (es', Some e)
        end
      else unflatten_loop sep r es
  end.

Definition unflatten_in (sep : string) (es : ents) : ents * option err := unflatten_loop sep (map fst es) es.

(* clear (base.py:4507) *)
Definition clear (es : ents) : ents := fold_left (fun acc k => adel k acc) (map fst es) es.
