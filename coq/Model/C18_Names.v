(* Dimension names on the two paths (tensordict/_td.py):
     TensorDict.names setter      -- compile arm: `if value is not None: graph_break() else: return`
     TensorDict.__init__          -- `if not is_compiling(): self.names = names`
     TensorDict._new_unsafe       -- `if is_compiling() and cls is TensorDict: return TensorDict(..., names=names, ...)`
   State: _td_dim_names (None = unnamed) and batch_dims.  Sub-tensordict renaming (_rename_subtds) is not modelled. *)
From Coq Require Import List String Bool Arith.
Import ListNotations.

Definition dname := option string.                 (* a dimension name or Python None *)
Definition nstate := option (list dname).          (* _td_dim_names *)
Inductive nres := NOk (s : nstate) | NValueError.

Definition dname_eqb (a b : dname) : bool :=
  match a, b with
  | None, None => true
  | Some x, Some y => String.eqb x y
  | _, _ => false
  end.
Definition count_none (v : list dname) : nat :=
  List.length (filter (fun n => match n with None => true | Some _ => false end) v).
(* len(set(value)) *)
Fixpoint distinct_count (v : list dname) : nat :=
  match v with
  | [] => 0
  | x :: r => if existsb (dname_eqb x) r then distinct_count r else S (distinct_count r)
  end.

(* the setter, statement by statement; the recursive `self.names = None` re-enters the setter with the same flag *)
Definition names_set (compile : bool) (bd : nat) (cur : nstate) (value : option (list dname)) : nres :=
  let set_none := if compile then NOk cur       (* "We have already made sure that the tensordict was not named": return *)
                  else NOk None in              (* _rename_subtds(None); _erase_names() *)
  match value with
  | None => set_none
  | Some v =>
      let num_none := count_none v in
      if Nat.eqb num_none bd then set_none
      else
        let num_none' := if Nat.eqb num_none 0 then 0 else num_none - 1 in
        if negb (Nat.eqb (distinct_count v) (List.length v - num_none')) then NValueError
        else if negb (Nat.eqb (List.length v) bd) then NValueError
        else NOk (Some v)
  end.

(* __init__ on a fresh object (_td_dim_names is the class default None) *)
Definition init_names (compile : bool) (bd : nat) (names : option (list dname)) : nres :=
  if compile then NOk None else names_set false bd None names.

(* _new_unsafe: stores the names unchecked, unless compiling a plain TensorDict *)
Definition new_unsafe_names (compile cls_is_td : bool) (bd : nat) (names : option (list dname)) : nres :=
  if compile && cls_is_td then init_names true bd names else NOk names.

(* the names property *)
Definition names_get (bd : nat) (s : nstate) : list dname :=
  match s with None => repeat None bd | Some l => l end.

(* what a caller observes: the names list, or the exception *)
Definition observe_names (bd : nat) (r : nres) : option (list dname) :=
  match r with NOk s => Some (names_get bd s) | NValueError => None end.
