(* Dimension names on the two paths (tensordict/_td.py).
   After repair D1801 neither TensorDict.__init__ nor the names setter asks is_compiling(): both paths run the same code
   (the setter, statement by statement, below).  The only site left is
     TensorDict._new_unsafe       -- `if is_compiling() and cls is TensorDict: result = TensorDict(...); result._td_dim_names = names`
   whose compile arm builds the object through __init__ without names and then stores the names unchecked, as the eager arm does.
   The code as it was before the repair is kept under the switch [repaired := false] (the `_unrepaired` definitions):
     names setter   -- compile arm: `if value is not None: graph_break() else: return`   (erasing skipped)
     __init__       -- `if not is_compiling(): self.names = names`                        (names dropped, not validated)
     _new_unsafe    -- compile arm `return TensorDict(..., names=names, ...)`              (so: names dropped)
   State: _td_dim_names (None = unnamed) and batch_dims.  Sub-tensordict renaming (_rename_subtds) is not modelled. *)
From Coq Require Import List String Bool Arith.
Import ListNotations.

Definition dname := option string.                 (* a dimension name or Python None *)
Definition nstate := option (list dname).          (* _td_dim_names *)
Inductive nres := NOk (s : nstate) | NValueError.

Definition dname_eqb (a b : dname) : bool :=
  match a, b with
  | None, None => true
  | Some x, Some y => String.eqb x y
  | _, _ => false
  end.
Definition count_none (v : list dname) : nat :=
  List.length (filter (fun n => match n with None => true | Some _ => false end) v).
(* len(set(value)) *)
Fixpoint distinct_count (v : list dname) : nat :=
  match v with
  | [] => 0
  | x :: r => if existsb (dname_eqb x) r then distinct_count r else S (distinct_count r)
  end.

(* the setter, statement by statement; the recursive `self.names = None` re-enters the setter with the same flag.
   [repaired = false]: the compile arm of the code before repair D1801 *)
Definition names_set_gen (repaired compile : bool) (bd : nat) (cur : nstate) (value : option (list dname)) : nres :=
  let set_none := if compile && negb repaired
                  then NOk cur                  (* unrepaired compile arm: "We have already made sure that the tensordict was not named": return *)
                  else NOk None in              (* _rename_subtds(None); _erase_names() *)
  match value with
  | None => set_none
  | Some v =>
      let num_none := count_none v in
      if Nat.eqb num_none bd then set_none
      else
        let num_none' := if Nat.eqb num_none 0 then 0 else num_none - 1 in
        if negb (Nat.eqb (distinct_count v) (List.length v - num_none')) then NValueError
        else if negb (Nat.eqb (List.length v) bd) then NValueError
        else NOk (Some v)
  end.

(* __init__ on a fresh object (_td_dim_names is the class default None): `self.names = names`
   (unrepaired: `if not is_compiling(): self.names = names`) *)
Definition init_names_gen (repaired compile : bool) (bd : nat) (names : option (list dname)) : nres :=
  if compile && negb repaired then NOk None else names_set_gen repaired compile bd None names.

(* _new_unsafe: stores the names unchecked.  Compiling a plain TensorDict it builds the object through __init__ WITHOUT the
   names and then stores them unchecked too: `result = TensorDict(..., lock=lock); result._td_dim_names = names`
   (unrepaired: `return TensorDict(..., names=names, ...)`, i.e. whatever __init__ does with the names) *)
Definition new_unsafe_names_gen (repaired compile cls_is_td : bool) (bd : nat) (names : option (list dname)) : nres :=
  if compile && cls_is_td then
    if repaired then
      match init_names_gen repaired true bd None with
      | NOk _ => NOk names
      | NValueError => NValueError
      end
    else init_names_gen repaired true bd names
  else NOk names.

(* the code of the working tree (what D_C18.v dispatches to and harness/c18_dual.py compares with) ... *)
Definition names_set := names_set_gen true.
Definition init_names := init_names_gen true.
Definition new_unsafe_names := new_unsafe_names_gen true.
(* ... and the code before the repair, kept as a witness that the dual statements have bite *)
Definition names_set_unrepaired := names_set_gen false.
Definition init_names_unrepaired := init_names_gen false.
Definition new_unsafe_names_unrepaired := new_unsafe_names_gen false.

(* the names property *)
Definition names_get (bd : nat) (s : nstate) : list dname :=
  match s with None => repeat None bd | Some l => l end.

(* what a caller observes: the names list, or the exception *)
Definition observe_names (bd : nat) (r : nres) : option (list dname) :=
  match r with NOk s => Some (names_get bd s) | NValueError => None end.
