(* C01 — transcription of the mutating operations of TensorDict as far as batch size / device / dim names / entry
   structure are concerned.  Definitions only.  Every function returns the state the code LEAVES BEHIND together with
   the outcome, also when the code raises (partial effects are part of the model).

   Sources (tensordict/, working tree):
     base.py   _validate_value 11306, _batch_size_setter 2914, _check_new_batch_size 11285, refine_names 4331,
               rename_ 4424, set 6134, set_ 6381, update 6602, create_nested 7073, setdefault 7145, clear 4529,
               pop 7505, _set_non_tensor 6225, flatten_keys/_flatten_keys_inplace 12713, unflatten_keys 12744,
               auto_batch_size_ 2065, _convert_to_tensor 11226
     _td.py    names setter 2301, _rename_subtds 2336, _set_str 2412, _set_tuple 2473, del_ 2600, rename_key_ 2611,
               _select 3279, _exclude 3331, popitem 2409, _convert_to_tensordict 1552, is_empty 453, empty 3261
     utils.py  _set_max_batch_size 1628, _get_leaf_tensordict 1336 *)
From Coq Require Import List String Bool Arith.
Import ListNotations.
From TD Require Import Model.C01_Tree.
From TD Require Model.C04_Tree.      (* python str.split / `in` / join, shared with C04 *)
Open Scope string_scope.
Open Scope list_scope.

Inductive outcome := Done | Raised | Unmodelled.
Inductive res (A : Type) := Ok (a : A) | Err | Unm.
Arguments Ok {A} a.
Arguments Err {A}.
Arguments Unm {A}.

(* finding D103 (rename_key_ stored under a nested key without validation) is repaired in /repo (fixes/C01/D103.diff):
   the tuple branch now calls _set_tuple(..., validated=False).  false = the code before the repair. *)
Definition fixed_D103 : bool := true.

(* the code's `for key, value in self.items(): <mutate value in place, may raise>`: entries are visited in insertion
   order, the first failure stops the loop, what was done before stays done *)
Definition seq_children (f : tree -> tree * bool) : ents -> ents * bool :=
  fix go (es : ents) : ents * bool :=
    match es with
    | [] => ([], true)
    | (key, c) :: r =>
        let '(c', okc) := f c in
        if okc then let '(r', ok) := go r in ((key, c') :: r', ok) else ((key, c') :: r, false)
    end.

(* `for x in xs: <one call on self, may raise>`: the first failure stops the loop, earlier effects stay *)
Definition seq_steps {A : Type} (f : A -> tree -> tree * outcome) : list A -> tree -> tree * outcome :=
  fix go (l : list A) (self : tree) : tree * outcome :=
    match l with
    | [] => (self, Done)
    | a :: r => let '(s', o) := f a self in match o with Done => go r s' | _ => (s', o) end
    end.

(* ================================================================ names ================================ *)
Fixpoint count_none (l : list (option string)) : nat :=
  match l with [] => 0 | None :: r => S (count_none r) | Some _ :: r => count_none r end.

Definition omem (x : option string) (l : list (option string)) : bool := existsb (oname_eqb x) l.

(* len(set(l)) *)
Fixpoint set_len (l : list (option string)) : nat :=
  match l with [] => 0 | x :: r => if omem x r then set_len r else S (set_len r) end.

(* names setter: `if num_none: num_none -= 1;  len(set(value)) != len(value) - num_none` -> "non-unique" *)
Definition names_unique (l : list (option string)) : bool :=
  Nat.eqb (set_len l) (List.length l - pred (count_none l)).

Definition erase1 (t : tree) : tree := match t with Node k bs dv _ es => Node k bs dv None es | l => l end.
Definition erase_children (es : ents) : ents := map (fun kv => (fst kv, erase1 (snd kv))) es.

(* TensorDict.names = v  (_td.py:2301) with _rename_subtds (2336) and, on the children, rename_( *names) (base.py:4424).
   The bool is false when the code raises; the tree is what is left behind (children renamed so far stay renamed). *)
Fixpoint set_names (t : tree) (v : dnames) : tree * bool :=
  match t with
  | Leaf _ _ => (t, true)
  | Node k bs dv nm es =>
      match v with
      | None => (Node k bs dv None (erase_children es), true)
      | Some l =>
          if Nat.eqb (count_none l) (List.length bs) then (Node k bs dv None (erase_children es), true)
          else if negb (names_unique l) then (t, false)
          else if negb (Nat.eqb (List.length l) (List.length bs)) then (t, false)
          else
            let '(es', ok) :=
              seq_children
                (fun c =>
                   match c with
                   | Leaf _ _ => (c, true)
                   | Node ck cbs cdv cnm ces =>
                       (* item.rename_( *tdn) with tdn = names + item.names[len(names):] *)
                       match l ++ skipn (List.length l) (names_of c) with
                       | [] => if Nat.eqb (List.length cbs) 0 then set_names c (Some []) else (c, false)
                       | [None] =>
                           (* `self.names = None` first, then `self.names = (None,)` *)
                           (Node ck cbs cdv None (erase_children ces), Nat.eqb (List.length cbs) 1)
                       | tdn => set_names c (Some tdn)
                       end
                   end) es in
            if ok then (Node k bs dv (Some l) es', true) else (Node k bs dv nm es', false)
      end
  end.

(* refine_names( *names)  (base.py:4331).  RN n = a name or None, REll = Ellipsis *)
Inductive rname := RN (n : option string) | REll.
Definition is_ell (r : rname) : bool := match r with REll => true | RN _ => false end.

(* the checking loop; None in [exp] = NO_DEFAULT (filled from the current names); result None = the code raised
   (RuntimeError on a conflict, IndexError when there are more names than dims) *)
Fixpoint refine_loop (exp : list (option (option string))) (curr : list (option string)) : option (list (option string)) :=
  match exp with
  | [] => Some []
  | e :: r =>
      match curr with
      | [] => None
      | c :: cr =>
          match e with
          | None => option_map (cons c) (refine_loop r cr)
          | Some n =>
              match c with
              | None => option_map (cons n) (refine_loop r cr)
              | Some _ => if oname_eqb c n then option_map (cons n) (refine_loop r cr) else None
              end
          end
      end
  end.

Definition refine (t : tree) (ns : list rname) : tree * bool :=
  let rank := List.length (tshape t) in
  let fill := repeat (@None (option string)) (rank + 1 - List.length ns) in
  let exp := flat_map (fun r => match r with REll => fill | RN n => [Some n] end) ns in
  match refine_loop exp (names_of t) with
  | None => (t, false)
  | Some l => set_names t (Some l)
  end.

(* ================================================================ batch size =========================== *)
(* _check_new_batch_size (after fixes/C01/D101_D102_D110.diff): pure and recursive.  A nested collection that is going
   to receive the new size — fewer dims, or no content and a size that does not extend the new one — is checked through
   its own content (the code skips pass-through collections such as NonTensorData here; they hold no entry, so the
   recursion below says the same); every other entry must have the new size as leading dims. *)
Fixpoint check_new_t (new : list nat) (t : tree) : bool :=
  match t with
  | Leaf _ _ => true
  | Node _ _ _ _ es =>
      forallb (fun kv =>
                 match snd kv with
                 | Leaf sh _ => prefixb new sh
                 | Node _ cbs _ _ _ =>
                     if Nat.ltb (List.length cbs) (List.length new) || (negb (prefixb new cbs) && is_empty (snd kv))
                     then check_new_t new (snd kv)
                     else prefixb new cbs
                 end) es
  end.

(* td.batch_size = new  (_batch_size_setter after the repair).  The check runs FIRST and modifies nothing; then the nested
   collections whose size does not extend the new one (fewer dims, or emptied) are given the new size; then the names.
   [sz]: the argument is a torch.Size (or a tuple).  The early return `if new_batch_size == self.batch_size` compares a
   python LIST with a torch.Size as unequal, so `td.batch_size = [same dims]` is not a no-op: the names are re-assigned
   and pushed to the children again. *)
Fixpoint set_bs (sz : bool) (t : tree) (new : list nat) : tree * bool :=
  match t with
  | Leaf _ _ => (t, true)
  | Node k bs dv nm es =>
      if sz && shape_eqb new bs then (t, true)
      else if negb (check_new_t new t) then (t, false)
      else
        let '(es1, ok1) :=
          seq_children
            (fun c =>
               match c with
               | Leaf _ _ => (c, true)
               | Node _ cbs _ _ _ => if negb (prefixb new cbs) then set_bs true c new else (c, true)
               end) es in
        if negb ok1 then (Node k bs dv nm es1, false)
        else
          match nm with
          | None => (Node k new dv None es1, true)
          | Some names =>
              let target := if Nat.ltb (List.length names) (List.length new)
                            then names ++ repeat None (List.length new - List.length names)
                            else firstn (List.length new) names in
              set_names (Node k new dv None es1) (Some target)
          end
  end.

(* the loop of _set_max_batch_size: longest common prefix of the first shape and the others, at most k dims kept *)
Fixpoint maxbs (s0 : list nat) (rest : list (list nat)) (k : option nat) (acc : list nat) : list nat :=
  match s0 with
  | [] => acc
  | size :: s0' =>
      if forallb (fun sh => match sh with [] => false | x :: _ => Nat.eqb x size end) rest
      then maxbs s0' (map (@tl nat) rest) k
             (match k with None => acc ++ [size] | Some kk => if Nat.ltb (List.length acc) kk then acc ++ [size] else acc end)
      else acc
  end.

(* tensor_data of _set_max_batch_size: everything except pass-through values with an empty batch size *)
Definition is_data (c : tree) : bool := match c with Node KNt [] _ _ _ => false | _ => true end.

(* auto_batch_size_(k)  (utils.py:_set_max_batch_size): nested collections first, then this node *)
Fixpoint auto_bs (t : tree) (k : option nat) : tree * bool :=
  match t with
  | Leaf _ _ => (t, true)
  | Node kd bs dv nm es =>
      let '(es1, ok1) :=
        seq_children
          (fun c => match c with Leaf _ _ => (c, true) | Node _ _ _ _ _ => if is_data c then auto_bs c k else (c, true) end) es in
      let t1 := Node kd bs dv nm es1 in
      if negb ok1 then (t1, false)
      else
        match filter is_data (map snd es1) with
        | [] => match k with
                | Some (S kk) => set_bs true t1 (firstn (S kk) bs)
                | _ => (t1, true)
                end
        | d0 :: rest =>
            let rest' := filter (fun c => negb (is_node c && is_empty c)) rest in
            set_bs false t1 (maxbs (tshape d0) (map tshape rest') k [])
        end
  end.

(* ================================================================ values and validation ================= *)
Fixpoint to_dev (d : dev) (t : tree) : tree :=
  match t with
  | Leaf sh _ => Leaf sh d
  | Node k bs _ nm es =>
      Node k bs (Some d) nm (map (fun kv => (fst kv, to_dev d (snd kv))) es)
  end.

(* value.to(cpu) raises NotImplementedError ("Cannot copy out of meta tensor") as soon as a tensor below is on meta *)
Fixpoint has_meta (t : tree) : bool :=
  match t with
  | Leaf _ d => dev_eqb d META
  | Node _ _ _ _ es => existsb (fun kv => has_meta (snd kv)) es
  end.

(* what the caller hands to set / update: a tensor or tensordict (VTree; python scalars arrive as a 0-dim cpu leaf),
   a python dict (VDict), or a python object that becomes a NonTensorData (VStr) *)
Inductive value := VTree (t : tree) | VDict (items : list (string * value)) | VStr.

Definition store (self : tree) (k : string) (v : tree) : tree :=
  match self with Node sk bs dv nm es => Node sk bs dv nm (aset k v es) | l => l end.
Definition empty_like (self : tree) : tree :=           (* self.empty() *)
  match self with Node _ bs dv nm _ => Node KTd bs dv nm [] | l => l end.
Definition nt_like (self : tree) : tree :=              (* NonTensorData(data, batch_size, device, names) of self *)
  match self with Node _ bs dv nm _ => Node KNt bs dv nm [] | l => l end.

(* _validate_value(value, check_shape=True) for a tensor / tensordict / NonTensorData value.
   Returns self (its names may be adopted from the value, children renamed) and the value to store. *)
Definition validate_tree (self : tree) (v : tree) : tree * res tree :=
  match self with
  | Leaf _ _ => (self, Unm)
  | Node sk sbs sdv snm ses =>
      let rank := List.length sbs in
      let check_shape := negb (Nat.eqb rank 0) in
      let r1 : res tree :=
        if check_shape && negb (prefixb sbs (tshape v)) then
          match v with
          | Leaf _ _ => Err
          | Node _ _ _ _ _ => let '(v', ok) := set_bs true v sbs in if ok then Ok v' else Err
          end
        else Ok v in
      match r1 with
      | Ok v1 =>
          let cast_fails := match sdv with
                            | Some CPU => negb (odev_eqb (tdev v1) (Some CPU)) && has_meta v1
                            | _ => false
                            end in
          let v2 := match sdv with
                    | Some d => if odev_eqb (tdev v1) (Some d) then v1 else to_dev d v1
                    | None => v1
                    end in
          if cast_fails then (self, Err)
          else if check_shape && is_node v2 then
            match snm with
            | Some sn =>
                if onames_eqb (firstn rank (names_of v2)) sn then (self, Ok v2)
                else let '(v3, ok) := refine v2 (map RN sn) in if ok then (self, Ok v3) else (self, Err)
            | None =>
                if has_names v2 then
                  let '(self', ok) := set_names self (Some (firstn rank (names_of v2))) in
                  if ok then (self', Ok v2) else (self', Err)
                else (self, Ok v2)
            end
          else (self, Ok v2)
      | Err => (self, Err)
      | Unm => (self, Unm)
      end
  end.

(* _convert_to_tensordict(dict): TensorDict(dict, batch_size, device, names of the container) — every item goes
   through set() of the new node, in order; the first failing item makes the whole conversion raise *)
Fixpoint conv (v : value) (self : tree) : res tree :=
  match v with
  | VTree t => Ok t
  | VStr => Ok (nt_like self)
  | VDict items =>
      (fix go (items : list (string * value)) (acc : tree) : res tree :=
         match items with
         | [] => Ok acc
         | (k, vi) :: r =>
             match vi with
             | VStr => go r (store acc k (nt_like acc))
             | VTree t =>
                 let '(acc', rt) := validate_tree acc t in
                 match rt with Ok t' => go r (store acc' k t') | Err => Err | Unm => Unm end
             | VDict _ =>
                 match conv vi acc with
                 | Ok t =>
                     let '(acc', rt) := validate_tree acc t in
                     match rt with Ok t' => go r (store acc' k t') | Err => Err | Unm => Unm end
                 | Err => Err
                 | Unm => Unm
                 end
             end
         end) items (empty_like self)
  end.

(* value as validated by the node that is going to store it *)
Definition prep (self : tree) (v : value) : tree * res tree :=
  match v with
  | VStr => (self, Ok (nt_like self))
  | VTree t => validate_tree self t
  | VDict _ => match conv v self with Ok t => validate_tree self t | Err => (self, Err) | Unm => (self, Unm) end
  end.

(* ================================================================ set ================================== *)
Inductive inpl := INo | IBest | IStrict.       (* inplace = False / BEST_ATTEMPT_INPLACE / True *)

(* tensor.copy_(src): src broadcastable to dest (aligned on the right), and no copy out of a meta tensor *)
Fixpoint bcast_rev (dest src : list nat) : bool :=
  match src, dest with
  | [], _ => true
  | _ :: _, [] => false
  | s :: src', d :: dest' => (Nat.eqb s d || Nat.eqb s 1) && bcast_rev dest' src'
  end.
(* _set_str swallows the RuntimeError of copy_ when `dest.data.untyped_storage().data_ptr() == value...data_ptr()`
   ("updating a param whose storage matches"): meta tensors and tensors without elements all have data_ptr() == 0, and
   NotImplementedError (copy out of meta) is a RuntimeError *)
Definition null_ptr (sh : list nat) (d : dev) : bool := dev_eqb d META || existsb (Nat.eqb 0) sh.
Definition copy_ok (dsh : list nat) (dd : dev) (ssh : list nat) (sd : dev) : bool :=
  (bcast_rev (rev dsh) (rev ssh) && negb (dev_eqb sd META && dev_eqb dd CPU))
  || (null_ptr dsh dd && null_ptr ssh sd).

(* _set_str (_td.py:2412) *)
Definition set_str (self : tree) (k : string) (v : value) (ip : inpl) : tree * outcome :=
  match self with
  | Node KTd bs dv nm es =>
      let has := amem k es in
      match ip, has with
      | IStrict, false => (self, Raised)
      | _, _ =>
          let inplace := match ip with INo => false | _ => has end in
          let '(self1, rv) := prep self v in
          match rv with
          | Err => (self1, Raised)
          | Unm => (self1, Unmodelled)
          | Ok t =>
              if negb inplace then (store self1 k t, Done)
              else
                match aget k es, t with
                | Some (Leaf dsh dd), Leaf ssh sd => (self1, if copy_ok dsh dd ssh sd then Done else Raised)
                | Some (Leaf _ _), Node _ _ _ _ _ => (self1, Raised)
                | Some (Node KTd _ _ _ _), Leaf _ _ => (self1, match ip with IBest => Raised | _ => Unmodelled end)
                | _, _ => (self1, Unmodelled)       (* in-place update of a nested node: update_ / update(inplace=True) *)
                end
          end
      end
  | _ => (self, Unmodelled)
  end.

(* _set_tuple (_td.py:2473): a missing intermediate node is created (self.empty()) BEFORE the recursion *)
Fixpoint set_tuple (p : list string) (v : value) (ip : inpl) (self : tree) : tree * outcome :=
  match self with
  | Node KTd bs dv nm es =>
      match p with
      | [] => (self, Raised)
      | k :: rest =>
          match rest with
          | [] => set_str self k v ip
          | _ :: _ =>
              match aget k es with
              | None =>
                  match ip with
                  | IStrict => (self, Raised)       (* set_: a missing intermediate node is a missing key *)
                  | _ =>
                      let '(c', o) := set_tuple rest v INo (Node KTd bs dv nm []) in
                      (Node KTd bs dv nm (aset k c' es), o)
                  end
              | Some (Leaf _ _) => (self, Raised)
              | Some (Node KNt _ _ _ _) => (self, Unmodelled)
              | Some (Node KTd cbs cdv cnm ces) =>
                  let '(c', o) := set_tuple rest v ip (Node KTd cbs cdv cnm ces) in
                  (Node KTd bs dv nm (aset k c' es), o)
              end
          end
      end
  | _ => (self, Unmodelled)
  end.

(* ================================================================ get / del / pop ====================== *)
Inductive gres := GVal (t : tree) | GMissing | GBad | GUnm.

(* get(key, default): GBad = the path goes through a tensor (ValueError even with a default) *)
Fixpoint get_path (p : list string) (self : tree) : gres :=
  match self with
  | Node KTd _ _ _ es =>
      match p with
      | [] => GBad
      | k :: rest =>
          match aget k es with
          | None => GMissing
          | Some c => match rest with [] => GVal c | _ :: _ => match c with Leaf _ _ => GBad | _ => get_path rest c end end
          end
      end
  | Node KNt _ _ _ _ => GUnm
  | Leaf _ _ => GBad
  end.

(* del_(key) (_td.py:2600) *)
Fixpoint del_path (p : list string) (self : tree) : tree * outcome :=
  match self with
  | Node KTd bs dv nm es =>
      match p with
      | [] => (self, Raised)
      | k :: rest =>
          match rest with
          | [] => if amem k es then (Node KTd bs dv nm (adel k es), Done) else (self, Raised)
          | _ :: _ =>
              match aget k es with
              | None => (self, Raised)
              | Some (Leaf _ _) => (self, Raised)
              | Some (Node KNt _ _ _ _) => (self, Unmodelled)
              | Some c => let '(c', o) := del_path rest c in (Node KTd bs dv nm (aset k c' es), o)
              end
          end
      end
  | _ => (self, Unmodelled)
  end.

(* pop(key[, default]) (base.py:7505): get, then del_, one try/except KeyError *)
Definition pop_path (p : list string) (has_default : bool) (self : tree) : tree * outcome :=
  match p with
  | [] => (self, Raised)
  | _ =>
      match get_path p self with
      | GBad => (self, Raised)
      | GUnm => (self, Unmodelled)
      | GMissing => (self, if has_default then Done else Raised)
      | GVal _ => del_path p self
      end
  end.

Definition popitem (self : tree) : tree * outcome :=
  match self with
  | Node KTd bs dv nm es => match es with [] => (self, Raised) | _ => (Node KTd bs dv nm (removelast es), Done) end
  | _ => (self, Unmodelled)
  end.

(* `key in td.keys(include_nested=True)` *)
Fixpoint contains_path (p : list string) (self : tree) : bool :=
  match self with
  | Node KTd _ _ _ es =>
      match p with
      | [] => false
      | k :: rest =>
          match rest with
          | [] => amem k es
          | _ :: _ => match aget k es with Some c => contains_path rest c | None => false end
          end
      end
  | _ => false
  end.

(* a path runs into a NonTensorData node: the model does not follow the code there *)
Fixpoint through_nt (p : list string) (self : tree) : bool :=
  match self with
  | Node KNt _ _ _ _ => true
  | Node KTd _ _ _ es =>
      match p with
      | [] => false
      | k :: rest => match aget k es with Some c => match rest with [] => false | _ => through_nt rest c end | None => false end
      end
  | Leaf _ _ => false
  end.

Definition path_eqb (a b : list string) : bool := if list_eq_dec string_dec a b then true else false.

(* storing an already validated value (validated=True): _set_str for a string key, _set_tuple otherwise *)
Fixpoint put_path (p : list string) (v : tree) (self : tree) : tree * outcome :=
  match self with
  | Node KTd bs dv nm es =>
      match p with
      | [] => (self, Raised)
      | k :: rest =>
          match rest with
          | [] => (Node KTd bs dv nm (aset k v es), Done)
          | _ :: _ =>
              match aget k es with
              | None => let '(c', o) := put_path rest v (Node KTd bs dv nm []) in (Node KTd bs dv nm (aset k c' es), o)
              | Some (Leaf _ _) => (self, Raised)
              | Some (Node KNt _ _ _ _) => (self, Unmodelled)
              | Some c => let '(c', o) := put_path rest v c in (Node KTd bs dv nm (aset k c' es), o)
              end
          end
      end
  | _ => (self, Unmodelled)
  end.

(* rename_key_(old, new, safe) (_td.py).  When the new key lies UNDER the old one (td.rename_key_("a", ("a", "b"))) the
   entry is detached first; a string new key is stored with validated=True (the entry comes from this node or from
   below it), a nested new key goes through _set_tuple with validated=False (fixes/C01/D103.diff; fixed_D103 = false is
   the code before that repair). *)
Definition rename_key (old new : list string) (safe : bool) (self : tree) : tree * outcome :=
  if through_nt old self || through_nt new self then (self, Unmodelled)
  else
  match old, new with
  | [], _ | _, [] => (self, Raised)
  | _, _ =>
      if path_eqb old new then (self, if contains_path old self then Done else Raised)
      else if safe && contains_path new self then (self, Raised)
      else
        match get_path old self with
        | GVal v =>
            let under := path_eqb (firstn (List.length old) new) old in
            let '(s0, o0) := if under then del_path old self else (self, Done) in
            match o0 with
            | Done =>
                let '(s1, o1) :=
                  match new with
                  | [k] => put_path new v s0
                  | _ =>
                      if fixed_D103 then
                        (* the value is the very object that still sits under the old key: when the destination node
                           adopts / erases dim names it renames that object too (aliasing the tree model cannot express) *)
                        if has_names v then (s0, Unmodelled) else set_tuple new (VTree v) INo s0
                      else put_path new v s0
                  end in
                match o1 with
                | Done =>
                    if under || (path_eqb (firstn (List.length new) old) new && Nat.ltb 1 (List.length old)) then (s1, Done)
                    else del_path old s1
                | _ => (s1, o1)
                end
            | _ => (s0, o0)
            end
        | GUnm => (self, Unmodelled)
        | _ => (self, Raised)
        end
  end.

(* ================================================================ update =============================== *)
(* update(tensordict, inplace) (base.py:6602) without clone / keys_to_update / update_batch_size / is_leaf *)
Fixpoint upd_t (src : tree) (ip : bool) (self : tree) {struct src} : tree * outcome :=
  match src, self with
  | Node _ sbs _ _ ses, Node KTd bs _ _ _ =>
      if negb (shape_eqb (firstn (List.length sbs) bs) (firstn (List.length bs) sbs)) then (self, Raised)
      else
        seq_steps
          (fun (kc : string * tree) (self : tree) =>
             let '(k, c) := kc in
             match self with
             | Node KTd bs dv nm es =>
                 match aget k es, c with
                 | Some (Node KTd tb td tn te), Node KTd _ _ _ _ =>
                     let '(t', o) := upd_t c ip (Node KTd tb td tn te) in (Node KTd bs dv nm (aset k t' es), o)
                 | _, _ => set_tuple [k] (VTree c) (if ip then IBest else INo) self
                 end
             | _ => (self, Unmodelled)
             end) ses self
  | _, _ => (self, Unmodelled)
  end.

Fixpoint upd_v (v : value) (ip : bool) (self : tree) {struct v} : tree * outcome :=
  match v with
  | VTree t => upd_t t ip self
  | VStr => (self, Unmodelled)
  | VDict items =>
      seq_steps
        (fun (kv : string * value) (self : tree) =>
           let '(k, vi) := kv in
           match self with
           | Node KTd bs dv nm es =>
               match aget k es, vi with
               | Some (Node KTd tb td tn te), VDict _ =>
                   let '(t', o) := upd_v vi ip (Node KTd tb td tn te) in (Node KTd bs dv nm (aset k t' es), o)
               | Some (Node KTd tb td tn te), VTree (Node KTd sb sd sn se) =>
                   let '(t', o) := upd_t (Node KTd sb sd sn se) ip (Node KTd tb td tn te) in (Node KTd bs dv nm (aset k t' es), o)
               | _, _ => set_tuple [k] vi (if ip then IBest else INo) self
               end
           | _ => (self, Unmodelled)
           end) items self
  end.

(* ================================================================ select / exclude / flatten ... ======= *)
(* first-occurrence grouping used by _select / _exclude: keys_to_select[key].append(subkey) *)
Fixpoint group_add (k : string) (sub : list string) (g : list (string * list (list string))) : list (string * list (list string)) :=
  match g with
  | [] => [(k, [sub])]
  | (k', l) :: r => if String.eqb k k' then (k', l ++ [sub]) :: r else (k', l) :: group_add k sub r
  end.

(* _select( *keys, inplace=True, strict) (_td.py:3279) *)
(* pass 1: the source dict in the order of the arguments; a missing key raises when strict (None) *)
Fixpoint sel_pass1 (es : ents) (strict : bool) (keys : list (list string)) (src : ents) (g : list (string * list (list string)))
  : option (ents * list (string * list (list string))) :=
  match keys with
  | [] => Some (src, g)
  | [] :: r => None
  | (k :: sub) :: r =>
      match aget k es with
      | None => if strict then None else sel_pass1 es strict r src g
      | Some v => sel_pass1 es strict r (aset k v src) (match sub with [] => g | _ => group_add k sub g end)
      end
  end.

(* pass 2: nested selections, in place on the nested nodes (their effect stays when a later one raises) *)
Fixpoint sel_pass2 (rec : list (list string) -> tree -> tree * outcome) (g : list (string * list (list string))) (src es : ents)
  : ents * ents * outcome :=
  match g with
  | [] => (src, es, Done)
  | (k, subs) :: r =>
      match aget k src with
      | Some (Node KTd cb cd cn ce) =>
          let '(c', o) := rec subs (Node KTd cb cd cn ce) in
          let src1 := aset k c' src in
          let es1 := aset k c' es in
          match o with Done => sel_pass2 rec r src1 es1 | _ => (src1, es1, o) end
      | Some (Node KNt _ _ _ _) => (src, es, Unmodelled)
      | _ => (src, es, Raised)
      end
  end.

Fixpoint select_in (fuel : nat) (keys : list (list string)) (strict : bool) (self : tree) : tree * outcome :=
  match fuel with
  | O => (self, Unmodelled)
  | S fuel' =>
      match self with
      | Node KTd bs dv nm es =>
          match sel_pass1 es strict keys [] [] with
          | None => (self, Raised)
          | Some (src, g) =>
              let '(src', es', o) := sel_pass2 (fun subs c => select_in fuel' subs strict c) g src es in
              match o with
              | Done => (Node KTd bs dv nm src', Done)
              | _ => (Node KTd bs dv nm es', o)
              end
          end
      | _ => (self, Unmodelled)
      end
  end.

Fixpoint depth (t : tree) : nat :=
  match t with
  | Leaf _ _ => 0
  | Node _ _ _ _ es => S ((fix go (es : ents) : nat := match es with [] => 0 | (_, c) :: r => Nat.max (depth c) (go r) end) es)
  end.

(* _exclude( *keys, inplace=True) (_td.py:3331) *)
Fixpoint exc_pass1 (keys : list (list string)) (es : ents) (g : list (string * list (list string)))
  : ents * list (string * list (list string)) :=
  match keys with
  | [] => (es, g)
  | [] :: r => exc_pass1 r es g
  | [k] :: r => exc_pass1 r (adel k es) g
  | (k :: sub) :: r => exc_pass1 r es (if amem k es then group_add k sub g else g)
  end.

Fixpoint exc_pass2 (rec : list (list string) -> tree -> tree * outcome) (g : list (string * list (list string))) (es : ents)
  : ents * outcome :=
  match g with
  | [] => (es, Done)
  | (k, subs) :: r =>
      match aget k es with
      | None => exc_pass2 rec r es
      | Some (Node KTd cb cd cn ce) =>
          let '(c', o) := rec subs (Node KTd cb cd cn ce) in
          match o with Done => exc_pass2 rec r (aset k c' es) | _ => (aset k c' es, o) end
      | Some (Node KNt _ _ _ _) => (es, Unmodelled)
      | Some (Leaf _ _) => (es, Raised)
      end
  end.

Fixpoint exclude_in (fuel : nat) (keys : list (list string)) (self : tree) : tree * outcome :=
  match fuel with
  | O => (self, Unmodelled)
  | S fuel' =>
      match self with
      | Node KTd bs dv nm es =>
          match keys with
          | [] => (self, Done)
          | _ =>
              let '(es1, g) := exc_pass1 keys es [] in
              let '(es2, o) := exc_pass2 (fun subs c => exclude_in fuel' subs c) g es1 in
              (Node KTd bs dv nm es2, o)
          end
      | _ => (self, Unmodelled)
      end
  end.

(* keys(include_nested=True, leaves_only=True, is_leaf=_is_leaf_nontensor): tensors and NonTensorData, depth first *)
Fixpoint leaf_paths (t : tree) : list (list string) :=
  match t with
  | Node KTd _ _ _ es =>
      (fix go (es : ents) : list (list string) :=
         match es with
         | [] => []
         | (k, c) :: r =>
             (match c with
              | Leaf _ _ => [[k]]
              | Node KNt _ _ _ _ => [[k]]
              | Node KTd _ _ _ _ => map (cons k) (leaf_paths c)
              end) ++ go r
         end) es
  | _ => []
  end.

Fixpoint smem (s : string) (l : list string) : bool := match l with [] => false | x :: r => String.eqb s x || smem s r end.
Fixpoint sset_len (l : list string) : nat := match l with [] => 0 | x :: r => if smem x r then sset_len r else S (sset_len r) end.

(* _flatten_keys_inplace (base.py): the leaves are collected, every root entry is removed, then the leaves are bound
   under their joined names, in the order of the traversal *)
Definition flatten_in (sep : string) (self : tree) : tree * outcome :=
  match self with
  | Node KTd bs dv nm es =>
      let leaves := leaf_paths self in
      let flat := map (C04_Tree.join sep) leaves in
      if Nat.ltb (sset_len flat) (List.length leaves) then (self, Raised)
      else
        let vals := map (fun p => get_path p self) leaves in
        if forallb (fun g => match g with GVal _ => true | _ => false end) vals then
          (Node KTd bs dv nm
             (fold_left (fun acc kg => match snd kg with GVal v => aset (fst kg) v acc | _ => acc end) (combine flat vals) []),
           Done)
        else (self, Unmodelled)
  | _ => (self, Unmodelled)
  end.

(* unflatten_keys(separator, inplace=True) (base.py:12836) *)
Definition unflatten_in (sep : string) (self : tree) : tree * outcome :=
  match self with
  | Node KTd _ _ _ es =>
      match sep with
      | EmptyString => (self, Unmodelled)
      | _ =>
          seq_steps
            (fun k self => if C04_Tree.str_contains sep k then rename_key [k] (C04_Tree.split sep k) true self else (self, Done))
            (map fst es) self
      end
  | _ => (self, Unmodelled)
  end.

(* create_nested(key) (base.py:7073): every level is (re)created empty, an existing entry is overwritten *)
Fixpoint create_nested (p : list string) (self : tree) : tree * outcome :=
  match self with
  | Node KTd bs dv nm es =>
      match p with
      | [] => (self, Raised)
      | k :: rest =>
          match rest with
          | [] => (Node KTd bs dv nm (aset k (Node KTd bs dv nm []) es), Done)
          | _ :: _ => let '(c', o) := create_nested rest (Node KTd bs dv nm []) in (Node KTd bs dv nm (aset k c' es), o)
          end
      end
  | _ => (self, Unmodelled)
  end.

(* set_non_tensor(key, obj) (base.py:6225) *)
Fixpoint set_non_tensor (p : list string) (self : tree) : tree * outcome :=
  match self with
  | Node KTd bs dv nm es =>
      match p with
      | [] => (self, Raised)
      | k :: rest =>
          match rest with
          | [] => (Node KTd bs dv nm (aset k (Node KNt bs dv nm []) es), Done)
          | _ :: _ =>
              match aget k es with
              | None => let '(c', o) := set_non_tensor rest (Node KTd bs dv nm []) in (Node KTd bs dv nm (aset k c' es), o)
              | Some (Leaf _ _) => (self, Raised)
              | Some (Node KNt _ _ _ _) => (self, Unmodelled)
              | Some c => let '(c', o) := set_non_tensor rest c in (Node KTd bs dv nm (aset k c' es), o)
              end
          end
      end
  | _ => (self, Unmodelled)
  end.

(* ================================================================ ops and step ========================= *)
Inductive op0 :=
| OSet (key : list string) (v : value) (inplace : bool)      (* set(key, v, inplace) ; td[key] = v is inplace=false *)
| OSet_ (key : list string) (v : value)                      (* set_(key, v) *)
| OSetDefault (key : list string) (v : value)
| OSetNonTensor (key : list string)
| OUpdate (v : value) (inplace : bool)
| ODel (key : list string)
| OPop (key : list string) (has_default : bool)
| OPopItem
| ORename (old new : list string) (safe : bool)
| OBatchSize (as_size : bool) (bs : list nat)    (* td.batch_size = torch.Size(bs) / tuple   or   = list *)
| ONames (ns : dnames)
| ORefine (ns : list rname)
| OAutoBS (k : option nat)
| OFlatten (sep : string)
| OUnflatten (sep : string)
| OSelect (keys : list (list string)) (strict : bool)
| OExclude (keys : list (list string))
| OCreateNested (key : list string)
| OClear.

Inductive op := OAt (path : list string) (o : op0).

Definition b2o (p : tree * bool) : tree * outcome := (fst p, if snd p then Done else Raised).

(* one public call on the node it is issued on *)
Definition node_step (o : op0) (self : tree) : tree * outcome :=
  match self with
  | Node KTd bs dv nm es =>
      match o with
      | OSet key v ip => if through_nt key self then (self, Unmodelled) else set_tuple key v (if ip then IBest else INo) self
      | OSet_ key v => if through_nt key self then (self, Unmodelled) else set_tuple key v IStrict self
      | OSetDefault key v =>
          if through_nt key self then (self, Unmodelled)
          else match key with
               | [] => (self, Raised)
               | _ => if contains_path key self then (self, Done) else set_tuple key v INo self
               end
      | OSetNonTensor key => if through_nt key self then (self, Unmodelled) else set_non_tensor key self
      | OUpdate v ip => upd_v v ip self
      | ODel key => if through_nt key self then (self, Unmodelled) else del_path key self
      | OPop key d => pop_path key d self
      | OPopItem => popitem self
      | ORename old new safe => rename_key old new safe self
      | OBatchSize sz new => b2o (set_bs sz self new)
      | ONames ns => b2o (set_names self ns)
      | ORefine ns => b2o (refine self ns)
      | OAutoBS k => b2o (auto_bs self k)
      | OFlatten sep => flatten_in sep self
      | OUnflatten sep => unflatten_in sep self
      | OSelect keys strict => select_in (S (depth self)) keys strict self
      | OExclude keys => exclude_in (S (depth self)) keys self
      | OCreateNested key => if through_nt key self then (self, Unmodelled) else create_nested key self
      | OClear => (Node KTd bs dv nm [], Done)
      end
  | _ => (self, Unmodelled)
  end.

(* the call is issued on the node reached by root.get(path): a handle to a nested tensordict *)
Fixpoint at_path (p : list string) (f : tree -> tree * outcome) (t : tree) : tree * outcome :=
  match p with
  | [] => f t
  | k :: r =>
      match t with
      | Node KTd bs dv nm es =>
          match aget k es with
          | Some c => let '(c', o) := at_path r f c in (Node KTd bs dv nm (aset k c' es), o)
          | None => (t, Unmodelled)
          end
      | _ => (t, Unmodelled)
      end
  end.

Definition step (t : tree) (o : op) : tree * outcome :=
  match o with OAt p o0 => at_path p (node_step o0) t end.

Definition run (t : tree) (ops : list op) : tree := fold_left (fun t o => fst (step t o)) ops t.

(* ---- scope: the property's stated exclusion ----
   through a handle to a nested node, a batch size that no longer extends the parent's is the caller's obligation *)
Fixpoint parent_bs (p : list string) (t : tree) : option (list nat) :=
  match p with
  | [] => None
  | [_] => Some (tshape t)
  | k :: r => match t with Node _ _ _ _ es => match aget k es with Some c => parent_bs r c | None => None end | _ => None end
  end.

Definition in_scopeb (t : tree) (o : op) : bool :=
  match o with
  | OAt p o0 =>
      match parent_bs p t with
      | None => true
      | Some pbs =>
          match o0 with
          | OBatchSize _ new => prefixb pbs new
          | OAutoBS k => match k with None => true | Some kk => Nat.leb (List.length pbs) kk end
          | _ => true
          end
      end
  end.
