(* C04 — model of a LazyStackedTensorDict as a mapping.  Definitions only.
   Sources: tensordict/_lazy.py (_LazyStackedTensorDictKeysView.__len__/_keys/__contains__, _key_list, entry_class,
   _maybe_get_list, _iter_items_lazystack, _get_str, _get_tuple, _set_str, _set_tuple, del_, pop, update, rename_key_,
   _select, _exclude, _has_exclusive_keys / _fails_exclusive_keys, _flatten_keys_inplace), tensordict/_td.py
   (_TensorDictKeysView.__iter__/_iter_helper on a lazy stack), tensordict/base.py (items, values, is_empty, setdefault,
   clear, filter_empty_, _flatten_keys_outplace, unflatten_keys run on a lazy stack).

   A lazy stack is the list of its members (plain TensorDict storages, Model/C04_Tree.ents), in stack order; it owns no
   storage of its own.  Its keys are the keys present in EVERY member; a key held by some members only stays in those
   members and is not a key of the stack.  Members hold tensor leaves and nested nodes (no NonTensorData: the stack of
   non-tensors is a different class; not modelled here). *)
From Coq Require Import ZArith List String Bool Ascii.
Import ListNotations.
From TD Require Import Model.Keys Model.C04_Tree Model.C04_Ops Model.C04_Views.
Open Scope string_scope.
Open Scope list_scope.

Definition lstack := list ents.

(* ---------------------------------------------------------------- values ---- *)
(* a value handed to the stack (batch size = stack batch size): one number per member at every leaf.
   value.unbind(stack_dim)[i] is the i-th member's share. *)
Inductive sval := SLeaf (zs : list Z) | SNode (es : list (string * sval)).

Fixpoint unbind1 (i : nat) (v : sval) : tree :=
  match v with
  | SLeaf zs => Leaf LT (nth i zs 0%Z)
  | SNode es => Node ((fix go (es : list (string * sval)) : ents :=
                         match es with [] => [] | (k, w) :: r => (k, unbind1 i w) :: go r end) es)
  end.

(* what get returns: the stacked leaves (torch.stack of the members' tensors) or the lazy stack of the members' nodes *)
Inductive lval := LVLeaf (vs : list tree) | LVStack (ms : lstack).
Inductive lgres := LGVal (v : lval) | LGDef | LGRaise (e : err).

Fixpoint all_nodes (vs : list tree) : option lstack :=
  match vs with
  | [] => Some []
  | Node es :: r => match all_nodes r with Some l => Some (es :: l) | None => None end
  | Leaf _ _ :: _ => None
  end.

Definition is_leaf_tree (v : tree) : bool := negb (is_nodeb v).

(* LazyStackedTensorDict.lazy_stack(items): tensors are stacked, tensordicts are lazily stacked, a mixture raises
   (AttributeError / TypeError), no item raises RuntimeError *)
Definition stack_vals (vs : list tree) : res lval :=
  match vs with
  | [] => Raise EOther
  | _ => if forallb is_leaf_tree vs then Ok (LVLeaf vs)
         else match all_nodes vs with Some ms => Ok (LVStack ms) | None => Raise EOther end
  end.

(* [td._get_str(key, ...) for td in self.tensordicts]; None as soon as a member lacks the key *)
Fixpoint collect (k : string) (ms : lstack) : option (list tree) :=
  match ms with
  | [] => Some []
  | m :: r => match aget k m with
              | None => None
              | Some v => match collect k r with Some l => Some (v :: l) | None => None end
              end
  end.

(* _get_str (_lazy.py:1154); has_default: a non-tensor default is returned at the first member lacking the key *)
Definition lz_get_str (k : string) (ms : lstack) (has_default : bool) : lgres :=
  match collect k ms with
  | None => if has_default then LGDef else LGRaise EKey
  | Some vs => match stack_vals vs with Ok v => LGVal v | Raise e => LGRaise e end
  end.

(* _get_tuple (_lazy.py:1229) *)
Fixpoint lz_get_tuple (p : list string) (ms : lstack) (has_default : bool) : lgres :=
  match p with
  | [] => LGRaise EOther
  | k :: rest =>
      match lz_get_str k ms true with
      | LGDef => if has_default then LGDef else LGRaise EKey
      | LGRaise e => LGRaise e
      | LGVal v =>
          match rest with
          | [] => LGVal v
          | _ :: _ => match v with LVStack sub => lz_get_tuple rest sub has_default | LVLeaf _ => LGRaise EOther end
          end
      end
  end.

(* TensorDictBase.get *)
Definition lz_get (k : pykey) (ms : lstack) : lgres :=
  match cpp_unravel_to_tuple k with
  | [] => LGRaise EKey
  | p => lz_get_tuple p ms true
  end.

(* ---------------------------------------------------------------- key list ---- *)
(* _key_list (_lazy.py:1878): sorted(set(m0.keys()) & set(m1.keys()) & ..., key=str) *)
Definition common_keys (ms : lstack) : list string :=
  match ms with
  | [] => []
  | m0 :: r => filter (fun k => forallb (amem k) r) (map fst m0)
  end.

Definition lz_key_list (ms : lstack) : list string := sort_by (fun s : string => s) (common_keys ms).

Definition mem_str (k : string) (l : list string) : bool := existsb (String.eqb k) l.

(* entry_class(key) = type(self.tensordicts[0].get(key)): a leaf iff the FIRST member holds a tensor there *)
Definition first_is_leaf (k : string) (ms : lstack) : bool :=
  match ms with
  | [] => false
  | m0 :: _ => match aget k m0 with Some v => is_leaf_tree v | None => false end
  end.

(* ---------------------------------------------------------------- iteration of the keys view ---- *)
(* a python generator consumed by its caller: the keys yielded so far and the exception that ended it, if any *)
Definition stream := (list (list string) * option err)%type.

Definition s_app (a : stream) (b : stream) : stream :=
  match a with
  | (l, Some e) => (l, Some e)
  | (l, None) => (l ++ fst b, snd b)
  end.

(* _maybe_get_list(key) (_lazy.py:1070) seen from _iter_items_lazystack: the key comes from the first member, whose
   entry is [w]; the other members are scanned in order.  A nested node anywhere switches to _get_str(key, NO_DEFAULT),
   which raises KeyError when a member lacks the key (D401) and a non-KeyError on a tensor/node mixture. *)
Inductive mgl := MSkip | MRaise (e : err) | MLeaves | MStack (subs : lstack).

Inductive scan := ScanLeaves | ScanLacking | ScanNode.
Fixpoint scan_members (k : string) (ms : lstack) : scan :=
  match ms with
  | [] => ScanLeaves
  | m :: r => match aget k m with
              | None => ScanLacking
              | Some (Node _) => ScanNode
              | Some (Leaf _ _) => scan_members k r
              end
  end.

Definition maybe_get_list (k : string) (w : tree) (others : lstack) : mgl :=
  match w with
  | Node _ =>
      match collect k others with
      | None => MRaise EKey
      | Some vs => match all_nodes vs with Some subs => MStack subs | None => MRaise EOther end
      end
  | Leaf _ _ =>
      match scan_members k others with
      | ScanLeaves => MLeaves
      | ScanLacking => MSkip
      | ScanNode => match collect k others with None => MRaise EKey | Some _ => MRaise EOther end
      end
  end.

(* _TensorDictKeysView._iter_helper on a lazy stack (include_nested=True): the keys of the FIRST member in its insertion
   order; the children of a nested node before the node itself.  [v0] is the first member (as a Node), [others] the rest. *)
Fixpoint lz_iter (lo : bool) (prefix : list string) (v0 : tree) (others : lstack) : stream :=
  match v0 with
  | Leaf _ _ => ([], None)
  | Node es0 =>
      (fix go (es : ents) : stream :=
         match es with
         | [] => ([], None)
         | (k, w) :: r =>
             match maybe_get_list k w others with
             | MSkip => go r
             | MRaise e => ([], Some e)
             | MLeaves => s_app ([prefix ++ [k]], None) (go r)
             | MStack subs =>
                 s_app (lz_iter lo (prefix ++ [k]) w subs)
                       (s_app ((if lo then [] else [prefix ++ [k]]), None) (go r))
             end
         end) es0
  end.

Definition lz_keys_stream (inc lo : bool) (ms : lstack) : stream :=
  match ms with
  | [] => ([], None)
  | m0 :: others =>
      if inc then lz_iter lo [] (Node m0) others
      else if lo then (map (fun k => [k]) (filter (fun k => first_is_leaf k ms) (lz_key_list ms)), None)
      else (map (fun k => [k]) (lz_key_list ms), None)
  end.

(* list(td.keys(include_nested, leaves_only, sort=...)) *)
Definition lz_keys_view (inc lo so : bool) (ms : lstack) : res (list (list string)) :=
  match lz_keys_stream inc lo ms with
  | (_, Some e) => Raise e
  | (l, None) => Ok (if so then sort_by sort_name l else l)
  end.

(* __len__ (_lazy.py:117, after the fix of D44) *)
Definition lz_len_view (inc lo so : bool) (ms : lstack) : res nat :=
  if inc || lo then match lz_keys_view inc lo so ms with Ok l => Ok (List.length l) | Raise e => Raise e end
  else Ok (List.length (lz_key_list ms)).

(* TensorDictBase.is_empty: `for _ in self.keys(True, True): return False` stops at the first key *)
Definition lz_is_empty (ms : lstack) : res bool :=
  match lz_keys_stream true true ms with
  | (_ :: _, _) => Ok false
  | ([], Some e) => Raise e
  | ([], None) => Ok true
  end.

(* ---------------------------------------------------------------- items / values ---- *)
(* TensorDictBase.items on a lazy stack: `for k in self.keys()` (the SORTED common keys), value = _get_str(k), then the
   items of the nested lazy stack.  Written by recursion on the first member: one chunk per common key, the chunks put in
   key order afterwards (keys of a member are distinct).  A tensor/node mixture under a common key raises. *)
Definition chunk := (string * res (list (list string * lval)))%type.

Fixpoint chunks_cat (cs : list chunk) : res (list (list string * lval)) :=
  match cs with
  | [] => Ok []
  | (_, Raise e) :: _ => Raise e
  | (_, Ok l) :: r => match chunks_cat r with Ok l' => Ok (l ++ l') | Raise e => Raise e end
  end.

Fixpoint lz_items_pre (inc lo : bool) (prefix : list string) (v0 : tree) (others : lstack)
  : res (list (list string * lval)) :=
  match v0 with
  | Leaf _ _ => Ok []
  | Node es0 =>
      chunks_cat (sort_by (fun c : chunk => fst c)
        ((fix go (es : ents) : list chunk :=
            match es with
            | [] => []
            | (k, w) :: r =>
                match collect k others with
                | None => go r
                | Some vs =>
                    (k,
                     match w, all_nodes vs with
                     | Node _, Some subs =>
                         match (if inc then lz_items_pre inc lo (prefix ++ [k]) w subs else Ok []) with
                         | Ok sub_items =>
                             Ok ((if lo then [] else [(prefix ++ [k], LVStack (match w with Node e0 => e0 | _ => [] end :: subs))])
                                   ++ sub_items)
                         | Raise e => Raise e
                         end
                     | Node _, None => Raise EOther
                     | Leaf _ _, _ =>
                         if forallb is_leaf_tree vs then Ok [(prefix ++ [k], LVLeaf (w :: vs))] else Raise EOther
                     end) :: go r
                end
            end) es0))
  end.

Definition lz_items_view (inc lo so : bool) (ms : lstack) : res (list (list string * lval)) :=
  match ms with
  | [] => Ok []
  | m0 :: others =>
      match lz_items_pre inc lo [] (Node m0) others with
      | Ok l => Ok (if so then sort_by (fun kv : list string * lval => sort_name (fst kv)) l else l)
      | Raise e => Raise e
      end
  end.

Definition lz_values_view (inc lo so : bool) (ms : lstack) : res (list lval) :=
  match lz_items_view inc lo so ms with Ok l => Ok (map snd l) | Raise e => Raise e end.

(* ---------------------------------------------------------------- membership ---- *)
(* all(item[1:] in td.get(item[0]).keys(include_nested, leaves_only) for td in self.tensordicts) *)
Fixpoint all_members (f : ents -> res bool) (ms : lstack) : res bool :=
  match ms with
  | [] => Ok true
  | m :: r => match f m with
              | Raise e => Raise e
              | Ok false => Ok false
              | Ok true => all_members f r
              end
  end.

(* _LazyStackedTensorDictKeysView.__contains__ (_lazy.py:136) on the unravelled key *)
Definition lz_view_contains (inc lo : bool) (p : list string) (ms : lstack) : res bool :=
  match p with
  | [] => Raise EOther
  | k :: rest =>
      if mem_str k (lz_key_list ms) then
        match rest with
        | [] => Ok (if lo then first_is_leaf k ms else true)
        | _ :: _ =>
            all_members (fun m =>
              match aget k m with
              | Some (Node sub) => keys_contains inc lo false (KT (map KS rest)) sub
              | Some (Leaf _ _) => Raise EOther
              | None => Ok false
              end) ms
        end
      else Ok false
  end.

Definition lz_keys_contains (inc lo : bool) (k : pykey) (ms : lstack) : res bool :=
  lz_view_contains inc lo (cpp_unravel_to_tuple k) ms.

(* TensorDictBase.__contains__ *)
Definition lz_td_contains (k : pykey) (ms : lstack) : res bool :=
  match k with
  | KS s => lz_view_contains false false [s] ms
  | KT _ =>
      match cpp_unravel_key k with
      | RStr s => lz_view_contains true false [s] ms
      | RTup [] => Raise EOther
      | RTup l => lz_view_contains true false l ms
      | RRaise => Raise EOther
      end
  | KBad => Raise EOther
  end.

(* ---------------------------------------------------------------- delegation to the members ---- *)
(* `for i, td in enumerate(self.tensordicts): f(i, td)`: the members before the one that raises keep their new state,
   the raising member keeps what f left of it *)
Fixpoint lz_each (f : nat -> ents -> ents * option err) (i : nat) (ms : lstack) : lstack * option err :=
  match ms with
  | [] => ([], None)
  | m :: r =>
      match f i m with
      | (m', Some e) => (m' :: r, Some e)
      | (m', None) => let '(r', e) := lz_each f (S i) r in (m' :: r', e)
      end
  end.

Definition of_res_pair (m : ents) (r : res ents) : ents * option err :=
  match r with Ok m' => (m', None) | Raise e => (m, Some e) end.

(* set / __setitem__ -> _set_tuple / _set_str (_lazy.py:581-663): value.unbind(stack_dim), one member after the other *)
Definition lz_set_path (p : list string) (v : sval) (ms : lstack) : lstack * option err :=
  lz_each (fun i m => of_res_pair m (set_tuple p (unbind1 i v) m)) 0 ms.

Definition lz_set (k : pykey) (v : sval) (ms : lstack) : lstack * option err :=
  lz_set_path (cpp_unravel_to_tuple k) v ms.

(* del_ (_lazy.py:2688): every member is asked; a KeyError is remembered and the loop goes on, anything else escapes;
   KeyError at the end only if NO member held the key *)
Fixpoint lz_del_loop (k : pykey) (ms : lstack) (deleted : bool) : lstack * option err * bool :=
  match ms with
  | [] => ([], None, deleted)
  | m :: r =>
      match del_ k m with
      | Ok m' => let '(r', e, d) := lz_del_loop k r true in (m' :: r', e, d)
      | Raise EKey => let '(r', e, d) := lz_del_loop k r deleted in (m :: r', e, d)
      | Raise e => (m :: r, Some e, deleted)
      end
  end.

Definition lz_del (k : pykey) (ms : lstack) : lstack * option err :=
  match lz_del_loop k ms false with
  | (ms', Some e, _) => (ms', Some e)
  | (ms', None, true) => (ms', None)
  | (ms', None, false) => (ms', Some EKey)
  end.

Definition path_key (p : list string) : pykey := match p with [s] => KS s | _ => KT (map KS p) end.

(* pop (_lazy.py:2714) *)
Inductive lpopret := LPVal (v : lval) | LPDefault.

Definition lz_pop (k : pykey) (has_default : bool) (ms : lstack) : lstack * res lpopret :=
  let p := cpp_unravel_to_tuple k in
  let nested := match p with [_] => false | _ => true end in
  match lz_view_contains nested false p ms with
  | Raise e => (ms, Raise e)
  | Ok true =>
      match lz_get_tuple p ms false with
      | LGVal v =>
          match lz_del (path_key p) ms with
          | (ms', None) => (ms', Ok (LPVal v))
          | (ms', Some e) => (ms', Raise e)
          end
      | LGDef => (ms, Raise EOther)
      | LGRaise e => (ms, Raise e)
      end
  | Ok false => (ms, if has_default then Ok LPDefault else Raise EKey)
  end.

(* rename_key_ (_lazy.py:3084): member after member *)
Definition lz_rename (k1 k2 : pykey) (safe : bool) (ms : lstack) : lstack * option err :=
  lz_each (fun _ m => rename k1 k2 safe m) 0 ms.

(* update (_lazy.py:2899) with a python dict: TensorDict.from_dict(input) FIRST (every item is SET into a fresh
   tensordict: a later item replaces what an earlier, prefix-related item wrote — D47), then unbind and a plain
   TensorDict.update per member with the root entries of its share *)
Fixpoint from_dict_items (items : list (pykey * tree)) (acc : ents) : res ents :=
  match items with
  | [] => Ok acc
  | (k, v) :: r => match set_ k v acc with Ok acc' => from_dict_items r acc' | Raise e => Raise e end
  end.

Definition lz_update (items : list (pykey * sval)) (ms : lstack) : lstack * option err :=
  match from_dict_items (map (fun kv => (fst kv, unbind1 0 (snd kv))) items) [] with
  | Raise e => (ms, Some e)
  | Ok _ =>
      lz_each (fun i m =>
                 match from_dict_items (map (fun kv => (fst kv, unbind1 i (snd kv))) items) [] with
                 | Raise e => (m, Some e)
                 | Ok src => update (map (fun kv => (KS (fst kv), snd kv)) src) m
                 end) 0 ms
  end.

(* setdefault (base.py:7256) *)
Definition lz_setdefault (k : pykey) (v : sval) (ms : lstack) : lstack * res lgres :=
  match lz_view_contains (is_tuple k) false (cpp_unravel_to_tuple k) ms with
  | Raise e => (ms, Raise e)
  | Ok b =>
      match (if b then (ms, None) else lz_set k v ms) with
      | (ms', Some e) => (ms', Raise e)
      | (ms', None) => (ms', Ok (lz_get k ms'))
      end
  end.

(* _select / _exclude (_lazy.py:2176-2210): [td._select(...) for td in self.tensordicts]; returns the members afterwards
   and the members of the result *)
Fixpoint lz_map_res (f : ents -> ents * res ents) (ms : lstack) : lstack * res lstack :=
  match ms with
  | [] => ([], Ok [])
  | m :: r =>
      match f m with
      | (m', Raise e) => (m' :: r, Raise e)
      | (m', Ok out) =>
          match lz_map_res f r with
          | (r', Raise e) => (m' :: r', Raise e)
          | (r', Ok outs) => (m' :: r', Ok (out :: outs))
          end
      end
  end.

Definition lz_select (ks : list pykey) (strict inplace : bool) (ms : lstack) : lstack * res lstack :=
  match cpp_unravel_key_list ks with
  | None => (ms, Raise EOther)
  | Some _ => lz_map_res (select ks strict inplace) ms
  end.

Definition lz_exclude (ks : list pykey) (inplace : bool) (ms : lstack) : lstack * res lstack :=
  match cpp_unravel_key_list ks with
  | None => (ms, Raise EOther)
  | Some _ => lz_map_res (exclude ks inplace) ms
  end.

(* clear (base.py:4571): del self[key] for the keys of the stack; keys of some members only stay where they are *)
Fixpoint lz_del_all (ks : list string) (ms : lstack) : lstack * option err :=
  match ks with
  | [] => (ms, None)
  | k :: r => match lz_del (KS k) ms with
              | (ms', None) => lz_del_all r ms'
              | (ms', Some e) => (ms', Some e)
              end
  end.

Definition lz_clear (ms : lstack) : lstack * option err := lz_del_all (lz_key_list ms) ms.

(* filter_empty_ (base.py:6407, after the fix of D46): the nested entries of items(True, sort=True), last first; an entry
   whose lazy stack is empty AT THAT MOMENT is deleted from every member *)
Fixpoint lz_filter_loop (l : list (list string * lval)) (ms : lstack) : lstack * option err :=
  match l with
  | [] => (ms, None)
  | (p, LVLeaf _) :: r => lz_filter_loop r ms
  | (p, LVStack _) :: r =>
      match lz_get_tuple p ms false with
      | LGVal (LVStack sub) =>
          match lz_is_empty sub with
          | Raise e => (ms, Some e)
          | Ok false => lz_filter_loop r ms
          | Ok true =>
              match lz_del (path_key p) ms with
              | (ms', None) => lz_filter_loop r ms'
              | (ms', Some e) => (ms', Some e)
              end
          end
      | LGVal (LVLeaf _) => lz_filter_loop r ms
      | LGDef => (ms, Some EOther)
      | LGRaise e => (ms, Some e)
      end
  end.

Definition lz_filter_empty (ms : lstack) : lstack * option err :=
  match lz_items_view true false true ms with
  | Raise e => (ms, Some e)
  | Ok l => lz_filter_loop (rev l) ms
  end.

(* _has_exclusive_keys (_lazy.py:361): the members do not all have the same set of leaf paths *)
Definition leaf_paths (m : ents) : list (list string) := keys_view true true false false m.

Definition same_paths (a b : list (list string)) : bool :=
  forallb (fun p => existsb (list_string_eqb p) b) a && forallb (fun p => existsb (list_string_eqb p) a) b.

Definition has_exclusive (ms : lstack) : bool :=
  match ms with
  | [] => false
  | m0 :: r => negb (forallb (fun m => same_paths (leaf_paths m0) (leaf_paths m)) r)
  end.

(* flatten_keys (guard _fails_exclusive_keys): in place, member after member (_lazy.py:433); out of place,
   _flatten_keys_outplace over the lazy stack: the leaves in items() order (sorted keys at every level) set one by one
   into self.empty() *)
Definition lz_flatten_in (sep : string) (ms : lstack) : lstack * option err :=
  if has_exclusive ms then (ms, Some EOther) else lz_each (fun _ m => flatten_in sep m) 0 ms.

Definition member_leaf (i : nat) (v : lval) : tree :=
  match v with LVLeaf vs => nth i vs (Leaf LT 0%Z) | LVStack _ => Node [] end.

Definition lz_flatten_out (sep : string) (ms : lstack) : res lstack :=
  if has_exclusive ms then Raise EOther else
  match lz_items_view true true false ms with
  | Raise e => Raise e
  | Ok lv =>
      let names := map (fun pv => join sep (fst pv)) lv in
      if has_dup names then Raise EKey
      else Ok (map (fun i => combine names (map (fun pv => member_leaf i (snd pv)) lv)) (seq 0 (List.length ms)))
  end.

(* unflatten_keys (guard _fails_exclusive_keys; base.py:12922): the SORTED keys of the stack, one safe rename each *)
Fixpoint lz_unflatten_loop (sep : string) (ks : list string) (ms : lstack) : lstack * option err :=
  match ks with
  | [] => (ms, None)
  | k :: r =>
      if str_contains sep k then
        match lz_each (fun _ m => rename_r (RStr k) (path_keyres (split sep k)) true m) 0 ms with
        | (ms', None) => lz_unflatten_loop sep r ms'
        | (ms', Some e) => (ms', Some e)
        end
      else lz_unflatten_loop sep r ms
  end.

Definition lz_unflatten_in (sep : string) (ms : lstack) : lstack * option err :=
  if has_exclusive ms then (ms, Some EOther) else lz_unflatten_loop sep (lz_key_list ms) ms.

(* ---------------------------------------------------------------- one step of a history ---- *)
Inductive lop :=
| LNop
| LSet (k : pykey) (v : sval)
| LSetItem (k : pykey) (v : sval)
| LDel (k : pykey)
| LPop (k : pykey) (dflt : option Z)
| LRename (k1 k2 : pykey) (safe : bool)
| LUpdate (items : list (pykey * sval))
| LSetDefault (k : pykey) (v : sval)
| LSelect (ks : list pykey) (inplace strict cont : bool)
| LExclude (ks : list pykey) (inplace cont : bool)
| LFlatten (sep : string) (inplace cont : bool)
| LUnflatten (sep : string) (inplace cont : bool)
| LClear
| LFilterEmpty.

Inductive lretval := LRNone | LRVal (v : lval) | LRDefault (z : Z) | LRPyNone.

Record lstepres := mk_lstepres {
  lr_self : lstack;
  lr_err : option err;
  lr_ret : lretval;
  lr_results : option (list lstack);
  lr_cont : lstack
}.

Definition lplain (ms : lstack) (e : option err) : lstepres := mk_lstepres ms e LRNone None ms.

Definition lone_result (inplace cont : bool) (r : lstack * res lstack) : lstepres :=
  match r with
  | (self', Raise e) => lplain self' (Some e)
  | (self', Ok out) =>
      if inplace then lplain self' None
      else mk_lstepres self' None LRNone (Some [out]) (if cont then out else self')
  end.

Definition lz_step (ms : lstack) (o : lop) : lstepres :=
  match o with
  | LNop => lplain ms None
  | LSet k v => let '(ms', e) := lz_set k v ms in lplain ms' e
  | LSetItem k v =>
      match cpp_unravel_to_tuple k with
      | [] => lplain ms (Some EUnmodelled)
      | p => let '(ms', e) := lz_set_path p v ms in lplain ms' e
      end
  | LDel k => let '(ms', e) := lz_del k ms in lplain ms' e
  | LPop k d =>
      match lz_pop k (match d with Some _ => true | None => false end) ms with
      | (ms', Ok (LPVal v)) => mk_lstepres ms' None (LRVal v) None ms'
      | (ms', Ok LPDefault) => mk_lstepres ms' None (match d with Some z => LRDefault z | None => LRPyNone end) None ms'
      | (ms', Raise e) => lplain ms' (Some e)
      end
  | LRename k1 k2 safe => let '(ms', e) := lz_rename k1 k2 safe ms in lplain ms' e
  | LUpdate items => let '(ms', e) := lz_update items ms in lplain ms' e
  | LSetDefault k v =>
      match lz_setdefault k v ms with
      | (ms', Ok (LGVal w)) => mk_lstepres ms' None (LRVal w) None ms'
      | (ms', Ok LGDef) => mk_lstepres ms' None LRPyNone None ms'
      | (ms', Ok (LGRaise e)) => lplain ms' (Some e)
      | (ms', Raise e) => lplain ms' (Some e)
      end
  | LSelect ks inplace strict cont => lone_result inplace cont (lz_select ks strict inplace ms)
  | LExclude ks inplace cont => lone_result inplace cont (lz_exclude ks inplace ms)
  | LFlatten sep inplace cont =>
      if inplace then let '(ms', e) := lz_flatten_in sep ms in lplain ms' e
      else lone_result false cont (ms, lz_flatten_out sep ms)
  | LUnflatten sep inplace cont =>
      if inplace then let '(ms', e) := lz_unflatten_in sep ms in lplain ms' e
      else match lz_unflatten_in sep ms with
           | (out, None) => lone_result false cont (ms, Ok out)
           | (_, Some e) => lplain ms (Some e)
           end
  | LClear => let '(ms', e) := lz_clear ms in lplain ms' e
  | LFilterEmpty => let '(ms', e) := lz_filter_empty ms in lplain ms' e
  end.

Fixpoint lz_run (ms : lstack) (ops : list lop) : lstack :=
  match ops with [] => ms | o :: r => lz_run (lr_cont (lz_step ms o)) r end.
