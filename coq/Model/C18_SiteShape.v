(* Shape of a site that branches on is_compiling(): the two specialisations of the function body (flag := True / False),
   linearised by harness/tr_c18.py (pure ast, re-run on every ./check C18) into token streams, and the decidable
   predicate [guard_shape_ok]: "both specialisations are the same program up to statements on the bookkeeping allow-list".
   Definitions only; the generated table Gen/C18_sites.v instantiates [site]. *)
From Coq Require Import List String Bool.
Import ListNotations.
Open Scope string_scope.

Inductive tok :=
| TVal (dump : string)                              (* a value-carrying statement: normalised ast.dump (or #sha1|prefix) *)
| TOpen (header : string) | TElse | TClose           (* compound statement kept in the residual *)
| TBk (what : list (string * string)) (dump : string).
     (* a statement / with-header / if-block with a pure test that exists in one arm only and has the syntactic FORM of
        bookkeeping: (category, name) pairs, category in call | store | with | wraps | refuse; [dump] is what it counts as
        when one of its pairs is not on the allow-list below *)

Record site := {
  s_file : string; s_func : string;
  s_origin : string;                   (* "call": the body calls is_compiling(); "param": receives the flag as keyword *)
  s_shapes : list string;              (* one label per use of the flag: if-else, if-not-noelse, ifexp, flagvar, forward-kw ... *)
  s_opaque : list string;              (* uses of the flag the translator has no rule for (must be empty for a Guard) *)
  s_forwards : list (string * string); (* (callee, keyword): the flag is handed on; the callee is a site of origin "param" *)
  s_compile : list tok; s_eager : list tok }.

(* ---- the allow-list: what "eager-only bookkeeping" means, name by name (reviewed by hand against /repo) ---- *)
Definition allowed_bk : list (string * string) := [
  (* the lock graph: weak references from a locked node to its locked parents (never read by keys/shape/values) *)
  ("store", "is_root"); ("store", "lock_parents_weakrefs"); ("store", "_lock_parents_weakrefs"); ("store", "own");
  ("store", "__dict__[__lock_parents_weakrefs]");
  ("call", "lock_parents_weakrefs.append"); ("call", "_lock_parents_weakrefs.append");
  (* warnings / dynamo housekeeping / device synchronisation *)
  ("call", "_lock_warn"); ("call", "clear_refs_for_compile_"); ("call", "torch.cuda.synchronize");
  (* class-predicate memo table written (not read) in eager mode only *)
  ("store", "_TENSORCLASS_MEMO[]");
  (* context managers that do not touch the value: a threading lock, the error-message decorator, the null context *)
  ("with", "nullcontext"); ("with", "_ErrorInteceptor"); ("store", "cm");
  (* functools.wraps(f)(g) rebinding g: metadata only *)
  ("wraps", "wrapped_func")
].
(* compile side only: the compile arm refuses (raise and nothing else under a pure test) a mode the eager arm supports *)
Definition allowed_refusals : list (string * string) := [("refuse", "RuntimeError")].

Definition pair_eqb (a b : string * string) : bool := String.eqb (fst a) (fst b) && String.eqb (snd a) (snd b).
Definition bk_ok (compile_side : bool) (p : string * string) : bool :=
  existsb (pair_eqb p) allowed_bk || (compile_side && existsb (pair_eqb p) allowed_refusals).

(* drop what is on the allow-list, keep everything else as a value *)
Definition norm_tok (compile_side : bool) (t : tok) : list tok :=
  match t with
  | TBk l d => if forallb (bk_ok compile_side) l then [] else [TVal d]
  | _ => [t]
  end.
Definition norm (compile_side : bool) (l : list tok) : list tok := flat_map (norm_tok compile_side) l.

Definition tok_eqb (a b : tok) : bool :=
  match a, b with
  | TVal x, TVal y => String.eqb x y
  | TOpen x, TOpen y => String.eqb x y
  | TElse, TElse => true
  | TClose, TClose => true
  | _, _ => false                     (* after [norm] no TBk is left; two TBk never compare equal *)
  end.
Fixpoint toks_eqb (a b : list tok) : bool :=
  match a, b with
  | [], [] => true
  | x :: a', y :: b' => tok_eqb x y && toks_eqb a' b'
  | _, _ => false
  end.

Definition guard_shape_ok (s : site) : bool :=
  toks_eqb (norm true (s_compile s)) (norm false (s_eager s))
  && match s_opaque s with [] => true | _ => false end.

(* the bookkeeping categories a guard relies on (for the evidence) *)
Definition dropped_bk (s : site) : list (string * string) :=
  flat_map (fun t => match t with TBk l _ => if forallb (bk_ok true) l then l else [] | _ => [] end) (s_compile s)
  ++ flat_map (fun t => match t with TBk l _ => if forallb (bk_ok false) l then l else [] | _ => [] end) (s_eager s).

Definition site_key (s : site) : string * string := (s_file s, s_func s).
