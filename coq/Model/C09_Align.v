(* C09 — model of the key pairing done by tensordict's pointwise operations (definitions only).
   Transcribes, for a regular TensorDict:
     base.py  _items_list / _values_list (sorting_keys, default None / "intersection" / value, the length check,
              the `if not keys_vals: return (), ()` shortcut)                                         [7344-7391]
     base.py  the binary family add/sub/mul/div/pow/maximum/minimum/clamp_max/clamp_min (fused _foreach kernels),
              bitwise_and/logical_and/__and__ (python loop over zip), and their in-place forms           [10124-11165]
     base.py  the ternary family lerp/addcdiv/addcmul (+ in-place): value lists taken positionally      [10312-10501]
     base.py  clamp(min, max) through _fast_apply(..., default=None) (key-wise)                          [10955-11018]
     _td.py   comparison operators / __or__ / __xor__: top-level key-set check, recursion per nested node [618-806]
   Values are abstract ([V]); a result is a *plan*: which stored values are combined under which key.
   Leaf keys of the fused path are flattened nested keys (one string per leaf); comparisons work on the tree. *)
From Coq Require Import ZArith List String Bool.
Import ListNotations.
From TD Require Import Model.Dual.

Inductive res (A : Type) := Ok (a : A) | Raised.
Arguments Ok {A} a.
Arguments Raised {A}.

(* switches for the defects repaired by fixes/C09/*.diff: [true] = /repo with the patch, [false] = /repo before it *)
Definition fixed_D18 : bool := true.           (* D18: ternary ops align operand lists with sorting_keys=keys *)
Definition fixed_inplace_extra : bool := true. (* D42: _values_list(sorting_keys=...) has the length check of _items_list *)
Definition fixed_D49 : bool := true.           (* D49: _items_list no longer returns ((), ()) early for an empty tensordict *)

Section Align.
  Context {V : Type}.

  Definition items := list (string * V).
  Definition keys_of (l : items) : list string := map fst l.
  Definition vals_of (l : items) : list V := map snd l.
  Definition mem (k : string) (l : list string) : bool := existsb (String.eqb k) l.

  Inductive dflt := DNone | DInter | DVal (v : V).
  Definition is_dnone (d : dflt) : bool := match d with DNone => true | _ => false end.

  (* python: list(dict.fromkeys(l)) — first occurrences, order kept *)
  Fixpoint dedup (l : list string) : list string :=
    match l with
    | [] => []
    | k :: r => k :: filter (fun x => negb (String.eqb k x)) (dedup r)
    end.

  (* other._items_list(True, True, sorting_keys=sorting, default=d) *)
  Definition is_nil {A} (l : list A) : bool := match l with [] => true | _ => false end.
  Definition items_list_c09 (fx49 : bool) (other : items) (sorting : list string) (d : dflt)
    : option (list string * list V) :=
    if negb fx49 && is_nil other then Some ([], [])         (* before D49: `if not keys_vals: return (), ()` *)
    else
      let keys := keys_of other in
      let source := dict_of other in
      match d with
      | DNone => items_list_aligned false keys (vals_of other) sorting
      | DInter =>
          let new_keys := filter (fun k => mem k keys) sorting in
          option_map (fun vs => (new_keys, vs)) (sequence (map (dget source) new_keys))
      | DVal v =>
          (* list(set(sorting_keys).union(keys)): the order is the hash order; modelled as first occurrences *)
          let new_keys := dedup (sorting ++ keys) in
          Some (new_keys, map (fun k => match dget source k with Some x => x | None => v end) new_keys)
      end.

  (* other._values_list(True, True, sorting_keys=sorting); [chk]: the length check added by the D42 patch *)
  Definition values_list_c09 (chk : bool) (other : items) (sorting : list string) : option (list V) :=
    match align_eager (keys_of other) (vals_of other) sorting with
    | Some ov => if chk && Nat.ltb (List.length ov) (List.length other) then None else Some ov
    | None => None
    end.

  (* the right-hand side handed to torch for one leaf *)
  Inductive rhs := RLeaf (v : V) | ROperand    (* ROperand: the scalar / tensor operand itself *)
               | RUnchanged.                    (* the op was not applied: the value of self comes back as it is *)
  Inductive operand := OpScalar | OpTd (o : items).

  (* how the values are combined: fused kernels refuse empty lists and lists of different lengths,
     the python loop `zip`s (silently truncates) *)
  Inductive family := Foreach | Loop
                    | ForeachSwallow.   (* clamp_max / clamp_min (+ in-place): `except RuntimeError` without re-raise, so a
                                           kernel failure leaves the values of self in place and nothing is raised *)

  Definition combine_vals (f : family) (l : list V) (r : list V) : res (list (V * rhs)) :=
    match f with
    | Foreach => if Nat.eqb (List.length l) (List.length r) && negb (Nat.eqb (List.length l) 0)
                 then Ok (combine l (map RLeaf r)) else Raised
    | Loop => Ok (combine l (map RLeaf r))
    | ForeachSwallow => if Nat.eqb (List.length l) (List.length r) && negb (Nat.eqb (List.length l) 0)
                        then Ok (combine l (map RLeaf r)) else Ok (map (fun v => (v, RUnchanged)) l)
    end.
  Definition combine_scalar (f : family) (l : list V) : res (list (V * rhs)) :=
    match f, l with
    | Foreach, [] => Raised
    | ForeachSwallow, [] => Ok []
    | _, _ => Ok (map (fun v => (v, ROperand)) l)
    end.

  (* out-of-place binary op (add, sub, ..., logical_and, __and__ with d = DNone):
       keys, vals = self._items_list(True, True)
       new_keys, other_val = other._items_list(True, True, sorting_keys=keys, default=default)
       if default is not None: vals = [as_dict.get(key, default) for key in new_keys]; keys = new_keys
       items = dict(zip(keys, f(vals, other_val)));  result = {every entry of items}  (pop for self's leaves + update) *)
  (* [closed]: the result cannot take a key self does not have — a locked tensordict (the result inherits the lock and
     `result.update(items)` raises) or a tensorclass (no such field) *)
  Definition binary_plan (fx49 : bool) (f : family) (closed : bool) (s : items) (other : operand) (d : dflt)
    : res (list (string * (V * rhs))) :=
    let keys := keys_of s in
    let vals := vals_of s in
    match other with
    | OpScalar =>
        match combine_scalar f vals with Ok c => Ok (dict_of (combine keys c)) | Raised => Raised end
    | OpTd o =>
        match items_list_c09 fx49 o keys d with
        | None => Raised
        | Some (new_keys, other_val) =>
            let kv : option (list string * list V) :=
              match d with
              | DNone => Some (keys, vals)
              | DInter => option_map (fun vs => (new_keys, vs)) (sequence (map (dget (dict_of s)) new_keys))
              | DVal v => Some (new_keys, map (fun k => match dget (dict_of s) k with Some x => x | None => v end) new_keys)
              end in
            match kv with
            | None => Raised
            | Some (keys', vals') =>
                match combine_vals f vals' other_val with
                | Ok c => if closed && existsb (fun k => negb (mem k keys)) (map fst (combine keys' c)) then Raised
                          else Ok (dict_of (combine keys' c))
                | Raised => Raised
                end
            end
        end
    end.

  (* in-place binary op (add_, ..., pow_):  other_val = other._values_list(True, True, sorting_keys=keys) *)
  Definition inplace_plan (f : family) (fixed : bool) (s : items) (other : operand) : res (list (string * (V * rhs))) :=
    let keys := keys_of s in
    let vals := vals_of s in
    match other with
    | OpScalar => match combine_scalar f vals with Ok c => Ok (combine keys c) | Raised => Raised end
    | OpTd o =>
        match values_list_c09 fixed o keys with
        | None => Raised
        | Some ov => match combine_vals f vals ov with Ok c => Ok (combine keys c) | Raised => Raised end
        end
    end.

  (* ternary fused ops (lerp, addcdiv, addcmul and in-place forms):
       other_i_val = other_i._values_list(True, True)            -- positional (D18)
       [fixed]       other_i._values_list(True, True, sorting_keys=keys) *)
  Definition tern_vals (fixed chk : bool) (keys : list string) (o : operand) : res (option (list V)) :=
    match o with
    | OpScalar => Ok None
    | OpTd l => if fixed then match values_list_c09 chk l keys with Some vs => Ok (Some vs) | None => Raised end
                else Ok (Some (vals_of l))
    end.

  Definition rhs_list (n : nat) (o : option (list V)) : list rhs :=
    match o with Some l => map RLeaf l | None => repeat ROperand n end.

  Definition ternary_plan (fixed chk : bool) (s : items) (o1 o2 : operand) : res (list (string * (V * rhs * rhs))) :=
    let keys := keys_of s in
    let vals := vals_of s in
    match tern_vals fixed chk keys o1, tern_vals fixed chk keys o2 with
    | Ok v1, Ok v2 =>
        let n := List.length vals in
        let okl := fun o : option (list V) => match o with Some l => Nat.eqb (List.length l) n | None => true end in
        if okl v1 && okl v2 && negb (Nat.eqb n 0)
        then Ok (combine keys (combine (combine vals (rhs_list n v1)) (rhs_list n v2)))
        else Raised
    | _, _ => Raised
    end.

  (* clamp(min, max) with tensordict bounds: self._fast_apply(lambda x, low, high: ..., min, max, default=None):
     each bound is looked up by key; a missing key yields None (= no bound on that side) *)
  Definition clamp_plan (s : items) (lo hi : items) : list (string * (V * option V * option V)) :=
    map (fun kv => (fst kv, (snd kv, dget (dict_of lo) (fst kv), dget (dict_of hi) (fst kv)))) s.
End Align.

(* ------------------------------------------------------------------ comparisons: per nested node *)
Section Compare.
  Context {V : Type}.

  Inductive tree := Leaf (v : V) | Node (c : list (string * tree)).
  Inductive ctree := CLeaf (a b : V) | CNode (c : list (string * ctree)).
  Inductive cres := COk (t : ctree) | CRaised | CKind.   (* CKind: a leaf meets a nested node (outside the property) *)

  Definition tkeys (c : list (string * tree)) : list string := map fst c.

  (* keys1 = set(self.keys()); keys2 = set(other.keys());
     if len(keys1.difference(keys2)) or len(keys1) != len(keys2): raise KeyError *)
  Definition key_check (c1 c2 : list (string * tree)) : bool :=
    forallb (fun k => mem k (tkeys c2)) (tkeys c1)
    && Nat.eqb (List.length (dedup (tkeys c1))) (List.length (dedup (tkeys c2))).

  (* result of comparing the children of a node: None = CKind somewhere below, Some None = raised below *)
  Definition cons_child (k : string) (x : cres) (rest : option (option (list (string * ctree))))
    : option (option (list (string * ctree))) :=
    match x, rest with
    | CKind, _ => None
    | _, None => None
    | COk t, Some (Some xs) => Some (Some ((k, t) :: xs))
    | _, _ => Some None
    end.
  Definition close_node (o : option (option (list (string * ctree)))) : cres :=
    match o with Some (Some xs) => COk (CNode xs) | Some None => CRaised | None => CKind end.

  Fixpoint cmp_tree (t1 t2 : tree) : cres :=
    match t1, t2 with
    | Leaf a, Leaf b => COk (CLeaf a b)
    | Node c1, Node c2 =>
        if key_check c1 c2 then
          close_node
            ((fix go (l : list (string * tree)) : option (option (list (string * ctree))) :=
               match l with
               | [] => Some (Some [])
               | (k, t) :: r =>
                   match dget c2 k with
                   | None => Some None                          (* other.get(key) is None: unreachable after the check *)
                   | Some t' => cons_child k (cmp_tree t t') (go r)
                   end
               end) c1)
        else CRaised
    | _, _ => CKind
    end.
End Compare.
Arguments tree : clear implicits.
Arguments ctree : clear implicits.

(* ------------------------------------------------------------------ operator spellings (base.py:9279-9325, 292-436)
   which named method an operator dunder forwards to, and in which order the two operands reach it.
   [self_first = true]: torch computes  method(self_leaf, other);  false:  method(other, self_leaf). *)
Inductive method := MAdd | MSub | MMul | MDiv | MPow | MAnd | MOr | MXor | MMulRecip | MNegAdd | MNotImpl.
Inductive dunder := DuAdd | DuRadd | DuIadd | DuSub | DuRsub | DuIsub | DuMul | DuRmul | DuImul
                  | DuTruediv | DuRtruediv | DuItruediv | DuPow | DuRpow | DuIpow
                  | DuAnd | DuRand | DuOr | DuRor | DuXor | DuRxor.

Definition fixed_rsub : bool := true.    (* D40 *)

(* (method called, in-place?, self is the left argument?) as the code does it *)
Definition dunder_impl (fixed : bool) (d : dunder) : method * bool * bool :=
  match d with
  | DuAdd => (MAdd, false, true) | DuRadd => (MAdd, false, true) | DuIadd => (MAdd, true, true)
  | DuSub => (MSub, false, true) | DuIsub => (MSub, true, true)
  | DuRsub => if fixed then (MNegAdd, false, false)   (* D40 patch: self.neg().add(other) = other - self *)
              else (MSub, false, true)               (* before: self.sub(other) = self - other *)
  | DuMul => (MMul, false, true) | DuRmul => (MMul, false, true) | DuImul => (MMul, true, true)
  | DuTruediv => (MDiv, false, true) | DuItruediv => (MDiv, true, true)
  | DuRtruediv => (MMulRecip, false, false)            (* other * self.reciprocal() *)
  | DuPow => (MPow, false, true) | DuIpow => (MPow, true, true)
  | DuRpow => (MNotImpl, false, false)
  | DuAnd => (MAnd, false, true) | DuRand => (MAnd, false, true)
  | DuOr => (MOr, false, true) | DuRor => (MOr, false, true)
  | DuXor => (MXor, false, true) | DuRxor => (MXor, false, true)
  end.
Definition impl_self_first (fixed : bool) (d : dunder) : bool := snd (dunder_impl fixed d).

(* what Python's data model demands: reflected operators put `other` on the left *)
Definition reflected (d : dunder) : bool :=
  match d with DuRadd | DuRsub | DuRmul | DuRtruediv | DuRpow | DuRand | DuRor | DuRxor => true | _ => false end.
Definition commutative (m : method) : bool :=
  match m with MAdd | MMul | MAnd | MOr | MXor => true | _ => false end.
(* the operand order is right when self is on the side the spelling says, or the method does not care *)
Definition order_ok (fixed : bool) (d : dunder) : bool :=
  let '(m, _, self_first) := dunder_impl fixed d in
  match m with
  | MNotImpl => true                                   (* raises: no value is returned *)
  | MMulRecip => true                                  (* other * (1/self) = other / self *)
  | MNegAdd => true                                    (* (-self) + other = other - self *)
  | _ => commutative m || Bool.eqb self_first (negb (reflected d))
  end.

(* ------------------------------------------------------------------ comparison dispatch through the RIGHT operand
   _td.py __lt__/__le__/__gt__/__ge__/__eq__/__ne__:   if is_tensorclass(other): return other <op'> self
   _lazy.py _dispatch_comparison(other, comparison_str, inverse_str): getattr(other, inverse_str)(self)
   [tc_dispatch c] / [lazy_dispatch c] is the operator op' the code applies to (other, self) for the spelling c. *)
Inductive cmp := CLt | CLe | CGt | CGe | CEq | CNe.

Definition tc_dispatch (c : cmp) : cmp :=
  match c with
  | CNe => CNe        (* other != self *)
  | CEq => CEq        (* other == self *)
  | CGe => CLe        (* __ge__: other <= self *)
  | CGt => CLt        (* __gt__: other <  self *)
  | CLe => CGe        (* __le__: other >= self *)
  | CLt => CGt        (* __lt__: other >  self *)
  end.
Definition lazy_dispatch (c : cmp) : cmp :=      (* inverse_str of LazyStackedTensorDict.__xx__ *)
  match c with
  | CEq => CEq | CNe => CNe | CGe => CLe | CGt => CLt | CLe => CGe | CLt => CGt
  end.

(* what torch computes elementwise, on integers *)
Definition cmp_sem (c : cmp) (a b : Z) : bool :=
  match c with
  | CLt => Z.ltb a b | CLe => Z.leb a b | CGt => Z.ltb b a | CGe => Z.leb b a | CEq => Z.eqb a b | CNe => negb (Z.eqb a b)
  end.
(* the converse relation (swap the operands) — not the negation *)
Definition converse (c : cmp) : cmp :=
  match c with CLt => CGt | CLe => CGe | CGt => CLt | CGe => CLe | CEq => CEq | CNe => CNe end.
Definition negation (c : cmp) : cmp :=
  match c with CLt => CGe | CLe => CGt | CGt => CLe | CGe => CLt | CEq => CNe | CNe => CEq end.
