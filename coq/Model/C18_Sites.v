(* Classification of every site of the library that tests is_compiling() (hand-written; the list of sites is
   re-translated from /repo on every run into Gen/C18_sites.v and the theorem C18_sites_classified re-proved).
   DualModelled: the two branches compute a VALUE two ways — both are modelled in Model/Keys.v, SliceM.v, Dual.v and compared
                 on exhaustive grids by harness/c18.py.
   Guard:        the compile branch only skips eager-only bookkeeping (weak references, memo tables, locks, warnings,
                 graph breaks, cache lookups); the value computed is the same expression on both paths.  Covered by the
                 eager-vs-compiled program differential only. *)
From Coq Require Import List String Bool.
Import ListNotations.
Open Scope string_scope.

Inductive site_class := DualModelled | Guard.

Definition classified : list ((string * string) * site_class) :=
[
  (("_contextlib.py", "_reverse_to_module"), Guard);
  (("_td.py", "TensorDict.__init__"), Guard);
  (("_td.py", "TensorDict._new_unsafe"), Guard);
  (("_td.py", "TensorDict._parse_batch_size"), DualModelled);
  (("_td.py", "TensorDict._to_module"), Guard);
  (("_td.py", "TensorDict.names"), Guard);
  (("_torch_func.py", "_cat"), Guard);
  (("_torch_func.py", "_stack.stack_fn"), Guard);
  (("base.py", "TensorDictBase.__exit__"), Guard);
  (("base.py", "TensorDictBase._items_list"), DualModelled);
  (("base.py", "TensorDictBase._sync_all"), Guard);
  (("base.py", "TensorDictBase._values_list"), DualModelled);
  (("base.py", "TensorDictBase.consolidate"), Guard);
  (("base.py", "TensorDictBase.lock_"), Guard);
  (("base.py", "TensorDictBase.unflatten_keys"), Guard);
  (("base.py", "_is_tensor_collection"), Guard);
  (("nn/common.py", "TensorDictModule.__getattr__"), Guard);
  (("nn/common.py", "TensorDictModuleWrapper.__getattr__"), Guard);
  (("nn/params.py", "TensorDictParams._new_unsafe"), Guard);
  (("nn/probabilistic.py", "ProbabilisticTensorDictSequential.forward"), Guard);
  (("nn/probabilistic.py", "_dynamo_friendly_to_dict"), Guard);
  (("nn/sequence.py", "TensorDictSequential.forward"), Guard);
  (("nn/utils.py", "_set_skip_existing_None.__call__.wrapper"), Guard);
  (("nn/utils.py", "set_skip_existing.__enter__"), Guard);
  (("tensorclass.py", "_from_tensordict"), Guard);
  (("tensorclass.py", "_init_wrapper.wrapper"), Guard);
  (("tensorclass.py", "_setattr_wrapper.wrapper"), Guard);
  (("tensorclass.py", "_wrap_method"), Guard);
  (("tensorclass.py", "_wrap_td_method.deliver_result"), Guard);
  (("tensorclass.py", "_wrap_td_method.wrapped_func"), Guard);
  (("tensorclass.py", "_wrap_td_method.wrapped_func_setter"), Guard);
  (("utils.py", "_ContextManager.get_mode"), Guard);
  (("utils.py", "_ContextManager.set_mode"), Guard);
  (("utils.py", "_check_keys"), Guard);
  (("utils.py", "_getitem_batch_size"), DualModelled);
  (("utils.py", "_is_non_tensor"), Guard);
  (("utils.py", "_is_tensorclass"), Guard);
  (("utils.py", "_parse_to"), Guard);
  (("utils.py", "_pass_through_cls"), Guard);
  (("utils.py", "_unravel_key_to_tuple"), DualModelled);
  (("utils.py", "cache.newfun"), Guard);
  (("utils.py", "unravel_key"), DualModelled);
  (("utils.py", "unravel_key_list"), DualModelled);
  (("utils.py", "unravel_keys"), DualModelled)
].

Definition site_eqb (a b : string * string) : bool := String.eqb (fst a) (fst b) && String.eqb (snd a) (snd b).
Definition is_classified (s : string * string) : bool := existsb (fun c => site_eqb s (fst c)) classified.
Definition dual_sites : list (string * string) :=
  map fst (filter (fun c => match snd c with DualModelled => true | Guard => false end) classified).
