(* Classification of every site of the library that tests is_compiling() -- or receives the flag as a keyword parameter --
   (hand-written; the list of sites AND the shape of each branch are re-translated from /repo on every run into
   Gen/C18_sites.v; C18_sites_classified and C18_guards_checked are re-proved on every run).
   DualModelled:   the two branches compute a VALUE two ways -- both are modelled (Model/Keys.v, SliceM.v, Dual.v,
                   C18_Names.v, C18_Memo.v, C18_SeqKeys.v) with a dual theorem, and compared with the real code on both
                   forced branches by harness/c18.py.
   Guard:          the two specialisations of the body (flag := True / False) are the same program up to statements on the
                   bookkeeping allow-list of Model/C18_SiteShape.v -- CHECKED: [guard_shape_ok] holds (C18_guards_checked).
   DualUnmodelled: the branches differ in value-carrying statements and there is no model: covered only by the
                   forced-branch program differential and the eager-vs-torch.compile differential (listed by name in the
                   evidence).  nn-module plumbing and tensorclass plumbing live here.
   No longer sites (the function does not ask is_compiling() any more; a re-appearance makes C18_sites_classified fail):
     _td.py TensorDict.__init__ and the TensorDict.names setter (repair D1801), base.py TensorDictBase.consolidate
     (repair D1803: one clone condition on both paths). *)
From Coq Require Import List String Bool.
Import ListNotations.
From TD Require Import Model.C18_SiteShape.
Open Scope string_scope.

Inductive site_class := DualModelled | Guard | DualUnmodelled.

Definition classified : list ((string * string) * site_class) :=
[
  (("_contextlib.py", "_reverse_to_module"), DualUnmodelled);      (* eager unlocks the swap destination, compile does not *)
  (("_lazy.py", "LazyStackedTensorDict._propagate_lock"), Guard);
  (("_lazy.py", "_CustomOpTensorDict._propagate_lock"), Guard);
  (("_td.py", "TensorDict._make_memmap_subtd"), Guard);            (* hands the flag on to _propagate_lock (repair D69) *)
  (("_td.py", "TensorDict._new_unsafe"), DualModelled);            (* C18_Names: compile falls back to __init__ (validating setter) *)
  (("_td.py", "TensorDict._parse_batch_size"), DualModelled);
  (("_td.py", "TensorDict._to_module"), DualUnmodelled);           (* nn plumbing: __dict__ fast path vs setattr *)
  (("_td.py", "_SubTensorDict._propagate_lock"), Guard);
  (("_torch_func.py", "_cat"), Guard);
  (("_torch_func.py", "_stack.stack_fn"), Guard);
  (("base.py", "TensorDictBase.__exit__"), Guard);
  (("base.py", "TensorDictBase._items_list"), DualModelled);
  (("base.py", "TensorDictBase._propagate_lock"), Guard);
  (("base.py", "TensorDictBase._sync_all"), Guard);
  (("base.py", "TensorDictBase._values_list"), DualModelled);
  (("base.py", "TensorDictBase.lock_"), Guard);
  (("base.py", "TensorDictBase.unflatten_keys"), Guard);
  (("base.py", "_is_tensor_collection"), DualModelled);            (* C18_Memo *)
  (("base.py", "_lock_graph"), Guard);
  (("nn/common.py", "TensorDictModule.__getattr__"), DualUnmodelled);
  (("nn/common.py", "TensorDictModuleWrapper.__getattr__"), DualUnmodelled);
  (("nn/params.py", "TensorDictParams._new_unsafe"), DualUnmodelled);
  (("nn/params.py", "TensorDictParams._propagate_lock"), Guard);
  (("nn/params.py", "TensorDictParams._relock_content"), Guard);
  (("nn/probabilistic.py", "ProbabilisticTensorDictSequential.forward"), DualModelled);   (* C18_SeqKeys *)
  (("nn/probabilistic.py", "_dynamo_friendly_to_dict"), DualUnmodelled);
  (("nn/sequence.py", "TensorDictSequential.forward"), DualModelled);                     (* C18_SeqKeys *)
  (("nn/utils.py", "_set_skip_existing_None.__call__.wrapper"), DualUnmodelled);
  (("nn/utils.py", "set_skip_existing.__enter__"), Guard);
  (("persistent.py", "PersistentTensorDict._propagate_lock"), Guard);
  (("tensorclass.py", "_from_tensordict"), DualUnmodelled);
  (("tensorclass.py", "_init_wrapper.wrapper"), DualUnmodelled);
  (("tensorclass.py", "_setattr_wrapper.wrapper"), DualUnmodelled);
  (("tensorclass.py", "_wrap_method"), Guard);
  (("tensorclass.py", "_wrap_td_method.deliver_result"), DualUnmodelled);
  (("tensorclass.py", "_wrap_td_method.wrapped_func"), DualUnmodelled);
  (("tensorclass.py", "_wrap_td_method.wrapped_func_setter"), DualUnmodelled);
  (("utils.py", "_ContextManager.get_mode"), Guard);
  (("utils.py", "_ContextManager.set_mode"), Guard);
  (("utils.py", "_check_keys"), Guard);
  (("utils.py", "_getitem_batch_size"), DualModelled);
  (("utils.py", "_is_non_tensor"), DualModelled);                  (* C18_Memo *)
  (("utils.py", "_is_tensorclass"), Guard);
  (("utils.py", "_parse_to"), DualUnmodelled);                     (* native parser vs its Python transcription _parse_to_py (repair D1802): grid differential *)
  (("utils.py", "_pass_through_cls"), DualModelled);               (* C18_Memo *)
  (("utils.py", "_unravel_key_to_tuple"), DualModelled);
  (("utils.py", "cache.newfun"), DualModelled);                    (* C18_Memo: cache consulted only when locked and not compiling *)
  (("utils.py", "unravel_key"), DualModelled);
  (("utils.py", "unravel_key_list"), DualModelled);
  (("utils.py", "unravel_keys"), DualModelled)
].

Definition site_eqb (a b : string * string) : bool := String.eqb (fst a) (fst b) && String.eqb (snd a) (snd b).
Definition is_classified (s : string * string) : bool := existsb (fun c => site_eqb s (fst c)) classified.
Definition class_of (s : string * string) : option site_class :=
  option_map snd (find (fun c => site_eqb s (fst c)) classified).
Definition is_guard (s : string * string) : bool :=
  match class_of s with Some Guard => true | _ => false end.
Definition dual_sites : list (string * string) :=
  map fst (filter (fun c => match snd c with DualModelled => true | _ => false end) classified).
Definition unmodelled_sites : list (string * string) :=
  map fst (filter (fun c => match snd c with DualUnmodelled => true | _ => false end) classified).
Definition guard_sites : list (string * string) :=
  map fst (filter (fun c => match snd c with Guard => true | _ => false end) classified).

(* the flag handed on as a keyword: some analysed site must be a function of that name *)
Definition ends_with (s suf : string) : bool :=
  let n := String.length s in let m := String.length suf in
  Nat.leb m n && String.eqb (substring (n - m) m s) suf.
Definition forward_resolved (table : list site) (fw : string * string) : bool :=
  existsb (fun s => ends_with (s_func s) (fst fw)) table.
