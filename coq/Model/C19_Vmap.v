(* Model of tensordict's functorch hooks: how the batch size (and names) of a tensordict change when vmap hides a batch
   dim on the way in (_add_batch_dim) and re-inserts it on the way out (_remove_batch_dim / _maybe_remove_batch_dim);
   _td.py:1464-1548 for TensorDict, _lazy.py:1389-1500 for lazy stacks (stack-dim bookkeeping, hidden stack dim). *)
From Coq Require Import ZArith List Bool Lia.
Import ListNotations.
Open Scope nat_scope.

Fixpoint remove_nth {A} (l : list A) (i : nat) : list A :=
  match l, i with
  | [], _ => []
  | _ :: r, O => r
  | x :: r, S j => x :: remove_nth r j
  end.

Fixpoint insert_at {A} (l : list A) (i : nat) (x : A) {struct i} : list A :=
  match i, l with
  | O, _ => x :: l
  | S j, [] => [x]                       (* python: list.insert beyond the end appends *)
  | S j, y :: r => y :: insert_at r j x
  end.

(* python list.insert(i, x) for any integer i *)
Definition py_insert {A} (l : list A) (i : Z) (x : A) : list A :=
  if (i <? 0)%Z then insert_at l (Z.to_nat (Z.max 0 (Z.of_nat (length l) + i))) x
  else insert_at l (Z.to_nat i) x.

(* functorch's _process_batched_inputs: in_dim must be in [-rank, rank); negative ones are wrapped with rank = td.dim() *)
Definition process_in_dim (rank : nat) (in_dim : Z) : option nat :=
  if ((in_dim <? - Z.of_nat rank) || (in_dim >=? Z.of_nat rank))%Z then None
  else Some (Z.to_nat (if (in_dim <? 0)%Z then in_dim + Z.of_nat rank else in_dim)).

(* TensorDict._add_batch_dim: [b for i, b in enumerate(batch_size) if i != in_dim]; nested nodes get the same in_dim *)
Definition td_add (bs : list nat) (in_dim : nat) : list nat := remove_nth bs in_dim.
(* _remove_batch_dim / _maybe_remove_batch_dim first wrap out_dim against the rank of the RESULT (batch dims + 1):
   out_dim = _maybe_correct_neg_dim(out_dim, None, ndim=len(self.batch_size) + 1); IndexError outside [-(rank+1), rank]
   (repair of D190 / D191) *)
Definition norm_out_dim (rank : nat) (o : Z) : option nat :=
  if ((o <? - Z.of_nat (rank + 1)) || (o >=? Z.of_nat (rank + 1)))%Z then None
  else Some (Z.to_nat (if (o <? 0)%Z then o + Z.of_nat (rank + 1) else o)).
(* TensorDict._remove_batch_dim: new_batch_size.insert(out_dim, batch_size), out_dim already wrapped by [norm_out_dim] *)
Definition td_remove (bs : list nat) (B : nat) (out_dim : Z) : list nat := py_insert bs out_dim B.

(* what torch does to a leaf / what torch.stack of the slices gives *)
Definition movedim_shape (sh : list nat) (i o : nat) : list nat := insert_at (remove_nth sh i) o (nth i sh 0).

(* ---------------- lazy stacks ---------------- *)
Record lazy := { mbs : list nat;   (* batch size of each member *)
                 nmem : nat;       (* number of members *)
                 sd : nat;         (* stack dim *)
                 hidden : bool }.  (* _is_vmapped: the stack dim is hidden from the batch size *)

Definition lazy_bs (L : lazy) : list nat := if hidden L then mbs L else insert_at (mbs L) (sd L) (nmem L).

(* LazyStackedTensorDict._add_batch_dim, in_dim already wrapped to [0, ndim) *)
Definition lazy_add (L : lazy) (in_dim : nat) : lazy :=
  if Nat.eqb in_dim (sd L) then {| mbs := mbs L; nmem := nmem L; sd := sd L; hidden := true |}
  else if Nat.ltb in_dim (sd L)
       then {| mbs := remove_nth (mbs L) in_dim; nmem := nmem L; sd := sd L - 1; hidden := false |}
       else {| mbs := remove_nth (mbs L) (in_dim - 1); nmem := nmem L; sd := sd L; hidden := false |}.

(* LazyStackedTensorDict._remove_batch_dim(vmap_level, batch_size = B, out_dim) *)
Definition lazy_remove (L : lazy) (B : nat) (out_dim : nat) : lazy :=
  if hidden L then {| mbs := mbs L; nmem := nmem L; sd := out_dim; hidden := false |}
  else if Nat.ltb (sd L) out_dim
       then {| mbs := insert_at (mbs L) (out_dim - 1) B; nmem := nmem L; sd := sd L; hidden := false |}
       else {| mbs := insert_at (mbs L) out_dim B; nmem := nmem L; sd := sd L + 1; hidden := false |}.

(* the memoisation key of the batched view: (in_dim, vmap_level) *)
Definition vmap_cache_key (in_dim : Z) (level : nat) : Z * nat := (in_dim, level).

(* ---------------- what a vmapped function does with the (possibly hidden-stack-dim) lazy view: op classes ----------------
   _lazy.py: a LazyStackedTensorDict vmapped along its stack dim keeps its members, hides the stack dim from _batch_size and
   carries hook_out / hook_in / _is_vmapped (_cached_add_batch_dims, 1458-1489).  Operations then fall in classes:
     HSelf      return the view itself: identity, and the in-place writers (set / set_ / update / update_ go through hook_in,
                _lazy.py:602,652,870,973,2973, and return self)
     HNested e  get(nested key): a lazy stack of the nested members, to which _get_str (1189-1199) copies hook_out, hook_in,
                _is_vmapped and a patched _batch_size; e = the extra batch dims of the nested tensordict.  When the vmapped
                dim is NOT the stack dim every member hid the dim with its own _add_batch_dim, nested nodes keep e
                (repair of D192; before it _fast_apply(.., batch_size=..) truncated the nested batch sizes)
     HDense     builds a regular tensordict from the leaves read through hook_out (to_tensordict, contiguous,
                TensorDict({k: x.get(k)}, x.batch_size))
     HRebuild   builds a NEW lazy stack from the members with LazyStackedTensorDict(op(m_0), .., op(m_n), stack_dim=
                self.stack_dim) and NO hooks: clone, copy, apply, select, exclude, unsqueeze ... (D33) *)
Inductive hop := HSelf | HNested (extra : list nat) | HDense | HRebuild.
Inductive hres := HLazy (L : lazy) | HTd (bsz : list nat).

(* switch for D33: with the suggested repair the rebuilt stack keeps the hooks / _is_vmapped of the one it was built from *)
Definition fixed_D33 : bool := false.

Definition lazy_apply_gen (fx : bool) (op : hop) (L : lazy) : hres :=
  match op with
  | HSelf => HLazy L
  | HNested e => HLazy {| mbs := mbs L ++ e; nmem := nmem L; sd := sd L; hidden := hidden L |}
  | HDense => HTd (lazy_bs L)
  | HRebuild => HLazy {| mbs := mbs L; nmem := nmem L; sd := sd L; hidden := if fx then hidden L else false |}
  end.
Definition lazy_apply := lazy_apply_gen fixed_D33.

(* batch size of the per-sample result (the op applied to ONE slice along the vmapped dim), for the spec *)
Definition hop_sample_bs (op : hop) (sample_bs : list nat) : list nat :=
  match op with HNested e => sample_bs ++ e | _ => sample_bs end.

(* _maybe_remove_batch_dim on what the function returned *)
Definition hres_remove (r : hres) (B : nat) (out_dim : nat) : list nat :=
  match r with
  | HLazy L => lazy_bs (lazy_remove L B out_dim)
  | HTd b => td_remove b B (Z.of_nat out_dim)
  end.
