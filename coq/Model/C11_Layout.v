(* C11 — the consolidated byte layout.
   Transcribes  tensordict/base.py::_reduce_vals_and_metadata.add_single_value  (n = element_size * numel, pad to the
   next multiple of 8 when need_padding, records (dtype, shape, start, stop, pad), running `start`),
   consolidate()'s storage fill (`torch.cat([bytes ++ zeros(pad) ...], out=storage)`), and the decoder of
   tensordict/_reductions.py::_rebuild_tensordict_files_consolidated
        value = storage[start:stop].view(dtype);  if pad: value = value[:numel];  value = value.view(shape)
   over a storage that is a list of bytes.  Definitions only. *)
From Coq Require Import ZArith List Bool Arith.
Import ListNotations.
Open Scope nat_scope.

(* D11 switch: before the repair every segment was padded to a multiple of 8 bytes; a 16-byte element type (complex128)
   following an odd number of 8-byte units was then mis-aligned.  The repair (fix: D11) pads to 16, the largest element size. *)
Definition fixed_D11 : bool := true.
Definition align_unit : nat := if fixed_D11 then 16 else 8.

Definition numel (shape : list nat) : nat := fold_right Nat.mul 1 shape.

(* what add_single_value sees of a tensor *)
Record lspec := { sp_esz : nat; sp_shape : list nat }.
Definition nbytes (l : lspec) : nat := sp_esz l * numel (sp_shape l).

(*  pad = n % A;  if pad != 0: pad = A - pad   (only when need_padding) *)
Definition pad_of (A : nat) (need_pad : bool) (n : nat) : nat :=
  if need_pad then (let r := n mod A in if r =? 0 then 0 else A - r) else 0.

Definition flat_size (A : nat) (need_pad : bool) (l : lspec) : nat := nbytes l + pad_of A need_pad (nbytes l).

Record seg := { s_start : nat; s_stop : nat; s_pad : nat }.

(* the metadata records in traversal order; `start` is the nonlocal running offset *)
Fixpoint layout_from (A : nat) (need_pad : bool) (start : nat) (ls : list lspec) : list seg :=
  match ls with
  | [] => []
  | l :: r =>
      let stop := start + flat_size A need_pad l in
      {| s_start := start; s_stop := stop; s_pad := pad_of A need_pad (nbytes l) |} :: layout_from A need_pad stop r
  end.

(* filesize = sum(flat_size) *)
Definition total (A : nat) (need_pad : bool) (ls : list lspec) : nat :=
  fold_right (fun l acc => flat_size A need_pad l + acc) 0 ls.

Definition layout (need_pad : bool) (ls : list lspec) : list seg := layout_from align_unit need_pad 0 ls.

(* ---------------------------------------------------------------- leaves with content *)
Record leaf := { l_dt : nat;            (* dtype id (opaque; the element size is a function of it in the code) *)
                 l_esz : nat;           (* element_size() *)
                 l_shape : list nat;
                 l_bytes : list Z }.    (* the contiguous little-endian bytes of the tensor *)

Definition spec_of (l : leaf) : lspec := {| sp_esz := l_esz l; sp_shape := l_shape l |}.
Definition wf_leaf (l : leaf) : Prop := length (l_bytes l) = nbytes (spec_of l) /\ 0 < l_esz l.
Definition wf_leafb (l : leaf) : bool := (length (l_bytes l) =? nbytes (spec_of l)) && (0 <? l_esz l).

(* _view_and_pad + torch.cat(items, out=storage): each leaf's bytes followed by `pad` zero bytes *)
Definition chunk (A : nat) (need_pad : bool) (l : leaf) : list Z :=
  l_bytes l ++ repeat 0%Z (pad_of A need_pad (nbytes (spec_of l))).
Fixpoint encode (A : nat) (need_pad : bool) (ls : list leaf) : list Z :=
  match ls with [] => [] | l :: r => chunk A need_pad l ++ encode A need_pad r end.

(* ---------------------------------------------------------------- the decoder *)
Inductive dres := DOk (l : leaf) | DViewErr | DShapeErr.

(* storage[start:stop]  (python slicing clamps) *)
Definition slice (storage : list Z) (start stop : nat) : list Z := firstn (stop - start) (skipn start storage).

(* uint8 tensor .view(dtype) with element size e:  e = 1 always succeeds; otherwise the last dim and the storage offset
   must be divisible by e (torch's view_dtype checks) *)
Definition view_ok (e start len : nat) : bool :=
  (0 <? e) && ((e =? 1) || ((len mod e =? 0) && (start mod e =? 0))).

Definition decode_leaf (storage : list Z) (dt e : nat) (shape : list nat) (sg : seg) : dres :=
  let sl := slice storage (s_start sg) (s_stop sg) in
  if negb (view_ok e (s_start sg) (length sl)) then DViewErr else
  let nel := length sl / e in
  let nel' := if s_pad sg =? 0 then nel else Nat.min nel (numel shape) in      (* value[: local_shape.numel()] *)
  if negb (nel' =? numel shape) then DShapeErr else                              (* .view(local_shape) *)
  DOk {| l_dt := dt; l_esz := e; l_shape := shape; l_bytes := firstn (nel' * e) sl |}.

(* in-place write through a view of the storage: storage[start : start + len b] = b *)
Definition splice (storage : list Z) (start : nat) (b : list Z) : list Z :=
  firstn start storage ++ b ++ skipn (start + length b) storage.

(* alignment of every record: what `.view(dtype)` needs *)
Fixpoint alignedb (ls : list lspec) (L : list seg) : bool :=
  match ls, L with
  | l :: r, sg :: R => (s_start sg mod sp_esz l =? 0) && alignedb r R
  | _, _ => true
  end.

(* ---------------------------------------------------------------- numpy structured arrays (to_struct_array)
   np.array(..., dtype=[(key, dtype) ...]) is a PACKED record: itemsize = sum of the field sizes, field i at the sum of the
   sizes before it.  from_struct_array takes struct_array[name] (a strided view, stride = itemsize) and hands it to
   torch.as_tensor, which requires the stride to be a multiple of the element size. *)
Definition record_size (sizes : list nat) : nat := fold_right Nat.add 0 sizes.
(* fix: D111 -- from_struct_array copies a field whose stride is not a multiple of its item size *)
Definition fixed_D111 : bool := true.
Definition struct_fields_ok (sizes : list nat) : bool :=
  if fixed_D111 then true else forallb (fun e => record_size sizes mod e =? 0) sizes.
