(* C20 — apply / named_apply on a lazy stack.  Model of
     _lazy.py::LazyStackedTensorDict._apply_nest         (option refusals, out= lazy / tensorclass / other, the stacked view
                                                          when batch_size= is given, others unbound along self.stack_dim,
                                                          per-member dispatch, all-None rule, rebuilt stack, names=)
     _lazy.py::LazyStackedTensorDict.apply_              (every member's _fast_apply(inplace=True))
     _lazy.py::LazyStackedTensorDict._multithread_apply_nest / _multithread_apply_flat / _multithread_rebuild
     _lazy.py::LazyStackedTensorDict._unbind             (dim == stack_dim: the members themselves)
     _lazy.py::names setter of a lazy stack, base.py::_check_dim_name / rename_, _td.py::names setter / _rename_subtds
   on top of the model of TensorDict._apply_nest (C20_Apply.v) and of the thread-pool form (C20_Sched.v).
   Outside the model (explicit [LRView] / [Unmodelled]): what TensorDict._apply_nest computes on the stacked view, a stack
   without members, `is_leaf in (_NESTED_TENSORS_AS_LISTS, _NESTED_TENSORS_AS_LISTS_NONTENSOR)` (not a point of the lattice).
   Definitions only. *)
From Coq Require Import ZArith List String Bool.
Import ListNotations.
From TD Require Import Model.C20_Apply Model.C20_Sched.
Open Scope string_scope.

Section Lazy.
Variable A : Type.
Variable o : opts.
Variable fn : option (list string) -> tree A -> list (option (tree A)) -> option A.

(* a lazy stack: its own object, stack_dim, _td_dim_name, tensordicts *)
Record lstack := mkLazy { l_obj : obj; l_sd : nat; l_name : option string; l_members : list (tree A) }.

(* another operand of the call.  [op_slice d i] is what torch / tensordict indexing gives for
   other[(slice(None),) * d + (i,)] (a tensordict: the model of indexing is C18's); a lazy stack also has its stack dim
   and its member objects *)
Record operand := mkOp { op_lazy : option (nat * list (tree A)); op_bs : list nat; op_slice : nat -> nat -> tree A }.

(* other.unbind(d): LazyStackedTensorDict._unbind hands out its members when d is its stack dim, slices otherwise *)
Definition op_unbind (d : nat) (op : operand) : res (list (tree A)) :=
  if Nat.leb (List.length (op_bs op)) d then Unmodelled           (* a dim the operand does not have *)
  else
    let slices := map (op_slice op d) (seq 0 (nth d (op_bs op) 0)) in
    match op_lazy op with
    | Some (sd, ms) => if Nat.eqb d sd then Ok ms else Ok slices
    | None => Ok slices
    end.
Fixpoint unbind_all (d : nat) (ops : list operand) : res (list (list (tree A))) :=
  match ops with
  | [] => Ok []
  | op :: r => bind (op_unbind d op) (fun l => bind (unbind_all d r) (fun ls => Ok (l :: ls)))
  end.

(* out=: a lazy stack (possibly inside a tensorclass), or something else *)
Inductive lout := OutLazy (tc : bool) (members : list (tree A)) | OutOther.

(* what reaches the members: batch_size= and names= are not forwarded *)
Definition mo : opts :=
  mkOpts (o_inplace o) (o_default o) (o_fe o) (o_named o) (o_nested_keys o) None (o_dev o) (o_checked o) (o_is_leaf o).

Definition truthy_bs : bool := match o_bs o with Some (_ :: _) => true | _ => false end.
(* `inplace and any(arg for arg in (batch_size, device, names, constructor_kwargs))` *)
Definition refuse_inplace (names : option dnames) : bool :=
  o_inplace o && (truthy_bs || truthy_dev (o_dev o) || truthy_names names).

Definition fe_drops : bool := match o_fe o with Some false => false | _ => true end.      (* filter_empty in (None, True) *)

Inductive lres :=
| LRNone
| LRStack (ob : obj) (sd : nat) (nm : option string) (ms : list (tree A))
| LRView (m : meta).      (* TensorDict._apply_nest(self, …, out=TensorDict({}, batch_size, device, names)) on the stacked view *)

Definition first_meta (l : list (tree A)) : option meta :=
  match l with Node _ m _ :: _ => Some m | _ => None end.

(* ------------------------------------------------------------------ names *)
Fixpoint count_none (l : list (option string)) : nat :=
  match l with [] => 0 | None :: r => S (count_none r) | Some _ :: r => count_none r end.
Fixpoint name_in (n : string) (l : list (option string)) : bool :=
  match l with [] => false | x :: r => ostr_eqb x (Some n) || name_in n r end.
Fixpoint names_unique (l : list (option string)) : bool :=
  match l with
  | [] => true
  | None :: r => names_unique r
  | Some n :: r => negb (name_in n r) && names_unique r
  end.
(* _rename_subtds(None): item._erase_names() on the first nested level only *)
Fixpoint f_erase1 (f : forest A) : forest A :=
  match f with
  | FNil => FNil
  | FCons k t r =>
      FCons k (match t with
               | Leaf s v => Leaf s v
               | NonT ob p m => NonT ob p (set_names m None)
               | Node ob m g => Node ob (set_names m None) g
               end) (f_erase1 r)
  end.
Definition names_erase (t : tree A) : tree A :=
  match t with Node ob m f => Node ob (set_names m None) (f_erase1 f) | _ => t end.
(* TensorDict names setter with a list *)
Definition names_set (value : list (option string)) (t : tree A) : res (tree A) :=
  match t with
  | Node ob m f =>
      let bd := List.length (m_bs m) in
      if Nat.eqb (count_none value) bd then Ok (names_erase t)
      else if negb (names_unique value) then Raised EValue
      else if negb (Nat.eqb (List.length value) bd) then Raised EValue
      else Ok (Node ob (set_names m (Some value)) (f_rename A value f))
  | _ => Unmodelled
  end.
(* _check_dim_name: the name is taken by the tensordict or by a nested collection *)
Fixpoint f_has_name (n : string) (f : forest A) : bool :=
  match f with
  | FNil => false
  | FCons _ t r =>
      match t with
      | Leaf _ _ => false
      | NonT _ _ m => match m_names m with Some l => name_in n l | None => false end
      | Node _ m g => match m_names m with Some l => name_in n l | None => false end || f_has_name n g
      end || f_has_name n r
  end.
Definition t_has_name (n : string) (t : tree A) : bool :=
  match t with
  | Node _ m g => match m_names m with Some l => name_in n l | None => false end || f_has_name n g
  | _ => false
  end.
Fixpoint del_nth {X} (n : nat) (l : list X) : list X :=
  match n, l with
  | _, [] => []
  | 0, _ :: r => r
  | S n', x :: r => x :: del_nth n' r
  end.
(* for td in members: `if td._check_dim_name(name): raise ValueError`; td.rename_( *names_c) *)
Fixpoint rename_members (name : option string) (rest : list (option string)) (ms : list (tree A)) : res (list (tree A)) :=
  match ms with
  | [] => Ok []
  | t :: r =>
      if match name with Some n => t_has_name n t | None => false end then Raised EValue
      else bind (names_set rest t) (fun t' => bind (rename_members name rest r) (fun r' => Ok (t' :: r')))
  end.
(* out.names = names on a lazy stack *)
Definition lazy_set_names (names : dnames) (ob : obj) (sd : nat) (nm : option string) (ms : list (tree A)) : res lres :=
  match names with
  | None => Ok (LRStack ob sd None (map names_erase ms))
  | Some value =>
      match nth_error value sd with
      | None => Raised EIndex                                   (* names_c[self.stack_dim] *)
      | Some name => bind (rename_members name (del_nth sd value) ms) (fun ms' => Ok (LRStack ob sd name ms'))
      end
  end.

(* ------------------------------------------------------------------ _apply_nest *)
Definition out_members (out : option lout) : option (list (tree A)) :=
  match out with Some (OutLazy _ ms) => Some ms | _ => None end.

(* the end of _apply_nest / _multithread_rebuild: [built] is the stack made of the results (or the failure to make it) *)
Definition finish_names (names : option dnames) (out : option lres) : res lres :=
  match names with
  | None => Ok (match out with Some r => r | None => LRNone end)
  | Some n =>
      match out with
      | Some (LRStack ob sd nm ms) => lazy_set_names n ob sd nm ms
      | Some r => Ok r
      | None => Raised EAttr                                     (* None.names = names *)
      end
  end.

Definition lz_apply_nest (con : bool) (self : lstack) (others : list operand) (out : option lout) (names : option dnames)
  : res lres :=
  match l_members self with
  | [] => Unmodelled
  | _ :: _ =>
  if refuse_inplace names then Raised EValue
  else match out with
  | Some OutOther => Raised EValue                               (* out must be a LazyStackedTensorDict *)
  | _ =>
  match out, o_bs o with
  | None, Some b =>
      (* any op that modifies the batch-size will result in a regular TensorDict *)
      match first_meta (l_members self) with
      | Some m0 => Ok (LRView (mkMeta b (match o_dev o with Some d => d | None => m_dev m0 end)
                                      (match names with Some n => n | None => None end) false))
      | None => Unmodelled
      end
  | _, _ =>
      bind (unbind_all (l_sd self) others) (fun oth =>
      bind (lazy_members A mo fn con [] (l_members self) oth (out_members out)) (fun rs =>
      let rets := map snd rs in
      if forallb is_none rets && fe_drops then Ok LRNone
      else
        bind (if o_inplace o then
                Ok (Some (LRStack (l_obj self) (l_sd self) (l_name self)
                                  (map (fun mr => match snd mr with Some t => t | None => fst mr end) rs)))
              else if forallb is_none rets then Ok None
              else if existsb is_none rets then Raised ERuntime        (* Failed to reconstruct the lazy stack *)
              else Ok (Some (LRStack New (l_sd self) (l_name self)
                                     (flat_map (fun r => match r with Some t => [t] | None => [] end) rets))))
             (finish_names names)))
  end
  end
  end.

Definition all_locked (ms : list (tree A)) : bool :=
  forallb (fun m => match m with Node _ mm _ => m_lock mm | _ => false end) ms.

(* apply / named_apply / _fast_apply on a lazy stack: result.lock_() locks every member *)
Definition lock_result (propagate : bool) (self : lstack) (r : lres) : lres :=
  match r with
  | LRStack ob sd nm l =>
      if propagate && negb (o_inplace o) && all_locked (l_members self) then LRStack ob sd nm (map (t_lock A) l) else r
  | _ => r
  end.
Definition lz_front (con propagate : bool) (self : lstack) (others : list operand) (out : option lout) (names : option dnames)
  : res lres :=
  bind (lz_apply_nest con self others out names) (fun r => Ok (lock_result propagate self r)).

(* ------------------------------------------------------------------ apply_ *)
(* for td, *_others in _zip_strict(self.tensordicts, *others): td._fast_apply(fn, *_others, inplace=True, **kwargs); return self
   (the defaults of _fast_apply: checked=True, named=False; propagate_lock has no effect on an in-place call) *)
Definition ao : opts := mkOpts true (o_default o) (o_fe o) false false (o_bs o) (o_dev o) true (o_is_leaf o).
Fixpoint apply__members (con : bool) (names : option dnames) (members : list (tree A)) (others : list (list (tree A)))
  : res (list (tree A)) :=
  match members with
  | [] => if forallb nil_b others then Ok [] else Raised EValue
  | m :: ms =>
      match heads A others with
      | None => Raised EValue
      | Some oth =>
          bind (front A ao fn con true m oth None names) (fun r =>
          bind (apply__members con names ms (map (@tl (tree A)) others)) (fun rs =>
          Ok (match r with Some t => t | None => m end :: rs)))
      end
  end.
Definition lz_apply_ (con : bool) (names : option dnames) (self : lstack) (others : list operand) : res lres :=
  bind (unbind_all (l_sd self) others) (fun oth =>
  bind (apply__members con names (l_members self) oth) (fun ms =>
  Ok (LRStack (l_obj self) (l_sd self) (l_name self) ms))).

(* ------------------------------------------------------------------ the thread-pool form *)
(* _multithread_apply_flat: one nested list of futures per member; the members' tasks are appended to the shared flat list *)
Fixpoint lz_flat (con : bool) (members : list (tree A)) (others : list (list (tree A))) (base : nat)
  : res (list (task A) * list (list (lf))) :=
  match members with
  | [] => if forallb nil_b others then Ok ([], []) else Raised EValue
  | m :: ms =>
      match heads A others with
      | None => Raised EValue
      | Some oth =>
          match m with
          | Node so sm sf =>
              bind (flat_items A mo (o_default o) con [] sm sf oth sf base) (fun tl1 =>
              bind (lz_flat con ms (map (@tl (tree A)) others) (base + List.length (fst tl1))) (fun r =>
              Ok ((fst tl1 ++ fst r)%list, snd tl1 :: snd r)))
          | _ => Unmodelled
          end
      end
  end.

(* TensorDict._multithread_rebuild of one member (names= is not forwarded) *)
Definition member_rebuild (log : list (nat * option A)) (m : tree A) (out : option (tree A)) (lfs : list lf)
  : mres (option (tree A)) :=
  match m with
  | Node so sm sf =>
      mbind (of_res (rebuild_init A mo so sm sf out None)) (fun init =>
      mbind (rebuild_items A mo log out sf sf lfs init false) (fun ra =>
      MOk (level_finish A mo sm sf None (Some (fst ra)) (snd ra))))
  | _ => MUnmodelled
  end.
Fixpoint rebuild_members (log : list (nat * option A)) (members : list (tree A)) (lfss : list (list lf))
         (out : option (list (tree A))) : mres (list (tree A * option (tree A))) :=
  match members, lfss with
  | [], [] => MOk []
  | m :: ms, l :: ls =>
      match out with
      | Some [] => MRaised EIndex
      | _ =>
          mbind (member_rebuild log m (match out with Some (x :: _) => Some x | _ => None end) l) (fun r =>
          mbind (rebuild_members log ms ls (option_map (@tl (tree A)) out)) (fun rs => MOk ((m, r) :: rs)))
      end
  | _, _ => MStuck
  end.

(* type(self)( *results, …) outside a try: a None first is an AttributeError, a None later a TypeError *)
Definition stack_results (rets : list (option (tree A))) : res (list (tree A)) :=
  match rets with
  | None :: _ => Raised EAttr
  | _ => if existsb is_none rets then Raised EType
         else Ok (flat_map (fun r => match r with Some t => [t] | None => [] end) rets)
  end.

(* out= of the rebuild: a lazily stacked tensorclass is looked into, as in _apply_nest (repair of C20-h, /repo 33dddbd;
   before it the thread-pool form refused it with ValueError) *)
Definition mt_out (out : option lout) : res (option (list (tree A))) :=
  match out with
  | None => Ok None
  | Some (OutLazy _ ms) => Ok (Some ms)
  | Some OutOther => Raised EValue
  end.

Definition lz_mt_nest (con : bool) (self : lstack) (others : list operand) (out : option lout) (names : option dnames)
           (pi : list nat) : mres lres :=
  match l_members self with
  | [] => MUnmodelled
  | _ :: _ =>
  match o_bs o with
  | Some _ => MRaised ERuntime                      (* batch_size cannot be specified for …_multithread_apply_nest *)
  | None =>
      mbind (of_res (unbind_all (l_sd self) others)) (fun oth =>
      mbind (of_res (lz_flat con (l_members self) oth 0)) (fun tl1 =>
      let log := run_tasks A fn (fst tl1) pi in
      if refuse_inplace names then MRaised EValue
      else
        mbind (of_res (mt_out out)) (fun outs =>
        mbind (rebuild_members log (l_members self) (snd tl1) outs) (fun rs =>
        let rets := map snd rs in
        if fe_drops && forallb is_none rets then MOk LRNone
        else
          mbind (of_res (if o_inplace o then
                           Ok (LRStack (l_obj self) (l_sd self) (l_name self)
                                       (map (fun mr => match snd mr with Some t => t | None => fst mr end) rs))
                         else bind (stack_results rets) (fun l => Ok (LRStack New (l_sd self) (l_name self) l))))
                (fun st => of_res (finish_names names (Some st)))))))
  end
  end.
Definition lz_mt_front (con propagate : bool) (self : lstack) (others : list operand) (out : option lout)
           (names : option dnames) (pi : list nat) : mres lres :=
  mbind (lz_mt_nest con self others out names pi) (fun r => MOk (lock_result propagate self r)).

End Lazy.
