(* C11 — tensordict trees, consolidation, the consolidated rebuild, the pickle reducer, histories.
   Transcribes  base.py::_reduce_vals_and_metadata (metadata dict: per node cls_metadata / non_tensors / leaves / sub-dicts,
   one running `start` over the depth-first traversal), base.py::consolidate (result = same keys, leaves replaced by views
   of the storage, built by _fast_apply WITHOUT propagate_lock; `_consolidated = {storage, metadata}`),
   _reductions.py::_rebuild_tensordict_files_consolidated (non-tensors, then leaves, then sub-dicts; lock_() when is_locked),
   _reductions.py::_reduce_td (consolidated rebuild whenever `_consolidated` is there) and base.py::__getstate__/__setstate__.
   Definitions only. *)
From Coq Require Import ZArith List Bool Arith String.
Import ListNotations.
From TD Require Import Model.C11_Layout.
Open Scope nat_scope.

Record nmeta := { m_bs : list nat; m_names : list (option string); m_dev : option nat; m_locked : bool }.
Definition set_locked (m : nmeta) (b : bool) : nmeta :=
  {| m_bs := m_bs m; m_names := m_names m; m_dev := m_dev m; m_locked := b |}.

(* entries in insertion order.  FLeaf's [view] is Some start when the tensor is a view of the consolidated storage of the
   tensordict that holds it (an in-place write then writes the storage), None when it owns its memory. *)
Inductive tree := Node (m : nmeta) (f : forest)
with forest :=
| FNil
| FLeaf (k : string) (l : leaf) (view : option nat) (r : forest)
| FNonT (k : string) (payload : Z) (bs : list nat) (r : forest)
| FSub (k : string) (t : tree) (r : forest).

Definition meta (t : tree) : nmeta := match t with Node m _ => m end.
Definition ents (t : tree) : forest := match t with Node _ f => f end.

Inductive err := EView | ELock | EKey | EReserved | EShape.
Inductive res (X : Type) := Ok (x : X) | Raised (e : err).
Arguments Ok {X} x.
Arguments Raised {X} e.

(* ---------------------------------------------------------------- traversal order of _reduce_vals_and_metadata *)
Fixpoint flat (t : tree) : list leaf := match t with Node _ f => flat_f f end
with flat_f (f : forest) : list leaf :=
  match f with
  | FNil => []
  | FLeaf _ l _ r => l :: flat_f r
  | FNonT _ _ _ r => flat_f r
  | FSub _ t r => flat t ++ flat_f r
  end.

(* ---------------------------------------------------------------- the metadata dict *)
Record lrec := { r_dt : nat; r_esz : nat; r_shape : list nat; r_seg : seg }.

Inductive mtree := MNode (cm : nmeta) (nts : list (string * (Z * list nat))) (lvs : list (string * lrec)) (subs : mforest)
with mforest := MNil | MCons (k : string) (t : mtree) (r : mforest).

Definition mk_rec (A : nat) (np : bool) (l : leaf) (start : nat) : lrec :=
  {| r_dt := l_dt l; r_esz := l_esz l; r_shape := l_shape l;
     r_seg := {| s_start := start; s_stop := start + flat_size A np (spec_of l); s_pad := pad_of A np (nbytes (spec_of l)) |} |}.

Fixpoint meta_t (A : nat) (np : bool) (t : tree) (start : nat) : mtree * nat :=
  match t with
  | Node m f => match meta_f A np f start with (nts, lvs, subs, stop) => (MNode m nts lvs subs, stop) end
  end
with meta_f (A : nat) (np : bool) (f : forest) (start : nat)
  : list (string * (Z * list nat)) * list (string * lrec) * mforest * nat :=
  match f with
  | FNil => ([], [], MNil, start)
  | FLeaf k l _ r =>
      match meta_f A np r (start + flat_size A np (spec_of l)) with
      | (nts, lvs, subs, stop) => (nts, (k, mk_rec A np l start) :: lvs, subs, stop) end
  | FNonT k p bs r =>
      match meta_f A np r start with (nts, lvs, subs, stop) => ((k, (p, bs)) :: nts, lvs, subs, stop) end
  | FSub k t r =>
      match meta_t A np t start with
      | (mt, mid) => match meta_f A np r mid with (nts, lvs, subs, stop) => (nts, lvs, MCons k mt subs, stop) end
      end
  end.

(* a nested tensordict is stored in the SAME dict as the reserved entries "cls", "non_tensors", "leaves", "cls_metadata"
   (and the rebuild pops an optional "size"): a sub-tensordict with one of these names corrupts the dict (finding D115) *)
(* fix: D115 -- the writer escapes such a key ("<TD>" + key) and the readers strip the marker *)
Definition fixed_D115 : bool := true.
Definition reserved_raise (k : string) : bool :=
  negb fixed_D115 && (String.eqb k "cls" || String.eqb k "non_tensors" || String.eqb k "leaves" || String.eqb k "cls_metadata")%string.
Definition reserved_drop (k : string) : bool := negb fixed_D115 && String.eqb k "size".

(* ---------------------------------------------------------------- _rebuild_tensordict_files_consolidated *)
Fixpoint nts_forest (nts : list (string * (Z * list nat))) (rest : forest) : forest :=
  match nts with [] => rest | (k, (p, bs)) :: tl => FNonT k p bs (nts_forest tl rest) end.

Fixpoint rebuild_leaves (storage : list Z) (lvs : list (string * lrec)) (rest : forest) : res forest :=
  match lvs with
  | [] => Ok rest
  | (k, r) :: tl =>
      match decode_leaf storage (r_dt r) (r_esz r) (r_shape r) (r_seg r) with
      | DOk l => match rebuild_leaves storage tl rest with
                 | Ok f => Ok (FLeaf k l (Some (s_start (r_seg r))) f)
                 | Raised e => Raised e end
      | DViewErr => Raised EView
      | DShapeErr => Raised EShape
      end
  end.

Fixpoint rebuild_t (storage : list Z) (plocked : bool) (mt : mtree) : res tree :=
  match mt with
  | MNode cm nts lvs subs =>
      let locked := m_locked cm || plocked in
      match rebuild_subs storage locked subs with
      | Raised e => Raised e
      | Ok fs => match rebuild_leaves storage lvs fs with
                 | Raised e => Raised e
                 | Ok f => Ok (Node (set_locked cm locked) (nts_forest nts f))
                 end
      end
  end
with rebuild_subs (storage : list Z) (plocked : bool) (s : mforest) : res forest :=
  match s with
  | MNil => Ok FNil
  | MCons k mt r =>
      if reserved_raise k then Raised EReserved else
      match rebuild_subs storage plocked r with
      | Raised e => Raised e
      | Ok fr => if reserved_drop k then Ok fr else
                 match rebuild_t storage plocked mt with
                 | Raised e => Raised e
                 | Ok t => Ok (FSub k t fr)
                 end
      end
  end.

(* ---------------------------------------------------------------- consolidate() *)
(* the result of consolidate(): _fast_apply(assign_val) over the source: same keys, same order, every tensor replaced by
   its view of the storage; the new nodes are NOT locked (no propagate_lock); names / batch size / device kept *)
(* consolidate(filename) builds its result with device="cpu" at every level (the metadata records the source's device;
   the test-suite fixes this behaviour).  fix: D110 -- the result keeps the lock state of the source
   (propagate_lock=True for a locked root, nested tensordicts locked on their own are locked again). *)
Definition fixed_D110 : bool := true.
Definition out_meta (tofile : bool) (m : nmeta) : nmeta :=
  {| m_bs := m_bs m; m_names := m_names m; m_dev := if tofile then Some 0 else m_dev m;
     m_locked := if fixed_D110 then m_locked m else false |}.

Fixpoint view_t (A : nat) (np tofile : bool) (storage : list Z) (t : tree) (start : nat) : res (tree * nat) :=
  match t with
  | Node m f => match view_f A np tofile storage f start with
                | Ok (f', stop) => Ok (Node (out_meta tofile m) f', stop)
                | Raised e => Raised e end
  end
with view_f (A : nat) (np tofile : bool) (storage : list Z) (f : forest) (start : nat) : res (forest * nat) :=
  match f with
  | FNil => Ok (FNil, start)
  | FLeaf k l _ r =>
      let rc := mk_rec A np l start in
      match decode_leaf storage (r_dt rc) (r_esz rc) (r_shape rc) (r_seg rc) with
      | DOk l' => match view_f A np tofile storage r (s_stop (r_seg rc)) with
                  | Ok (r', stop) => Ok (FLeaf k l' (Some start) r', stop)
                  | Raised e => Raised e end
      | DViewErr => Raised EView
      | DShapeErr => Raised EShape
      end
  | FNonT k p bs r =>
      match view_f A np tofile storage r start with
      | Ok (r', stop) => Ok (FNonT k p bs r', stop)
      | Raised e => Raised e end
  | FSub k t r =>
      match view_t A np tofile storage t start with
      | Raised e => Raised e
      | Ok (t', mid) => match view_f A np tofile storage r mid with
                        | Ok (r', stop) => Ok (FSub k t' r', stop)
                        | Raised e => Raised e end
      end
  end.

Record snapshot := { sn_meta : mtree; sn_storage : list Z }.
(* a live tensordict object: its content and its `_consolidated` attribute *)
Record cstate := { cur : tree; snap : option snapshot }.

Definition consolidate_tree (A : nat) (np tofile : bool) (t : tree) : res cstate :=
  let storage := encode A np (flat t) in
  match view_t A np tofile storage t 0 with
  | Raised e => Raised e
  (* the snapshot attached to the result describes the RESULT (fix: D114: after consolidate(filename) its device is cpu;
     the file keeps the metadata of the source) *)
  | Ok (t', _) => Ok {| cur := t'; snap := Some {| sn_meta := fst (meta_t A np t' 0); sn_storage := storage |} |}
  end.

(* consolidate() on a live object: "if self.is_consolidated(): return self" *)
Definition consolidate (tofile : bool) (st : cstate) : res cstate :=
  match snap st with
  | Some _ => Ok st
  | None => consolidate_tree align_unit true tofile (cur st)
  end.

(* ---------------------------------------------------------------- _reduce_td / __getstate__ / __setstate__ *)
(* __getstate__ copies __dict__ (the `_consolidated` entry would go along, but that branch is only reached without it);
   __setstate__ re-locks: a node that was locked locks its whole subtree again *)
Fixpoint relock_t (plocked : bool) (t : tree) : tree :=
  match t with Node m f => let b := m_locked m || plocked in Node (set_locked m b) (relock_f b f) end
with relock_f (plocked : bool) (f : forest) : forest :=
  match f with
  | FNil => FNil
  | FLeaf k l v r => FLeaf k l v (relock_f plocked r)
  | FNonT k p bs r => FNonT k p bs (relock_f plocked r)
  | FSub k t r => FSub k (relock_t plocked t) (relock_f plocked r)
  end.

(* fix: D12 -- _reduce_td uses the consolidated rebuild only while the snapshot still describes the object
   (_consolidated_is_current): the metadata recomputed now equals the stored one (keys, dtypes, shapes, offsets, non-tensor
   data, batch sizes, names, device, lock state) and every tensor is still the view of the storage at its offset *)
Definition fixed_D12 : bool := true.

Definition seg_eq_dec (a b : seg) : {a = b} + {a <> b}.
Proof. decide equality; apply Nat.eq_dec. Defined.
Definition lrec_eq_dec (a b : lrec) : {a = b} + {a <> b}.
Proof. decide equality; try apply Nat.eq_dec; [apply seg_eq_dec|apply (list_eq_dec Nat.eq_dec)]. Defined.
Definition nmeta_eq_dec (a b : nmeta) : {a = b} + {a <> b}.
Proof.
  decide equality; [apply Bool.bool_dec| |apply (list_eq_dec (fun x y : option string => ltac:(decide equality; apply string_dec)))
                   |apply (list_eq_dec Nat.eq_dec)].
  decide equality. apply Nat.eq_dec.
Defined.
Definition nts_eq_dec (a b : list (string * (Z * list nat))) : {a = b} + {a <> b}.
Proof. apply list_eq_dec. decide equality; [decide equality; [apply (list_eq_dec Nat.eq_dec)|apply Z.eq_dec]|apply string_dec]. Defined.
Definition lvs_eq_dec (a b : list (string * lrec)) : {a = b} + {a <> b}.
Proof. apply list_eq_dec. decide equality; [apply lrec_eq_dec|apply string_dec]. Defined.
Fixpoint mtree_eq_dec (a b : mtree) : {a = b} + {a <> b}
with mforest_eq_dec (a b : mforest) : {a = b} + {a <> b}.
Proof.
  - decide equality; [apply lvs_eq_dec|apply nts_eq_dec|apply nmeta_eq_dec].
  - decide equality. apply string_dec.
Defined.

(* every tensor is the view at its offset of the layout of the current content *)
Fixpoint vok_t (A : nat) (np : bool) (t : tree) (start : nat) : bool * nat :=
  match t with Node _ f => vok_f A np f start end
with vok_f (A : nat) (np : bool) (f : forest) (start : nat) : bool * nat :=
  match f with
  | FNil => (true, start)
  | FLeaf _ l v r =>
      let '(b, e) := vok_f A np r (start + flat_size A np (spec_of l)) in
      ((match v with Some s => s =? start | None => false end) && b, e)
  | FNonT _ _ _ r => vok_f A np r start
  | FSub _ t r => let '(b1, mid) := vok_t A np t start in let '(b2, e) := vok_f A np r mid in (b1 && b2, e)
  end.

Definition snapshot_current (st : cstate) (sn : snapshot) : bool :=
  (if mtree_eq_dec (fst (meta_t align_unit true (cur st) 0)) (sn_meta sn) then true else false)
  && fst (vok_t align_unit true (cur st) 0).

Fixpoint unview_t (t : tree) : tree := match t with Node m f => Node m (unview_f f) end
with unview_f (f : forest) : forest :=
  match f with
  | FNil => FNil
  | FLeaf k l _ r => FLeaf k l None (unview_f r)
  | FNonT k p bs r => FNonT k p bs (unview_f r)
  | FSub k t r => FSub k (unview_t t) (unview_f r)
  end.

(* pickle.loads(pickle.dumps(td)) / copy.deepcopy(td): the new object *)
Definition pickle_roundtrip (st : cstate) : res cstate :=
  match snap st with
  | Some sn =>
      if negb fixed_D12 || snapshot_current st sn then
        match rebuild_t (sn_storage sn) false (sn_meta sn) with
        | Ok t => Ok {| cur := t; snap := Some sn |}
        | Raised e => Raised e
        end
      else Ok {| cur := unview_t (relock_t false (cur st)); snap := None |}   (* the stale snapshot does not travel *)
  | None => Ok {| cur := relock_t false (cur st); snap := None |}
  end.

(* ---------------------------------------------------------------- history steps on a live object *)
Fixpoint has_key (f : forest) (k : string) : bool :=
  match f with
  | FNil => false
  | FLeaf k' _ _ r | FNonT k' _ _ r | FSub k' _ r => String.eqb k k' || has_key r k
  end.

(* dict semantics: rebinding an existing key keeps its position, a new key goes last *)
Fixpoint put_leaf (f : forest) (k : string) (l : leaf) : forest :=
  match f with
  | FNil => FLeaf k l None FNil
  | FLeaf k' l' v r => if String.eqb k k' then FLeaf k l None r else FLeaf k' l' v (put_leaf r k l)
  | FNonT k' p bs r => if String.eqb k k' then FLeaf k l None r else FNonT k' p bs (put_leaf r k l)
  | FSub k' t r => if String.eqb k k' then FLeaf k l None r else FSub k' t (put_leaf r k l)
  end.
(* the same, binding an existing tensor object (its view flag goes with it) *)
Fixpoint put_leaf_v (f : forest) (k : string) (l : leaf) (v : option nat) : forest :=
  match f with
  | FNil => FLeaf k l v FNil
  | FLeaf k' l' v' r => if String.eqb k k' then FLeaf k l v r else FLeaf k' l' v' (put_leaf_v r k l v)
  | FNonT k' p bs r => if String.eqb k k' then FLeaf k l v r else FNonT k' p bs (put_leaf_v r k l v)
  | FSub k' t r => if String.eqb k k' then FLeaf k l v r else FSub k' t (put_leaf_v r k l v)
  end.
Fixpoint find_lv (f : forest) (k : string) : option (leaf * option nat) :=
  match f with
  | FNil => None
  | FLeaf k' l v r => if String.eqb k k' then Some (l, v) else find_lv r k
  | FNonT k' _ _ r | FSub k' _ r => if String.eqb k k' then None else find_lv r k
  end.
Fixpoint put_sub (f : forest) (k : string) (t : tree) : forest :=
  match f with
  | FNil => FSub k t FNil
  | FLeaf k' l' v r => if String.eqb k k' then FSub k t r else FLeaf k' l' v (put_sub r k t)
  | FNonT k' p bs r => if String.eqb k k' then FSub k t r else FNonT k' p bs (put_sub r k t)
  | FSub k' t' r => if String.eqb k k' then FSub k t r else FSub k' t' (put_sub r k t)
  end.
Fixpoint del_key (f : forest) (k : string) : forest :=
  match f with
  | FNil => FNil
  | FLeaf k' l v r => if String.eqb k k' then r else FLeaf k' l v (del_key r k)
  | FNonT k' p bs r => if String.eqb k k' then r else FNonT k' p bs (del_key r k)
  | FSub k' t r => if String.eqb k k' then r else FSub k' t (del_key r k)
  end.
(* rename_key_: pops the entry and sets it under the new name (goes last): the singleton forest binding k' to f's k *)
Fixpoint take_key (f : forest) (k k' : string) : option forest :=
  match f with
  | FNil => None
  | FLeaf k0 l v r => if String.eqb k k0 then Some (FLeaf k' l v FNil) else take_key r k k'
  | FNonT k0 p bs r => if String.eqb k k0 then Some (FNonT k' p bs FNil) else take_key r k k'
  | FSub k0 t r => if String.eqb k k0 then Some (FSub k' t FNil) else take_key r k k'
  end.
Fixpoint fapp (a b : forest) : forest :=
  match a with
  | FNil => b
  | FLeaf k l v r => FLeaf k l v (fapp r b)
  | FNonT k p bs r => FNonT k p bs (fapp r b)
  | FSub k t r => FSub k t (fapp r b)
  end.

(* in-place write of new bytes into the tensor bound to k; returns the storage offset written through, if any *)
Fixpoint write_leaf (f : forest) (k : string) (b : list Z) : option (forest * option nat) :=
  match f with
  | FNil => None
  | FLeaf k' l v r =>
      if String.eqb k k' then
        (if List.length b =? List.length (l_bytes l)
         then Some (FLeaf k' {| l_dt := l_dt l; l_esz := l_esz l; l_shape := l_shape l; l_bytes := b |} v r, v) else None)
      else match write_leaf r k b with Some (r', w) => Some (FLeaf k' l v r', w) | None => None end
  | FNonT k' p bs r =>
      if String.eqb k k' then None else
      match write_leaf r k b with Some (r', w) => Some (FNonT k' p bs r', w) | None => None end
  | FSub k' t r =>
      if String.eqb k k' then None else
      match write_leaf r k b with Some (r', w) => Some (FSub k' t r', w) | None => None end
  end.

(* apply g to the node at [path]; [anc] = some strict ancestor on the way is locked; g may return a by-product *)
Fixpoint at_path_f {X} (f : forest) (k : string) (g : tree -> option (tree * X)) : option (forest * X) :=
  match f with
  | FNil => None
  | FLeaf k' l v r => if String.eqb k k' then None else
      match at_path_f r k g with Some (r', x) => Some (FLeaf k' l v r', x) | None => None end
  | FNonT k' p bs r => if String.eqb k k' then None else
      match at_path_f r k g with Some (r', x) => Some (FNonT k' p bs r', x) | None => None end
  | FSub k' t r => if String.eqb k k' then match g t with Some (t', x) => Some (FSub k' t' r, x) | None => None end else
      match at_path_f r k g with Some (r', x) => Some (FSub k' t r', x) | None => None end
  end.
Fixpoint at_path {X} (path : list string) (g : bool -> tree -> option (tree * X)) (anc : bool) (t : tree) : option (tree * X) :=
  match path with
  | [] => g anc t
  | k :: p => match t with
              | Node m f => match at_path_f f k (at_path p g (anc || m_locked m)) with
                            | Some (f', x) => Some (Node m f', x) | None => None end
              end
  end.

Fixpoint setlock_t (b : bool) (t : tree) : tree :=
  match t with Node m f => Node (set_locked m b) (setlock_f b f) end
with setlock_f (b : bool) (f : forest) : forest :=
  match f with
  | FNil => FNil
  | FLeaf k l v r => FLeaf k l v (setlock_f b r)
  | FNonT k p bs r => FNonT k p bs (setlock_f b r)
  | FSub k t r => FSub k (setlock_t b t) (setlock_f b r)
  end.

(* names setter (_td.py::names.setter / _rename_subtds): all-None erases the names of the node and of its DIRECT nested
   tensordicts only; otherwise every nested tensordict gets the new names followed by its own names for its extra dims *)
Definition all_none (l : list (option string)) : bool := forallb (fun x => match x with None => true | Some _ => false end) l.
Definition with_names (m : nmeta) (n : list (option string)) : nmeta :=
  {| m_bs := m_bs m; m_names := n; m_dev := m_dev m; m_locked := m_locked m |}.
Definition erase_names (t : tree) : tree := match t with Node m f => Node (with_names m (repeat None (List.length (m_bs m)))) f end.
Fixpoint erase_sub_names (f : forest) : forest :=
  match f with
  | FNil => FNil
  | FLeaf k l v r => FLeaf k l v (erase_sub_names r)
  | FNonT k p bs r => FNonT k p bs (erase_sub_names r)
  | FSub k t r => FSub k (erase_names t) (erase_sub_names r)
  end.
Fixpoint set_names_t (names : list (option string)) (t : tree) : tree :=
  match t with
  | Node m f =>
      if all_none names then Node (with_names m (repeat None (List.length (m_bs m)))) (erase_sub_names f)
      else Node (with_names m names) (set_names_f names f)
  end
with set_names_f (names : list (option string)) (f : forest) : forest :=
  match f with
  | FNil => FNil
  | FLeaf k l v r => FLeaf k l v (set_names_f names r)
  | FNonT k p bs r => FNonT k p bs (set_names_f names r)
  | FSub k t r => FSub k (set_names_t (names ++ skipn (List.length names) (m_names (meta t))) t) (set_names_f names r)
  end.
(* a nested tensordict written into a named one is refined with the parent's names (_validate_value) *)
Definition adopt_names (m : nmeta) (s : tree) : tree :=
  if all_none (m_names m) then s else set_names_t (m_names m ++ skipn (List.length (m_names m)) (m_names (meta s))) s.

Inductive op :=
| OSet (path : list string) (k : string) (l : leaf)          (* td[path][k] = new tensor (binds a new object) *)
| OWrite (path : list string) (k : string) (b : list Z)      (* set_ / copy_ / update_: in place *)
| ODel (path : list string) (k : string)
| ORename (path : list string) (k k' : string)
| ONewSub (path : list string) (k : string) (t : tree)
| OLock (path : list string)
| OUnlock (path : list string)
| ONames (names : list (option string))
| OSwap (path : list string) (k1 k2 : string)   (* a, b = td[k1], td[k2]; td.set(k1, b); td.set(k2, a): the tensor objects trade places *)
| OAlias (path : list string) (k1 k2 : string)  (* td.set(k1, td[k2]): k1 is bound to k2's tensor object *)
| OConsolidate (tofile : bool).

(* one step on the content; None = the call raised (the object is unchanged); the by-product is the storage offset an
   in-place write went through *)
Definition no_w (o : option tree) : option (tree * option nat) := option_map (fun t => (t, None)) o.
Definition step_tree (t : tree) (o : op) : option (tree * option nat) :=
  match o with
  | OSet path k l =>
      at_path path (fun _ t => match t with Node m f => no_w (if m_locked m then None else Some (Node m (put_leaf f k l))) end) false t
  | OWrite path k b =>
      at_path path (fun _ t => match t with Node m f =>
          match write_leaf f k b with Some (f', w) => Some (Node m f', w) | None => None end end) false t
  | ODel path k =>
      at_path path (fun _ t => match t with Node m f =>
          no_w (if m_locked m || negb (has_key f k) then None else Some (Node m (del_key f k))) end) false t
  | ORename path k k' =>
      at_path path (fun _ t => match t with Node m f =>
          no_w (if m_locked m || negb (has_key f k) || has_key f k' then None
                else match take_key f k k' with Some e => Some (Node m (fapp (del_key f k) e)) | None => None end) end) false t
  | ONewSub path k s =>
      at_path path (fun _ t => match t with Node m f =>
          no_w (if m_locked m then None else Some (Node m (put_sub f k (adopt_names m s)))) end) false t
  | OLock path => at_path path (fun _ t => no_w (Some (setlock_t true t))) false t
  | OUnlock path =>
      (* "Cannot unlock a tensordict that is part of a locked graph": a locked strict ancestor *)
      at_path path (fun anc t => no_w (if anc then None else Some (setlock_t false t))) false t
  | ONames names =>
      match t with Node m f =>
        no_w (if List.length names =? List.length (m_bs m) then Some (set_names_t names t) else None) end
  | OSwap path k1 k2 =>
      at_path path (fun _ t => match t with Node m f =>
          no_w (if m_locked m then None else
                match find_lv f k1, find_lv f k2 with
                | Some (l1, v1), Some (l2, v2) => Some (Node m (put_leaf_v (put_leaf_v f k1 l2 v2) k2 l1 v1))
                | _, _ => None end) end) false t
  | OAlias path k1 k2 =>
      at_path path (fun _ t => match t with Node m f =>
          no_w (if m_locked m then None else
                match find_lv f k2 with
                | Some (l2, v2) => Some (Node m (put_leaf_v f k1 l2 v2))
                | None => None end) end) false t
  | OConsolidate _ => Some (t, None)
  end.

Definition step (st : cstate) (o : op) : cstate * bool :=
  match o with
  | OConsolidate tofile => match consolidate tofile st with Ok st' => (st', true) | Raised _ => (st, false) end
  | _ =>
      match step_tree (cur st) o with
      | None => (st, false)
      | Some (t', w) =>
          let sn' := match snap st, w, o with
                     | Some sn, Some s, OWrite _ _ b => Some {| sn_meta := sn_meta sn; sn_storage := splice (sn_storage sn) s b |}
                     | sn, _, _ => sn end in
          ({| cur := t'; snap := sn' |}, true)
      end
  end.

Definition run (st : cstate) (ops : list op) : cstate := fold_left (fun s o => fst (step s o)) ops st.

(* ---------------------------------------------------------------- what the property compares *)
(* lookups by key / by path (first binding; keys are unique in a real tensordict) *)
Fixpoint find_leaf (f : forest) (k : string) : option leaf :=
  match f with
  | FNil => None
  | FLeaf k' l _ r => if String.eqb k k' then Some l else find_leaf r k
  | FNonT k' _ _ r | FSub k' _ r => if String.eqb k k' then None else find_leaf r k
  end.
Fixpoint find_sub (f : forest) (k : string) : option tree :=
  match f with
  | FNil => None
  | FSub k' t r => if String.eqb k k' then Some t else find_sub r k
  | FLeaf k' _ _ r | FNonT k' _ _ r => if String.eqb k k' then None else find_sub r k
  end.
Fixpoint sub_at (t : tree) (path : list string) : option tree :=
  match path with
  | [] => Some t
  | k :: p => match find_sub (ents t) k with Some t' => sub_at t' p | None => None end
  end.
Definition leaf_at (t : tree) (path : list string) (k : string) : option leaf :=
  match sub_at t path with Some n => find_leaf (ents n) k | None => None end.

(* the rebuild's key order: non-tensors, then leaves, then sub-tensordicts (each in their original relative order) *)
Fixpoint part_n (f : forest) : forest :=
  match f with
  | FNil => FNil | FNonT k p bs r => FNonT k p bs (part_n r) | FLeaf _ _ _ r | FSub _ _ r => part_n r end.
Fixpoint part_l (f : forest) : forest :=
  match f with
  | FNil => FNil | FLeaf k l v r => FLeaf k l v (part_l r) | FNonT _ _ _ r | FSub _ _ r => part_l r end.
Fixpoint reorder_t (t : tree) : tree :=
  match t with Node m f => Node m (fapp (part_n f) (fapp (part_l f) (reorder_s f))) end
with reorder_s (f : forest) : forest :=
  match f with
  | FNil => FNil
  | FSub k t r => FSub k (reorder_t t) (reorder_s r)
  | FLeaf _ _ _ r | FNonT _ _ _ r => reorder_s r
  end.

(* every tensor marked as the view at its layout offset (what a consolidated tensordict looks like) *)
Fixpoint mark_t (A : nat) (np : bool) (t : tree) (start : nat) : tree * nat :=
  match t with Node m f => match mark_f A np f start with (f', e) => (Node m f', e) end end
with mark_f (A : nat) (np : bool) (f : forest) (start : nat) : forest * nat :=
  match f with
  | FNil => (FNil, start)
  | FLeaf k l _ r => match mark_f A np r (start + flat_size A np (spec_of l)) with (r', e) => (FLeaf k l (Some start) r', e) end
  | FNonT k p bs r => match mark_f A np r start with (r', e) => (FNonT k p bs r', e) end
  | FSub k t r => match mark_t A np t start with (t', mid) => match mark_f A np r mid with (r', e) => (FSub k t' r', e) end end
  end.

(* well-formedness *)
Fixpoint wf_t (t : tree) : bool := match t with Node _ f => wf_f f end
with wf_f (f : forest) : bool :=
  match f with
  | FNil => true
  | FLeaf _ l _ r => wf_leafb l && wf_f r
  | FNonT _ _ _ r => wf_f r
  | FSub _ t r => wf_t t && wf_f r
  end.

Fixpoint no_reserved_t (t : tree) : bool := match t with Node _ f => no_reserved_f f end
with no_reserved_f (f : forest) : bool :=
  match f with
  | FNil => true
  | FLeaf _ _ _ r | FNonT _ _ _ r => no_reserved_f r
  | FSub k t r => negb (reserved_raise k) && negb (reserved_drop k) && no_reserved_t t && no_reserved_f r
  end.

(* every element size divides the padding unit or is a multiple of it (all torch dtypes: 1, 2, 4, 8, 16 against 8 / 16) *)
Definition size_okb (A : nat) (l : leaf) : bool := (A mod l_esz l =? 0) || (l_esz l mod A =? 0).
