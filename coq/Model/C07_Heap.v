(* C07 — heap of storages, views and tensordict nodes (definitions only).
   A storage is a list of Z cells, identified by its position in [hstor] (allocation appends: an id is fresh iff it is
   >= the current length; nothing is ever freed, so "fresh" means disjoint from everything ever allocated).
   A tensor is a VIEW: storage id + the storage cell of every element in row-major order (contiguous = seq o n,
   strided = o, o+s, ..., expanded = repeated cells, 0-size = []).  A tensordict is a NODE: ordered key -> ref
   bindings (tensordict/_td.py `_tensordict`) + the lock flag; nodes are identified by position in [hnodes].
   Handles held by the caller are refs (views are values: torch never changes a tensor's view metadata in the
   operations considered; nodes are identities). *)
From Coq Require Import ZArith List String Bool Arith PeanoNat.
Import ListNotations.

Record view := mkView { vsid : nat; vcells : list nat }.
Inductive ref := RLeaf (v : view) | RNode (n : nat).
Record node := mkNode { nents : list (string * ref); nlock : bool }.
Record heap := mkHeap { hstor : list (list Z); hnodes : list node }.

Definition path := list string.

Inductive err := EKey | ELock | EOverlap | EShape | EFuel | EType.
Inductive outcome := Done | Raised (e : err).

(* ---------------------------------------------------------------- association lists in insertion order *)
Fixpoint ents_get (e : list (string * ref)) (k : string) : option ref :=
  match e with
  | [] => None
  | (k', r) :: t => if String.eqb k' k then Some r else ents_get t k
  end.
Fixpoint ents_set (e : list (string * ref)) (k : string) (r : ref) : list (string * ref) :=
  match e with
  | [] => [(k, r)]
  | (k', r') :: t => if String.eqb k' k then (k', r) :: t else (k', r') :: ents_set t k r
  end.
Fixpoint ents_del (e : list (string * ref)) (k : string) : list (string * ref) :=
  match e with
  | [] => []
  | (k', r') :: t => if String.eqb k' k then t else (k', r') :: ents_del t k
  end.
Definition ents_has (e : list (string * ref)) (k : string) : bool :=
  match ents_get e k with Some _ => true | None => false end.

(* ---------------------------------------------------------------- primitives *)
Definition get_node (h : heap) (n : nat) : option node := nth_error (hnodes h) n.
Definition get_stor (h : heap) (s : nat) : list Z := nth s (hstor h) [].
Definition cell (h : heap) (s c : nat) : Z := nth c (get_stor h s) 0%Z.
Definition read (h : heap) (v : view) : list Z := map (cell h (vsid v)) (vcells v).

Fixpoint upd_nth {A} (l : list A) (i : nat) (x : A) : list A :=
  match l, i with
  | [], _ => []
  | _ :: t, 0 => x :: t
  | a :: t, S j => a :: upd_nth t j x
  end.

(* write vals into the cells cs of one storage, in order *)
Fixpoint wr_cells (s : list Z) (cs : list nat) (vals : list Z) : list Z :=
  match cs, vals with
  | c :: cs', z :: vals' => wr_cells (upd_nth s c z) cs' vals'
  | _, _ => s
  end.

Fixpoint nodupb (l : list nat) : bool :=
  match l with
  | [] => true
  | x :: t => negb (existsb (Nat.eqb x) t) && nodupb t
  end.

Definition set_stor (h : heap) (s : nat) (content : list Z) : heap :=
  mkHeap (upd_nth (hstor h) s content) (hnodes h).

(* the in-place primitive (tensor.copy_ / the in-place kernels): torch refuses to write through a view with
   internal overlap; the number of values must match the view *)
Definition write (h : heap) (v : view) (vals : list Z) : heap * outcome :=
  if negb (nodupb (vcells v)) then (h, Raised EOverlap)
  else if negb (Nat.eqb (List.length vals) (List.length (vcells v))) then (h, Raised EShape)
  else (set_stor h (vsid v) (wr_cells (get_stor h (vsid v)) (vcells v) vals), Done).

Definition alloc_stor (h : heap) (content : list Z) : heap * nat :=
  (mkHeap (hstor h ++ [content]) (hnodes h), List.length (hstor h)).
Definition alloc_node (h : heap) (nd : node) : heap * nat :=
  (mkHeap (hstor h) (hnodes h ++ [nd]), List.length (hnodes h)).
Definition set_node (h : heap) (n : nat) (nd : node) : heap :=
  mkHeap (hstor h) (upd_nth (hnodes h) n nd).

(* a fresh contiguous tensor holding vals *)
Definition fresh_leaf (h : heap) (vals : list Z) : heap * view :=
  let '(h1, s) := alloc_stor h vals in (h1, mkView s (seq 0 (List.length vals))).

(* torch.preserve_format (clone, TensorIterator outputs): a non-overlapping and dense input (its cells are a
   permutation of a contiguous range) gives an output with the same relative layout; anything else gives a
   contiguous output *)
Definition list_min (l : list nat) : nat := fold_right Nat.min (hd 0 l) l.
Definition list_max (l : list nat) : nat := fold_right Nat.max 0 l.
Definition denseb (cs : list nat) : bool :=
  nodupb cs && Nat.eqb (list_max cs + 1 - list_min cs) (List.length cs).
Definition fresh_like (h : heap) (v : view) (vals : list Z) : heap * view :=
  if denseb (vcells v) && Nat.eqb (List.length vals) (List.length (vcells v)) then
    let rel := map (fun c => c - list_min (vcells v)) (vcells v) in
    let '(h1, s) := alloc_stor h (wr_cells (repeat 0%Z (List.length vals)) rel vals) in (h1, mkView s rel)
  else fresh_leaf h vals.

(* ---------------------------------------------------------------- views of views *)
(* the part of a view selected by batch positions [bsel] when the view has [nb] batch positions: element (p, j) of
   the result is element (nth p bsel, j) of the source, j ranging over the f = |cells| / nb trailing feature cells *)
Definition chunk {A} (l : list A) (f p : nat) : list A := firstn f (skipn (p * f) l).
Definition feat (ncells nb : nat) : nat := match nb with 0 => 0 | _ => ncells / nb end.
Definition sub_cells (cs : list nat) (nb : nat) (bsel : list nat) : list nat :=
  flat_map (chunk cs (feat (List.length cs) nb)) bsel.
Definition subview (v : view) (nb : nat) (bsel : list nat) : view :=
  mkView (vsid v) (sub_cells (vcells v) nb bsel).

(* torch's is_contiguous, on the index map: the elements occupy consecutive cells in row-major order *)
Definition contiguousb (v : view) : bool :=
  match vcells v with
  | [] => true
  | c :: _ => if list_eq_dec Nat.eq_dec (vcells v) (seq c (List.length (vcells v))) then true else false
  end.

(* ---------------------------------------------------------------- traversals (fuel: node ids may be shared) *)
Fixpoint concat_opt {A} (l : list (option (list A))) : option (list A) :=
  match l with
  | [] => Some []
  | None :: _ => None
  | Some a :: t => match concat_opt t with Some b => Some (a ++ b) | None => None end
  end.

(* (nested key, view) of every leaf below r, depth first in insertion order — keys(True, True) / _values_list(True, True) *)
Fixpoint leaves (fuel : nat) (h : heap) (r : ref) (pre : path) : option (list (path * view)) :=
  match fuel with
  | 0 => None
  | S f =>
      match r with
      | RLeaf v => Some [(pre, v)]
      | RNode n =>
          match get_node h n with
          | None => None
          | Some nd => concat_opt (map (fun kr => leaves f h (snd kr) (pre ++ [fst kr])) (nents nd))
          end
      end
  end.

(* every nested key (nodes and leaves) — keys(True, False) *)
Fixpoint allkeys (fuel : nat) (h : heap) (r : ref) (pre : path) : option (list path) :=
  match fuel with
  | 0 => None
  | S f =>
      match r with
      | RLeaf _ => Some []
      | RNode n =>
          match get_node h n with
          | None => None
          | Some nd => concat_opt (map (fun kr =>
                         match allkeys f h (snd kr) (pre ++ [fst kr]) with
                         | Some l => Some ((pre ++ [fst kr]) :: l)
                         | None => None
                         end) (nents nd))
          end
      end
  end.

Definition fuel_of (h : heap) : nat := S (S (List.length (hnodes h))).

Fixpoint resolve (h : heap) (r : ref) (p : path) : option ref :=
  match p with
  | [] => Some r
  | k :: p' =>
      match r with
      | RLeaf _ => None
      | RNode n =>
          match get_node h n with
          | None => None
          | Some nd => match ents_get (nents nd) k with Some r' => resolve h r' p' | None => None end
          end
      end
  end.

Fixpoint path_eqb (a b : path) : bool :=
  match a, b with
  | [], [] => true
  | x :: a', y :: b' => String.eqb x y && path_eqb a' b'
  | _, _ => false
  end.
Fixpoint assoc_path {A} (l : list (path * A)) (p : path) : option A :=
  match l with
  | [] => None
  | (q, a) :: t => if path_eqb q p then Some a else assoc_path t p
  end.

Definition view_eqb (a b : view) : bool :=
  Nat.eqb (vsid a) (vsid b) && (if list_eq_dec Nat.eq_dec (vcells a) (vcells b) then true else false).
