(* Model of tensordict's non-tensor entries (definitions only):
     tensorclass.py  NonTensorData (one shared payload + batch size)  = [Shared p sh]
                     NonTensorStack (LazyStackedTensorDict of non-tensor members, stack_dim) = [Stack d members]
     tensorclass.py  _stack_non_tensor, maybe_to_stack, NonTensorStack._from_list, from_nontensordata, tolist, .data,
                     to_dict, NonTensorData._update / NonTensorStack._update
     _lazy.py        the part of __getitem__ / _split_index / __setitem__ / unbind that non-tensor stacks go through, for
                     indices made of ints, slices, None and at most one advanced index
     _td.py          _set_at_str non-tensor branch (is_diff test, promotion with maybe_to_stack)
     utils.py        _set_item non-tensor branch (shared / memmap tensordicts: promotion with from_nontensordata,
                     re-stacking on dim 0)
     utils.py        _getitem_batch_size through Model.C03_Index.gbs (a NonTensorData is indexed through its empty tensordict)
   [Raised] = the code raises; [OutOfModel] = input outside the modelled grammar (the harness does not compare). *)
From Coq Require Import ZArith List Bool Lia.
Import ListNotations.
From TD Require Import Spec.PySlice Spec.C16_ObjArray.
From TD Require Model.C03_Index.
Open Scope nat_scope.

Inductive nt := Shared (p : payload) (sh : list nat) | Stack (d : nat) (l : list nt).

Inductive res (A : Type) := Ok (a : A) | Raised | OutOfModel.
Arguments Ok {A} a. Arguments Raised {A}. Arguments OutOfModel {A}.
Definition rbind {A B} (r : res A) (f : A -> res B) : res B :=
  match r with Ok a => f a | Raised => Raised | OutOfModel => OutOfModel end.
Definition of_opt {A} (o : option A) : res A := match o with Some a => Ok a | None => Raised end.
Fixpoint rmap {A B} (f : A -> res B) (l : list A) : res (list B) :=
  match l with
  | [] => Ok []
  | x :: r => rbind (f x) (fun y => rbind (rmap f r) (fun ys => Ok (y :: ys)))
  end.

(* fixed_Dnn switches: false = the code as it is in /repo today *)
(* (all true now: the repairs of fixes/C16/*.diff are in /repo; C16c / C16f / C16k are PENDING: fixes/C16/C16-{c,f,k}.diff) *)
Definition fixed_D20 : bool := true.      (* false: NonTensorStack.to_dict passes an unexpected keyword to tolist and raises *)
Definition fixed_C16a : bool := true.     (* false: NonTensorStack.data on nested stacks answers with the first member's value *)
Definition fixed_C16d : bool := true.     (* false: torch.cat keeps the first operand's payload / raises for stacks *)
Definition fixed_C16n : bool := true.     (* false: utils._set_item does not call maybe_to_stack on a stack destination *)
Definition fixed_C16c : bool := true.     (* false: torch.cat of the entries themselves (NonTensorData.__torch_function__) keeps the first
                                             operand's payload, raises TypeError when a stack is among them (PENDING-C16-c) *)
Definition fixed_C16f : bool := true.     (* false: member[None, None, ...] = value on a member without batch dims drops the write unless
                                             the index is one single None (PENDING-C16-f) *)
Definition fixed_C16k : bool := true.     (* false: NonTensorStack._update rebuilds a NonTensorData source as a fully nested stack, which a
                                             NonTensorData member with batch dims refuses (PENDING-C16-k) *)
Definition fixed_D23 : bool := true.      (* lazy[int_tensor] = value: the members are updated in place (fix bc087c4 in /repo);
                                             false = the member objects are replaced by the value's pieces *)

(* ---------------- batch size (LazyStackedTensorDict._compute_batch_size: insert the number of members at stack_dim) *)
Fixpoint shape (x : nt) : option (list nat) :=
  match x with
  | Shared _ sh => Some sh
  | Stack d l =>
      match l with
      | [] => None
      | m :: _ => match shape m with
                  | Some s => if d <=? length s then Some (insert_at d (length l) s) else None
                  | None => None
                  end
      end
  end.

(* the meaning: which payload sits at a multi-index *)
Fixpoint denote (x : nt) (I : list nat) : option payload :=
  match x with
  | Shared p sh => if in_range sh I then Some p else None
  | Stack d l =>
      match nth_error I d with
      | None => None
      | Some k =>
          (fix pick (l : list nt) (k : nat) : option payload :=
             match l with
             | [] => None
             | m :: r => match k with 0 => denote m (remove_at d I) | S k' => pick r k' end
             end) l k
      end
  end.

(* well-formed: non-empty stacks of well-formed members of one shape, stack dim within the member rank *)
Fixpoint wf (x : nt) : bool :=
  match x with
  | Shared _ _ => true
  | Stack d l =>
      match l with
      | [] => false
      | m :: r =>
          (fix all (l : list nt) : bool := match l with [] => true | y :: r => wf y && all r end) l
          && match shape m with
             | Some s => (d <=? length s) && forallb (fun y => match shape y with Some s' => shape_eqb s s' | None => false end) r
             | None => false
             end
      end
  end.

(* ---------------- unbind (tensorclass _unbind for NonTensorData; LazyStackedTensorDict.unbind) *)
(* member k along dim *)
Fixpoint select (k dim : nat) (x : nt) : res nt :=
  match x with
  | Shared p sh =>
      match nth_error sh dim with
      | Some n => if k <? n then Ok (Shared p (remove_at dim sh)) else Raised
      | None => Raised
      end
  | Stack d l =>
      if dim =? d then of_opt (nth_error l k)
      else
        let sub := if dim <? d then dim else dim - 1 in
        let nd := if dim <? d then d - 1 else d in
        rbind ((fix mp (l : list nt) : res (list nt) :=
                  match l with
                  | [] => Ok []
                  | m :: r => rbind (select k sub m) (fun y => rbind (mp r) (fun ys => Ok (y :: ys)))
                  end) l) (fun ys => Ok (Stack nd ys))
  end.

Definition unbind (dim : nat) (x : nt) : res (list nt) :=
  match shape x with
  | Some s => match nth_error s dim with
              | Some n => rmap (fun k => select k dim x) (seq 0 n)
              | None => Raised
              end
  | None => Raised
  end.

(* ---------------- _stack_non_tensor (capture_non_tensor_stack() = True, the default) *)
Definition is_shared (x : nt) : bool := match x with Shared _ _ => true | _ => false end.
Definition payload_of (x : nt) : option payload := match x with Shared p _ => Some p | _ => None end.

(* the loop: a member that is not a NonTensorData, or whose data differs from the first one -> a stack *)
Fixpoint all_same_shared (first : payload) (l : list nt) : bool :=
  match l with
  | [] => true
  | Shared p _ :: r => (p =? first)%Z && all_same_shared first r
  | Stack _ _ :: _ => false
  end.

Definition stack_nt (l : list nt) (dim : nat) : res nt :=
  match l with
  | [] => Raised
  | Shared p sh :: r =>
      if all_same_shared p r
      then (if dim <=? length sh then Ok (Shared p (insert_at dim (length l) sh)) else Raised)
      else Ok (Stack dim l)
  | Stack _ _ :: _ => Ok (Stack dim l)
  end.

(* LazyStackedTensorDict.lazy_stack / the NonTensorStack constructor with stack_dim=dim: never collapses *)
Definition lazy_stack_nt (l : list nt) (dim : nat) : res nt :=
  match l with [] => Raised | _ => Ok (Stack dim l) end.

(* ---------------- maybe_to_stack / _from_list / from_nontensordata *)
(* [datalist] * i for i in reversed(batch_size), then NonTensorStack._from_list(datalist, ndim): stacks along dim 0 all the
   way down to batch size []; an empty level cannot be built *)
Fixpoint expand_shared (p : payload) (sh : list nat) : res nt :=
  match sh with
  | [] => Ok (Shared p [])
  | n :: sh' =>
      match n with
      | 0 => Raised
      | _ => rbind (expand_shared p sh') (fun m => Ok (Stack 0 (repeat m n)))
      end
  end.

Fixpoint maybe_to_stack (x : nt) : res nt :=
  match x with
  | Shared p sh => expand_shared p sh
  | Stack d l =>
      rbind ((fix mp (l : list nt) : res (list nt) :=
                match l with
                | [] => Ok []
                | m :: r => rbind (maybe_to_stack m) (fun y => rbind (mp r) (fun ys => Ok (y :: ys)))
                end) l) (fun ys => Ok (Stack d ys))
  end.

Definition from_nontensordata (x : nt) : res nt :=
  match x with Shared p sh => expand_shared p sh | Stack _ _ => Raised end.

(* ---------------- tolist *)
Fixpoint full_tree (sh : list nat) (p : payload) : tree :=
  match sh with [] => Leaf p | n :: sh' => Node (repeat (full_tree sh' p) n) end.

(* NonTensorStack.tolist: the members if stack_dim == 0, else unbind(0); fuel = batch rank + 1 *)
Fixpoint tolist_f (fuel : nat) (x : nt) : res tree :=
  match x with
  | Shared p sh => Ok (full_tree sh p)
  | Stack d l =>
      match fuel with
      | 0 => OutOfModel
      | S f =>
          rbind (if d =? 0 then Ok l else unbind 0 x) (fun ms =>
          rbind (rmap (tolist_f f) ms) (fun ts => Ok (Node ts)))
      end
  end.
Definition rank (x : nt) : nat := match shape x with Some s => length s | None => 0 end.
Definition tolist (x : nt) : res tree := tolist_f (S (rank x)) x.

(* equality of nested lists of payloads (python ==) *)
Fixpoint tree_eqb (a b : tree) : bool :=
  match a, b with
  | Leaf p, Leaf q => (p =? q)%Z
  | Node l, Node m =>
      (fix eqs (l m : list tree) : bool :=
         match l, m with
         | [], [] => true
         | x :: l', y :: m' => tree_eqb x y && eqs l' m'
         | _, _ => false
         end) l m
  | _, _ => false
  end.

(* ---------------- NonTensorStack.data (get_non_tensor): _stack_non_tensor(self.tensordicts, raise_if_non_unique=True) *)
(* [stack_unique f l] = the data of the NonTensorData that _stack_non_tensor(l, raise_if_non_unique=True) returns;
   None = it raises (ValueError -> AttributeError -> the caller falls back to tolist()).
   A member that is not a NonTensorData is handed to a recursive call AS THE LIST, so it is iterated along its dim 0
   (not along its stack dim); whatever that call returns, the loop then `break`s and the result carries first.data, where
   first.data is again the .data property of the first member (finding C16-a).  fuel = batch rank + 1. *)
Fixpoint stack_unique (fuel : nat) (l : list nt) : option payload :=
  match fuel with
  | 0 => None
  | S f =>
      match l with
      | [] => None
      | first :: _ =>
          let first_data := match first with Shared p _ => Some p | Stack _ l' => stack_unique f l' end in
          (fix loop (l : list nt) (firstdata : option payload) : option payload :=
             match l with
             | [] => first_data                                   (* for-else *)
             | Shared p _ :: r =>
                 match firstdata with
                 | None => loop r (Some p)
                 | Some q => if (p =? q)%Z then loop r firstdata else None        (* ValueError *)
                 end
             | (Stack _ _ as m) :: r =>
                 match unbind 0 m with
                 | Ok slices =>
                     match stack_unique f slices with
                     | Some p =>
                         if fixed_C16a
                         then match firstdata with
                              | None => loop r (Some p)
                              | Some q => if (p =? q)%Z then loop r firstdata else None
                              end
                         else first_data                          (* `break` *)
                     | None => None
                     end
                 | _ => None
                 end
             end) l None
      end
  end.

Definition data_prop (x : nt) : option payload :=
  match x with
  | Shared p _ => Some p
  | Stack _ l => stack_unique (S (rank x)) l
  end.

(* get_non_tensor: the unique value when .data gives one, else the nested list *)
Inductive got := GOne (p : payload) | GList (t : tree).
(* [none_id]: the payload that is Python's None (`data = getattr(value, "data", None); if data is None: tolist()`) *)
Definition get_non_tensor (none_id : payload) (x : nt) : res got :=
  match data_prop x with
  | Some p => if (p =? none_id)%Z then rbind (tolist x) (fun t => Ok (GList t)) else Ok (GOne p)
  | None => rbind (tolist x) (fun t => Ok (GList t))
  end.

(* to_dict of the entry *)
Definition to_dict (x : nt) : res got :=
  match x with
  | Shared p _ => Ok (GOne p)
  | Stack _ _ => if fixed_D20 then rbind (tolist x) (fun t => Ok (GList t)) else Raised
  end.

(* ---------------- indexing *)
Definition to_c03 (it : item) : C03_Index.item :=
  match it with
  | IInt i => C03_Index.IInt i
  | ISl a b c => C03_Index.ISl a b c
  | INone => C03_Index.INone
  | ITen tsh _ => C03_Index.IAdv tsh
  | IMask msh bits => C03_Index.IMask msh (length (true_pos bits))
  end.

(* _split_index: the items met before the cursor reaches the stack dim, the item on the stack dim, the rest; with the
   code's counters *)
Record sst := { s_pre : list item; s_cur : nat; s_single : Z; s_none : Z; s_squash : Z; s_enc : bool }.
Definition sst0 : sst := {| s_pre := []; s_cur := 0; s_single := 0; s_none := 0; s_squash := 0; s_enc := false |}.

Fixpoint split_at (d : nat) (idx : list item) (s : sst) : res (sst * option item * list item) :=
  match idx with
  | [] => Ok (s, None, [])
  | INone :: r =>
      split_at d r {| s_pre := s_pre s ++ [INone]; s_cur := s_cur s; s_single := s_single s;
                      s_none := (s_none s + (if Nat.leb (s_cur s) d then 1 else 0))%Z; s_squash := s_squash s; s_enc := s_enc s |}
  | it :: r =>
      if s_cur s =? d then Ok (s, Some it, r)
      else
        match it with
        | IInt _ =>
            split_at d r {| s_pre := s_pre s ++ [it]; s_cur := S (s_cur s); s_single := (s_single s + 1)%Z;
                            s_none := s_none s; s_squash := s_squash s; s_enc := s_enc s |}
        | ISl _ _ _ =>
            split_at d r {| s_pre := s_pre s ++ [it]; s_cur := S (s_cur s); s_single := s_single s;
                            s_none := s_none s; s_squash := s_squash s; s_enc := s_enc s |}
        | ITen tsh _ =>
            split_at d r {| s_pre := s_pre s ++ [it]; s_cur := S (s_cur s);
                            s_single := (if s_enc s then s_single s + 1 else s_single s - (Z.of_nat (length tsh) - 1))%Z;
                            s_none := s_none s; s_squash := s_squash s; s_enc := true |}
        | IMask msh _ =>
            if d <? s_cur s + length msh then OutOfModel     (* the mask straddles the stack dim *)
            else split_at d r {| s_pre := s_pre s ++ [it]; s_cur := s_cur s + length msh; s_single := s_single s;
                                 s_none := s_none s; s_squash := (s_squash s + (Z.of_nat (length msh) - 1))%Z; s_enc := s_enc s |}
        | INone => OutOfModel
        end
  end.

Definition new_stack_dim (d : nat) (s : sst) : nat := Z.to_nat (Z.of_nat d - s_single s + s_none s - s_squash s).

(* range(n)[slice] *)
Definition range_sel (a b c : option Z) (n : nat) : list nat := map (sl_nth a b c n) (seq 0 (sl_len a b c n)).

Fixpoint all_nth {A} (l : list A) (ks : list nat) : res (list A) :=
  match ks with
  | [] => Ok []
  | k :: r => match nth_error l k with
              | Some x => rbind (all_nth l r) (fun xs => Ok (x :: xs))
              | None => Raised
              end
  end.

Fixpoint norm_all (vals : list Z) (n : nat) : res (list nat) :=
  match vals with
  | [] => Ok []
  | v :: r => match norm v n with
              | Some j => rbind (norm_all r n) (fun js => Ok (j :: js))
              | None => Raised
              end
  end.

Fixpoint chunks {A} (count size : nat) (l : list A) : list (list A) :=
  match count with 0 => [] | S c => firstn size l :: chunks c size (skipn size l) end.

(* recompose: nested lazy stacks, every level at the same stack dim; an empty level cannot be built *)
Fixpoint nest_stack (nd : nat) (tsh : list nat) (items : list nt) : res nt :=
  match tsh with
  | [] => Raised
  | [k] => match items with [] => Raised | _ => Ok (Stack nd items) end
  | k :: rest =>
      match k with
      | 0 => Raised
      | _ => rbind (rmap (nest_stack nd rest) (chunks k (prod rest) items)) (fun ms => Ok (Stack nd ms))
      end
  end.

Fixpoint index (x : nt) (idx : list item) {struct x} : res nt :=
  match idx with
  | [] => Ok x
  | _ =>
      match x with
      | Shared p sh =>
          match C03_Index.gbs sh (map to_c03 idx) with
          | C03_Index.Ok r => Ok (Shared p r)
          | C03_Index.Reject => Raised
          end
      | Stack d l =>
          match split_at d idx sst0 with
          | Raised => Raised
          | OutOfModel => OutOfModel
          | Ok (s, at_, post) =>
              let sub := s_pre s ++ post in
              let nd := new_stack_dim d s in
              let n := length l in
              rbind ((fix mp (l : list nt) : res (list nt) :=
                        match l with
                        | [] => Ok []
                        | m :: r => rbind (index m sub) (fun y => rbind (mp r) (fun ys => Ok (y :: ys)))
                        end) l) (fun ys =>
              match at_ with
              | None => Ok (Stack nd ys)
              | Some (IInt i) => match norm i n with Some j => of_opt (nth_error ys j) | None => Raised end
              | Some (ISl a b c) =>
                  if (step_of c =? 0)%Z then Raised
                  else if (step_of c <? 0)%Z then OutOfModel     (* torch rejects negative steps: not generated *)
                  else match range_sel a b c n with
                       | [] => Raised                            (* lazy_stack of nothing: "items cannot be empty" *)
                       | sel => rbind (all_nth ys sel) (fun ms => Ok (Stack nd ms))
                       end
              | Some (ITen tsh vals) =>
                  if negb (Nat.eqb (length vals) (prod tsh)) then Raised
                  else rbind (norm_all vals n) (fun js => rbind (all_nth ys js) (fun ms => nest_stack nd tsh ms))
              | Some (IMask msh bits) =>
                  (* a 1-d mask on the stack dim, anywhere among ints / slices / None: every selected member is indexed with
                     (pre, 0-dim True, post) and the unit dim is squeezed again, i.e. indexed with pre ++ post; the result is
                     the lazy stack of the selected ones at cat_dim = mask_loc - num_single.  Nothing selected: an empty
                     lazy stack (not representable here); masks of rank >= 2 go through torch.cat of pieces: not modelled *)
                  match msh with
                  | [k] =>
                      if Nat.eqb k n && Nat.eqb (length bits) n
                      then match true_pos bits with
                           | [] => OutOfModel
                           | sel => rbind (all_nth ys sel) (fun ms => Ok (Stack nd ms))
                           end
                      else OutOfModel
                  | _ => OutOfModel
                  end
              | Some INone => OutOfModel
              end)
          end
      end
  end.

(* ---------------- writes *)
(* NonTensorData._update / NonTensorStack._update (inplace): the destination keeps its structure *)
(* [fx] = the repair of C16-k: a NonTensorData source is handed to every member as it is; without it the source is rebuilt as
   a full stack first and its pieces along the stack dim go to the members (a member with batch dims then refuses its piece) *)
Fixpoint update_in_f (fx : bool) (dst src : nt) {struct dst} : res nt :=
  match dst with
  | Shared _ sh =>
      match src with
      | Shared q _ => Ok (Shared q sh)
      | Stack _ _ => Raised                 (* "Cannot update a NonTensorData object with a NonTensorStack" *)
      end
  | Stack d l =>
      match src, fx with
      | Shared _ _, true =>
          rbind ((fix mp (l : list nt) : res (list nt) :=
                    match l with
                    | [] => Ok []
                    | m :: r => rbind (update_in_f fx m src) (fun y => rbind (mp r) (fun ys => Ok (y :: ys)))
                    end) l) (fun ys => Ok (Stack d ys))
      | _, _ =>
      (* members <- source.unbind(stack_dim), zip strict *)
      rbind (match src with
             | Shared q _ => match shape dst with Some s => expand_shared q s | None => Raised end
             | Stack _ _ => Ok src
             end) (fun src' =>
      rbind (unbind d src') (fun pieces =>
      if negb (Nat.eqb (length pieces) (length l)) then Raised else
      rbind ((fix mp (l : list nt) (ps : list nt) : res (list nt) :=
                match l, ps with
                | [], _ => Ok []
                | m :: r, q :: ps' => rbind (update_in_f fx m q) (fun y => rbind (mp r ps') (fun ys => Ok (y :: ys)))
                | _ :: _, [] => Raised
                end) l pieces) (fun ys => Ok (Stack d ys))))
      end
  end.
Definition update_in : nt -> nt -> res nt := update_in_f fixed_C16k.

Fixpoint find_piece {A} (j : nat) (js : list nat) (pieces : list A) : option A :=
  match js, pieces with
  | k :: js', q :: ps' => if Nat.eqb k j then Some q else find_piece j js' ps'
  | _, _ => None
  end.
Fixpoint nodupb (l : list nat) : bool :=
  match l with [] => true | x :: r => negb (existsb (Nat.eqb x) r) && nodupb r end.

Fixpoint set_nth {A} (l : list A) (k : nat) (x : A) : list A :=
  match l, k with
  | [], _ => []
  | _ :: r, 0 => x :: r
  | y :: r, S k' => y :: set_nth r k' x
  end.

(* every member in turn: member number j is rewritten with the piece paired with j, if any *)
Definition write_all_f (w : nt -> nt -> res nt) (js : list nat) (pieces : list nt) : list nt -> nat -> res (list nt) :=
  fix wa (l : list nt) (j : nat) : res (list nt) :=
    match l with
    | [] => Ok []
    | m :: r =>
        rbind (match find_piece j js pieces with Some q => w m q | None => Ok m end)
              (fun y => rbind (wa r (S j)) (fun ys => Ok (y :: ys)))
    end.

(* tensorclass._setitem on a member WITHOUT batch dims with an index made of None only (what the lazy __setitem__ hands to the
   leaves when Nones are in the index): the value, which has one unit dim per None, is squeezed and taken whole.
   [fx] = the repair of C16-f; without it only the index `None` alone (one item) is treated so, with two or more Nones the
   tensordict part (empty) is written and the data is left as it was.  Members with batch dims / other items: not modelled. *)
Definition is_none (it : item) : bool := match it with INone => true | _ => false end.
Fixpoint squeeze_all (v : nt) : res nt :=
  match v with
  | Shared q _ => Ok (Shared q [])
  | Stack _ [m] => squeeze_all m
  | Stack _ _ => OutOfModel
  end.
Definition leaf_newaxis_write (fx : bool) (x : nt) (sh : list nat) (idx : list item) (v : nt) : res nt :=
  match sh with
  | [] =>
      if forallb is_none idx
      then (if fx || Nat.eqb (length idx) 1 then rbind (squeeze_all v) (fun v' => update_in x v') else Ok x)
      else OutOfModel
  | _ => OutOfModel
  end.

(* LazyStackedTensorDict.__setitem__ on a non-tensor stack (the value already has the indexed batch size) *)
Fixpoint assign (x : nt) (idx : list item) (v : nt) {struct x} : res nt :=
  match x with
  | Shared _ sh =>
      match idx with
      | [] => update_in x v
      | _ => leaf_newaxis_write fixed_C16f x sh idx v          (* tensorclass __setitem__ on a leaf *)
      end
  | Stack d l =>
      match idx with
      | [] => update_in x v
      | _ =>
      match split_at d idx sst0 with
      | Raised => Raised
      | OutOfModel => OutOfModel
      | Ok (s, at_, post) =>
          let sub := s_pre s ++ post in
          let ud := new_stack_dim d s in
          let n := length l in
          (* member number j receives the piece paired with j (targets are pairwise distinct: checked by [nodupb]) *)
          let go := (fun (js : list nat) (pieces : list nt) (replace : bool) =>
                       if negb (Nat.eqb (length js) (length pieces)) then Raised           (* _zip_strict *)
                       else if negb (forallb (fun j => j <? n) js) then Raised
                       else if negb (nodupb js) then OutOfModel
                       else rbind (write_all_f (fun m piece =>
                                                  match sub with
                                                  | [] => if replace then Ok piece else update_in m piece
                                                  | _ => assign m sub piece
                                                  end) js pieces l 0) (fun l' => Ok (Stack d l'))) in
          match at_ with
          | None => rbind (unbind ud v) (fun ps => go (seq 0 n) ps false)
          | Some (IInt i) =>
              match norm i n with
              | Some j => go [j] [v] false                      (* the value is NOT unbound for an integer *)
              | None => Raised
              end
          | Some (ISl a b c) =>
              if (step_of c <=? 0)%Z then OutOfModel
              else rbind (unbind ud v) (fun ps => go (range_sel a b c n) ps false)
          | Some (ITen [k] vals) =>
              (* is_nd_tensor branch: before fix bc087c4 the member object was REPLACED by the value piece when the sub-index
                 is empty; now it is updated in place like in the slice branch *)
              rbind (norm_all vals n) (fun js => rbind (unbind ud v) (fun ps => go js ps (negb fixed_D23)))
          | _ => OutOfModel
          end
      end
      end
  end.

(* _td.py::_set_at_str, non-tensor value, tensordict neither shared nor memmap *)
(* [v] is the value as passed (its tolist() enters the is_diff test); [vexp] is the same value expanded to the indexed batch
   size (TensorDict.__setitem__ expands before, LazyStackedTensorDict.__setitem__ expands inside) *)
Definition set_at (x : nt) (idx : list item) (v vexp : nt) : res nt :=
  rbind (index x idx) (fun cur =>
  rbind (tolist cur) (fun tc =>
  rbind (tolist v) (fun tv =>
  if tree_eqb tc tv then Ok x                                    (* is_diff = False: nothing is written *)
  else rbind (maybe_to_stack x) (fun xs => assign xs idx vexp)))).

(* utils.py::_set_item, non-tensor destination (shared / memmap tensordicts) *)
Definition set_item (x : nt) (idx : list item) (v : nt) : res nt :=
  match x, v with
  | Shared p _, Shared q _ =>
      if (p =? q)%Z then Ok x
      else rbind (from_nontensordata x) (fun xs => assign xs idx v)
  | Shared _ _, Stack _ _ => rbind (from_nontensordata x) (fun xs => assign xs idx v)
  | Stack _ _, _ =>
      rbind (if fixed_C16n then maybe_to_stack x else Ok x) (fun x1 =>
      rbind (match x1 with
             | Stack 0 _ | Shared _ _ => Ok x1
             | Stack _ _ => rbind (unbind 0 x1) (fun ms => Ok (Stack 0 ms))
             end) (fun xs => assign xs idx v))
  end.

(* ---------------- shape operations on a NonTensorData: only the batch size changes (through its empty tensordict) *)
Definition reshape_shared (x : nt) (newsh : list nat) : res nt :=
  match x with
  | Shared p sh => if Nat.eqb (prod sh) (prod newsh) then Ok (Shared p newsh) else Raised
  | Stack _ _ => OutOfModel
  end.
Definition permute_shared (x : nt) (perm : list nat) : res nt :=
  match x with
  | Shared p sh =>
      if Nat.eqb (length perm) (length sh) && forallb (fun k => existsb (Nat.eqb k) perm) (seq 0 (length sh))
      then Ok (Shared p (map (fun k => nth k sh 0) perm)) else Raised
  | Stack _ _ => OutOfModel
  end.
Definition unsqueeze_shared (x : nt) (dim : nat) : res nt :=
  match x with
  | Shared p sh => if dim <=? length sh then Ok (Shared p (insert_at dim 1 sh)) else Raised
  | Stack _ _ => OutOfModel
  end.
Definition squeeze_shared (x : nt) (dim : nat) : res nt :=
  match x with
  | Shared p sh => match nth_error sh dim with
                   | Some 1 => Ok (Shared p (remove_at dim sh))
                   | Some _ => Ok x
                   | None => Raised
                   end
  | Stack _ _ => OutOfModel
  end.
Definition expand_shared_to (x : nt) (newsh : list nat) : res nt :=
  match x with
  | Shared p sh =>
      let k := length newsh - length sh in
      if (length sh <=? length newsh)
         && forallb (fun ab => Nat.eqb (fst ab) (snd ab) || Nat.eqb (snd ab) 1) (combine (skipn k newsh) sh)
      then Ok (Shared p newsh) else Raised
  | Stack _ _ => OutOfModel
  end.

(* torch.cat of NonTensorData operands: the tensorclass torch-function wrapper cats the (empty) tensordicts and copies the
   FIRST operand's non-tensor data (finding C16-d) *)
Definition cat_shared (l : list nt) (dim : nat) : res nt :=
  match l with
  | Shared p sh :: r =>
      if forallb is_shared r
      then match nth_error sh dim with
           | Some n0 =>
               let total := fold_right (fun y acc => match y with Shared _ s => nth dim s 0 + acc | _ => acc end) 0 l in
               Ok (Shared p (firstn dim sh ++ total :: skipn (S dim) sh))
           | None => Raised
           end
      else OutOfModel
  | _ => OutOfModel
  end.

(* torch.cat of the non-tensor entries of tensordicts (_torch_func._cat after the repair of C16-d): one NonTensorData when all
   operands are NonTensorData with one and the same value, else a stack along dim of the operands' slices, side by side *)
Definition same_shared (l : list nt) : bool :=
  match l with Shared p _ :: r => all_same_shared p r | _ => false end.

Definition cat_nt (l : list nt) (dim : nat) : res nt :=
  if fixed_C16d then
    if same_shared l then cat_shared l dim
    else rbind (rmap (unbind dim) l) (fun pss => match concat pss with [] => Raised | ps => Ok (Stack dim ps) end)
  else cat_shared l dim.

(* torch.cat called on the entries themselves (NonTensorData.__torch_function__; the lazy mask path of __getitem__ does this
   with the members' pieces): after the repair of C16-c the same rule as cat_nt; before, the first operand's payload for
   NonTensorData operands and TypeError when a stack is among them *)
Definition cat_entries_f (fx : bool) (l : list nt) (dim : nat) : res nt :=
  if fx then
    if same_shared l then cat_shared l dim
    else rbind (rmap (unbind dim) l) (fun pss => match concat pss with [] => Raised | ps => Ok (Stack dim ps) end)
  else if forallb is_shared l then cat_shared l dim else Raised.
Definition cat_entries : list nt -> nat -> res nt := cat_entries_f fixed_C16c.
