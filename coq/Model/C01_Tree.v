(* C01 — value-free skeleton of a tensordict tree and the coherence predicate of the property.  Definitions only.

   A node is a TensorDict (KTd) or a NonTensorData entry (KNt: a tensorclass that carries batch_size / device / names
   but holds no tensor; the code treats it as a tensor collection everywhere).  `es` is the `_tensordict` storage dict:
   an association list in insertion order.  A leaf is a tensor: shape and device (cpu / meta).
   Sources: tensordict/_td.py (TensorDict.__init__, _new_unsafe, names, _has_names, is_empty), tensordict/base.py. *)
From Coq Require Import List String Bool Arith.
Import ListNotations.
Open Scope string_scope.
Open Scope list_scope.

Inductive dev := CPU | META.
Inductive nkind := KTd | KNt.
Definition dnames := option (list (option string)).     (* _td_dim_names: None, or one entry per batch dim *)

Inductive tree :=
| Leaf (sh : list nat) (d : dev)
| Node (k : nkind) (bs : list nat) (dv : option dev) (nm : dnames) (es : list (string * tree)).
Definition ents := list (string * tree).

Definition dev_eqb (a b : dev) : bool := match a, b with CPU, CPU | META, META => true | _, _ => false end.
Definition odev_eqb (a b : option dev) : bool :=
  match a, b with None, None => true | Some x, Some y => dev_eqb x y | _, _ => false end.

Fixpoint shape_eqb (a b : list nat) : bool :=
  match a, b with
  | [], [] => true
  | x :: a', y :: b' => Nat.eqb x y && shape_eqb a' b'
  | _, _ => false
  end.

(* p is a prefix of s :  s[:len(p)] == p *)
Fixpoint prefixb (p s : list nat) : bool :=
  match p, s with
  | [], _ => true
  | x :: p', y :: s' => Nat.eqb x y && prefixb p' s'
  | _ :: _, [] => false
  end.

Definition oname_eqb (a b : option string) : bool :=
  match a, b with None, None => true | Some x, Some y => String.eqb x y | _, _ => false end.

Fixpoint onames_eqb (a b : list (option string)) : bool :=
  match a, b with
  | [], [] => true
  | x :: a', y :: b' => oname_eqb x y && onames_eqb a' b'
  | _, _ => false
  end.

(* ---- python dict primitives on the storage ---- *)
Fixpoint aget (k : string) (es : ents) : option tree :=
  match es with [] => None | (k', v) :: r => if String.eqb k k' then Some v else aget k r end.
Definition amem (k : string) (es : ents) : bool := match aget k es with Some _ => true | None => false end.
Fixpoint aset (k : string) (v : tree) (es : ents) : ents :=
  match es with
  | [] => [(k, v)]
  | (k', v') :: r => if String.eqb k k' then (k', v) :: r else (k', v') :: aset k v r
  end.
Fixpoint adel (k : string) (es : ents) : ents :=
  match es with [] => [] | (k', v') :: r => if String.eqb k k' then r else (k', v') :: adel k r end.

(* ---- observers ---- *)
Definition tshape (t : tree) : list nat := match t with Leaf sh _ => sh | Node _ bs _ _ _ => bs end.
Definition tdev (t : tree) : option dev := match t with Leaf _ d => Some d | Node _ _ dv _ _ => dv end.
Definition is_node (t : tree) : bool := match t with Node _ _ _ _ _ => true | Leaf _ _ => false end.
Definition is_td (t : tree) : bool := match t with Node KTd _ _ _ _ => true | _ => false end.
Definition has_names (t : tree) : bool := match t with Node _ _ _ (Some _) _ => true | _ => false end.
(* the `names` property: the stored list, or one None per batch dim *)
Definition names_of (t : tree) : list (option string) :=
  match t with
  | Node _ bs _ (Some l) _ => l
  | Node _ bs _ None _ => repeat None (List.length bs)
  | Leaf _ _ => []
  end.

(* TensorDict.is_empty (_td.py:453): no tensor and no non-tensor anywhere below *)
Fixpoint is_empty (t : tree) : bool :=
  match t with
  | Leaf _ _ => false
  | Node KNt _ _ _ _ => false
  | Node KTd _ _ _ es => forallb (fun kv => is_empty (snd kv)) es
  end.

(* ---- the property: coherence of a tree ---- *)
(* an entry under a container with device [p]: the container's device when it has one.  A NonTensorData entry has no
   storage; its device field may be None under a container with a device (the oracle of the harness is equally lenient) *)
Definition dev_ok (k : nkind) (p d : option dev) : bool :=
  match p with
  | None => true
  | Some x => match d with Some y => dev_eqb x y | None => match k with KNt => true | KTd => false end end
  end.

Definition names_ok (nm : dnames) (bs : list nat) : bool :=
  match nm with None => true | Some l => Nat.eqb (List.length l) (List.length bs) end.

(* coh pbs pdv t : t is a coherent entry of a container with batch size pbs and device pdv *)
Fixpoint coh (pbs : list nat) (pdv : option dev) (t : tree) : bool :=
  match t with
  | Leaf sh d => prefixb pbs sh && dev_ok KTd pdv (Some d)
  | Node k bs dv nm es =>
      prefixb pbs bs && dev_ok k pdv dv && names_ok nm bs && forallb (fun kv => coh bs dv (snd kv)) es
  end.

Definition coh_ents (bs : list nat) (dv : option dev) (es : ents) : bool := forallb (fun kv => coh bs dv (snd kv)) es.

(* the root has no container: empty context *)
Definition coherentb (t : tree) : bool := coh [] None t.
Definition Coherent (t : tree) : Prop := coherentb t = true.

(* hollow entries: nested nodes that hold no tensor (an empty TensorDict, a NonTensorData).  They accept any batch size,
   which is what findings D101 / D102 are about. *)
Fixpoint holds_tensor (t : tree) : bool :=
  match t with
  | Leaf _ _ => true
  | Node _ _ _ _ es => existsb (fun kv => holds_tensor (snd kv)) es
  end.

(* no hollow node strictly below t *)
Fixpoint hollow_free (t : tree) : bool :=
  match t with
  | Leaf _ _ => true
  | Node _ _ _ _ es => forallb (fun kv => (negb (is_node (snd kv)) || holds_tensor (snd kv)) && hollow_free (snd kv)) es
  end.
