(* C11 — the consolidated codec on trees with jagged nested tensors, lazy stacks and tensorclass nodes; worker threads.
   Transcribes
     base.py::_reduce_vals_and_metadata.assign          (a jagged tensor is written as "<NJT_VALUES>k", ["<NJT_LENGTHS>k"],
                                                         "<NJT_OFFSETS>k" records, in that order, in the `leaves` dict of its
                                                         node; a nested collection gets its own dict {cls, non_tensors, leaves,
                                                         cls_metadata} under its key, "<TD>"-escaped when the key is a field name;
                                                         a lazy stack is a node whose entries are its members under "0", "1", ...
                                                         and whose cls_metadata is stack_dim / stack_dim_name / is_locked)
     _reductions.py::_rebuild_tensordict_files_consolidated.from_metadata
                                                        (non-tensors, then ONE pass over `leaves` with the two local names
                                                         nested_values / nested_lengths, then the sub-dicts; prefixes tested with
                                                         str.startswith, the key recovered with str.replace; lock_() when is_locked;
                                                         LazyStackedTensorDict.from_dict reads d[str(i)] for i in range(len(d)))
     base.py::consolidate, num_threads > 0              (one task per flat entry: storage[start:stop].copy_(bytes ++ zeros(pad)))
   over the byte layout of Model/C11_Layout.v.  Definitions only. *)
From Coq Require Import ZArith List Bool Arith String Ascii DecimalString Decimal.
Import ListNotations.
From TD Require Import Model.C11_Layout Model.C11_Tree.
Open Scope nat_scope.

(* ---------------------------------------------------------------- strings: the markers *)
Definition P_NJT : string := "<NJT>".
Definition P_VAL : string := "<NJT_VALUES>".
Definition P_LEN : string := "<NJT_LENGTHS>".
Definition P_OFF : string := "<NJT_OFFSETS>".
Definition P_TD : string := "<TD>".

(* key.startswith(p) *)
Definition starts (p s : string) : bool := String.prefix p s.

(* key.replace(p, ""): every non-overlapping occurrence, left to right ([skip] = characters of a match still to drop) *)
Fixpoint remove_from (p : string) (skip : nat) (s : string) : string :=
  match s with
  | EmptyString => EmptyString
  | String c r =>
      match skip with
      | S n => remove_from p n r
      | O => if String.prefix p s then remove_from p (String.length p - 1) r else String c (remove_from p 0 r)
      end
  end.
Definition remove_all (p s : string) : string :=
  match p with EmptyString => s | _ => remove_from p 0 s end.

(* k[4:] *)
Fixpoint drop (n : nat) (s : string) : string :=
  match n, s with
  | O, _ => s
  | S n', String _ r => drop n' r
  | S _, EmptyString => EmptyString
  end.

(* str(i) *)
Definition idx_key (i : nat) : string := NilEmpty.string_of_uint (Nat.to_uint i).

(* the writer escapes a nested key that is a field name of the metadata dict; the readers strip the marker from EVERY key
   that starts with it *)
Definition is_field (k : string) : bool :=
  (String.eqb k "cls" || String.eqb k "non_tensors" || String.eqb k "leaves" || String.eqb k "cls_metadata" || String.eqb k "size")%string.
Definition esc_key (k : string) : string := if is_field k then (P_TD ++ k)%string else k.
Definition unesc_key (k : string) : string := if starts P_TD k then drop 4 k else k.

(* ---------------------------------------------------------------- trees *)
(* the class of a node and its cls_metadata *)
Inductive jcls :=
| CTd (m : nmeta)                                                   (* "TensorDict": device, names, batch_size, is_locked *)
| CTc (cls : nat) (m : nmeta)                                       (* a tensorclass (the class object itself is stored) *)
| CLazy (stack_dim : nat) (dim_name : option string) (locked : bool).   (* "LazyStackedTensorDict" *)

Definition cls_locked (c : jcls) : bool :=
  match c with CTd m | CTc _ m => m_locked m | CLazy _ _ b => b end.
Definition cls_set_locked (c : jcls) (b : bool) : jcls :=
  match c with CTd m => CTd (set_locked m b) | CTc i m => CTc i (set_locked m b) | CLazy d n _ => CLazy d n b end.
Definition is_lazy (c : jcls) : bool := match c with CLazy _ _ _ => true | _ => false end.

(* entries in insertion order; a jagged tensor is its three components (values, lengths or None, offsets) *)
Inductive jtree := JNode (c : jcls) (f : jforest)
with jforest :=
| JNil
| JLeaf (k : string) (l : leaf) (r : jforest)
| JNjt (k : string) (vals : leaf) (lens : option leaf) (offs : leaf) (r : jforest)
| JNonT (k : string) (payload : Z) (bs : list nat) (r : jforest)
| JSub (k : string) (t : jtree) (r : jforest).

Definition jcls_of (t : jtree) : jcls := match t with JNode c _ => c end.
Definition jents (t : jtree) : jforest := match t with JNode _ f => f end.

Definition opt_list {X} (o : option X) : list X := match o with Some x => [x] | None => [] end.

(* the flat entries that own bytes, in the order of the traversal (= the order of `flat_size` without its 0 entries) *)
Fixpoint jflat (t : jtree) : list leaf := match t with JNode _ f => jflat_f f end
with jflat_f (f : jforest) : list leaf :=
  match f with
  | JNil => []
  | JLeaf _ l r => l :: jflat_f r
  | JNjt _ v ol o r => v :: opt_list ol ++ o :: jflat_f r
  | JNonT _ _ _ r => jflat_f r
  | JSub _ t r => jflat t ++ jflat_f r
  end.

(* ---------------------------------------------------------------- the metadata dict *)
Inductive jmtree := JMNode (c : jcls) (nts : list (string * (Z * list nat))) (lvs : list (string * lrec)) (subs : jmforest)
with jmforest := JMNil | JMCons (k : string) (t : jmtree) (r : jmforest).

Definition rec_stop (A : nat) (np : bool) (l : leaf) (start : nat) : nat := start + flat_size A np (spec_of l).

(* the records of one jagged tensor and the running offset after them *)
Definition njt_recs (A : nat) (np : bool) (k : string) (v : leaf) (ol : option leaf) (o : leaf) (start : nat)
  : list (string * lrec) * nat :=
  let s1 := rec_stop A np v start in
  match ol with
  | Some ln =>
      let s2 := rec_stop A np ln s1 in
      ([((P_VAL ++ k)%string, mk_rec A np v start); ((P_LEN ++ k)%string, mk_rec A np ln s1); ((P_OFF ++ k)%string, mk_rec A np o s2)],
       rec_stop A np o s2)
  | None =>
      ([((P_VAL ++ k)%string, mk_rec A np v start); ((P_OFF ++ k)%string, mk_rec A np o s1)], rec_stop A np o s1)
  end.

Fixpoint jmeta_t (A : nat) (np : bool) (t : jtree) (start : nat) : jmtree * nat :=
  match t with
  | JNode c f => match jmeta_f A np f start with (nts, lvs, subs, stop) => (JMNode c nts lvs subs, stop) end
  end
with jmeta_f (A : nat) (np : bool) (f : jforest) (start : nat)
  : list (string * (Z * list nat)) * list (string * lrec) * jmforest * nat :=
  match f with
  | JNil => ([], [], JMNil, start)
  | JLeaf k l r =>
      match jmeta_f A np r (rec_stop A np l start) with
      | (nts, lvs, subs, stop) => (nts, (k, mk_rec A np l start) :: lvs, subs, stop) end
  | JNjt k v ol o r =>
      let '(recs, mid) := njt_recs A np k v ol o start in
      match jmeta_f A np r mid with
      | (nts, lvs, subs, stop) => (nts, recs ++ lvs, subs, stop) end
  | JNonT k p bs r =>
      match jmeta_f A np r start with (nts, lvs, subs, stop) => ((k, (p, bs)) :: nts, lvs, subs, stop) end
  | JSub k t r =>
      match jmeta_t A np t start with
      | (mt, mid) => match jmeta_f A np r mid with (nts, lvs, subs, stop) => (nts, lvs, JMCons (esc_key k) mt subs, stop) end
      end
  end.

(* ---------------------------------------------------------------- the reader *)
Inductive jerr := JView | JShape | JUnbound | JNjtKey | JLazyKey.
Inductive jres (X : Type) := JOk (x : X) | JRaised (e : jerr).
Arguments JOk {X} x.
Arguments JRaised {X} e.

(* the two local names of from_metadata: None = the name is not bound yet (reading it raises UnboundLocalError) *)
Record jst := { st_values : option leaf; st_lengths : option (option leaf) }.
Definition jst0 : jst := {| st_values := None; st_lengths := None |}.

(* [reset] = the statement `nested_lengths = None` of the <NJT_VALUES> branch.  The code has it (reset = true); the variant
   without it is only used to show that the round-trip theorem depends on it. *)
Fixpoint jread_leaves (reset : bool) (storage : list Z) (lvs : list (string * lrec)) (st : jst) : jres jforest :=
  match lvs with
  | [] => JOk JNil
  | (k, r) :: tl =>
      match decode_leaf storage (r_dt r) (r_esz r) (r_shape r) (r_seg r) with
      | DViewErr => JRaised JView
      | DShapeErr => JRaised JShape
      | DOk l =>
          if starts P_NJT k then JRaised JNjtKey
          else if starts P_VAL k then
            jread_leaves reset storage tl
              {| st_values := Some l; st_lengths := if reset then Some None else st_lengths st |}
          else if starts P_LEN k then
            jread_leaves reset storage tl {| st_values := st_values st; st_lengths := Some (Some l) |}
          else if starts P_OFF k then
            match st_values st, st_lengths st with
            | Some v, Some ol =>
                match jread_leaves reset storage tl st with
                | JOk f => JOk (JNjt (remove_all P_OFF k) v ol l f)
                | JRaised e => JRaised e end
            | _, _ => JRaised JUnbound
            end
          else
            match jread_leaves reset storage tl st with
            | JOk f => JOk (JLeaf k l f)
            | JRaised e => JRaised e end
      end
  end.
(* the variant of the seeded change: both names bound to None before the loop, no reset at <NJT_VALUES> *)
Definition jst_none : jst := {| st_values := None; st_lengths := Some None |}.

Fixpoint jfapp (a b : jforest) : jforest :=
  match a with
  | JNil => b
  | JLeaf k l r => JLeaf k l (jfapp r b)
  | JNjt k v ol o r => JNjt k v ol o (jfapp r b)
  | JNonT k p bs r => JNonT k p bs (jfapp r b)
  | JSub k t r => JSub k t (jfapp r b)
  end.
Fixpoint jnts_forest (nts : list (string * (Z * list nat))) : jforest :=
  match nts with [] => JNil | (k, (p, bs)) :: tl => JNonT k p bs (jnts_forest tl) end.

Fixpoint jlen (f : jforest) : nat :=
  match f with
  | JNil => 0
  | JLeaf _ _ r | JNjt _ _ _ _ r | JNonT _ _ _ r | JSub _ _ r => S (jlen r)
  end.
Fixpoint jfind_sub (f : jforest) (k : string) : option jtree :=
  match f with
  | JNil => None
  | JSub k' t r => if String.eqb k k' then Some t else jfind_sub r k
  | JLeaf k' _ r | JNjt k' _ _ _ r | JNonT k' _ _ r => if String.eqb k k' then None else jfind_sub r k
  end.
(* LazyStackedTensorDict.from_dict: [TensorDict.from_dict(d[str(i)]) for i in range(len(d))]; a member that is already a
   tensor collection is returned as it is; a missing index is a KeyError, an entry that is not a collection is not modelled *)
Fixpoint lazy_members (d : jforest) (i n : nat) : jres jforest :=
  match n with
  | O => JOk JNil
  | S n' =>
      match jfind_sub d (idx_key i) with
      | None => JRaised JLazyKey
      | Some t => match lazy_members d (S i) n' with
                  | JOk r => JOk (JSub (idx_key i) t r)
                  | JRaised e => JRaised e end
      end
  end.

(* cls._from_dict_validated(d, **cls_metadata) *)
Definition jfinish (c : jcls) (d : jforest) : jres jtree :=
  if is_lazy c then
    match lazy_members d 0 (jlen d) with JOk ms => JOk (JNode c ms) | JRaised e => JRaised e end
  else JOk (JNode c d).

Fixpoint jrebuild_t (reset : bool) (storage : list Z) (plocked : bool) (mt : jmtree) : jres jtree :=
  match mt with
  | JMNode c nts lvs subs =>
      let locked := cls_locked c || plocked in
      match jread_leaves reset storage lvs (if reset then jst0 else jst_none) with
      | JRaised e => JRaised e
      | JOk fl =>
          match jrebuild_subs reset storage locked subs with
          | JRaised e => JRaised e
          | JOk fs => jfinish (cls_set_locked c locked) (jfapp (jnts_forest nts) (jfapp fl fs))
          end
      end
  end
with jrebuild_subs (reset : bool) (storage : list Z) (plocked : bool) (s : jmforest) : jres jforest :=
  match s with
  | JMNil => JOk JNil
  | JMCons k mt r =>
      match jrebuild_t reset storage plocked mt with
      | JRaised e => JRaised e
      | JOk t => match jrebuild_subs reset storage plocked r with
                 | JRaised e => JRaised e
                 | JOk fr => JOk (JSub (unesc_key k) t fr)
                 end
      end
  end.

(* consolidate(filename) ; from_consolidated(filename)  /  pickle of a consolidated tensordict whose snapshot is current *)
Definition jencode (A : nat) (np : bool) (t : jtree) : list Z := encode A np (jflat t).
Definition jroundtrip (t : jtree) : jres jtree :=
  jrebuild_t true (jencode align_unit true t) false (fst (jmeta_t align_unit true t 0)).

(* ---------------------------------------------------------------- what comes back: locks pushed down, keys regrouped *)
Fixpoint jrelock_t (plocked : bool) (t : jtree) : jtree :=
  match t with JNode c f => let b := cls_locked c || plocked in JNode (cls_set_locked c b) (jrelock_f b f) end
with jrelock_f (plocked : bool) (f : jforest) : jforest :=
  match f with
  | JNil => JNil
  | JLeaf k l r => JLeaf k l (jrelock_f plocked r)
  | JNjt k v ol o r => JNjt k v ol o (jrelock_f plocked r)
  | JNonT k p bs r => JNonT k p bs (jrelock_f plocked r)
  | JSub k t r => JSub k (jrelock_t plocked t) (jrelock_f plocked r)
  end.

Fixpoint jpart_n (f : jforest) : jforest :=
  match f with
  | JNil => JNil | JNonT k p bs r => JNonT k p bs (jpart_n r)
  | JLeaf _ _ r | JNjt _ _ _ _ r | JSub _ _ r => jpart_n r end.
Fixpoint jpart_l (f : jforest) : jforest :=
  match f with
  | JNil => JNil
  | JLeaf k l r => JLeaf k l (jpart_l r)
  | JNjt k v ol o r => JNjt k v ol o (jpart_l r)
  | JNonT _ _ _ r | JSub _ _ r => jpart_l r end.
Fixpoint jreorder_t (t : jtree) : jtree :=
  match t with JNode c f => JNode c (jfapp (jpart_n f) (jfapp (jpart_l f) (jreorder_s f))) end
with jreorder_s (f : jforest) : jforest :=
  match f with
  | JNil => JNil
  | JSub k t r => JSub k (jreorder_t t) (jreorder_s r)
  | JLeaf _ _ r | JNjt _ _ _ _ r | JNonT _ _ _ r => jreorder_s r
  end.

(* ---------------------------------------------------------------- side conditions *)
(* a key the markers cannot be confused with *)
Definition leaf_key_ok (k : string) : bool :=
  negb (starts P_NJT k) && negb (starts P_VAL k) && negb (starts P_LEN k) && negb (starts P_OFF k).
Definition njt_key_ok (k : string) : bool := String.eqb (remove_all P_OFF k) k.
Definition sub_key_ok (k : string) : bool := negb (starts P_TD k).

(* members of a lazy stack: exactly the entries "0", "1", ... in order *)
Fixpoint members_from (f : jforest) (i : nat) : bool :=
  match f with
  | JNil => true
  | JSub k _ r => String.eqb k (idx_key i) && members_from r (S i)
  | _ => false
  end.

Fixpoint jkeys_ok_t (t : jtree) : bool :=
  match t with JNode c f => (if is_lazy c then members_from f 0 else true) && jkeys_ok_f f end
with jkeys_ok_f (f : jforest) : bool :=
  match f with
  | JNil => true
  | JLeaf k _ r => leaf_key_ok k && jkeys_ok_f r
  | JNjt k _ _ _ r => njt_key_ok k && jkeys_ok_f r
  | JNonT _ _ _ r => jkeys_ok_f r
  | JSub k t r => sub_key_ok k && jkeys_ok_t t && jkeys_ok_f r
  end.

(* ---------------------------------------------------------------- consolidate(num_threads > 0): one task per flat entry *)
Record task := { t_start : nat; t_bytes : list Z }.

(* v_pad = bytes ++ zeros((stop - start) - len(bytes));  storage[start:stop].copy_(v_pad) *)
Fixpoint tasks_from (A : nat) (np : bool) (start : nat) (ls : list leaf) : list task :=
  match ls with
  | [] => []
  | l :: r => {| t_start := start; t_bytes := chunk A np l |} :: tasks_from A np (start + flat_size A np (spec_of l)) r
  end.
Definition run_task (storage : list Z) (t : task) : list Z := splice storage (t_start t) (t_bytes t).
(* the tasks in the order in which the workers complete them *)
Definition run_tasks (storage : list Z) (ts : list task) : list Z := fold_left run_task ts storage.

(* the i-th element of [order] is the submission index of the i-th task to run (indices out of range are skipped) *)
Definition pick_tasks (ts : list task) (order : list nat) : list task :=
  flat_map (fun i => match nth_error ts i with Some t => [t] | None => [] end) order.
