(* Model of the context-manager protocol of tensordict (base.py::__enter__/__exit__, utils.py::_as_context_manager) and of
   the inverse functions registered in _contextlib.py::LAST_OP_MAPS: how each one re-parses the (args, kwargs) recorded
   at call time, and which inverse call it issues on the modified object. *)
From Coq Require Import ZArith List String Bool Lia.
Import ListNotations.
Open Scope string_scope.
Open Scope Z_scope.

Inductive val := VInt (z : Z) | VInts (l : list Z) | VStr (s : string).

(* the spelled call: positional arguments and keyword arguments *)
Record spelled := { pos : list val; kw : list (string * val) }.

Fixpoint kwget (k : list (string * val)) (name : string) : option val :=
  match k with [] => None | (n, v) :: r => if String.eqb n name then Some v else kwget r name end.

(* the inverse call issued on the modified object *)
Inductive icall :=
| CTranspose (a b : Z) | CPermute (l : list Z) | CView (l : list Z)
| CFlatten (a b : Z) | CUnflatten (d : Z) (sz : list Z)
| CSqueeze (d : Z) | CUnsqueeze (d : Z) | CIdentity
| CFlattenKeys (sep : string) | CUnflattenKeys (sep : string)
| CRaise.

Definition zlen {A} (l : list A) : Z := Z.of_nat (List.length l).

(* np.argsort on a list of distinct ints: position of the i-th smallest.  For a permutation of 0..n-1 this is the
   inverse permutation. *)
Fixpoint index_of (x : Z) (l : list Z) (i : Z) : Z :=
  match l with [] => i | y :: r => if (y =? x)%Z then i else index_of x r (i + 1) end.
Definition inv_perm (dims : list Z) : list Z :=
  map (fun i => index_of (Z.of_nat i) dims 0) (seq 0 (List.length dims)).

(* _get_shape_from_args: permute(2,0,1) / permute([2,0,1]) / permute(dims=[2,0,1]) *)
Definition shape_from_args (s : spelled) (kwname : string) : option (list Z) :=
  match pos s with
  | [] => match kwget (kw s) kwname with Some (VInts l) => Some l | _ => None end
  | [VInts l] => Some l
  | l => (fix ints (l : list val) : option (list Z) :=
            match l with [] => Some [] | VInt z :: r => option_map (cons z) (ints r) | _ => None end) l
  end.

(* out_shape = batch size of the ORIGINAL (the `out` argument of the _reverse_* functions);
   self_ndim = number of batch dims of the modified object *)
(* [fx201]: the repair of D201 in _reverse_unflatten (an unflattened_size of length 1 split nothing: the object itself is
   written back instead of calling flatten(d, d), which base.py::flatten refuses).  [reverse] is the repository's code,
   [reverse_with false] the unrepaired one (kept as witness). *)
Definition fixed_D201 : bool := true.

Definition reverse_with (fx201 : bool) (op : string) (s : spelled) (out_shape : list Z) (self_ndim : Z) : icall :=
  let nd := zlen out_shape in
  if String.eqb op "transpose" then
    match pos s, kwget (kw s) "dim0", kwget (kw s) "dim1" with
    | [VInt a; VInt b], _, _ => CTranspose a b
    | [VInt a], _, Some (VInt b) => CTranspose a b
    | [], Some (VInt a), Some (VInt b) => CTranspose a b
    | _, _, _ => CRaise
    end
  else if String.eqb op "permute" then
    match shape_from_args s "dims" with
    | Some dims => CPermute (inv_perm (map (fun d => if d >=? 0 then d else self_ndim + d) dims))
    | None => CRaise
    end
  else if String.eqb op "view" then CView out_shape
  else if String.eqb op "flatten" then
    let d01 :=
      match pos s with
      | [VInt a; VInt b] => Some (a, b)
      | [VInt a] => Some (a, match kwget (kw s) "end_dim" with Some (VInt b) => b | _ => -1 end)
      | [] => Some (match kwget (kw s) "start_dim" with Some (VInt a) => a | _ => 0 end,
                    match kwget (kw s) "end_dim" with Some (VInt b) => b | _ => -1 end)
      | _ => None
      end in
    match d01 with
    | None => CRaise
    | Some (d0, d1) =>
        let d1 := if d1 <? 0 then nd + d1 else d1 in
        let d0 := if d0 <? 0 then nd + d0 else d0 in
        (* out.shape[dim0 : dim1 + 1] *)
        CUnflatten d0 (firstn (Z.to_nat (d1 + 1 - d0)) (skipn (Z.to_nat d0) out_shape))
    end
  else if String.eqb op "unflatten" then
    let ds :=
      match pos s with
      | VInt d :: VInts sz :: _ => Some (d, sz)
      | [VInt d] => match kwget (kw s) "unflattened_size" with Some (VInts sz) => Some (d, sz) | _ => None end
      | [] => match kwget (kw s) "dim", kwget (kw s) "unflattened_size" with
              | Some (VInt d), Some (VInts sz) => Some (d, sz) | _, _ => None end
      | _ => None
      end in
    match ds with
    | None => CRaise
    | Some (d, sz) =>
        let d0 := if d <? 0 then nd + d else d in
        if fx201 && (zlen sz =? 1) then CIdentity else CFlatten d0 (d0 + zlen sz - 1)
    end
  else if String.eqb op "unsqueeze" then
    match pos s, kwget (kw s) "dim" with
    | [VInt d], _ => CSqueeze d
    | [], Some (VInt d) => CSqueeze d
    | _, _ => CRaise
    end
  else if String.eqb op "squeeze" then
    match (match pos s, kwget (kw s) "dim" with
           | [VInt d], _ => Some d | [], Some (VInt d) => Some d | _, _ => None end) with
    | None => CRaise
    | Some d => if self_ndim =? nd then CIdentity else CUnsqueeze d
    end
  else if String.eqb op "flatten_keys" then
    match pos s with
    | VStr sep :: _ => CUnflattenKeys sep
    | [] => CUnflattenKeys (match kwget (kw s) "separator" with Some (VStr sep) => sep | _ => "." end)
    | _ => CRaise
    end
  else if String.eqb op "unflatten_keys" then
    match pos s with
    | VStr sep :: _ => CFlattenKeys sep
    | [] => CFlattenKeys (match kwget (kw s) "separator" with Some (VStr sep) => sep | _ => "." end)
    | _ => CRaise
    end
  else CRaise.

Definition reverse := reverse_with fixed_D201.

(* ---------------- shape semantics of the operations (torch's, on the batch shape) ---------------- *)
Definition norm (d n : Z) : Z := if d <? 0 then n + d else d.
Definition in_range (d n : Z) : bool := (- n <=? d) && (d <? n).

Definition nthZ {A} (l : list A) (i : Z) (d : A) : A := nth (Z.to_nat i) l d.

Fixpoint set_nth {A} (l : list A) (i : nat) (x : A) : list A :=
  match l, i with
  | [], _ => []
  | _ :: r, O => x :: r
  | y :: r, S j => y :: set_nth r j x
  end.

Definition sh_transpose (sh : list Z) (a b : Z) : option (list Z) :=
  let n := zlen sh in
  if in_range a n && in_range b n then
    let a' := Z.to_nat (norm a n) in let b' := Z.to_nat (norm b n) in
    Some (set_nth (set_nth sh a' (nth b' sh 0)) b' (nth a' sh 0))
  else None.

Definition sh_permute (sh : list Z) (dims : list Z) : list Z := map (fun d => nthZ sh d 0) dims.

Definition prodZ (l : list Z) : Z := fold_right Z.mul 1 l.

Definition sh_flatten (sh : list Z) (a b : Z) : list Z :=   (* a <= b, both normalised and in range *)
  firstn (Z.to_nat a) sh ++ [prodZ (firstn (Z.to_nat (b + 1 - a)) (skipn (Z.to_nat a) sh))] ++ skipn (Z.to_nat (b + 1)) sh.

Definition sh_unflatten (sh : list Z) (d : Z) (sz : list Z) : list Z :=
  firstn (Z.to_nat d) sh ++ sz ++ skipn (Z.to_nat (d + 1)) sh.

Definition sh_unsqueeze (sh : list Z) (d : Z) : list Z :=   (* d normalised against len + 1 *)
  firstn (Z.to_nat d) sh ++ [1] ++ skipn (Z.to_nat d) sh.

Definition sh_squeeze (sh : list Z) (d : Z) : list Z :=     (* d normalised *)
  if nthZ sh d 0 =? 1 then firstn (Z.to_nat d) sh ++ skipn (Z.to_nat (d + 1)) sh else sh.

(* ---------------- the queue discipline of nested blocks ---------------- *)
(* every tensordict object carries _last_op (set by the decorated call that created it) and a queue;
   __enter__ pushes _last_op, __exit__ pops it and runs the registered inverse (or returns early on an exception). *)
Section Queue.
  Context {Op : Type}.
  Record obj := { last_op : option Op; queue : list (option Op) }.
  Definition enter (o : obj) : obj := {| last_op := last_op o; queue := queue o ++ [last_op o] |}.
  (* returns the popped entry (the inverse to run) and the object after the pop; None when the queue is empty *)
  Definition exit_ok (o : obj) : option (option Op * obj) :=
    match rev (queue o) with
    | [] => None
    | x :: r => Some (x, {| last_op := last_op o; queue := rev r |})
    end.
End Queue.

(* ---------------- the write-back rule of the _reverse_* functions ---------------- *)
(* flat view of a tensordict: key -> (storage id, content id).  [inv] is the inverse-transformed modified object. *)
Definition entries := list (string * (nat * Z)).

Fixpoint lookup (e : entries) (k : string) : option (nat * Z) :=
  match e with [] => None | (k', v) :: r => if String.eqb k' k then Some v else lookup r k end.

(* out.update_(inv) (base.py::update_, the `_items_list(..., default="intersection")` + `_foreach_copy_` route): the
   leaves the two objects have in common are copied in place (storages kept); a key of inv that out does not have is
   silently SKIPPED as soon as there is at least one common leaf; only when there is no common leaf at all does the
   per-leaf fallback raise KeyError for the unknown key (nothing to do when inv is empty) *)
Definition has_key (e : entries) (k : string) : bool := match lookup e k with Some _ => true | None => false end.
Definition update_inplace (out inv : entries) : option entries :=
  if existsb (fun kv => has_key out (fst kv)) inv || (match inv with [] => true | _ => false end)
  then Some (map (fun kv => match lookup inv (fst kv) with
                            | Some (_, c) => (fst kv, (fst (snd kv), c))
                            | None => kv end) out)
  else None.

(* out.update(inv, inplace=False): keys of inv are rebound to inv's objects, unknown keys are added *)
Definition update_rebind (out inv : entries) : entries :=
  (map (fun kv => match lookup inv (fst kv) with Some v => (fst kv, v) | None => kv end) out
   ++ filter (fun kv => match lookup out (fst kv) with Some _ => false | None => true end) inv)%list.

Definition writeback (locked : bool) (out inv : entries) : option entries :=
  if locked then update_inplace out inv else Some (update_rebind out inv).

(* ops whose inverse is modelled by [reverse]; the three others are state toggles / C13's to_module *)
Definition modelled_ops : list string :=
  ["transpose"; "permute"; "view"; "flatten"; "unflatten"; "squeeze"; "unsqueeze"; "flatten_keys"; "unflatten_keys"]%list.
Definition toggle_ops : list string := ["lock_"; "unlock_"; "to_module"].
