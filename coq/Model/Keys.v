(* Model of nested-key canonicalisation: tensordict/csrc/utils.cpp (native path) and the Python
   compile-only branches of tensordict/utils.py (_unravel_key_to_tuple, unravel_key, unravel_key_list). *)
From Coq Require Import List String Bool.
Import ListNotations.

(* a Python object offered as a key: a str, a tuple of such objects, or anything else (int, list, None ...) *)
Inductive pykey := KS (s : string) | KT (l : list pykey) | KBad.

Definition is_nil {A} (l : list A) : bool := match l with [] => true | _ => false end.

(* ---- native path: csrc/utils.cpp ---- *)

(* _unravel_key_to_tuple: () as soon as a non-str member unravels to () *)
Fixpoint cpp_unravel_to_tuple (k : pykey) : list string :=
  match k with
  | KS s => [s]
  | KBad => []
  | KT l =>
      let fix go (l : list pykey) : option (list string) :=
        match l with
        | [] => Some []
        | KS s :: r => option_map (cons s) (go r)
        | x :: r =>
            let sub := cpp_unravel_to_tuple x in
            if is_nil sub then None else option_map (app sub) (go r)
        end in
      match go l with Some r => r | None => [] end
  end.

Inductive keyres := RStr (s : string) | RTup (l : list string) | RRaise.

(* unravel_key: members that unravel to () are silently dropped; one string in total -> the bare string *)
Definition cpp_unravel_key (k : pykey) : keyres :=
  match k with
  | KS s => RStr s
  | KBad => RRaise
  | KT l =>
      let newkey := flat_map (fun x => match x with KS s => [s] | _ => cpp_unravel_to_tuple x end) l in
      match newkey with [s] => RStr s | _ => RTup newkey end
  end.

Fixpoint sequence_res (l : list keyres) : option (list keyres) :=
  match l with
  | [] => Some []
  | RRaise :: _ => None
  | x :: r => option_map (cons x) (sequence_res r)
  end.

Definition cpp_unravel_key_list (ks : list pykey) : option (list keyres) :=
  sequence_res (map cpp_unravel_key ks).

(* ---- Python (compile-only) path: utils.py ---- *)

(* def _unravel_key_to_tuple(key):  loop with accumulator [result]; returns () at the first empty sub-result *)
Fixpoint py_unravel_to_tuple (k : pykey) : list string :=
  match k with
  | KS s => [s]
  | KBad => []
  | KT l =>
      let fix loop (acc : list string) (l : list pykey) : list string :=
        match l with
        | [] => acc
        | KS s :: r => loop (acc ++ [s]) r
        | x :: r =>
            let sub := py_unravel_to_tuple x in
            if is_nil sub then [] else loop (acc ++ sub) r
        end in
      loop [] l
  end.

Definition py_unravel_key (k : pykey) : keyres :=
  match k with
  | KS s => RStr s
  | KBad => RRaise
  | KT l =>
      let newkey :=
        fold_left (fun acc x => match x with KS s => acc ++ [s] | _ => acc ++ py_unravel_to_tuple x end) l [] in
      match newkey with [s] => RStr s | _ => RTup newkey end
  end.

Definition py_unravel_key_list (ks : list pykey) : option (list keyres) :=
  sequence_res (map py_unravel_key ks).

(* ---- spec vocabulary ---- *)

(* in-order strings of a key tree *)
Fixpoint strings (k : pykey) : list string :=
  match k with
  | KS s => [s]
  | KBad => []
  | KT l => flat_map strings l
  end.

(* well-formed nested key: built from strings and non-empty tuples only *)
Fixpoint wfb (k : pykey) : bool :=
  match k with
  | KS _ => true
  | KBad => false
  | KT l => negb (is_nil l) && forallb wfb l
  end.

(* ---- unravel_keys( *keys)  (added in the deepening round; follows repair D1804) ----
   native: csrc/pybind.cpp binds "unravel_keys" to unravel_key with ONE argument ("for bc compat"): any other arity is a
   TypeError and the result is the bare unravelled key.
   Python (compile) branch after repair D1804: `if len(keys) != 1: raise TypeError`, then unravel_key(keys[0]).
   Before the repair ([repaired := false]): tuple(unravel_key(key) for key in keys). *)
Inductive keysres := KOne (r : keyres) | KMany (l : list keyres) | KRaise.

Definition cpp_unravel_keys (ks : list pykey) : keysres :=
  match ks with
  | [k] => match cpp_unravel_key k with RRaise => KRaise | r => KOne r end
  | _ => KRaise
  end.

Definition py_unravel_keys_gen (repaired : bool) (ks : list pykey) : keysres :=
  if repaired then
    match ks with
    | [k] => match py_unravel_key k with RRaise => KRaise | r => KOne r end
    | _ => KRaise
    end
  else match py_unravel_key_list ks with Some l => KMany l | None => KRaise end.
Definition py_unravel_keys := py_unravel_keys_gen true.
Definition py_unravel_keys_unrepaired := py_unravel_keys_gen false.
