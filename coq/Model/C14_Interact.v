(* C14 — ProbabilisticTensorDictModule._dist_sample (tensordict/nn/probabilistic.py:662-758) as a decision table over
   InteractionType x what the distribution object can do.  DEFINITIONS ONLY.  Which attribute / method is consulted,
   with which sample count — not what torch.distributions computes (out of scope). *)
From Coq Require Import List Bool String.
Import ListNotations.

Inductive itype := TMode | TMedian | TMean | TRandom | TDeterministic.

(* what touching an attribute of the distribution does *)
Inductive cap := CValue        (* returns a value *)
               | CAttrErr      (* attribute absent / raises AttributeError *)
               | CNotImpl.     (* property raises NotImplementedError (torch.distributions.Distribution's default) *)

Record dcap := {
  is_lkj : bool;                  (* isinstance(dist, D.LKJCholesky) *)
  has_det : bool;                 (* hasattr(dist, "deterministic_sample") *)
  reg : option itype;             (* DETERMINISTIC_REGISTER entry of the class that is looked up (see lookup_reg below) *)
  support_real : option bool;     (* None: dist.support raises NotImplementedError; Some b: isinstance(support, _Real) = b *)
  c_mode : cap;
  c_median : cap;
  c_mean : cap;
  has_rsample : bool;
}.

Inductive action :=
  | ADetSample | AMode | AMedian | AMean
  | ARsampleN | ASampleN            (* (r)sample((n_empirical_estimate,)).mean(0) *)
  | ARsample | ASample              (* (r)sample(num_samples or ()) *)
  | ARaiseNotImpl | ARaiseRuntime.

Definition itype_eqb (a b : itype) : bool :=
  match a, b with
  | TMode, TMode | TMedian, TMedian | TMean, TMean | TRandom, TRandom | TDeterministic, TDeterministic => true
  | _, _ => false
  end.

(* [fixed_D146 = true]: `try: return dist.mean except (AttributeError, NotImplementedError)` -- the empirical-mean
   fallback is reachable.  (false = the code before the fix: hasattr(dist, "mean") let NotImplementedError escape.) *)
Definition fixed_D146 : bool := true.

Definition mean_action (fixed : bool) (d : dcap) : action :=
  match c_mean d with
  | CValue => AMean
  | CNotImpl => if fixed then (if has_rsample d then ARsampleN else ASampleN) else ARaiseNotImpl
  | CAttrErr => if has_rsample d then ARsampleN else ASampleN
  end.

Definition by_type (fixed : bool) (it : itype) (d : dcap) : action :=
  match it with
  | TMode => match c_mode d with CValue => AMode | _ => ARaiseNotImpl end
  | TMedian => match c_median d with CValue => AMedian | _ => ARaiseNotImpl end
  | TMean => mean_action fixed d
  | TRandom => if has_rsample d then ARsample else ASample
  | TDeterministic => ARaiseNotImpl          (* "unknown interaction_type" *)
  end.

Definition dist_sample_gen (fixed : bool) (it : itype) (d : dcap) : action :=
  if is_lkj d && (itype_eqb it TDeterministic || itype_eqb it TMean || itype_eqb it TMode) then ARaiseRuntime
  else match it with
       | TDeterministic =>
           if has_det d then ADetSample
           else by_type fixed (match reg d with
                               | Some r => r
                               | None => match support_real d with Some false => TMode | _ => TMean end
                               end) d
       | _ => by_type fixed it d
       end.

Definition dist_sample := dist_sample_gen fixed_D146.

(* interaction type in force: the context manager's value, else the module's default (forward / _dist_sample) *)
Definition resolve (ctx : option itype) (default : itype) : itype := match ctx with Some t => t | None => default end.

(* ---- SPEC: the documented contract of InteractionType (probabilistic.py:55-73), written as a relation on what is
   consulted.  MODE / MEDIAN / MEAN: the attribute of that name; an attribute that is not available is an error,
   except that MEAN without an analytic mean is estimated from n samples.  RANDOM: rsample if the distribution has it,
   sample otherwise.  DETERMINISTIC: deterministic_sample if present, otherwise a deterministic statistic chosen from
   the distribution family (the registered one; mean for real supports / unknown supports, mode otherwise). *)
Definition spec_by (it : itype) (d : dcap) : action :=
  match it with
  | TMode => match c_mode d with CValue => AMode | _ => ARaiseNotImpl end
  | TMedian => match c_median d with CValue => AMedian | _ => ARaiseNotImpl end
  | TMean => match c_mean d with CValue => AMean | _ => if has_rsample d then ARsampleN else ASampleN end
  | TRandom => if has_rsample d then ARsample else ASample
  | TDeterministic => ARaiseNotImpl
  end.

Definition spec_sample (it : itype) (d : dcap) : action :=
  if is_lkj d && negb (itype_eqb it TRandom || itype_eqb it TMedian) then ARaiseRuntime
  else match it with
       | TDeterministic =>
           if has_det d then ADetSample
           else spec_by (match reg d with
                         | Some r => r
                         | None => match support_real d with Some false => TMode | _ => TMean end
                         end) d
       | _ => spec_by it d
       end.

(* ------------------------------------------------------------------ wrapped distributions.
   The object handed to _dist_sample may be a wrapper around a base distribution: torch.distributions.Independent
   (the only wrapper _dist_sample knows about: `tdist = type(dist); if issubclass(tdist, D.Independent): tdist =
   type(dist.base_dist)` -- ONE step, an `if`, not a loop), or a TransformedDistribution-style class, which is looked up
   under its own class.  Every attribute (deterministic_sample, support, mode, median, mean, has_rsample, (r)sample) is
   consulted on the OUTER object; what the outer object answers is torch's delegation, transcribed in [caps]
   (trusted transcription of torch.distributions.Independent / TransformedDistribution, compared with the real classes on
   every generated case). *)
Inductive layer := LIndep | LTrans (own : option itype).     (* own: DETERMINISTIC_REGISTER entry of the wrapper's class *)

(* D.Independent is itself in DETERMINISTIC_REGISTER: the loop over torch.distributions tests the class attribute
   `has_enumerate_support`, which on Independent is a property object (truthy) -> MODE *)
Definition indep_reg : option itype := Some TMode.

(* register entry of an object's OWN class *)
Definition own_reg (ls : list layer) (b : dcap) : option itype :=
  match ls with
  | [] => reg b
  | LIndep :: _ => indep_reg
  | LTrans r :: _ => r
  end.
(* the class _dist_sample looks up: one Independent layer is removed *)
Definition lookup_reg (ls : list layer) (b : dcap) : option itype :=
  match ls with
  | LIndep :: r => own_reg r b
  | _ => own_reg ls b
  end.
(* [look = false]: a lookup under type(dist) itself (what a lookup that forgets the unwrapping does) *)
Definition lookup_gen (look : bool) (ls : list layer) (b : dcap) : option itype :=
  if look then lookup_reg ls b else own_reg ls b.

(* SPEC: Independent only re-interprets batch dims as event dims -- the statistic is the one registered for the base
   under ALL the Independent layers *)
Fixpoint strip (ls : list layer) : list layer :=
  match ls with LIndep :: r => strip r | _ => ls end.
Definition spec_reg (ls : list layer) (b : dcap) : option itype := own_reg (strip ls) b.

(* what the outer object answers, layer by layer (reg is filled in by the caller) *)
Fixpoint caps (ls : list layer) (b : dcap) : dcap :=
  match ls with
  | [] => b
  | LIndep :: r =>
      let c := caps r b in
      {| is_lkj := false; has_det := false; reg := None;
         support_real := match support_real c with Some _ => Some false | None => None end;   (* constraints.independent(...) is not _Real *)
         c_mode := c_mode c; c_median := CAttrErr; c_mean := c_mean c; has_rsample := has_rsample c |}
  | LTrans _ :: r =>
      let c := caps r b in
      {| is_lkj := false; has_det := false; reg := None;
         support_real := support_real c;              (* no transforms: the base's support *)
         c_mode := CNotImpl; c_median := CAttrErr; c_mean := CNotImpl; has_rsample := has_rsample c |}
  end.
Definition with_reg (r : option itype) (c : dcap) : dcap :=
  {| is_lkj := is_lkj c; has_det := has_det c; reg := r; support_real := support_real c; c_mode := c_mode c;
     c_median := c_median c; c_mean := c_mean c; has_rsample := has_rsample c |}.

Definition dist_sample_w_gen (look : bool) (it : itype) (ls : list layer) (b : dcap) : action :=
  dist_sample it (with_reg (lookup_gen look ls b) (caps ls b)).
Definition dist_sample_w := dist_sample_w_gen true.
Definition spec_sample_w (it : itype) (ls : list layer) (b : dcap) : action :=
  spec_sample it (with_reg (spec_reg ls b) (caps ls b)).

(* at most one Independent layer on top: the region in which the code's one-step unwrapping is the whole unwrapping *)
Definition one_step (ls : list layer) : bool :=
  match ls with LIndep :: LIndep :: _ => false | _ => true end.

(* the finite grid *)
Definition all_itype : list itype := [TMode; TMedian; TMean; TRandom; TDeterministic].
Definition all_cap : list cap := [CValue; CAttrErr; CNotImpl].
Definition all_bool : list bool := [true; false].
Definition all_dcap : list dcap :=
  flat_map (fun lkj => flat_map (fun hd => flat_map (fun rg => flat_map (fun sr => flat_map (fun mo => flat_map (fun me =>
  flat_map (fun mn => map (fun hr =>
    {| is_lkj := lkj; has_det := hd; reg := rg; support_real := sr; c_mode := mo; c_median := me; c_mean := mn;
       has_rsample := hr |}) all_bool) all_cap) all_cap) all_cap) [None; Some true; Some false])
    (None :: map Some all_itype)) all_bool) all_bool.

Definition action_eqb (a b : action) : bool :=
  match a, b with
  | ADetSample, ADetSample | AMode, AMode | AMedian, AMedian | AMean, AMean | ARsampleN, ARsampleN | ASampleN, ASampleN
  | ARsample, ARsample | ASample, ASample | ARaiseNotImpl, ARaiseNotImpl | ARaiseRuntime, ARaiseRuntime => true
  | _, _ => false
  end.

(* ProbabilisticTensorDictSequential.__init__ (probabilistic.py:1012-1016): the final module samples unless every one of its
   sample keys is already written by the modules before it.  [None] = the final module has no dist_sample_keys
   (getattr default [None]: None is never an out key). *)
Definition requires_sample (sample_keys : option (list (list String.string))) (upstream : list (list String.string)) : bool :=
  match sample_keys with
  | None => true
  | Some ks => existsb (fun k => negb (existsb (fun u => if list_eq_dec String.string_dec k u then true else false) upstream)) ks
  end.
