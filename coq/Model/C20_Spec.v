(* C20 — the reference: what apply / named_apply promise, over plain nested dicts (no metadata, no object identity).
   Written independently of the code's control flow: for every key of self, in order, the function applied to the entry
   and to the entries of the other operands matched by key (the default where one is missing; KeyError without default),
   nested tensordicts treated recursively, None results dropped, empty results filtered as filter_empty says, the kept
   results written into the designated object (self when inplace, out when given, a new empty tensordict otherwise).
   Definitions only. *)
From Coq Require Import ZArith List String Bool.
Import ListNotations.
From TD Require Import Model.C20_Apply.
Open Scope string_scope.

Section Spec.
Variable A : Type.

(* plain nested dicts *)
Inductive sval := SOld (z : Z) | SNew (a : A).
Inductive stree := SLeaf (v : sval) | SNonT | SNode (f : sforest)
with sforest := SNil | SCons (k : string) (t : stree) (f : sforest).

Fixpoint sget (f : sforest) (k : string) : option stree :=
  match f with SNil => None | SCons k' t r => if String.eqb k k' then Some t else sget r k end.
Fixpoint sset (f : sforest) (k : string) (t : stree) : sforest :=
  match f with
  | SNil => SCons k t SNil
  | SCons k' t' r => if String.eqb k k' then SCons k' t r else SCons k' t' (sset r k t)
  end.

(* what a tensordict of the model is, as a plain nested dict *)
Fixpoint erase_t (t : tree A) : stree :=
  match t with
  | Leaf _ v => SLeaf (match v with VOld z => SOld z | VNew a => SNew a end)
  | NonT _ _ _ => SNonT
  | Node _ _ f => SNode (erase_f f)
  end
with erase_f (f : forest A) : sforest :=
  match f with FNil => SNil | FCons k t r => SCons k (erase_t t) (erase_f r) end.

Inductive rres (X : Type) := ROk (x : X) | RKey | ROther.
Arguments ROk {X} x.
Arguments RKey {X}.
Arguments ROther {X}.
Definition rbind {X Y} (r : rres X) (f : X -> rres Y) : rres Y :=
  match r with ROk x => f x | RKey => RKey | ROther => ROther end.

Variable o : opts.
Variable fn : option (list string) -> tree A -> list (option (tree A)) -> option A.

(* the entry of an operand under a key; an operand that is absent (it lacked the enclosing nested tensordict and a
   default was given) has no entry at all *)
Definition entry_of (op : option (tree A)) (k : string) : rres (option (tree A)) :=
  match op with
  | None => ROk None
  | Some (Node _ _ f) => ROk (fget A f k)
  | Some _ => ROther
  end.
Fixpoint entries_of (ops : list (option (tree A))) (k : string) : rres (list (option (tree A))) :=
  match ops with
  | [] => ROk []
  | op :: r =>
      rbind (entry_of op k) (fun e =>
      match e with
      | None => if o_default o then rbind (entries_of r k) (fun l => ROk (None :: l)) else RKey
      | Some t => rbind (entries_of r k) (fun l => ROk (Some t :: l))
      end)
  end.

Definition sout_child (out : option stree) (k : string) : option stree :=
  match out with Some (SNode f) => sget f k | _ => None end.

Fixpoint write_all (base : sforest) (kept : list (string * stree)) : sforest :=
  match kept with [] => base | (k, v) :: r => write_all (sset base k v) r end.

(* the object that is written, as a plain dict: self when inplace, out when given, a new empty tensordict otherwise *)
Definition sbase (self : forest A) (out : option stree) : sforest :=
  if o_inplace o then erase_f self
  else match out with Some (SNode f) => f | _ => SNil end.

Definition dropped (self : forest A) (kept : list (string * stree)) : bool :=
  match kept with
  | _ :: _ => false
  | [] => match o_fe o with
          | Some true => true
          | None => negb (f_is_empty A self)       (* the transition rule: an already-empty tensordict is kept *)
          | Some false => false
          end
  end.

(* the kept (key, result) pairs of one level, in the order of self *)
Fixpoint ref_items (con : bool) (prefix : list string) (ops : list (option (tree A))) (out : option stree)
         (items : forest A) {struct items} : rres (list (string * stree)) :=
  match items with
  | FNil => ROk []
  | FCons k item rest =>
      rbind (entries_of ops k) (fun es =>
      let r : rres (option stree) :=
        if con || o_is_leaf o (kind_of A item) then
          ROk (option_map (fun a => SLeaf (SNew a)) (fn (keyarg o prefix k) item es))
        else
          match item with
          | Node _ _ g =>
              let out_k := if o_inplace o then None else sout_child out k in
              rbind (ref_items false (prefix ++ [k])%list es (sout_child out k) g) (fun kept =>
              ROk (if dropped g kept then None else Some (SNode (write_all (sbase g out_k) kept))))
          | NonT _ _ _ =>
              (* a non-tensor entry left untouched by the function is kept *)
              ROk (Some SNonT)
          | Leaf _ _ => ROther
          end in
      rbind r (fun v =>
      rbind (ref_items con prefix ops out rest) (fun kept =>
      ROk (match v with Some x => (k, x) :: kept | None => kept end))))
  end.

Definition ref_apply (con : bool) (self : tree A) (others : list (tree A)) (out : option (tree A)) : rres (option stree) :=
  match self with
  | Node _ _ sf =>
      let sout := option_map erase_t out in
      rbind (ref_items con [] (map Some others) sout sf) (fun kept =>
      ROk (if dropped sf kept then None
           else Some (SNode (write_all (sbase sf (if o_inplace o then None else sout)) kept))))
  | _ => ROther
  end.

(* ------------------------------------------------------------------ well-formedness and the domain of the theorems *)
Fixpoint mem_str (k : string) (l : list string) : bool :=
  match l with [] => false | x :: r => String.eqb k x || mem_str k r end.
Fixpoint nodup_str (l : list string) : bool :=
  match l with [] => true | x :: r => negb (mem_str x r) && nodup_str r end.
Fixpoint disjoint_str (a b : list string) : bool :=
  match a with [] => true | x :: r => negb (mem_str x b) && disjoint_str r b end.

(* a dict: no key twice, at any level *)
Fixpoint wf_sub (f : forest A) : bool :=
  match f with
  | FNil => true
  | FCons _ t r => match t with Node _ _ h => nodup_str (fkeys A h) && wf_sub h | _ => true end && wf_sub r
  end.
Definition wf_keys (f : forest A) : bool := nodup_str (fkeys A f) && wf_sub f.

(* ------------------------------------------------------------------ identity: which of the objects handed to the call occur in a tree *)
Definition ob_ids (ob : obj) : list Z := match ob with Old z => [z] | New => [] end.
Fixpoint olds_t (t : tree A) : list Z :=
  match t with
  | Leaf s _ => ob_ids s
  | NonT ob _ _ => ob_ids ob
  | Node ob _ f => ob_ids ob ++ olds_f f
  end
with olds_f (f : forest A) : list Z :=
  match f with FNil => [] | FCons _ t r => olds_t t ++ olds_f r end.

(* the shape of a tensordict: its objects, its keys in order, the storages of its leaves — not the values, not the metadata *)
Inductive shape := HLeaf (s : obj) | HNonT (ob : obj) | HNode (ob : obj) (l : list (string * shape)).
Fixpoint shape_t (t : tree A) : shape :=
  match t with
  | Leaf s _ => HLeaf s
  | NonT ob _ _ => HNonT ob
  | Node ob _ f => HNode ob (shape_f f)
  end
with shape_f (f : forest A) : list (string * shape) :=
  match f with FNil => [] | FCons k t r => (k, shape_t t) :: shape_f r end.

End Spec.

Arguments ROk {X} x.
Arguments RKey {X}.
Arguments ROther {X}.
