(* C13 — model of TensorDictParams registration (definitions only).
   Transcribed from /repo/tensordict/nn/params.py: _maybe_make_param (:111), _maybe_make_param_or_buffer (:127),
   _unlock_and_set (:143: convert the arguments, run the TensorDict method on _param_td, then _reset_params),
   _reset_params (:455: clear _parameters/_buffers and re-register every leaf under its "."-joined key).
   A nested handle (tdparams["n"], tdparams.get("n")) is the plain TensorDict stored inside _param_td: writes through
   it run the TensorDict method only. *)
From Coq Require Import ZArith List String Bool.
Import ListNotations.
From TD Require Import Model.C13_Swap.
Open Scope string_scope.
Open Scope list_scope.

Record tdparams := mkTdp {
  tp_td : ptd;                           (* _param_td *)
  tp_params : list (string * obj);       (* nn.Module._parameters *)
  tp_bufs : list (string * obj);         (* nn.Module._buffers *)
  tp_noconv : bool;                      (* no_convert *)
  tp_next : Z }.

(* items(include_nested=True, leaves_only=True): depth-first, insertion order; keys joined with "." *)
Fixpoint flat_leaves (prefix : string) (t : ptd) : list (string * obj) :=
  match t with PTD ents =>
    (fix go (l : list (string * pent)) : list (string * obj) :=
       match l with
       | [] => []
       | (k, PLeaf (Some o)) :: r => (prefix ++ k, o)%string :: go r
       | (k, PLeaf None) :: r => go r
       | (k, PSub t') :: r => flat_leaves (prefix ++ k ++ ".")%string t' ++ go r
       end) ents
  end.

Definition dict_of_objs (l : list (string * obj)) : list (string * obj) :=
  fold_left (fun d e => d_set d (fst e) (snd e)) l [].

Definition reset_params (s : tdparams) : tdparams :=
  let leaves := flat_leaves "" (tp_td s) in
  mkTdp (tp_td s) (dict_of_objs (filter (fun e => is_param (snd e)) leaves))
        (dict_of_objs (filter (fun e => negb (is_param (snd e))) leaves)) (tp_noconv s) (tp_next s).

(* conversion of a tensor argument *)
Definition convert (s : tdparams) (o : obj) (isfloat : bool) : obj * Z :=
  match okd o with
  | KPlain =>
      let k := if tp_noconv s then KBuffer else if isfloat then KParam else KBuffer in
      (mkObj (tp_next s) k (ostor o), (tp_next s + 1)%Z)
  | _ => (o, tp_next s)
  end.

(* td.set(path, v): intermediate nodes are created; an existing entry is replaced in place *)
Fixpoint set_path (t : ptd) (path : list string) (v : pent) : option ptd :=
  match path with
  | [] => None
  | [k] => Some (p_set t k v)
  | k :: rest =>
      match p_get t k with
      | Some (PSub t') => option_map (fun t'' => p_set t k (PSub t'')) (set_path t' rest v)
      | Some (PLeaf _) => None                                   (* cannot descend into a tensor *)
      | None => option_map (fun t'' => p_set t k (PSub t'')) (set_path (PTD []) rest v)
      end
  end.

Fixpoint del_path (t : ptd) (path : list string) : option ptd :=
  match path with
  | [] => None
  | [k] => match p_get t k with Some _ => Some (PTD (d_del (p_ents t) k)) | None => None end
  | k :: rest =>
      match p_get t k with
      | Some (PSub t') => option_map (fun t'' => p_set t k (PSub t'')) (del_path t' rest)
      | _ => None
      end
  end.

Fixpoint get_path (t : ptd) (path : list string) : option pent :=
  match path with
  | [] => Some (PSub t)
  | k :: rest => match p_get t k with
                 | Some (PSub t') => get_path t' rest
                 | Some (PLeaf o) => match rest with [] => Some (PLeaf o) | _ => None end
                 | None => None
                 end
  end.

Inductive pop :=
  | OSet (path : list string) (o : obj) (isfloat conv : bool) (* tdparams[path] = tensor / .set(path, tensor) / .update;
                                                                  conv = false: update({k: {...}}) into an existing
                                                                  sub-tensordict stores the tensor unconverted *)
  | ODel (path : list string)                                (* del tdparams[path] *)
  | ORename (k k' : string)                                  (* tdparams.rename_key_(k, k') at the root *)
  | ONestedSet (path : list string) (k : string) (o : obj)   (* tdparams[path][k] = tensor   (path non-empty) *)
  | ONestedDel (path : list string) (k : string).            (* del tdparams[path][k] *)

Definition top_level (o : pop) : bool :=
  match o with OSet _ _ _ _ | ODel _ | ORename _ _ => true | ONestedSet _ _ _ | ONestedDel _ _ => false end.

(* result: new state, raised? (a raising op leaves the state as the code leaves it: unchanged here) *)
Definition step (s : tdparams) (o : pop) : tdparams * bool :=
  match o with
  | OSet path x isfloat conv =>
      let '(x', nxt) := if conv then convert s x isfloat else (x, tp_next s) in
      match set_path (tp_td s) path (PLeaf (Some x')) with
      | Some t' => (reset_params (mkTdp t' (tp_params s) (tp_bufs s) (tp_noconv s) nxt), false)
      | None => (mkTdp (tp_td s) (tp_params s) (tp_bufs s) (tp_noconv s) nxt, true)
      end
  | ODel path =>
      match del_path (tp_td s) path with
      | Some t' => (reset_params (mkTdp t' (tp_params s) (tp_bufs s) (tp_noconv s) (tp_next s)), false)
      | None => (s, true)
      end
  | ORename k k' =>
      match p_get (tp_td s) k, p_get (tp_td s) k' with
      | Some v, None => (reset_params (mkTdp (p_set (PTD (d_del (p_ents (tp_td s)) k)) k' v) (tp_params s) (tp_bufs s)
                                            (tp_noconv s) (tp_next s)), false)
      | _, _ => (s, true)
      end
  | ONestedSet path k x =>
      match path, get_path (tp_td s) path with
      | _ :: _, Some (PSub sub) =>
          match set_path (tp_td s) (path ++ [k]) (PLeaf (Some x)) with
          | Some t' => (mkTdp t' (tp_params s) (tp_bufs s) (tp_noconv s) (tp_next s), false)   (* no _reset_params *)
          | None => (s, true)
          end
      | _, _ => (s, true)
      end
  | ONestedDel path k =>
      match path, del_path (tp_td s) (path ++ [k]) with
      | _ :: _, Some t' => (mkTdp t' (tp_params s) (tp_bufs s) (tp_noconv s) (tp_next s), false)
      | _, _ => (s, true)
      end
  end.

Definition run_ops (s : tdparams) (ops : list pop) : tdparams := fold_left (fun s o => fst (step s o)) ops s.

(* the property's statement for one state: the registered names/objects are exactly the leaves *)
Definition registered_exactly (s : tdparams) : Prop :=
  forall name o, (In (name, o) (tp_params s) \/ In (name, o) (tp_bufs s)) <-> In (name, o) (flat_leaves "" (tp_td s)).
